package main

// The base seed of the airgapped machine (Gen/SeedFacts.lean), regenerated on every run:
//  * every statement of package airgapped that writes the field `baseSeed` (or an element of it), with the function it is in;
//  * every other mention of it, as the innermost call (or statement) it appears in - where the slice is handed on;
//  * what dkg.(*DKG).InitDKGInstance, which is handed that very slice, does with its parameter: writes and other mentions.
// The proofs of Props/C12Process.lean rest on "no handler writes the process memory"; these lists are what that means here.

import (
	"fmt"
	"go/ast"
	"strings"
)

// mentions walks a function body and classifies every occurrence of `match` (an expression node test): a write when it is
// (part of) the target of an assignment, an increment, or the destination of copy(); otherwise a use, reported as the
// innermost enclosing call, or else the innermost enclosing statement.
func mentions(body *ast.BlockStmt, match func(ast.Expr) bool) (writes, uses []string) {
	var stack []ast.Node
	contains := func(root ast.Node, target ast.Node) bool {
		found := false
		ast.Inspect(root, func(n ast.Node) bool {
			if n == target {
				found = true
			}
			return !found
		})
		return found
	}
	ast.Inspect(body, func(n ast.Node) bool {
		if n == nil {
			stack = stack[:len(stack)-1]
			return true
		}
		stack = append(stack, n)
		e, ok := n.(ast.Expr)
		if !ok || !match(e) {
			return true
		}
		// classify by the ancestors, innermost first
		var innerCall, innerStmt ast.Node
		for i := len(stack) - 2; i >= 0; i-- {
			switch a := stack[i].(type) {
			case *ast.AssignStmt:
				for _, l := range a.Lhs {
					if contains(l, n) {
						writes = append(writes, srcOf(a))
						return false
					}
				}
			case *ast.IncDecStmt:
				if contains(a.X, n) {
					writes = append(writes, srcOf(a))
					return false
				}
			case *ast.RangeStmt:
				if (a.Key != nil && contains(a.Key, n)) || (a.Value != nil && contains(a.Value, n)) {
					writes = append(writes, "range into "+srcOf(e))
					return false
				}
			case *ast.CallExpr:
				if id, ok := a.Fun.(*ast.Ident); ok && id.Name == "copy" && len(a.Args) > 0 && contains(a.Args[0], n) {
					writes = append(writes, srcOf(a))
					return false
				}
				if innerCall == nil && a.Fun != n {
					innerCall = a
				}
			}
			if st, ok := stack[i].(ast.Stmt); ok && innerStmt == nil {
				if _, isBlock := st.(*ast.BlockStmt); !isBlock {
					innerStmt = st
				}
			}
		}
		switch {
		case innerCall != nil:
			uses = append(uses, srcOf(innerCall.(*ast.CallExpr).Fun)+"\x00"+srcOf(innerCall))
		case innerStmt != nil:
			s := srcOf(innerStmt)
			if rs, ok := innerStmt.(*ast.RangeStmt); ok {
				s = "range over " + srcOf(rs.X)
			} else if fs, ok := innerStmt.(*ast.ForStmt); ok && fs.Cond != nil {
				s = "loop while " + srcOf(fs.Cond)
			}
			uses = append(uses, s)
		default:
			uses = append(uses, srcOf(e))
		}
		return false
	})
	return
}

func textOf(s string) string {
	if i := strings.Index(s, "\x00"); i >= 0 {
		return s[i+1:]
	}
	return s
}

func calleeOf(s string) string {
	if i := strings.Index(s, "\x00"); i >= 0 {
		return s[:i]
	}
	return "-"
}

func genSeedFacts(facts map[string]interface{}) string {
	ap := loadPkg("airgapped")
	isSeedField := func(e ast.Expr) bool {
		se, ok := e.(*ast.SelectorExpr)
		return ok && se.Sel.Name == "baseSeed"
	}
	var writes, uses [][2]string
	declared := false
	for _, f := range ap.files {
		for _, d := range f.Decls {
			switch x := d.(type) {
			case *ast.GenDecl:
				ast.Inspect(x, func(n ast.Node) bool {
					if fl, ok := n.(*ast.Field); ok {
						for _, nm := range fl.Names {
							if nm.Name == "baseSeed" && srcOf(fl.Type) == "[]byte" {
								declared = true
							}
						}
					}
					return true
				})
			case *ast.FuncDecl:
				if x.Body == nil {
					continue
				}
				w, u := mentions(x.Body, isSeedField)
				for _, s := range w {
					writes = append(writes, [2]string{x.Name.Name, s})
				}
				for _, s := range u {
					uses = append(uses, [2]string{x.Name.Name, textOf(s)})
				}
			}
		}
	}
	if !declared {
		die("airgapped: no field baseSeed []byte (the machine keeps its seed elsewhere: the seed facts do not describe it)")
	}
	if len(writes) == 0 {
		die("airgapped: baseSeed is never assigned")
	}
	dp := loadPkg("dkg")
	fd, _ := findFuncOpt(dp, "DKG", "InitDKGInstance")
	if fd == nil {
		die("dkg: DKG.InitDKGInstance not found")
	}
	if fd.Type.Params == nil || len(fd.Type.Params.List) != 1 || len(fd.Type.Params.List[0].Names) != 1 || srcOf(fd.Type.Params.List[0].Type) != "[]byte" {
		die("dkg: InitDKGInstance no longer takes one []byte")
	}
	pname := fd.Type.Params.List[0].Names[0].Name
	pw, pu := mentions(fd.Body, func(e ast.Expr) bool {
		id, ok := e.(*ast.Ident)
		return ok && id.Name == pname
	})
	for i := range pu {
		pu[i] = textOf(pu[i])
	}
	facts["seed_facts"] = map[string]interface{}{"writes": writes, "uses": uses, "param": pname, "param_writes": pw, "param_uses": pu}
	pairs := func(xs [][2]string) string {
		out := make([]string, len(xs))
		for i, x := range xs {
			out[i] = fmt.Sprintf("(%s, %s)", leanStr(x[0]), leanStr(x[1]))
		}
		return "[" + strings.Join(out, ", ") + "]"
	}
	strs := func(xs []string) string {
		out := make([]string, len(xs))
		for i, x := range xs {
			out[i] = leanStr(x)
		}
		return "[" + strings.Join(out, ", ") + "]"
	}
	var b strings.Builder
	b.WriteString("-- GENERATED by /verif/translator from /repo airgapped/*.go and dkg/dkg.go. DO NOT EDIT.\n")
	b.WriteString("namespace Dc4bcVerif.Gen.SeedFacts\n\n")
	fmt.Fprintf(&b, "/-- (function of package airgapped, statement) for every write to the field `baseSeed` or to an element of it -/\ndef seedWrites : List (String × String) := %s\n\n", pairs(writes))
	fmt.Fprintf(&b, "/-- (function, innermost call or statement) for every other mention of `baseSeed` -/\ndef seedUses : List (String × String) := %s\n\n", pairs(uses))
	fmt.Fprintf(&b, "/-- writes `dkg.InitDKGInstance` makes to (elements of) the slice it is handed -/\ndef seedParamWrites : List String := %s\n\n", strs(pw))
	fmt.Fprintf(&b, "/-- every other mention of that parameter there -/\ndef seedParamUses : List String := %s\n\n", strs(pu))
	b.WriteString("end Dc4bcVerif.Gen.SeedFacts\n")
	return b.String()
}

// genSecretUses (Gen/SecretUses.lean): every mention, in packages airgapped and dkg, of what holds a secret the property
// names - the long-term private key (`secKey`, `GetSecKey()`) and the BLS share (`Share`, `PriShare()`, `DistKeyShare()`):
// the function it is in and the innermost call (or statement) that consumes it. A secret reaches a result file, a log
// line or an error text only through one of these.
func genSecretUses(facts map[string]interface{}) string {
	names := map[string]bool{"secKey": true, "GetSecKey": true, "Share": true, "PriShare": true, "DistKeyShare": true, "GetDistKeyShare": true, "GetBLSKeyring": true}
	isSecret := func(e ast.Expr) bool {
		se, ok := e.(*ast.SelectorExpr)
		return ok && names[se.Sel.Name]
	}
	var rows [][3]string
	for _, dir := range []string{"airgapped", "dkg"} {
		pk := loadPkg(dir)
		for _, f := range pk.files {
			for _, d := range f.Decls {
				fd, ok := d.(*ast.FuncDecl)
				if !ok || fd.Body == nil {
					continue
				}
				w, u := mentions(fd.Body, isSecret)
				for _, s := range w {
					rows = append(rows, [3]string{dir + "." + fd.Name.Name, "write", s})
				}
				for _, s := range u {
					rows = append(rows, [3]string{dir + "." + fd.Name.Name, calleeOf(s), textOf(s)})
				}
			}
		}
	}
	if len(rows) == 0 {
		die("airgapped, dkg: no mention of secKey / Share: the secrets are kept under other names")
	}
	facts["secret_uses"] = rows
	var b strings.Builder
	b.WriteString("-- GENERATED by /verif/translator from /repo airgapped/*.go and dkg/*.go. DO NOT EDIT.\n")
	b.WriteString("namespace Dc4bcVerif.Gen.SecretUses\n\n")
	b.WriteString("/-- (package.function, callee of the innermost call | \"write\" | \"-\" for a plain statement, its text) for every mention of secKey, GetSecKey(), Share, PriShare(), DistKeyShare(), GetDistKeyShare(), GetBLSKeyring() -/\ndef secretUses : List (String × String × String) := [\n")
	for i, r := range rows {
		sep := ","
		if i == len(rows)-1 {
			sep = ""
		}
		fmt.Fprintf(&b, "  (%s, %s, %s)%s\n", leanStr(r[0]), leanStr(r[1]), leanStr(r[2]), sep)
	}
	b.WriteString("]\n\nend Dc4bcVerif.Gen.SecretUses\n")
	return b.String()
}

// genMachineFacts (Gen/MachineFacts.lean): what a round machine OBJECT can remember besides the dumped payload:
// the fields of the three machine structs and every package-level variable of the machines' packages, of the FSM
// engine and of the pool. A restored round is a fresh object plus the dump; anything else an object holds is forgotten
// by a restore.
func genMachineFacts(facts map[string]interface{}) string {
	type ms struct{ dir, typ string }
	var fields [][2]string
	for _, m := range []ms{{"fsm/state_machines/signature_proposal_fsm", "SignatureProposalFSM"}, {"fsm/state_machines/dkg_proposal_fsm", "DKGProposalFSM"},
		{"fsm/state_machines/signing_proposal_fsm", "SigningProposalFSM"}, {"fsm/state_machines", "FSMInstance"}, {"fsm/fsm", "FSM"}} {
		pk := loadPkg(m.dir)
		found := false
		for _, f := range pk.files {
			ast.Inspect(f, func(n ast.Node) bool {
				ts, ok := n.(*ast.TypeSpec)
				if !ok || ts.Name.Name != m.typ {
					return true
				}
				st, ok := ts.Type.(*ast.StructType)
				if !ok {
					return false
				}
				found = true
				var fs []string
				for _, fl := range st.Fields.List {
					if len(fl.Names) == 0 {
						fs = append(fs, "embedded "+srcOf(fl.Type))
					}
					for _, nm := range fl.Names {
						fs = append(fs, nm.Name+" "+srcOf(fl.Type))
					}
				}
				fields = append(fields, [2]string{m.typ, strings.Join(fs, "; ")})
				return false
			})
		}
		if !found {
			die("%s: struct %s not found", m.dir, m.typ)
		}
	}
	var vars [][2]string
	for _, dir := range []string{"fsm/state_machines", "fsm/state_machines/internal", "fsm/state_machines/signature_proposal_fsm", "fsm/state_machines/dkg_proposal_fsm",
		"fsm/state_machines/signing_proposal_fsm", "fsm/fsm", "fsm/fsm_pool"} {
		pk := loadPkg(dir)
		for _, f := range pk.files {
			for _, d := range f.Decls {
				gd, ok := d.(*ast.GenDecl)
				if !ok || gd.Tok.String() != "var" {
					continue
				}
				for _, sp := range gd.Specs {
					if vs, ok := sp.(*ast.ValueSpec); ok {
						for _, nm := range vs.Names {
							vars = append(vars, [2]string{dir, nm.Name})
						}
					}
				}
			}
		}
	}
	facts["machine_facts"] = map[string]interface{}{"fields": fields, "vars": vars}
	pairs := func(xs [][2]string) string {
		out := make([]string, len(xs))
		for i, x := range xs {
			out[i] = fmt.Sprintf("(%s, %s)", leanStr(x[0]), leanStr(x[1]))
		}
		return "[" + strings.Join(out, ",\n  ") + "]"
	}
	var b strings.Builder
	b.WriteString("-- GENERATED by /verif/translator from /repo fsm/state_machines/**, fsm/fsm, fsm/fsm_pool. DO NOT EDIT.\n")
	b.WriteString("namespace Dc4bcVerif.Gen.MachineFacts\n\n")
	fmt.Fprintf(&b, "/-- (struct, its fields) for the three round machines and the instance that wraps them -/\ndef machineFields : List (String × String) := %s\n\n", pairs(fields))
	fmt.Fprintf(&b, "/-- (directory, name) of every package-level variable of the machines, the engine and the pool -/\ndef packageVars : List (String × String) := %s\n\n", pairs(vars))
	b.WriteString("end Dc4bcVerif.Gen.MachineFacts\n")
	return b.String()
}
