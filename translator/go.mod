module verif/translator

go 1.23
