// translator: reads /repo's working tree and regenerates the data parts of the
// Lean model (lean/Dc4bcVerif/Gen/*.lean) plus gen/facts.json.
//
// Only code that is *data* is translated: FSM transition tables, callback maps,
// configuration constants, SSZ hasher op sequences, the baked validator list,
// node glue tables. Everything else is a hand-written model tied by the
// correspondence harness.
package main

import (
	"crypto/sha256"
	"encoding/hex"
	"encoding/json"
	"flag"
	"fmt"
	"go/ast"
	"go/constant"
	"go/parser"
	"go/token"
	"os"
	"path/filepath"
	"sort"
	"strconv"
	"strings"
)

var repo = flag.String("repo", "/repo", "repository root")
var out = flag.String("out", "/verif/lean/Dc4bcVerif/Gen", "output dir for Lean files")
var factsOut = flag.String("facts", "/verif/gen/facts.json", "facts file")

func die(f string, a ...interface{}) {
	fmt.Fprintf(os.Stderr, "translator: "+f+"\n", a...)
	os.Exit(2)
}

// ---------- constant resolution over a handful of packages -----------------

type pkgInfo struct {
	name   string            // package name
	dir    string            // dir relative to repo
	files  []*ast.File
	consts map[string]ast.Expr // const ident -> value expr
	cfile  map[string]*ast.File
}

var fset = token.NewFileSet()
var pkgs = map[string]*pkgInfo{} // keyed by import path suffix (dir)

func loadPkg(dir string) *pkgInfo {
	if p, ok := pkgs[dir]; ok {
		return p
	}
	full := filepath.Join(*repo, dir)
	m, err := parser.ParseDir(fset, full, func(fi os.FileInfo) bool {
		return !strings.HasSuffix(fi.Name(), "_test.go")
	}, parser.ParseComments)
	if err != nil {
		die("parse %s: %v", dir, err)
	}
	p := &pkgInfo{dir: dir, consts: map[string]ast.Expr{}, cfile: map[string]*ast.File{}}
	for name, ap := range m {
		p.name = name
		fnames := make([]string, 0)
		for fn := range ap.Files {
			fnames = append(fnames, fn)
		}
		sort.Strings(fnames)
		for _, fn := range fnames {
			f := ap.Files[fn]
			// skip build-tagged verif hooks
			skip := false
			for _, cg := range f.Comments {
				for _, c := range cg.List {
					if strings.HasPrefix(c.Text, "//go:build") && strings.Contains(c.Text, "verif") {
						skip = true
					}
				}
			}
			if skip {
				continue
			}
			p.files = append(p.files, f)
			for _, d := range f.Decls {
				gd, ok := d.(*ast.GenDecl)
				if !ok || gd.Tok != token.CONST {
					continue
				}
				var lastExprs []ast.Expr
				for i, s := range gd.Specs {
					vs := s.(*ast.ValueSpec)
					exprs := vs.Values
					if len(exprs) == 0 {
						exprs = lastExprs
					} else {
						lastExprs = exprs
					}
					for j, n := range vs.Names {
						if j < len(exprs) {
							if len(vs.Values) == 0 {
								// iota continuation: record as iota index
								p.consts[n.Name] = &ast.BasicLit{Kind: token.INT, Value: strconv.Itoa(i)}
							} else if id, ok := exprs[j].(*ast.Ident); ok && id.Name == "iota" {
								p.consts[n.Name] = &ast.BasicLit{Kind: token.INT, Value: strconv.Itoa(i)}
							} else if containsIota(exprs[j]) {
								p.consts[n.Name] = &ast.BasicLit{Kind: token.INT, Value: strconv.Itoa(i)}
							} else {
								p.consts[n.Name] = exprs[j]
							}
							p.cfile[n.Name] = f
						}
					}
				}
			}
		}
	}
	pkgs[dir] = p
	return p
}

func containsIota(e ast.Expr) bool {
	found := false
	ast.Inspect(e, func(n ast.Node) bool {
		if id, ok := n.(*ast.Ident); ok && id.Name == "iota" {
			found = true
		}
		return true
	})
	return found
}

const modPath = "github.com/lidofinance/dc4bc/"

// importDir returns repo-relative dir for an import alias used in file f.
func importDir(f *ast.File, alias string) (string, bool) {
	for _, im := range f.Imports {
		path, _ := strconv.Unquote(im.Path.Value)
		if !strings.HasPrefix(path, modPath) {
			continue
		}
		dir := strings.TrimPrefix(path, modPath)
		name := ""
		if im.Name != nil {
			name = im.Name.Name
		} else {
			name = loadPkg(dir).name
		}
		if name == alias {
			return dir, true
		}
	}
	return "", false
}

// evalConst evaluates an expression in the context of package p / file f to a constant.
func evalConst(p *pkgInfo, f *ast.File, e ast.Expr, depth int) constant.Value {
	if depth > 20 {
		die("const resolution too deep")
	}
	switch x := e.(type) {
	case *ast.BasicLit:
		return constant.MakeFromLiteral(x.Value, x.Kind, 0)
	case *ast.ParenExpr:
		return evalConst(p, f, x.X, depth+1)
	case *ast.Ident:
		if ce, ok := p.consts[x.Name]; ok {
			return evalConst(p, p.cfile[x.Name], ce, depth+1)
		}
		die("unknown const %s in %s", x.Name, p.dir)
	case *ast.SelectorExpr:
		id, ok := x.X.(*ast.Ident)
		if !ok {
			die("bad selector")
		}
		if id.Name == "time" {
			switch x.Sel.Name {
			case "Nanosecond":
				return constant.MakeInt64(1)
			case "Microsecond":
				return constant.MakeInt64(1000)
			case "Millisecond":
				return constant.MakeInt64(1000000)
			case "Second":
				return constant.MakeInt64(1000000000)
			case "Minute":
				return constant.MakeInt64(60 * 1000000000)
			case "Hour":
				return constant.MakeInt64(3600 * 1000000000)
			}
			die("unknown time const %s", x.Sel.Name)
		}
		dir, ok := importDir(f, id.Name)
		if !ok {
			die("cannot resolve import alias %s", id.Name)
		}
		q := loadPkg(dir)
		ce, ok := q.consts[x.Sel.Name]
		if !ok {
			die("unknown const %s.%s", id.Name, x.Sel.Name)
		}
		return evalConst(q, q.cfile[x.Sel.Name], ce, depth+1)
	case *ast.CallExpr:
		// conversion T("...") / pkg.T("...")
		if len(x.Args) == 1 {
			return evalConst(p, f, x.Args[0], depth+1)
		}
	case *ast.BinaryExpr:
		a := evalConst(p, f, x.X, depth+1)
		b := evalConst(p, f, x.Y, depth+1)
		return constant.BinaryOp(a, x.Op, b)
	}
	die("cannot evaluate const expr %T at %s", e, fset.Position(e.Pos()))
	return nil
}

// ---------- FSM tables -------------------------------------------------------

type eventDesc struct {
	Name       string
	Src        []string
	Dst        string
	IsInternal bool
	IsAuto     bool
	RunMode    int // 0 default 1 before 2 after
}

type machine struct {
	Key       string // sig, dkg, sign
	Name      string
	Initial   string
	Events    []eventDesc
	Callbacks [][2]string // event value, action func name
	// every constant declared as fsm.Event("…") / fsm.State("…") in the package, in source order
	// (some internal events are returned by callbacks but have no row in the table)
	DeclEvents []string
	DeclStates []string
}

func parseMachine(key, dir string) machine {
	p := loadPkg(dir)
	var m machine
	m.Key = key
	found := false
	for _, f := range p.files {
		ast.Inspect(f, func(n ast.Node) bool {
			call, ok := n.(*ast.CallExpr)
			if !ok {
				return true
			}
			sel, ok := call.Fun.(*ast.SelectorExpr)
			if !ok || sel.Sel.Name != "MustNewFSM" {
				return true
			}
			if found {
				die("two MustNewFSM calls in %s", dir)
			}
			found = true
			if len(call.Args) != 4 {
				die("MustNewFSM arity")
			}
			m.Name = constant.StringVal(evalConst(p, f, call.Args[0], 0))
			m.Initial = constant.StringVal(evalConst(p, f, call.Args[1], 0))
			evs, ok := call.Args[2].(*ast.CompositeLit)
			if !ok {
				die("events arg is not a literal")
			}
			for _, el := range evs.Elts {
				cl, ok := el.(*ast.CompositeLit)
				if !ok {
					die("event desc is not a literal")
				}
				var ed eventDesc
				for _, kv0 := range cl.Elts {
					kv, ok := kv0.(*ast.KeyValueExpr)
					if !ok {
						die("event desc not keyed")
					}
					k := kv.Key.(*ast.Ident).Name
					switch k {
					case "Name":
						ed.Name = constant.StringVal(evalConst(p, f, kv.Value, 0))
					case "DstState":
						ed.Dst = constant.StringVal(evalConst(p, f, kv.Value, 0))
					case "SrcState":
						sl, ok := kv.Value.(*ast.CompositeLit)
						if !ok {
							die("SrcState not literal")
						}
						for _, s := range sl.Elts {
							ed.Src = append(ed.Src, constant.StringVal(evalConst(p, f, s, 0)))
						}
					case "IsInternal":
						ed.IsInternal = kv.Value.(*ast.Ident).Name == "true"
					case "IsAuto":
						ed.IsAuto = kv.Value.(*ast.Ident).Name == "true"
					case "AutoRunMode":
						sel := kv.Value.(*ast.SelectorExpr)
						switch sel.Sel.Name {
						case "EventRunDefault":
							ed.RunMode = 0
						case "EventRunBefore":
							ed.RunMode = 1
						case "EventRunAfter":
							ed.RunMode = 2
						default:
							die("unknown run mode")
						}
					default:
						die("unknown EventDesc field %s", k)
					}
				}
				m.Events = append(m.Events, ed)
			}
			cbs, ok := call.Args[3].(*ast.CompositeLit)
			if !ok {
				die("callbacks arg is not a literal")
			}
			for _, el := range cbs.Elts {
				kv := el.(*ast.KeyValueExpr)
				ev := constant.StringVal(evalConst(p, f, kv.Key, 0))
				sel, ok := kv.Value.(*ast.SelectorExpr)
				if !ok {
					die("callback value is not a method value")
				}
				m.Callbacks = append(m.Callbacks, [2]string{ev, sel.Sel.Name})
			}
			return true
		})
	}
	if !found {
		die("no MustNewFSM in %s", dir)
	}
	for _, f := range p.files {
		for _, d := range f.Decls {
			gd, ok := d.(*ast.GenDecl)
			if !ok || gd.Tok != token.CONST {
				continue
			}
			for _, s := range gd.Specs {
				vs := s.(*ast.ValueSpec)
				for j := range vs.Names {
					if j >= len(vs.Values) {
						continue
					}
					call, ok := vs.Values[j].(*ast.CallExpr)
					if !ok {
						continue
					}
					switch exprStr(call.Fun) {
					case "fsm.Event":
						m.DeclEvents = append(m.DeclEvents, constant.StringVal(evalConst(p, f, call.Args[0], 0)))
					case "fsm.State":
						m.DeclStates = append(m.DeclStates, constant.StringVal(evalConst(p, f, call.Args[0], 0)))
					}
				}
			}
		}
	}
	return m
}

func leanIdent(prefix, s string) string {
	var b strings.Builder
	b.WriteString(prefix)
	for _, r := range s {
		if (r >= 'a' && r <= 'z') || (r >= 'A' && r <= 'Z') || (r >= '0' && r <= '9') || r == '_' {
			b.WriteRune(r)
		} else {
			b.WriteString("_x")
		}
	}
	return b.String()
}

func leanStr(s string) string {
	return strconv.Quote(s)
}

func genFsmTables(ms []machine) string {
	var b strings.Builder
	b.WriteString("-- GENERATED by /verif/translator from /repo fsm/state_machines/*/init.go. DO NOT EDIT.\n")
	b.WriteString("namespace Dc4bcVerif.Gen\n\n")
	// collect states and events in order of appearance
	var states, events, actions []string
	seenS, seenE, seenA := map[string]bool{}, map[string]bool{}, map[string]bool{}
	addS := func(s string) {
		if !seenS[s] {
			seenS[s] = true
			states = append(states, s)
		}
	}
	addS("__idle")
	for _, m := range ms {
		addS(m.Initial)
		for _, e := range m.Events {
			if !seenE[e.Name] {
				seenE[e.Name] = true
				events = append(events, e.Name)
			}
			for _, s := range e.Src {
				addS(s)
			}
			addS(e.Dst)
		}
		for _, e := range m.DeclEvents {
			if !seenE[e] {
				seenE[e] = true
				events = append(events, e)
			}
		}
		for _, cb := range m.Callbacks {
			k := m.Key + "_" + cb[1]
			if !seenA[k] {
				seenA[k] = true
				actions = append(actions, k)
			}
		}
	}
	wrEnum := func(name, prefix string, vals []string) {
		fmt.Fprintf(&b, "inductive %s where\n", name)
		for _, v := range vals {
			fmt.Fprintf(&b, "  | %s\n", leanIdent(prefix, v))
		}
		b.WriteString("  deriving DecidableEq, Repr, Inhabited\n\n")
		fmt.Fprintf(&b, "def %s.all : List %s := [", name, name)
		for i, v := range vals {
			if i > 0 {
				b.WriteString(", ")
			}
			fmt.Fprintf(&b, ".%s", leanIdent(prefix, v))
		}
		b.WriteString("]\n\n")
		fmt.Fprintf(&b, "theorem %s.mem_all (x : %s) : x ∈ %s.all := by cases x <;> decide\n\n", name, name, name)
	}
	wrEnum("St", "s_", states)
	wrEnum("Ev", "e_", events)
	wrEnum("ActionId", "", actions)
	// names
	b.WriteString("def St.name : St → String\n")
	for _, v := range states {
		fmt.Fprintf(&b, "  | .%s => %s\n", leanIdent("s_", v), leanStr(v))
	}
	b.WriteString("\ndef Ev.name : Ev → String\n")
	for _, v := range events {
		fmt.Fprintf(&b, "  | .%s => %s\n", leanIdent("e_", v), leanStr(v))
	}
	b.WriteString("\ninductive MachineId where\n  | sig | dkg | sign\n  deriving DecidableEq, Repr, Inhabited\n\n")
	b.WriteString("structure EventDesc where\n  name : Ev\n  src : List St\n  dst : St\n  isInternal : Bool\n  isAuto : Bool\n  runMode : Nat\n  deriving Repr\n\n")
	b.WriteString("structure MachineDesc where\n  id : MachineId\n  name : String\n  initial : St\n  events : List EventDesc\n  callbacks : List (Ev × ActionId)\n\n")
	for _, m := range ms {
		fmt.Fprintf(&b, "def %sEvents : List EventDesc := [\n", m.Key)
		for i, e := range m.Events {
			srcs := make([]string, len(e.Src))
			for j, s := range e.Src {
				srcs[j] = "." + leanIdent("s_", s)
			}
			fmt.Fprintf(&b, "  ⟨.%s, [%s], .%s, %v, %v, %d⟩", leanIdent("e_", e.Name), strings.Join(srcs, ", "), leanIdent("s_", e.Dst), e.IsInternal, e.IsAuto, e.RunMode)
			if i+1 < len(m.Events) {
				b.WriteString(",")
			}
			b.WriteString("\n")
		}
		b.WriteString("]\n\n")
		fmt.Fprintf(&b, "def %sCallbacks : List (Ev × ActionId) := [\n", m.Key)
		for i, cb := range m.Callbacks {
			fmt.Fprintf(&b, "  (.%s, .%s)", leanIdent("e_", cb[0]), m.Key+"_"+cb[1])
			if i+1 < len(m.Callbacks) {
				b.WriteString(",")
			}
			b.WriteString("\n")
		}
		b.WriteString("]\n\n")
		fmt.Fprintf(&b, "def %sMachine : MachineDesc := ⟨.%s, %s, .%s, %sEvents, %sCallbacks⟩\n\n", m.Key, m.Key, leanStr(m.Name), leanIdent("s_", m.Initial), m.Key, m.Key)
	}
	b.WriteString("end Dc4bcVerif.Gen\n")
	return b.String()
}

// ---------- config -----------------------------------------------------------

func genConfig() string {
	p := loadPkg("fsm/config")
	var b strings.Builder
	b.WriteString("-- GENERATED by /verif/translator from /repo fsm/config/config.go. DO NOT EDIT.\n")
	b.WriteString("namespace Dc4bcVerif.Gen.Config\n\n")
	names := []string{"UsernameMinLength", "UsernameMaxLength", "ParticipantPubKeyMinLength", "DkgPubKeyMinLength",
		"SignatureProposalSigningThresholdMinCount", "ParticipantsMinCount", "SignatureProposalConfirmationDeadline",
		"DkgConfirmationDeadline", "SigningConfirmationDeadline"}
	for _, n := range names {
		e, ok := p.consts[n]
		if !ok {
			die("config const %s missing", n)
		}
		v := evalConst(p, p.cfile[n], e, 0)
		i, ok := constant.Int64Val(v)
		if !ok {
			die("config const %s not int64", n)
		}
		fmt.Fprintf(&b, "def %s : Int := %d\n", lowerFirst(n), i)
	}
	b.WriteString("\nend Dc4bcVerif.Gen.Config\n")
	return b.String()
}

func lowerFirst(s string) string {
	return strings.ToLower(s[:1]) + s[1:]
}

// ---------- baked list -------------------------------------------------------

func genBaked(facts map[string]interface{}) string {
	raw, err := os.ReadFile(filepath.Join(*repo, "pkg/wc_rotation/payloads.csv"))
	if err != nil {
		die("read payloads.csv: %v", err)
	}
	sum := sha256.Sum256(raw)
	lines := strings.Split(string(raw), "\n")
	// runs over the well-formed prefix; everything else is emitted verbatim as "odd" lines
	type run struct{ start, n uint64 }
	var runs []run
	type odd struct {
		pos int
		s   string
	}
	var odds []odd
	for i, l := range lines {
		v, err := strconv.ParseUint(l, 10, 64)
		canon := err == nil && strconv.FormatUint(v, 10) == l
		if !canon {
			odds = append(odds, odd{i, l})
			continue
		}
		if len(odds) == 0 && len(runs) > 0 && runs[len(runs)-1].start+runs[len(runs)-1].n == v {
			runs[len(runs)-1].n++
		} else if len(odds) == 0 {
			runs = append(runs, run{v, 1})
		} else {
			odds = append(odds, odd{i, l})
		}
	}
	var b strings.Builder
	b.WriteString("-- GENERATED by /verif/translator from /repo pkg/wc_rotation/payloads.csv. DO NOT EDIT.\n")
	b.WriteString("namespace Dc4bcVerif.Gen.Baked\n\n")
	fmt.Fprintf(&b, "/-- sha256 of the csv file this table was generated from -/\ndef fileSha256 : String := %q\n\n", hex.EncodeToString(sum[:]))
	fmt.Fprintf(&b, "/-- number of '\\n'-separated fields (strings.Split) -/\ndef splitCount : Nat := %d\n\n", len(lines))
	b.WriteString("/-- maximal runs (start, length) of consecutive canonical decimal indices, in file order -/\n")
	// chunk runs for decide
	const chunk = 40
	nchunks := 0
	for i := 0; i < len(runs); i += chunk {
		j := i + chunk
		if j > len(runs) {
			j = len(runs)
		}
		fmt.Fprintf(&b, "def runs%d : List (Nat × Nat) := [", nchunks)
		for k := i; k < j; k++ {
			if k > i {
				b.WriteString(", ")
			}
			fmt.Fprintf(&b, "(%d, %d)", runs[k].start, runs[k].n)
		}
		b.WriteString("]\n")
		nchunks++
	}
	b.WriteString("\ndef runChunks : List (List (Nat × Nat)) := [")
	for i := 0; i < nchunks; i++ {
		if i > 0 {
			b.WriteString(", ")
		}
		fmt.Fprintf(&b, "runs%d", i)
	}
	b.WriteString("]\n\n")
	b.WriteString("/-- fields that are not canonical decimal uint64 (position, text), e.g. the trailing empty field -/\n")
	b.WriteString("def oddFields : List (Nat × String) := [")
	for i, o := range odds {
		if i > 0 {
			b.WriteString(", ")
		}
		fmt.Fprintf(&b, "(%d, %s)", o.pos, leanStr(o.s))
	}
	b.WriteString("]\n\nend Dc4bcVerif.Gen.Baked\n")
	facts["baked"] = map[string]interface{}{"sha256": hex.EncodeToString(sum[:]), "fields": len(lines), "runs": len(runs), "odd": len(odds)}
	return b.String()
}

func writeFile(name, content string) {
	if err := os.MkdirAll(*out, 0o755); err != nil {
		die("%v", err)
	}
	if err := os.WriteFile(filepath.Join(*out, name), []byte(content), 0o644); err != nil {
		die("%v", err)
	}
}

func main() {
	flag.Parse()
	facts := map[string]interface{}{}
	ms := []machine{
		parseMachine("sig", "fsm/state_machines/signature_proposal_fsm"),
		parseMachine("dkg", "fsm/state_machines/dkg_proposal_fsm"),
		parseMachine("sign", "fsm/state_machines/signing_proposal_fsm"),
	}
	writeFile("FsmTables.lean", genFsmTables(ms))
	writeFile("Config.lean", genConfig())
	writeFile("Baked.lean", genBaked(facts))
	writeFile("SszSchema.lean", genSsz(facts))
	writeFile("NodeGlue.lean", genNodeGlue(facts))
	writeFile("Board.lean", genBoard(facts))
	writeFile("AirGlue.lean", genAirGlue(facts))
	writeFile("AirDkgOrder.lean", genAirDkgOrder(facts))
	writeFile("RoundLock.lean", genRoundLock(facts))
	writeFile("MoreFacts.lean", genMoreFacts(facts))
	writeFile("SeedFacts.lean", genSeedFacts(facts))
	writeFile("SecretUses.lean", genSecretUses(facts))
	writeFile("MachineFacts.lean", genMachineFacts(facts))
	genFacts(facts)
	facts["machines"] = ms
	bz, _ := json.MarshalIndent(facts, "", " ")
	os.MkdirAll(filepath.Dir(*factsOut), 0o755)
	if err := os.WriteFile(*factsOut, bz, 0o644); err != nil {
		die("%v", err)
	}
}
