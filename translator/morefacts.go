package main

// More source-shape facts, regenerated on every run (Gen/MoreFacts.lean):
//  * the fields of storage/file_storage.FileStorage and the assignments GetMessages makes to fields of its receiver
//    (a read must not leave state behind in the handle: the poller keeps one handle open);
//  * in BaseNodeService.verifyMessage, every `return nil` with the condition of the if statement it sits in
//    ("end" for the final one): the complete list of ways a message is accepted by the signature check.

import (
	"bytes"
	"fmt"
	"go/ast"
	"go/printer"
	"os"
	"path/filepath"
	"sort"
	"strings"
)

func srcOf(n ast.Node) string {
	var buf bytes.Buffer
	printer.Fprint(&buf, fset, n)
	return strings.Join(strings.Fields(buf.String()), " ")
}

func genMoreFacts(facts map[string]interface{}) string {
	// FileStorage
	fsp := loadPkg("storage/file_storage")
	var fields []string
	for _, f := range fsp.files {
		ast.Inspect(f, func(n ast.Node) bool {
			ts, ok := n.(*ast.TypeSpec)
			if !ok || ts.Name.Name != "FileStorage" {
				return true
			}
			if st, ok := ts.Type.(*ast.StructType); ok {
				for _, fl := range st.Fields.List {
					for _, nm := range fl.Names {
						fields = append(fields, nm.Name)
					}
					if len(fl.Names) == 0 {
						fields = append(fields, "embedded:"+srcOf(fl.Type))
					}
				}
			}
			return false
		})
	}
	if len(fields) == 0 {
		die("storage/file_storage: struct FileStorage not found")
	}
	gm, _ := findFunc(fsp, "FileStorage", "GetMessages")
	recv := "fs"
	if gm.Recv != nil && len(gm.Recv.List) == 1 && len(gm.Recv.List[0].Names) == 1 {
		recv = gm.Recv.List[0].Names[0].Name
	}
	var assigns []string
	ast.Inspect(gm.Body, func(n ast.Node) bool {
		switch x := n.(type) {
		case *ast.AssignStmt:
			for _, l := range x.Lhs {
				if s := srcOf(l); strings.HasPrefix(s, recv+".") {
					assigns = append(assigns, s)
				}
			}
		case *ast.IncDecStmt:
			if s := srcOf(x.X); strings.HasPrefix(s, recv+".") {
				assigns = append(assigns, s)
			}
		}
		return true
	})
	// verifyMessage
	nd := loadPkg("client/services/node")
	vm, _ := findFuncOpt(nd, "BaseNodeService", "verifyMessage")
	if vm == nil {
		die("client/services/node: BaseNodeService.verifyMessage not found")
	}
	var accepts []string
	var walk func(stmts []ast.Stmt, cond string)
	walk = func(stmts []ast.Stmt, cond string) {
		for _, st := range stmts {
			switch x := st.(type) {
			case *ast.ReturnStmt:
				if len(x.Results) == 1 && srcOf(x.Results[0]) == "nil" {
					accepts = append(accepts, cond)
				}
			case *ast.IfStmt:
				c := srcOf(x.Cond)
				if cond != "end" {
					c = cond + " && " + c
				}
				walk(x.Body.List, c)
				if x.Else != nil {
					if eb, ok := x.Else.(*ast.BlockStmt); ok {
						walk(eb.List, "else of "+c)
					} else if ei, ok := x.Else.(*ast.IfStmt); ok {
						walk([]ast.Stmt{ei}, "else of "+c)
					}
				}
			case *ast.BlockStmt:
				walk(x.List, cond)
			case *ast.ForStmt:
				walk(x.Body.List, cond+" (in a loop)")
			case *ast.RangeStmt:
				walk(x.Body.List, cond+" (in a loop)")
			case *ast.SwitchStmt:
				for _, cc := range x.Body.List {
					if cl, ok := cc.(*ast.CaseClause); ok {
						walk(cl.Body, cond+" (in a switch)")
					}
				}
			}
		}
	}
	walk(vm.Body.List, "end")
	if len(accepts) == 0 {
		die("client/services/node: verifyMessage never returns nil")
	}
	q := func(xs []string) string {
		out := make([]string, len(xs))
		for i, x := range xs {
			out[i] = leanStr(x)
		}
		return "[" + strings.Join(out, ", ") + "]"
	}
	// wall-clock reads: every function of the round machines and of the node services that mentions a clock-reading
	// function of package time (under whatever name the file imports it)
	clockFns := map[string]bool{"Now": true, "Since": true, "Until": true, "After": true, "Tick": true, "NewTimer": true, "NewTicker": true, "AfterFunc": true, "Sleep": true}
	var clockReads [][2]string
	var clockDirs []string
	for _, root := range []string{"fsm", "client/services", "client/repositories", "storage/file_storage"} {
		filepath.Walk(filepath.Join(*repo, root), func(path string, fi os.FileInfo, err error) error {
			if err == nil && fi.IsDir() {
				if ms, _ := filepath.Glob(filepath.Join(path, "*.go")); len(ms) > 0 {
					rel, _ := filepath.Rel(*repo, path)
					clockDirs = append(clockDirs, rel)
				}
			}
			return nil
		})
	}
	sort.Strings(clockDirs)
	for _, dir := range clockDirs {
		pk := loadPkg(dir)
		for _, f := range pk.files {
			timeName := ""
			for _, im := range f.Imports {
				if im.Path.Value == `"time"` {
					timeName = "time"
					if im.Name != nil {
						timeName = im.Name.Name
					}
				}
			}
			if timeName == "" || timeName == "_" {
				continue
			}
			if timeName == "." {
				die("%s imports package time with a dot: clock reads cannot be listed", dir)
			}
			for _, d := range f.Decls {
				fd, ok := d.(*ast.FuncDecl)
				if !ok || fd.Body == nil {
					if gd, ok := d.(*ast.GenDecl); ok {
						ast.Inspect(gd, func(n ast.Node) bool {
							if se, ok := n.(*ast.SelectorExpr); ok {
								if id, ok := se.X.(*ast.Ident); ok && id.Name == timeName && clockFns[se.Sel.Name] {
									clockReads = append(clockReads, [2]string{dir, "package-level " + se.Sel.Name})
								}
							}
							return true
						})
					}
					continue
				}
				seen := map[string]bool{}
				ast.Inspect(fd.Body, func(n ast.Node) bool {
					if se, ok := n.(*ast.SelectorExpr); ok {
						if id, ok := se.X.(*ast.Ident); ok && id.Name == timeName && clockFns[se.Sel.Name] && !seen[se.Sel.Name] {
							seen[se.Sel.Name] = true
							clockReads = append(clockReads, [2]string{dir, fd.Name.Name + ":" + se.Sel.Name})
						}
					}
					return true
				})
			}
		}
	}
	// the poll tick and SaveOffset exclude each other: both begin with s.tickMu.Lock() and a deferred Unlock (fix 62396d7)
	tickLocked := [][2]string{}
	for _, name := range []string{"tick", "SaveOffset"} {
		fd, _ := findFuncOpt(nd, "BaseNodeService", name)
		if fd == nil {
			die("client/services/node: BaseNodeService.%s not found", name)
		}
		first, second := "", ""
		if len(fd.Body.List) > 0 {
			first = srcOf(fd.Body.List[0])
		}
		if len(fd.Body.List) > 1 {
			second = srcOf(fd.Body.List[1])
		}
		tickLocked = append(tickLocked, [2]string{name, first + " ; " + second})
	}
	// what the tick saves as the reader's position: the argument(s) of every SaveOffset call in tick()
	var tickSaves []string
	if fd, _ := findFuncOpt(nd, "BaseNodeService", "tick"); fd != nil {
		ast.Inspect(fd.Body, func(n ast.Node) bool {
			if ce, ok := n.(*ast.CallExpr); ok {
				if se, ok := ce.Fun.(*ast.SelectorExpr); ok && se.Sel.Name == "SaveOffset" {
					var as []string
					for _, a := range ce.Args {
						as = append(as, srcOf(a))
					}
					tickSaves = append(tickSaves, strings.Join(as, ", "))
				}
			}
			return true
		})
	}
	if len(tickSaves) == 0 {
		die("client/services/node: tick() saves no offset")
	}
	facts["more_facts"] = map[string]interface{}{"tick_saves": tickSaves, "storage_fields": fields, "reader_assigns": assigns, "verify_accepts": accepts, "clock_reads": clockReads, "clock_dirs": clockDirs, "tick_locked": tickLocked}
	var b strings.Builder
	b.WriteString("-- GENERATED by /verif/translator from /repo storage/file_storage/fileStorage.go and client/services/node/node_service.go. DO NOT EDIT.\n")
	b.WriteString("namespace Dc4bcVerif.Gen.MoreFacts\n\n")
	fmt.Fprintf(&b, "/-- fields of `FileStorage` -/\ndef storageFields : List String := %s\n\n", q(fields))
	fmt.Fprintf(&b, "/-- fields of its receiver that `GetMessages` assigns to -/\ndef readerAssigns : List String := %s\n\n", q(assigns))
	fmt.Fprintf(&b, "/-- `verifyMessage`: the condition under which each `return nil` is reached (\"end\": the final one, after the signature was verified) -/\ndef verifyAccepts : List String := %s\n\n", q(accepts))
	fmt.Fprintf(&b, "/-- the source directories searched for clock reads (every directory with Go files under fsm, client/services, client/repositories, storage/file_storage) -/\ndef clockDirs : List String := %s\n\n", q(clockDirs))
	b.WriteString("/-- (directory, function:what) for every function there that reads the wall clock through package `time` -/\ndef clockReads : List (String × String) := [")
	for i, cr := range clockReads {
		if i > 0 {
			b.WriteString(", ")
		}
		fmt.Fprintf(&b, "(%s, %s)", leanStr(cr[0]), leanStr(cr[1]))
	}
	b.WriteString("]\n\n")
	b.WriteString("/-- (method of BaseNodeService, its first two statements) for the poll tick and for SaveOffset -/\ndef tickLocked : List (String × String) := [")
	for i, tl := range tickLocked {
		if i > 0 {
			b.WriteString(", ")
		}
		fmt.Fprintf(&b, "(%s, %s)", leanStr(tl[0]), leanStr(tl[1]))
	}
	b.WriteString("]\n\n")
	fmt.Fprintf(&b, "/-- the argument of every SaveOffset call in tick(): what the poll loop saves as its position after a line -/\ndef tickSaves : List String := %s\n\n", q(tickSaves))
	b.WriteString("end Dc4bcVerif.Gen.MoreFacts\n")
	return b.String()
}
