package main

// Which methods of BaseNodeService write a stored round (call s.fsmService.SaveFSM), and whether each of them does so
// under s.roundsMu: either it takes the lock itself before the write, or every method of BaseNodeService that calls it
// is itself under the lock (fixpoint over the call graph inside the package).

import (
	"fmt"
	"go/ast"
	"sort"
	"strings"
)

func genRoundLock(facts map[string]interface{}) string {
	nd := loadPkg("client/services/node")
	type fn struct {
		name       string
		writes     bool // calls s.fsmService.SaveFSM
		locksFirst bool // s.roundsMu.Lock() textually before its first SaveFSM (or before anything, if it does not write)
		calls      []string
		posts      bool // calls s.storage.Send
		unlocks    bool // lets s.roundsMu go (a call of Unlock that is not deferred) before its last SaveFSM
	}
	fns := map[string]*fn{}
	for _, f := range nd.files {
		for _, d := range f.Decls {
			fd, ok := d.(*ast.FuncDecl)
			if !ok || fd.Body == nil || fd.Recv == nil || len(fd.Recv.List) != 1 {
				continue
			}
			t := fd.Recv.List[0].Type
			if st, ok := t.(*ast.StarExpr); ok {
				t = st.X
			}
			if id, ok := t.(*ast.Ident); !ok || id.Name != "BaseNodeService" {
				continue
			}
			e := &fn{name: fd.Name.Name}
			lockPos, writePos, lastWritePos := -1, -1, -1
			deferred := map[ast.Node]bool{}
			var unlocks []int // positions of s.roundsMu.Unlock() calls that are not deferred
			ast.Inspect(fd.Body, func(n ast.Node) bool {
				if d, ok := n.(*ast.DeferStmt); ok {
					deferred[d.Call] = true
				}
				if c, ok := n.(*ast.CallExpr); ok {
					name := exprStr(c.Fun)
					switch {
					case name == "s.roundsMu.Lock":
						if lockPos < 0 {
							lockPos = int(c.Pos())
						}
					case name == "s.roundsMu.Unlock":
						if !deferred[c] {
							unlocks = append(unlocks, int(c.Pos()))
						}
					case name == "s.storage.Send":
						e.posts = true
					case name == "s.fsmService.SaveFSM":
						e.writes = true
						lastWritePos = int(c.Pos())
						if writePos < 0 {
							writePos = int(c.Pos())
						}
					case strings.HasPrefix(name, "s.") && strings.Count(name, ".") == 1:
						e.calls = append(e.calls, strings.TrimPrefix(name, "s."))
					}
				}
				return true
			})
			e.locksFirst = lockPos >= 0 && (writePos < 0 || lockPos < writePos)
			// the lock is held from there to the last write: no Unlock in between (a round read under the lock, the lock
			// let go for a slow step and taken again before the write, is a read-modify-write over two critical sections)
			unlockedBeforeWrite := false
			for _, u := range unlocks {
				if u < lastWritePos {
					unlockedBeforeWrite = true
				}
			}
			e.unlocks = unlockedBeforeWrite
			if unlockedBeforeWrite {
				e.locksFirst = false
			}
			fns[e.name] = e
		}
	}
	callers := map[string][]string{}
	for _, e := range fns {
		for _, c := range e.calls {
			if _, ok := fns[c]; ok {
				callers[c] = append(callers[c], e.name)
			}
		}
	}
	guarded := map[string]bool{}
	for _, e := range fns {
		guarded[e.name] = e.locksFirst
	}
	for changed := true; changed; {
		changed = false
		for name := range fns {
			if guarded[name] || len(callers[name]) == 0 || fns[name].unlocks {
				continue
			}
			all := true
			for _, c := range callers[name] {
				if !guarded[c] {
					all = false
				}
			}
			if all {
				guarded[name] = true
				changed = true
			}
		}
	}
	// executeOperation: the calls that look the operation up, post its result and retire it, and the calls on answerMu, in
	// textual order
	var answerSteps []string
	for _, f := range nd.files {
		for _, d := range f.Decls {
			fd, ok := d.(*ast.FuncDecl)
			if !ok || fd.Body == nil || fd.Recv == nil || fd.Name.Name != "executeOperation" {
				continue
			}
			deferred := map[ast.Node]bool{}
			ast.Inspect(fd.Body, func(n ast.Node) bool {
				if d, ok := n.(*ast.DeferStmt); ok {
					deferred[d.Call] = true
				}
				if c, ok := n.(*ast.CallExpr); ok {
					switch name := exprStr(c.Fun); name {
					case "s.answerMu.Lock":
						answerSteps = append(answerSteps, "answerMu.Lock")
					case "s.answerMu.Unlock":
						if deferred[c] {
							answerSteps = append(answerSteps, "defer answerMu.Unlock")
						} else {
							answerSteps = append(answerSteps, "answerMu.Unlock")
						}
					case "s.opService.GetOperationByID":
						answerSteps = append(answerSteps, "lookup")
					case "s.storage.Send":
						answerSteps = append(answerSteps, "post")
					case "s.opService.DeleteOperation":
						answerSteps = append(answerSteps, "retire")
					default:
						// a helper of the service that posts (any other method that calls s.storage.Send)
						if strings.HasPrefix(name, "s.") && strings.Count(name, ".") == 1 {
							if h, ok := fns[strings.TrimPrefix(name, "s.")]; ok && h.posts {
								answerSteps = append(answerSteps, "post")
							}
						}
					}
				}
				return true
			})
		}
	}
	if len(answerSteps) == 0 {
		die("client/services/node: executeOperation not found or makes none of the calls looked for")
	}
	facts["answer_steps"] = answerSteps
	var rows [][2]string
	for _, e := range fns {
		if e.writes {
			rows = append(rows, [2]string{e.name, fmt.Sprint(guarded[e.name])})
		}
	}
	sort.Slice(rows, func(i, j int) bool { return rows[i][0] < rows[j][0] })
	if len(rows) == 0 {
		die("client/services/node: no method of BaseNodeService calls s.fsmService.SaveFSM")
	}
	facts["round_writers"] = rows
	var b strings.Builder
	b.WriteString("-- GENERATED by /verif/translator from /repo client/services/node/node_service.go. DO NOT EDIT.\n")
	b.WriteString("namespace Dc4bcVerif.Gen.RoundLock\n\n")
	b.WriteString("/-- method of BaseNodeService that writes a stored round ↦ it does so under `roundsMu` (it takes the lock before the write, or\nevery method that calls it is under the lock) -/\n")
	b.WriteString("def roundWriters : List (String × Bool) := [")
	for i, r := range rows {
		if i > 0 {
			b.WriteString(", ")
		}
		fmt.Fprintf(&b, "(%s, %s)", leanStr(r[0]), r[1])
	}
	b.WriteString("]\n\n/-- `executeOperation`, in textual order: its calls on `answerMu`, the lookup of the stored operation, the posting of the\nresult's messages (directly or through a helper of the service), the retiring of the operation -/\n")
	b.WriteString("def answerSteps : List String := [")
	for i, a := range answerSteps {
		if i > 0 {
			b.WriteString(", ")
		}
		b.WriteString(leanStr(a))
	}
	b.WriteString("]\n\nend Dc4bcVerif.Gen.RoundLock\n")
	return b.String()
}
