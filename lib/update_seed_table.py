#!/usr/bin/env python3
"""rewrites the seed table of DESIGN.md section 0.6 from bin/seedtable"""
import subprocess, os, re
V = os.path.dirname(os.path.dirname(os.path.abspath(__file__)))
tab = subprocess.run([os.path.join(V, 'bin', 'seedtable')], stdout=subprocess.PIPE).stdout.decode()
p = os.path.join(V, 'DESIGN.md')
s = open(p).read()
a = s.index('| Seed | Check | Origin | Result | Failing input reported | Obligation / tie that also broke |')
b = s.index('\n\n', a)
s = s[:a] + tab.rstrip('\n') + s[b:]
rows = [l for l in tab.splitlines() if l.startswith('| ') and not l.startswith('| Seed') ]
n_seeds = len(set(l.split('|')[1].strip() for l in rows))
caught = sum(1 for l in rows if '| caught |' in l)
fi = sum(1 for l in rows if '| caught | yes |' in l)
missed = [l.split('|')[1].strip() for l in rows if '| MISSED |' in l]
sup = [l.split('|')[1].strip() for l in rows if '| superseded |' in l]
nofi = [l.split('|')[1].strip() + '/' + l.split('|')[2].strip() for l in rows if '| caught | no |' in l]
summary = ('table below from the results (quick tier, final tree, %d seeds, %d rows: %d caught, %d of them with a concrete failing input; without one: %s; missed: %s; superseded by later repairs: %s):'
           % (n_seeds, len(rows), caught, fi, ', '.join(nofi) or 'none', ', '.join(missed) or 'none', ', '.join(sup) or 'none'))
s = re.sub(r'table below from the results \(quick tier, final tree[^\n]*\):', summary, s)
open(p, 'w').write(s)
print(summary)
