#!/usr/bin/env python3
"""Regenerates /verif/MANIFEST.json from the table below (keeps it valid and in one place)."""
import json, os, subprocess

VERIF = os.path.dirname(os.path.dirname(os.path.abspath(__file__)))

FSM_NOTE = ("Trusted: Lean 4.33.0 kernel (axioms propext, Classical.choice, Quot.sound only; audited per theorem on every run, "
            "leanchecker in the thorough tier); the translator that regenerates the transition tables, callback map and config "
            "constants from /repo on every run; the fsmdiff correspondence (real FSMInstance.Do vs compiled Lean model on the same "
            "op script, exhaustive BFS over the abstract alphabet for small n plus seeded walks). Modelled, not verified: the "
            "callbacks and the engine are hand-written Lean models (tied only by fsmdiff); encoding/json of the dump; time.Time.")

CHECKS = {
    'C05': dict(
        technique='Lean 4 theorems (closure of the generated transition tables lifted through an engine model by induction over event lists) + differential correspondence fsmdiff',
        text=("Proof. Theorems in lean/Dc4bcVerif/Props/C05.lean hold for every event sequence, participant count, threshold and payload: "
              "cancel_absorbing (no run leaves the cancelled set, so a cancelled round never becomes signing-ready), phase_monotone / "
              "no_phase_skipped (every table row keeps the phase or advances it by exactly one), route_reject_noop. They are about the "
              "generated tables and a hand-written engine model; the tie to the code is re-checked on every run by regenerating the tables "
              "and by fsmdiff (every reachable abstract state x every event of the alphabet for n<=3 quick / n<=4 thorough, compared "
              "observation by observation with the real FSMInstance). Part 2 depends on the callbacks: round_invariant (every round after any event sequence satisfies the phase invariant "
              "of its state: in each await phase everybody is awaited-or-confirmed and somebody is still awaited), the per-phase outcome theorems "
              "(sig_confirm_outcome, commits/deals/responses_received_outcome, mk_received_outcome: an accepted contribution comes from a participant "
              "still awaited, the phase advances exactly when it was the last of the n, a late timestamp cancels), unanimous_commits, "
              "sig_decline_outcome, error_report_cancels, key/polynomial mismatch cancels."),
        ref='7 C05', note=FSM_NOTE),
    'C06': dict(
        technique='Lean 4 theorems (invariant by induction over event lists on the signing-machine model, Int arithmetic as in the Go validator) + differential correspondence fsmdiff',
        text=("Proof. lean/Dc4bcVerif/Props/C06.lean: await_invariant (for every run from a created round: in await, confirmed < t and failed <= n-t), "
              "received_outcome (an accepted contribution collects exactly when it is the t-th), received_accepted_only_if (batch id must be the "
              "current one, sender a quorum member still awaited: no double counting, no stale batch), signerr_outcome (cancel exactly when failed "
              "exceeds n-t), restart_goes_idle. All n, t, payloads, arguments; no bound on run length. Tie: regenerated tables + fsmdiff as for C05 "
              "(signing alphabet incl. stale batch ids, repeats, unknown ids, an answer eight days late), and Go-side monitors of each clause on every explored real transition. "
              "The return to idle after a collected or failed batch is the node's doing: nodediff (real node vs the Lean node model on every message) is part of this check, "
              "with the monitor returns_to_idle (after a batch this node reconstructed and announced its stored round is idle)."),
        ref='7 C06', note=FSM_NOTE),
    'C19': dict(
        technique='Lean 4 theorems over the generated tables (pool totality by decide, restore = identity on instances by closure + engine lemma) + differential dump/restore correspondence fsmdiff',
        text=("Proof. lean/Dc4bcVerif/Props/C19.lean: pool_total / restore_total (every state name of the three tables, terminal ones included, restores), "
              "restore_bisim (after any successful event, dump+restore yields the very same instance except at the two hand-over states, hence identical "
              "behaviour on every later event), restore_consistent, pool_wellFormed. Tie: fsmdiff restores from the dump between every two events and, "
              "for every tree edge of the exhaustive exploration, compares continuing in memory with continuing after dump+restore on the real code; "
              "along every guided walk one object is kept in memory for the WHOLE walk (re-made from its dump only where the node does so by hand, at the two hand-over states) and must answer every event "
              "like the round restored before that event (monitor C19 restored_answers_alike); JSON fidelity of the payload is exercised by that run (modelled, not verified). Props/C19Mem.lean over Gen/MachineFacts.lean (regenerated): "
              "machine_objects_hold_state_and_payload (the three machine structs, the instance and the engine have exactly the fields the model's Instance stands for), no_package_state. Props/C19Store.lean, the node's round store: saved_is_listed, "
              "others_untouched, load_after_save, saved_round_loads (a round saved in ANY state name loads again, as itself and not as a fresh idle round), "
              "step_save_load; tie: every dump fsmdiff keeps goes through the real FSMService on a LevelDB state and is read back through GetFSMInstance "
              "(with and without creation), GetFSMDump, GetFSMList and IsExist (monitor C19 store_roundtrip)."),
        ref='7 C19', note=FSM_NOTE),
}

CHECKS.update({
    'C17': dict(
        technique='Lean 4 theorem code_eq_spec (for every uint64 index and every 32-byte hash function; generated SSZ op lists and wiring interpreted against a hand-written consensus-spec model) + kernel-evaluated facts about the generated baked run table + exhaustive differential sszdiff',
        text=("Proof. lean/Dc4bcVerif/Props/C17.lean: code_eq_spec (GetSigningRoot as wired in rotation.go over the fastssz-generated hashers = "
              "compute_signing_root(BLSToExecutionChange(idx, Lido key, Lido address), compute_domain(...)) for EVERY uint64 index and every hash "
              "function with 32-byte output), constants_ok, baked_count / baked_strictly_increasing / baked_nodup / baked_wellformed (every position "
              "0..18631 yields one well-formed index) and out_of_range_refused (negative, 18632, beyond: error, never panic, never a message). "
              "The op lists, field sizes, constants, wiring and the baked list are regenerated from /repo on every run. Tie: sszdiff runs the compiled "
              "Lean model with a Lean SHA-256 against the real Go code on all 18,632 positions, boundaries and random indices, and an independent "
              "Go re-computation of the spec root (plain sha256) is used as implementation-side monitor."),
        ref='7 C17',
        note=("Trusted: Lean kernel + the three standard axioms; translator (SSZ schema, constants, wiring, baked run table whose expansion hash is compared "
              "with the embedded file on every run); sszdiff. Modelled, not verified: fastssz's Hasher/merkleizeImpl (modelled by the spec's merkleize), "
              "crypto/sha256 (Lean re-implementation validated per run), strconv/strings. The spec constants are those written in Props/C17.lean.")),
    'C03': dict(
        technique='Lean 4 theorems about the expansion model (list homomorphism, exact explicit payloads, per-position baked messages, last-wins agreement of the consumers) + differential sszdiff/fsmdiff + end-to-end monitors on real ceremonies (algdiff)',
        text=("Proof. lean/Dc4bcVerif/Props/C03.lean: explicit_payload_exact, expansion_append (order preserved, same function for every participant), "
              "expansion_fails_atomically, range_messages (one message per position, carrying the index found there; its payload is C17's function), "
              "consumers_agree (signer/FSM map and reconstruction map pick the same expanded message per id). Tie: sszdiff compares TasksToMessages / "
              "ReconstructBakedMessage with the model on generated mixed batches; fsmdiff + Go monitors check on every accepted proposal that the "
              "SrcPayload kept in the round decodes to exactly the proposed tasks (nil vs empty payload included) and expands identically. "
              "End to end (algdiff, part of this check): in real ceremonies every partial signature a machine puts on the board is checked with tbls.Verify over the "
              "payload the PROPOSAL gives for that identifier (signed_eq_proposed), and every stored/broadcast final signature carries exactly that payload and "
              "verifies over it with prysm (stored_payload, foreign_message); batches include one only a board writer can make: an identifier used by two tasks "
              "with different payloads, a range in between, and an explicit task named like one of the range's validators (last task wins everywhere: consumers_agree). "
              "The node's side (nodediff, also part of this check): after every accepted proposal the placeholders the node keeps are, identifier by identifier, the files and payloads of "
              "THAT proposal (stored_eq_proposed); a second proposal under the same batch id with other tasks is shown to the node first and rolled back."),
        ref='7 C03',
        note=("Trusted: as C17 plus fsmdiff. Modelled, not verified: encoding/json of []SigningTask; the three consumers are modelled as last-wins maps "
              "over the expanded list (read off bls.go, node_service.go, signature.go), tied only through the differential runs.")),
    'C16': dict(
        technique='Lean 4 theorems about the board model by induction over send histories (offset = position, append-only, exactly-once, read = filtered suffix) with the two scanner limits regenerated from source + differential boarddiff with concurrent writers',
        text=("Proof. lean/Dc4bcVerif/Props/C16.lean: offset_eq_position (every entry carries its position for every history of sends of reader-acceptable "
              "sizes, any number of writers/interleavings because send is one atomic step under the lock), append_only, exactly_once, read_suffix, and "
              "count_limit_covers_reader about the limits read from fileStorage.go on this run (small_count_limit_breaks_offsets shows the pinned tree's "
              "64 KiB counter violated it). Tie: boarddiff runs 1-4 writers on separate handles (goroutines; OS processes for every 4th history) with sizes "
              "up to just under 1 MiB, feeds the observed file to the Lean model as the linearisation and compares every offset and every GetMessages answer. "
              "Eighth session (monitors on the real code, outside the model, which has no lines that are not messages): odd-line histories - a tail torn by a writer that died in the middle of an append, a complete line that does not decode, a line that spells out only some fields, each between sends: every message sent afterwards "
              "stands on a line of its own at the position its offset names and is read back as sent (fixes 58eae51, e963d09); mention histories - entries that quote the id of an ignored entry in their round id, event, sender or recipient, and an empty string on the id ignore list. Model/BoardLines.lean + Props/C16Lines.lean: the data file with lines that are no messages (torn tail, undecodable line) - offset_eq_position_lines, append_only_lines, send_adds_one_message, read_from_own_offset for EVERY history of sends, dying writers and foreign lines; the torn-tail and garbage-line histories are a second stream compared with the compiled model (driver mode boardlines)."),
        ref='7 C16',
        note=("Trusted: flock(2) exclusion between open file descriptions, O_APPEND single-write appends, bufio.Scanner limit semantics (a line is delivered iff "
              "len+1 <= limit), the translator reading the two limits. Messages of 1 MiB or more are outside the property (the reader refuses them) and are not sent by the driver.")),
})

ALG_NOTE = ("Trusted: Lean kernel + the three standard axioms (Mathlib's LinearAlgebra.Lagrange is used by the proofs and re-checked by the kernel like "
            "everything else); the verif hooks and the algdiff correspondence (real ceremonies; the Lean Shamir/DKG model over Z/r predicts every share and "
            "recovered secret; prysm/blst verifies every signature value). Modelled, not verified: kyber/blst themselves, i.e. that BLS12-381 is an instance "
            "of the abstract structure (field of scalars, vector-space groups, bilinear non-degenerate pairing); primality of r is a hypothesis of that "
            "instantiation, not an axiom; the node/airgapped code paths around the algebra are exercised by the ceremonies, not proved.")
CHECKS.update({
    'C01': dict(
        technique='Lean 4 + Mathlib theorems (Lagrange recovery over an arbitrary field, lifted to vector-space groups and a bilinear pairing) about the very list functions the driver runs over Z/r + differential algdiff on real ceremonies with prysm/blst as independent verifier',
        text=("Proof. lean/Dc4bcVerif/Props/C01.lean: recover_eq_eval_zero / recover_shares (kyber's recovery weights applied to shares f(j+1) of any polynomial with t "
              "coefficients, from any list of >= t participants with pairwise distinct nodes, in any order, return f(0)), recover_agree (any two such lists agree), "
              "recover_signature (same in G2 for partial signatures), verify_recovered / reconstructed_signature_valid (the result satisfies the BLS verification "
              "equation under the group key), unique_sig (non-degenerate pairing: a valid signature is unique). For every field, every n, t, subset and order. "
              "Tie: algdiff runs full ceremonies on real nodes and airgapped machines; dealer coefficients read through hooks are handed to the compiled Lean "
              "model, which must reproduce every machine's share and every recovery from real shares; every signature reconstructed, broadcast or stored is "
              "verified with prysm under the group key over the proposed payload and compared byte for byte with bls.Sign(sum of dealer secrets)."),
        ref='7 C01', note=ALG_NOTE),
    'C02': dict(
        technique='Lean 4 + Mathlib theorems (linearity of Pedersen-DKG bookkeeping, permutation invariance, Lagrange interpolation for t-1 insufficiency; an invariant of a model of the airgapped key-generation handlers by induction over every operation sequence) + differential algdiff on real ceremonies (shares, recoveries and every handler operation vs the compiled model) + fsmdiff on the master-key phase with real polynomial encodings',
        text=("Proof. lean/Dc4bcVerif/Props/C02.lean: share_on_pubpoly (if every deal to j passed the verification equation against its dealer's broadcast "
              "commitments - whatever the dealers did - then j's final share lies on the sum of the commitment vectors), evalCommit_commit, pubpoly_order_indep "
              "(delivery order irrelevant), sumCommits_length (degree t-1), group_key, t_minus_one_insufficient (t-1 shares are consistent with every secret); "
              "with C01: any t shares sign consistently. Tie: algdiff compares on real ceremonies the machines' shares with the model, checks every share on the "
              "common polynomial, the polynomial retained by every hot node, the announced master keys, g^(sum of secrets) = group key; fsmdiff covers the "
              "master-key phase incl. announcements with equal key and differing / extended polynomial (real PubPolyBytes encodings). Props/C02Fsm.lean: signing_ready_keys_agree "
              "(any reachable signing-ready round has all n statuses confirmed and all announced master keys equal) and retained_poly. "
              "At the airgapped machine (Model/AirDkg.lean: the four key-generation handlers with kyber's Pedersen DKG / VSS bookkeeping - verifiers, responses, session ids, justification, Certified, dkgKey - in the exponent; "
              "Lemmas/AirDkgInv.lean; Props/C02Air.lean): stored_share_on_announced_polynomial - after ANY sequence of operations and restarts, with any payloads and any order of Go's map ranges, a master-key step that is answered with an announcement "
              "stores a share lying on the announced polynomial at the machine's node and announces that polynomial's constant term (invariant: a verifier holding the machine's own approval holds a deal whose share lies on the deal's commitments; certified => own approval; linearity of Horner evaluation; any field). "
              "Tie: the airdkg stream of algdiff - every commits / deals / responses / master-key operation of every real machine of the ceremonies vs the compiled model."),
        ref='7 C02', note=ALG_NOTE),
})

PLANNED = ['C01', 'C02', 'C03', 'C04', 'C07', 'C08', 'C09', 'C10', 'C11', 'C12', 'C13', 'C14', 'C15', 'C16', 'C17', 'C18', 'C20']

try:
    from manifest_more import MORE, NOT_APPLICABLE
    CHECKS.update(MORE)
except ImportError:
    NOT_APPLICABLE = {}


def main():
    hooks_commits = []
    fixes = []
    try:
        out = subprocess.run(['git', '-C', '/repo', 'log', '--format=%h %s'], stdout=subprocess.PIPE).stdout.decode()
        for l in out.splitlines():
            if l.split(' ', 1)[1].startswith('verif-hook:'):
                hooks_commits.append(l.split()[0])
    except Exception:
        pass
    checks = []
    for pid in sorted(CHECKS):
        c = CHECKS[pid]
        checks.append(dict(
            property_id=pid,
            quick_cmd='bin/check %s --tier quick' % pid,
            thorough_cmd='bin/check %s --tier thorough' % pid,
            evidence_file='/verif/evidence/%s.json' % pid,
            replay_cmd_template='bin/check %s --replay {path}' % pid,
            engine='lean4-proof+correspondence',
            level_claimed=dict(category='proof', text=c['text'], design_ref='DESIGN.md section ' + c['ref']),
            level_note=c['note'],
            technique=c['technique']))
    na = []
    for pid in PLANNED:
        if pid in CHECKS:
            continue
        na.append(dict(property_id=pid, reason=NOT_APPLICABLE.get(pid, 'not yet built in this session (planned, DESIGN.md section 7); no check is claimed for it')))
    m = dict(
        version=1,
        setup_cmd='bin/setup',
        hooks=dict(guard='verif', enable='go build -tags verif (harness module /verif/harness with replace github.com/lidofinance/dc4bc => /repo)',
                   baseline_off_cmd='cd /repo && go test -vet=off -count=1 -timeout 25m ./...',
                   source_commits=hooks_commits, add_only=True),
        engines=[dict(name='lean4-proof+correspondence', path='/verif/bin/check', serves_properties=sorted(CHECKS),
                      kind_free_text='Lean 4 theorems about generated tables + hand-written models; translator and differential correspondence harness re-run on every check')],
        checks=checks,
        notes='See DESIGN.md. known_findings.json lists recorded findings and fixed defects. seeded/ holds independently produced breaking changes and which checks catch them.',
        not_applicable=na)
    json.dump(m, open(os.path.join(VERIF, 'MANIFEST.json'), 'w'), indent=1)
    print('MANIFEST.json written: %d checks, %d not claimed' % (len(checks), len(na)))


if __name__ == '__main__':
    main()
