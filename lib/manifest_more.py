"""MANIFEST texts of the node-level properties (imported by gen_manifest.py)."""

ALG_NOTE = ("Trusted: Lean kernel + the three standard axioms (Mathlib is re-checked by the kernel); verif hooks; the algdiff correspondence on real ceremonies. Modelled, not verified: kyber/blst, ECIES, i.e. that BLS12-381 is an instance of the abstract structure; the node/airgapped code around the algebra is exercised by the ceremonies.")

NODE_NOTE = ("Trusted: Lean 4.33.0 kernel (axioms propext, Classical.choice, Quot.sound only; audited per theorem on every run); the translator "
             "(transition tables, callback map, node glue facts); the nodediff correspondence: a real BaseNodeService (LevelDB state, file board, real "
             "repositories and services) inside real ceremonies is fed every message through ProcessMessage and every answer through ProcessOperation / "
             "ApproveParticipation, together with structure-aware mutations; the compiled Lean node model receives the same inputs and must reproduce "
             "outcome, posted messages and the canonical node state after every single step. Oracle inputs of the model, computed by the harness with the "
             "real functions and universally quantified in the theorems: JSON decoding of message data, the set of registered keys under which "
             "(Data, Signature) verifies (ed25519), the result of threshold reconstruction, byte equality of submitted and stored operation payloads. "
             "Modelled, not verified: encoding/json, ed25519, LevelDB, md5 operation ids (identity of (round, payload)), wall-clock reads (explicit inputs); "
             "the hand-written model of processMessage/executeOperation is tied to the code only through nodediff.")

MORE = {
    'C09': dict(
        technique='Lean 4 theorems about the node model (verification guard characterised exactly; an unverified message is the identity on the node state, for every state and message) + differential correspondence nodediff with signature/sender/payload mutations on a real node',
        text=("Proof. lean/Dc4bcVerif/Props/C09.lean: verify_ok_iff (the guard accepts exactly when the named sender has a registered key of ed25519 size in "
              "that round and the signature verifies under that very key), verify_never_panics, unsigned_noop (for EVERY node state, message and clock: if the "
              "event is neither the opening proposal nor reinit, verification is on and the guard refuses, processMessage returns reject, posts nothing, and rounds, "
              "operation pool, tombstones and signature store are unchanged). Tie: nodediff feeds a real node in real ceremonies with every genuine message plus "
              "bit-flipped / truncated / empty signatures, altered payload bytes, senders renamed to other participants, strangers and the empty name, payloads re-signed "
              "with another participant's or a fresh key; the Lean model must agree on every outcome and state, and a Go-side monitor checks on the real node that each "
              "such message is rejected with a byte-identical state (rounds created empty by a rejected message are accounted under C18)."),
        ref='7 C09', note=NODE_NOTE),
    'C10': dict(
        technique='Lean 4 theorems about the node model (a contribution is applied only if the signature verifies under the key registered for the participant named in the payload) + statement of the full property with its documented counterexample + differential nodediff with cross-participant, cross-event and cross-round submissions',
        text=("Proof, partial. lean/Dc4bcVerif/Props/C10.lean: bound_iff, foreign_participant_rejected (a payload naming participant P sent and signed by S != P is rejected "
              "without effect in every state), all_contribution_requests_name_a_participant (every request type of the twelve contribution events carries the id; generated "
              "list), applied_implies_own_key and bound_partial (whatever is applied for P was signed with P's registered key). The second half of the property (a signed message "
              "is effective only for the round and step it was made for) is FALSE of the code: the signature covers Data only (storage/types.go Message.Bytes), so a confirmation "
              "re-posted as a decline, or a message re-posted into another round with the same participants, is accepted; BoundToRoundAndStep states it and the counterexample is "
              "replayed on the real node on every run (KNOWN-FINDING C10-envelope-replay in known_findings.json; any other violation of C10 is still reported). "
              "Tie: nodediff, incl. two rounds of the same participants interleaved on one board so that cross-round replays hit a round where the sender holds the same id."),
        ref='7 C10', note=NODE_NOTE),
    'C15': dict(
        technique='Lean 4 theorems about the operation-pool model (guard characterised exactly, posted = result messages re-attributed and signed, tombstones monotone, retired operations unanswerable; for every pool, history and submission) + differential nodediff over result mutations and submission histories + JSON file round trip on every real operation',
        text=("Proof. lean/Dc4bcVerif/Props/C15.lean: execGuard_some / posts_only_pending_equal (something is posted only if the submitted id names a visible pending operation whose "
              "type and payload equal the stored ones), execReinit_posts_nothing, posted_exactly_result (the posted list is the result list, each attributed to the node and signed by it), "
              "retired_after_ok, tombstoned_rejected, visible_after_delete, deleted_mono_delete/exec/put (the tombstone list only grows, along every history), tombstoned_invisible. "
              "Tie: nodediff answers every operation of the observed node in real ceremonies first with altered results (each bound field changed, payload re-encoded with other whitespace, "
              "request-only operation returned, unknown id), then genuinely, then a second time; model and node must agree on outcome, posted messages and pool after each submission; every "
              "operation and every airgapped result goes through the real JSON file exchange format and is compared field by field (roundtrip monitor)."),
        ref='7 C15', note=NODE_NOTE),
    'C08': dict(
        technique='Lean 4 theorems about the node model (consumption is a fold: batching/restart irrelevance, replay = live, reset+replay = fresh replay; a message of one round leaves every other round untouched, for every state and message) + differential nodediff incl. reset/replay + replay, prefix, reset and interleaving checks on real nodes',
        text=("Proof, partial. lean/Dc4bcVerif/Props/C08.lean: consume is the node as a left fold of processMessage over the log with the clock reading as explicit input; batching_irrelevant "
              "(any split of the log into polls/restarts gives the same state), replay_eq_live, reset_replay_eq_fresh (a state reset followed by a replay equals a fresh node's replay), "
              "round_noninterference (handling ANY message of round R - genuine, rejected, duplicated, junk - leaves the dump and signature store of every other round exactly as they were), lifted "
              "over logs by consume_other_rounds. Not proved: independence from the node clock inside the deadlines (time.Now() is an input of the model; its influence is masked in the comparison, "
              "not proved absent) and the re-initialisation path (C20). Tie: nodediff (model = code on every step, two interleaved rounds, state reset and full replay through the model) and, on the "
              "real nodes after every ceremony: nodes that consumed the same log agree on the time-free public projection; a fresh process replaying the log with random poll sizes and restarts equals "
              "the live node; two participants agree on a random prefix; a replica shown only round R's messages agrees on R; ResetFSMState in the running process followed by a replay (prefix and full, "
              "with and without an ignore list) equals a fresh replay; duplicates re-posted by a replaying node change nobody; a replica shown the same log with every stamp in it moved 30 days back "
              "(each message re-signed with its sender's key: the log read a month later) agrees with the live node (clock_independent). Props/SrcFacts.lean, over the clock reads the translator lists "
              "from the source on every run: clock_readers_known, round_machines_read_no_clock (no function under fsm/, fsmservice, the repositories or the board storage reads the wall clock; the only "
              "readers are the poller's ticker, ProposeSignMessages and handleMessage's request stamp, which is the clock input of the model). Props/C08Poll.lean, the reader's position, for every ignore list, start position and sequence of "
              "file lengths seen by successive ticks: polls_handed (what the node is handed over all ticks is exactly the kept lines from its start to the longest file seen, in order), each_line_once, nothing_kept_is_missed, ignored_never_handed, "
              "position_after; counting_reader_repeats (a reader that counts the lines it was handed instead of taking the line's offset + 1 repeats lines as soon as one is ignored); tick_saves_line_offset_plus_one over the regenerated argument of tick's SaveOffset call. "
              "nodediff: the real poll loop must hand each line once (C08 each_line_once) and, after a reset with an ignore list and a full read, have saved the position after the last line."),
        ref='7 C08', note=NODE_NOTE),
}

MORE['C18'] = dict(
    technique='Lean 4 theorems about the FSM and node models (invariant by induction over every event sequence: no callback dereferences a missing payload part; every unsuccessful end of message handling, answer handling and approval leaves the node state the same value; the proposal expansion and signature verification never panic) + differential nodediff/sszdiff + fault injection on real airgapped machines',
    text=("Proof, partial. lean/Dc4bcVerif/Props/C18Fsm.lean: never_panics (for EVERY finite event sequence from a created round and every next event and argument, FSMInstance.Do ends with ok or an error: parts_invariant carries the C05 phase invariant "
          "together with the presence of the invitation, key-generation and signing parts through every run; no_panic_of_inv). Props/C18Node.lean: node_never_panics_run (from an empty state database, after ANY sequence of messages - genuine, forged, junk, duplicated, "
          "any number of rounds - handling any further message ends with ok or a rejection; nodeOK_step: every dump the node stores restores to an instance satisfying the invariants). Props/C18.lean: reject_is_noop, top_reject_is_noop (every unsuccessful end leaves rounds, "
          "pool, tombstones and signature store the value they were), exec_refused_is_noop, approve_refused_is_noop, verify_never_panics, expansion_never_panics (TasksToMessages ends with a list or an error for every task list, reversed / negative / astronomically large ranges included), "
          "panic_only_from_callbacks. Props/C18Reinit.lean: node_never_panics_run_reinit (the same with re-initialisation requests anywhere in the history: no step of any replay panics; nodeOK_reinit). Props/C18ReinitReject.lean, rejected input is a no-op for re-initialisation files: pinned_blank_id_left_an_operation (the pinned handler refused a file without a round id AFTER storing its operation: fix cb0dd08), blank_id_refused_without_effect, refusal_is_noop_or_duplicate, reachable_inv and rejected_reinit_on_a_reachable_node (from an empty database, after any messages and files: a refused file leaves the node as it was unless the refusal is the pool's 'pending already'). Props/C18Air.lean, over facts the translator reads off airgapped.go on every run (Gen/AirGlue.lean): order_in_source_air (the operation is handled, then logged, then the result file is opened), fatal_leaves_log / fatal_then_restart (an operation that fails fatally writes nothing durable: a restart rebuilds what it would have rebuilt before), log_first_poisons_replay (with the log written first one malformed file makes every later replay fail: explicit witness), dispatch_recovers (a panic in a handler becomes a handler error), handled_have_error_event, error_events_accepted (the error event of every dispatched operation type is a public row of the generated tables in the state the operation is issued in), replay_does_not_log. In the models a Go panic is the explicit outcome `panic`; that the models place it exactly where the Go code can panic is tied by fsmdiff/nodediff (every panic of the real code under recover() is compared). Not modelled beyond that: the re-initialisation "
          "handler, the answer path's write of the public polynomial into a round without key-generation data, and the airgapped handlers (kyber, ECIES), which are covered by fault injection on the real machine: airdiff. Tie: nodediff (every mutation kind incl. junk rounds, "
          "unknown events, garbage, negative ids, replays, cancelled-and-restarted signing rounds; byte-exact state comparison after every rejected message; signed signing proposals with negative, reversed "
          "and out-of-list ranges; structure-aware JSON variants of every payload, signed by the sender: each field null / of another type / missing / out-of-range number, nulls inside arrays, a second "
          "spelling of a field name before, after or instead of the field - about 570 per quick run, chosen coverage-first over (event, field, value); a re-initialisation file without a key for one "
          "participant followed by that participant's messages), sszdiff (hostile ranges under a memory/time watchdog), airdiff. The decoding of a payload is an oracle of the model "
          "(types.FSMRequestFromMessage, run by the harness): what the model cannot exhibit is a panic INSIDE decoding or validation of a shape no generator produces - the fix 7f6bdd6 (a JSON null "
          "in the participant list) was such a case and is now generated on every run."),
    ref='7 C18', note=NODE_NOTE + " Airgapped machine: real code under monitors only; no model of the handlers.")

MORE['C07'] = dict(
    technique='Lean 4 theorems (safety of a collecting batch from the generated table; progress by induction over any list of answers: t well-formed answers of distinct awaited participants end in collected; the node turns collected into broadcast + idle in one step) + differential fsmdiff/nodediff/algdiff with slow-signer schedules and racing proposals on real ceremonies',
    text=("Proof, partial. lean/Dc4bcVerif/Props/C07.lean: proposal_while_collecting_rejected, other_events_rejected_while_collecting, stale_answer_rejected, answer_in_idle_rejected, answered_twice_rejected "
          "(nothing but a batch's own answers and failure reports touches it; late answers to a finished batch are refused without effect, in await as well as in idle), valid_contribution_accepted "
          "(a well-formed answer of a still awaited participant is always accepted), t_answers_collect (for every n, t, payload and every list of answers of pairwise distinct awaited participants, in any "
          "order: if there are at least t - counted of them the round ends in partial_signs_collected, exactly on the t-th), collected_step (the node posts the reconstructed signatures and saves the round "
          "restarted in the same step, or saves nothing), addSig_stored. With C06 (failure reports cancel only above n-t), C08 (every node is a function of the board log, so poll order between nodes is irrelevant) "
          "and C01 (reconstruction from any t valid partial signatures succeeds and gives the unique signature). Not proved: success of reconstruction inside the node (oracle in the node model), wall-clock deadlines. "
          "Tie: fsmdiff (signing alphabet with stale batches, repeats), nodediff, and algdiff on real ceremonies: every node must hold a prysm-valid signature for every message of every batch that got t answers and be idle, "
          "under racing proposals and slow-signer schedules (exhaustive for n=3,t=2 with two batches in the thorough tier)."),
    ref='7 C07', note=NODE_NOTE)

MORE['C11'] = dict(
    technique='Lean 4 + Mathlib theorems about the deal check over an arbitrary group (accepted => consistent with the broadcast commitments; every coefficient and the length matter; constant-term comparison is insufficient, with witness) + FSM theorems (error report cancels, cancelled rounds never ask for the key step) + differential algdiff with a deviating dealer on real machines',
    text=("Proof, partial. lean/Dc4bcVerif/Props/C11.lean: accepted_consistent (a deal that passes the addressee's check is consistent with the dealer's BROADCAST commitments; with C02.share_on_pubpoly a signing-ready "
          "round has every share on the sum of the broadcast vectors), any_coefficient_matters, length_matters, constant_term_check_insufficient (explicit counterexample for a check that compares length and constant term only), "
          "acceptDeal_iff / deviating_broadcast_refused / honest_deal_accepted (the executable check the driver runs over Z/r), error_report_cancels (C05), cancelled_never_asks_for_keys (no cancelled state creates an operation, over the "
          "generated lists). Not proved: ECIES/JSON failure on undecryptable or malformed ciphertexts (library behaviour), that kyber's ProcessDeal implements the verification equation. Tie: algdiff plays a deviating dealer on real "
          "nodes and machines for ten kinds of deviation and checks: an honest participant reports an error, every node ends cancelled, no honest machine stores a share; the Lean model predicts refuse for the deviations with known exponents. "
          "KNOWN-FINDING C11-empty-deal-hangs: an EMPTY deal is refused by the addressee's node before the airgapped machine sees it and is never reported: the round hangs instead of being cancelled."),
    ref='7 C11', note=ALG_NOTE if 'ALG_NOTE' in globals() else '')

MORE['C13'] = dict(
    technique='Lean 4 theorems about a crash model of the poll loop (any number of kills between any two durable writes; invariant by induction over crash schedules; its hypothesis on the handler proved for the node model) with the write order regenerated from the source + crash injection at every durable effect of real ceremonies (crashdiff)',
    text=("Proof, partial. lean/Dc4bcVerif/Props/C13.lean over Model/Crash.lean: crash_safe (for every handler that refuses or idempotently repeats an already applied message, every log, every initial store and EVERY "
          "crash schedule, what is on disk is a crash-free store of some prefix of the log, possibly with the next message partially applied: operation, then state, then offset), crash_safe_final (once the node has worked through "
          "the log the store is the crash-free one: no message applied twice in effect, no operation lost), old_order_loses_operation (the pinned tree's order state-then-operation loses the operation after one kill: explicit schedule), "
          "order_in_source / answer_order_in_source (kernel-evaluated over the call order the translator reads off node_service.go on this run: placeholders < storeOperation < SaveFSM, broadcast < SaveFSM, SaveOffset after ProcessMessage, "
          "Send and SaveFSM before DeleteOperation). The hypothesis of crash_safe is PROVED for the model's node handler, for every node state, message and pair of clock readings, with no reachability assumption: "
          "C13Fsm.fsm_reapply / instance_reapply (every event a round machine accepted it refuses, with an error, when applied again to its result), C13Node/C13Start.node_reapply (a handled message, handled again, is rejected or accepted without any change "
          "and without a new operation — hand-overs, the restart after a collected batch, lazily restarted cancelled batches and the start of a batch included), saveSignatures_idem (the signature store, as a list, is unchanged by saving the same "
          "signatures again), node_reapplySafe, node_crash_safe(_final); with one clock reading per start of the process (Props/C13Clock.lean): crash_safe_clock, node_accept_indep (outcome, operation and broadcasts do not depend on the node clock, for clocks after the zero time), node_crash_safe_clock(_final). Assumed, not proved: atomic single writes. The re-initialisation handler is NOT crash safe: KNOWN-FINDING C13-kill-inside-reinit (a kill after the first replayed message was stored: the restarted node finds the round, returns at once and moves on; C13Reinit.interrupted_reinit_is_abandoned on the model, reinitdiff kills a real node before every durable effect of the handler). Tie: crashdiff kills a real node before each of its "
          "durable effects (exhaustive in the thorough tier: every effect of a (2,2) and a (3,2) ceremony, plus multi-kill runs), restarts it with the real constructors and requires: key generation and a later batch complete on every node, "
          "the restarted node agrees with a node that never crashed, no operation is left over or missing; nodediff ties the node model (duplicate deliveries included)."),
    ref='7 C13', note=NODE_NOTE)

MORE['C14'] = dict(
    technique='Lean 4 theorems (every interleaving of two step sequences whose steps commute pairwise equals the serial order, for any state type; the pool operations of poller and API commute as atomic steps; the lock discipline is read off the source; explicit lost-update schedule for the unlocked sequences; explicit schedule for the reset finding) + exploration of real interleavings with up to three pre-emptions (scheddiff)',
    text=("Proof, partial. lean/Dc4bcVerif/Props/C14.lean: interleaving_eq_serial / interleaving_eq_serial' (any state type, any step functions: pairwise commuting steps => EVERY interleaving, with any number of pre-emptions, ends in the state of "
          "either serial order), put_del_commute, no_lost_no_resurrected, pool_interleaving_serial (creating operations and retiring other operations, as atomic steps: nothing created is lost, nothing retired comes back), repo_rmw_locked (kernel-evaluated over "
          "the generated lock facts: PutOperation, DeleteOperation, GetOperations hold the repository mutex for their whole body and do not re-enter it), unlocked_rmw_loses_put (the pinned tree's sequences lose a new operation with one pre-emption), "
          "reset_during_tick_skips_log (KNOWN-FINDING C14-reset-during-poll: a reset inside a poll tick leaves the new database at an advanced offset). Props/C14Rounds.lean, the stored rounds (one value for all rounds, SaveFSM = read-modify-write): rounds_rmw_locked (kernel-evaluated over Gen/RoundLock.lean: every method of the node service that writes a round does so under roundsMu - fix 02d4900), "
          "locked_saves_commute, unlocked_save_loses_round (explicit interleaving in which saving one round undoes the save of another). Not proved: the Go memory model / that a mutex-protected sequence is an atomic step. Tie: scheddiff runs the two activities as goroutines over the same real services and enumerates schedules with up to 3 pre-emptions at the granularity of "
          "state-store reads/writes and board sends (thirteen request/message pairs (incl. save_offset back / forward against a tick of two messages: fix 62396d7; SrcFacts.tick_and_saveoffset_exclude: tick and SaveOffset hold tickMu from their first statement; Props/C14Tick.lean: saveoffset_inside_tick_is_lost (the schedule of the pinned tree whose result is that of neither serial order), saved_inside_is_overwritten, locked_tick_is_serial; the poll thread runs the node's own tick through the hook VerifTick): a late signing answer, approving an invitation, a state reset, finishing a re-initialisation against a message of another round and of the same round, and the answer to each of the four key-generation steps against the other participants' messages of that step); the final state must equal one of the two serial orders."),
    ref='7 C14', note=NODE_NOTE)

AIR_NOTE = ("Trusted: Lean kernel + the three standard axioms; the airdiff correspondence (real machines stopped / reopened / replayed at every restart point; bookkeeping of the durable log predicted by the compiled Lean model); verif hooks "
            "(database snapshot, instance presence). Modelled, not verified: the operation handlers are an abstract deterministic function in the model (kyber DKG/VSS, ECIES and BLS are not modelled); LevelDB durability; result files.")

MORE['C12'] = dict(
    technique='Lean 4 theorems about a machine model with an abstract deterministic handler (invariant: volatile instance = replay of the durable log, by induction over any operation sequence; restart = identity; kill before / after logging) + restart injection on real airgapped machines (airdiff)',
    text=("Proof, partial. lean/Dc4bcVerif/Props/C12.lean over Model/Air.lean, for EVERY deterministic handler whose unlogged (signing) operations leave the DKG instance alone: consistent_run (after any operation sequence the volatile instance is what "
          "replaying the log rebuilds), restart_is_identity, carries_on (a machine stopped after any sequence, reopened and replayed gives for every continuation the results and final state of one that never stopped), carries_on_many (a restart after every "
          "single operation), dies_before_log (killed after computing, before logging: the machine is the one before the operation), replayed_result (killed after logging, before the result file: the replay re-produces the lost result), same_seed_same_machine. "
          "Props/C12Process.lean, the process as a whole (many ceremonies, any interleaving, a handler that also reads and may write the process memory, i.e. the base seed): carries_on_in_round (if no handler writes the process memory, a stop, a fresh start on the same database and a replay of round r "
          "answer every later operation of r like the machine that never stopped, after ANY history), other_rounds_do_not_matter / same_seed_same_answers (what a machine answers in a round does not depend on the other ceremonies of its process), "
          "mem_write_breaks_second_ceremony and mem_write_breaks_same_seed (the hypothesis is necessary: a handler wiping the seed it was handed passes every single-round theorem and fails in the second ceremony). Props/C12Seed.lean over Gen/SeedFacts.lean (regenerated): "
          "seed_written_only_when_set, seed_handed_on_to, seed_parameter_is_read_only. "
          "Not proved: determinism of the real handlers (encodings do differ: Go map iteration order in deals/responses, ECIES randomness) and that signing does not touch the instance: assumptions, checked by airdiff on real machines at every restart point; "
          "LevelDB durability. Tie: airdiff (above; incl. a second ceremony handled by the same process, restarted at the same points, and a machine fed the second ceremony alone) and the bookkeeping stream compared with the compiled model."),
    ref='7 C12', note=AIR_NOTE)

MORE['C20'] = dict(
    technique='Lean 4 theorems about the hashed byte string of a reinit file (field order regenerated from the source; every single-field edit changes it) composed with C08 (a node is a function of the messages of its round) and C12 (same mnemonic, same operations => same machine) + re-initialisation of real ceremonies on fresh nodes and machines (reinitdiff)',
    text=("Proof, partial. lean/Dc4bcVerif/Props/C20.lean over Model/ReinitHash.lean: order_matches_source (the model concatenates the fields CalcStartReInitDKGMessageHash writes, in its order: kernel-evaluated over the generated list), "
          "edit_dkg_id, edit_threshold, edit_participant with encP_new_key/old_key/dkg_key/name, edit_message with encM_data/sig/recipient/event/sender/round/offset (EVERY single-field edit of ANY participant or message, at any position, of any round, "
          "changes the hashed string; %d assumed injective), not_injective_across_fields (observation: no separators, a two-field edit can keep the string). State: Props/C20Node.lean over the Lean model of reinitDKG (tied by nodediff on real dumps, plain and adapted): reinit_loop_eq_consume "
          "(replaying a dump without 0.1.4 patches gives the round the view a node gets by consuming the same messages from the board: same handler, same verification), with C08 round_state_function_of_round_log the view the original nodes had; "
          "reinit_other_rounds_untouched (whatever the dump contains, every other round is untouched), reinit_existing_round_noop, reinit_keys (the stored round is the replayed one with the new communication keys, under dkg_id). "
          "Shares: C12 same_seed_same_machine (the machines replay the same operations). Not proved: SHA-1, handleReinitDKG (airgapped side), the effect of the unsigned 0.1.4 patches (exempt from verification by design). Tie: reinitdiff re-initialises real ceremonies "
          "(with signing batches, junk and a forged message on the original board; with and without the 0.1.4 adaptation) and checks state, shares, a signature under the original group key, the hash on every node and under every single-field edit; "
          "nodediff probes crafted reinit messages against existing rounds. Outside the quantifier and not handled by the tool: two key-generation rounds interleaved in one dump (GenerateReDKGMessage takes the last id and both participant lists)."),
    ref='7 C20', note=NODE_NOTE + ' ' + AIR_NOTE)

MORE['C04'] = dict(
    technique='Lean 4 theorems about a symbolic (Dolev-Yao) model of the terms a machine exports (attacker derivability by induction; no secret of an honest machine is derivable whoever is corrupted; a deal share needs its addressee) + the finding about round-independent dealer polynomials + search of every output and database file of real ceremonies for every secret (secretdiff)',
    text=("Proof, partial. lean/Dc4bcVerif/Props/C04.lean over Model/Sym.lean: secrecy (guardedness of the exported terms is preserved by every attacker operation: projections, decryption with the keys of corrupted participants, reading signed messages, building terms), "
          "exported_guarded and machine_secrets_safe (for every n, t, number of signed messages and every set of corrupted participants: the long-term key, seed, polynomial coefficients and final share of an honest machine are not derivable from everything it exports), "
          "deal_share_needs_addressee, rounds_share_dealer_secret (KNOWN-FINDING C04-rounds-share-dealer-polynomial: the dealer polynomial does not depend on the round). Props/C04Src.lean over Gen/SecretUses.lean (regenerated from the source on every run): secret_uses_known (every mention of the long-term key and of the BLS share in packages airgapped and dkg, "
          "with the call that consumes it), consumers_are_these (nine callees: curve arithmetic, the dealer constructor, ECIES decryption, threshold signing, (un)marshalling; none prints, logs or wraps an error), plain_statements_are_these. The model is symbolic: it says where secrets are placed, not how strong ECIES, Schnorr, BLS or scrypt+AES-GCM are; "
          "that the Go code exports exactly the modelled terms, that the database holds key and shares only encrypted and that a wrong password opens nothing are NOT theorems: they are checked on real machines by secretdiff (every result file, board message and database file searched "
          "for every secret in ten encodings incl. nested base64; every deal tried with every key; wrong passwords after a correct unlock in the same process; all pairs of rounds compared; the answers - result files and refusal texts - of a machine fed mutated variants of every operation are searched too, numbers also as printed numbers)."),
    ref='7 C04', note=AIR_NOTE + ' No model stream for this property: the correspondence is the secret scan.')

NOT_APPLICABLE = {}
