"""More per-property programs for bin/check (registered into PROGS)."""
import os, json, subprocess, time

G = None


def register(progs, g):
    global G
    G = g
    progs.update({'C17': prog_C17, 'C03': prog_C03, 'C16': prog_C16, 'C01': prog_C01, 'C02': prog_C02, 'C08': prog_C08, 'C09': prog_C09, 'C10': prog_C10, 'C15': prog_C15, 'C18': prog_C18, 'C07': prog_C07, 'C11': prog_C11, 'C13': prog_C13, 'C14': prog_C14, 'C12': prog_C12, 'C20': prog_C20, 'C04': prog_C04, 'C06': prog_C06})


def plain_diff(ops_path, a_path, b_path, limit=40):
    out, total, n = [], 0, 0
    with open(ops_path) as fo, open(a_path) as fa, open(b_path) as fb:
        for i, (op, a) in enumerate(zip(fo, fa)):
            b = fb.readline()
            n += 1
            if a != b:
                total += 1
                if len(out) < limit:
                    out.append(dict(line=i + 1, op=op.rstrip('\n')[:600], go=a.rstrip('\n')[:800], lean=b.rstrip('\n')[:800]))
    return out, total, n


def run_linediff(ctx, name, lean_mode, timeout=7200):
    """harness <name> on the real code (cached per tree state), Lean driver <lean_mode> on the same ops, line diff"""
    VERIF, LEAN, ENV = G['VERIF'], G['LEAN'], G['ENV']

    def go(d):
        t = time.time()
        rc, out = G['sh']([os.path.join(VERIF, 'bin', 'harness'), name, d, str(ctx.seed), ctx.tier], timeout=timeout)
        r = dict(rc=rc, out=out[-3000:], wall=time.time() - t)
        if rc == 0:
            r['stats'] = json.load(open(os.path.join(d, 'stats.json')))
        return r
    r, d = G['cached'](ctx, name + '-go', go)
    if r['rc'] != 0:
        crash_report(ctx, name, r, d)
        return None
    res = dict(stats=r['stats'], dir=d, diffs=[], ndiffs=0, nops=0, lean_ok=False)
    if ctx.driver_ok:
        drv = os.path.join(LEAN, '.lake/build/bin/driver')
        lean_obs = os.path.join(d, 'lean_obs.txt')
        if not os.path.exists(lean_obs) or os.path.getmtime(lean_obs) < os.path.getmtime(drv):
            with open(os.path.join(d, 'ops.txt'), 'rb') as fin, open(lean_obs, 'wb') as fout:
                p = subprocess.run([drv, lean_mode], stdin=fin, stdout=fout, env=ENV, timeout=timeout)
            if p.returncode != 0:
                ctx.broken.append(dict(kind='tie', what='Lean driver crashed in mode ' + lean_mode, detail=''))
                return res
        diffs, total, n = plain_diff(os.path.join(d, 'ops.txt'), os.path.join(d, 'go_obs.txt'), lean_obs)
        res.update(diffs=diffs, ndiffs=total, nops=n, lean_ok=True)
    return res


def aux_stream(ctx, res, prefix, lean_mode, what, timeout=3600, label='the real airgapped machine and the Lean model of its key-generation handlers'):
    """a second line stream written by the same harness run (<prefix>_ops.txt / <prefix>_obs.txt): the compiled Lean
    model in mode <lean_mode> must give the same answers"""
    LEAN, ENV = G['LEAN'], G['ENV']
    if res is None or not ctx.driver_ok:
        return None
    d = res['dir']
    ops, obs = os.path.join(d, prefix + '_ops.txt'), os.path.join(d, prefix + '_obs.txt')
    if not (os.path.exists(ops) and os.path.exists(obs)):
        ctx.broken.append(dict(kind='tie', what='%s: the harness wrote no %s stream' % (what, prefix), detail=''))
        return None
    drv = os.path.join(LEAN, '.lake/build/bin/driver')
    lean_obs = os.path.join(d, prefix + '_lean.txt')
    if not os.path.exists(lean_obs) or os.path.getmtime(lean_obs) < os.path.getmtime(drv):
        with open(ops, 'rb') as fin, open(lean_obs, 'wb') as fout:
            p = subprocess.run([drv, lean_mode], stdin=fin, stdout=fout, env=ENV, timeout=timeout)
        if p.returncode != 0:
            ctx.broken.append(dict(kind='tie', what='Lean driver crashed in mode ' + lean_mode, detail=''))
            return None
    diffs, total, n = plain_diff(ops, obs, lean_obs)
    if total:
        ctx.broken.append(dict(kind='correspondence', what='%s: %s disagree on %d of %d operations' % (what, label, total, n),
                               detail='', diffs=diffs[:10], script=ops))
    return dict(operations=n, disagreements=total)


AIRDKG_TRUSTED = ['translator: the statement order of the four key-generation handlers of airgapped/dkg.go and of dkg.ProcessDeals (Gen/AirDkgOrder.lean), regenerated on every run; Props/AirDkgSrc.lean fixes, kernel-evaluated, the order facts the handler model rests on (the instance filed at the end of the commits step, a deal filed after its dealer index was compared, the key ring saved before the one announcement is appended, the vss layer asked before the broadcast commitments are compared)',
                  'correspondence airdkg (a second stream of the algdiff run): every commits / deals / responses / master-key operation a real airgapped machine handles in the ceremonies - honest ones and the deviating-dealer scenarios - is written down in the abstract form of Model/AirDkg.lean (a point as its discrete logarithm, known to the harness through the dealer coefficients read by the verif hooks and through its own forgeries; a ciphertext as what its addressee obtains from it; a signature as whether it verifies; a session id as what it hashes) and the compiled model must give the machine\'s answer: refusal (error result naming the index, or fatal), own commitments, every share dealt and to whose key, the dealers answered, master key, public polynomial and the stored share',
                  'the abstraction itself (decrypting with the machines\' keys, schnorr.Verify, the re-implemented vss session id) is harness code; kyber\'s group, ECIES, AEAD and Schnorr are not modelled; an operation with a point or shape the harness cannot translate, and a round after a refused responses / master-key step (where the real state depends on Go\'s map order), are left out and counted']


def airdkg_part(ctx, res):
    r = aux_stream(ctx, res, 'airdkg', 'airdkg', 'airdkg')
    if r is not None:
        st = (res['stats'].get('AirDkg') or {})
        ctx.cov['airgapped_dkg_handlers'] = dict(operations=r['operations'], disagreements=r['disagreements'], by_kind=st.get('ByKind'), outcomes=st.get('Outcomes'),
                                                 skipped=st.get('Skipped'), skipped_why=st.get('SkipWhy'), machines=st.get('Machines'))
        ctx.cov['trusted_base'] = ctx.cov.get('trusted_base', []) + AIRDKG_TRUSTED


def crash_report(ctx, driver, r, d):
    """the harness process died: a fault no recover() catches. The input it was handling is in current_input.txt"""
    cur = os.path.join(d, 'current_input.txt')
    what = ''
    if os.path.exists(cur):
        what = open(cur, errors='replace').read()
    fatal = [l for l in r['out'].splitlines() if l.startswith('fatal error') or l.startswith('panic:') or 'out of memory' in l or 'stack overflow' in l]
    ctx.broken.append(dict(kind='tie', what='%s harness crashed on the real code' % driver, detail=(' | '.join(fatal[:3]) + ' :: ' + r['out'][-1500:])))
    if what and ctx.pid == 'C18':
        ctx.violations.append(dict(kind='impl-counterexample', driver=driver,
                                   what='C18 never_panics: process-terminating fault (%s) while the real code handled: %s' % ('; '.join(fatal[:2]) or 'process died', what[:1500])))


BASE_TRUSTED = ['Lean 4.33.0 kernel; axioms allowed: propext, Classical.choice, Quot.sound (audited per theorem with #print axioms; `decide +kernel` is kernel evaluation, no native code)']


def generic(ctx, modules, driver, lean_mode, monitor_prefixes, trusted, rule, op_filter=None, cov_from_stats=None):
    ok_tr = G['step_translate'](ctx)
    G['step_proofs'](ctx, modules)
    ctx.driver_ok = G['build_driver'](ctx) if ok_tr else False
    ctx.cov['trusted_base'] = BASE_TRUSTED + trusted
    res = None
    if G['build_harness'](ctx):
        res = run_linediff(ctx, driver, lean_mode)
    if res is None:
        return None
    st = res['stats']
    ctx.cov.update(rule=rule, samples=st.get('Samples') or [], input_histogram=st.get('OutcomeHist') or st.get('Hist') or {},
                   traces_validated_against_impl=res.get('nops', 0))
    if cov_from_stats:
        cov_from_stats(ctx, st)
    for mline in (st.get('Monitors') or []):
        if any(mline.startswith(p + ' ') for p in monitor_prefixes):
            ctx.violations.append(dict(kind='impl-counterexample', driver=driver, what=mline))
    if res['lean_ok']:
        rel = [d for d in res['diffs'] if op_filter is None or op_filter(d['op'])]
        ctx.cov['disagreements'] = res['ndiffs']
        ctx.cov['relevant_disagreements'] = len(rel)
        if rel:
            ctx.broken.append(dict(kind='correspondence', what='%s: real code and Lean model disagree on %d of %d operations (%d relevant to this property shown)' % (driver, res['ndiffs'], res['nops'], len(rel)),
                                   detail='', diffs=rel[:10], script=os.path.join(res['dir'], 'ops.txt')))
    else:
        ctx.cov['disagreements'] = None
    return res


def prog_C17(ctx):
    def cov(ctx, st):
        ctx.cov.update(evaluations=st['Ops'], distinct_nontrivial=st['DistinctRoots'] + st['Baked'], exhaustive=bool(st['BakedExhaustive']),
                       roots_compared=st['Roots'], baked_positions=st['Baked'], sha256_vectors=st['Shas'])
    generic(ctx, ['Dc4bcVerif.Props.C17'], 'sszdiff', 'ssz', ['C17'],
            ['translator: SSZ hasher op lists, struct field sizes, the five constants, the GetSigningRoot/computeDomain wiring and the baked list (as a run table whose expansion is hashed and compared with the embedded file) regenerated from /repo on this run',
             'correspondence sszdiff: wc_rotation.GetSigningRoot / requests.ReconstructBakedMessage / TasksToMessages vs the compiled Lean model with a Lean SHA-256, all 18,632 positions + boundaries + random uint64',
             'modelled, not verified: fastssz Hasher (incremental merkleizeImpl modelled by the spec merkleize), crypto/sha256 (Lean re-implementation validated on 300 vectors per run), strconv.ParseInt, strings.Split',
             'code_eq_spec assumes only that the hash function returns 32 bytes'],
            'all positions 0..18634 of the baked list, 11 out-of-range positions incl. negative and int64 extremes, special and random uint64 validator indices, 300 SHA-256 vectors, random task lists; distinct_nontrivial = distinct signing roots + baked positions compared',
            op_filter=lambda op: not op.startswith('tasks'), cov_from_stats=cov)
    ctx.assumptions += ['the Ethereum constants are the ones written in Props/C17.lean (from the consensus specs, mainnet config and the Lido documentation quoted in rotation.go)']


def prog_C03(ctx):
    def cov(ctx, st):
        ctx.cov.update(evaluations=st['Tasks'] + st['Baked'], distinct_nontrivial=st['Tasks'], exhaustive=False)
    fsm_part(ctx, ['C03'], ['event_signing_start'])
    generic(ctx, ['Dc4bcVerif.Props.C03'], 'sszdiff', 'ssz', ['C03'],
            ['translator: baked list, SSZ schema (as for C17)',
             'correspondence sszdiff: requests.TasksToMessages / ReconstructBakedMessage vs the compiled Lean model on generated mixed batches',
             'modelled, not verified: encoding/json of []SigningTask (SrcPayload) - exercised by fsmdiff and nodediff'],
            'random mixed batches: explicit payloads (any bytes, empty-non-nil, names with spaces/unicode/html characters, duplicate ids) and baked ranges (inside, across the end, empty, negative)',
            op_filter=lambda op: op.startswith('tasks') or op.startswith('baked'), cov_from_stats=cov)
    # end to end on real ceremonies: what each machine signs (its partial signatures on the board, checked with tbls.Verify over the
    # proposal's payload), what every node stores and broadcasts next to the final signature (algdiff's C03 monitors); batches incl.
    # a crafted one with a repeated identifier, a range and an explicit task named like one of the range's validators
    ev = ctx.cov.get('evaluations', 0)
    al = monitor_only(ctx, 'algdiff', ['C03'], 'end_to_end_ceremonies')
    if al:
        ctx.cov['evaluations'] = ev + al.get('PartialsChecked', 0) + al.get('SignaturesChecked', 0)
    ctx.cov['trusted_base'] = ctx.cov.get('trusted_base', []) + ['monitors algdiff (C03 signed_eq_proposed, stored_payload, foreign_message): kyber tbls.Verify and the spec signing root computed by the harness are the oracle']
    # the node's side of a proposal (what it expands, keeps as placeholders, later reconstructs over): nodediff, with the monitor
    # stored_eq_proposed after every accepted proposal and a second proposal under the same batch id shown (and rolled back) first
    res = run_linediff(ctx, 'nodediff', 'node')
    if res is not None:
        for mline in (res['stats'].get('Monitors') or []):
            if mline.startswith('C03 '):
                ctx.violations.append(dict(kind='impl-counterexample', driver='nodediff', what=mline))
        if res['lean_ok']:
            rel = [d for d in res['diffs'] if 'event_signing' in d['op'] or 'signature_reconstruct' in d['op']]
            if rel:
                ctx.broken.append(dict(kind='correspondence', what='nodediff: real node and Lean node model disagree on %d of %d operations (%d of the shown ones are signing messages)' % (res['ndiffs'], res['nops'], len(rel)),
                                       detail='', diffs=rel[:10], script=os.path.join(res['dir'], 'ops.txt')))
        ctx.cov['node_layer'] = dict(operations=res['nops'], disagreements=res['ndiffs'], proposals_whose_stored_form_was_checked=res['stats'].get('ProposalsStored'))


def fsm_part(ctx, monitor_prefixes, event_prefixes):
    """re-use the FSM correspondence run for properties that also depend on the FSM layer"""
    sub = G['Ctx'](ctx.pid, ctx.tier, ctx.seed)
    G['fsm_family'](sub, [], monitor_prefixes, event_prefixes)
    ctx.broken += sub.broken
    ctx.violations += sub.violations
    ctx.notes += sub.notes
    ctx.cov['fsm_layer'] = {k: sub.cov.get(k) for k in ('states', 'transitions', 'accepted_transitions', 'traces_validated_against_impl', 'monitor_checks', 'primary_disagreements', 'relevant_primary_disagreements')}


def prog_C16(ctx):
    def cov(ctx, st):
        ctx.cov.update(evaluations=st['Ops'], distinct_nontrivial=st['DistinctSizes'] + st['Histories'], exhaustive=False,
                       histories=st['Histories'], sends=st['Sends'], reads=st['Reads'], writers_max=st['MaxWriters'])
    res = generic(ctx, ['Dc4bcVerif.Props.C16', 'Dc4bcVerif.Props.C16Lines', 'Dc4bcVerif.Props.C16Src', 'Dc4bcVerif.Props.SrcFacts'], 'boarddiff', 'board', ['C16'],
            ['translator: the two line limits (counting scanner and reading scanner) are read from storage/file_storage/fileStorage.go on this run',
             'correspondence boarddiff: file_storage.NewFileStorage/Send/GetMessages/IgnoreMessages with several writers on separate handles (goroutines; OS processes in the thorough tier) vs the Lean board model fed the observed linearisation',
             'trusted: flock(2) mutual exclusion between open file descriptions, O_APPEND single-write appends (no torn lines), bufio.Scanner token-limit semantics (modelled: a line is readable iff len+1 <= limit)'],
            'generated histories: 1-4 writers, message sizes from 0 to just under 1 MiB with emphasis on 64 KiB and 1 MiB boundaries, ignore lists by id and by offset, every read offset; distinct_nontrivial = distinct message sizes + histories',
            cov_from_stats=cov)
    # lines that are no messages (a tail torn by a writer that died, a line that does not decode) between sends: the odd-line
    # histories against Model/BoardLines.lean (Props/C16Lines.lean)
    r = aux_stream(ctx, res, 'boardlines', 'boardlines', 'boardlines', label='the real file board and the Lean model of a data file with lines that are no messages')
    if r is not None:
        ctx.cov['lines_that_are_no_messages'] = r
        ctx.cov['trusted_base'] = ctx.cov.get('trusted_base', []) + ['correspondence boardlines (a second stream of the boarddiff run): the odd-line histories - a writer that dies in the middle of an append (a separate handle writes the first half of a line), a complete line that does not decode, each between sends - as operations of Model/BoardLines.lean: every offset Send assigns and every GetMessages answer from every offset must be the model\'s']


ALG_TRUSTED = ['verif hooks (build tag verif, add-only): dealer coefficients, shares and keys are read from the real machines',
               'correspondence algdiff: real ceremonies on real BaseNodeService nodes (LevelDB state, file board) and real airgapped machines, scheduled step by step by the harness; the Lean Shamir/DKG model over Z/r must predict every share and every recovered secret',
               'independent verifier: prysm crypto/bls (blst) checks every reconstructed/broadcast/stored signature under the group key over the proposed payload',
               'modelled, not verified: kyber (G1/G2 arithmetic, pairing, tbls, Pedersen DKG, VSS), i.e. that BLS12-381 with kyber is an instance of the abstract bilinear structure over a field of prime order r (r prime is a hypothesis of the instantiation, not an axiom); scrypt cost lowered for throughput in this driver only']


def alg_cov(ctx, st):
    ctx.cov.update(evaluations=st['Ops'] + st['SignaturesChecked'], distinct_nontrivial=st['SharesChecked'] + st['SubsetsChecked'] + st['Batches'],
                   exhaustive=False, ceremonies=st['Ceremonies'], configurations=st['Configs'], batches=st['Batches'],
                   signatures_checked_with_prysm=st['SignaturesChecked'], shares_predicted_by_model=st['SharesChecked'],
                   subsets_recovered=st['SubsetsChecked'], key_generations_with_a_storage_fault_on_one_machine=st.get('C02StorageFaults', 0), driver_notes=st.get('Notes') or [])


ALG_RULE = ('full ceremonies for the (n,t) of the tier with random answering orders; per ceremony 2-3 batches (explicit payloads incl. unusual file names, baked ranges) signed by a random subset of size t..n in random order, the rest late or silent; up to 12 t-subsets of real shares recovered in random order; one key generation (quick: (3,2), random machine; thorough: (3,2),(2,2),(3,3),(4,3), every machine) in which the database of one airgapped machine is closed while it handles the master-key operation and the machine is restarted afterwards: a signing-ready node implies a share on its retained polynomial on every machine; per ceremony one batch in which a signer\'s machine (wrong password) REPORTS a signing error while exactly t-1 others sign (whatever is stored must verify; for t<n the rest sign later and the batch must complete) and, for t<n, a node that is away for two whole batches and then reads everything it is behind in ONE poll tick; '
            'distinct_nontrivial = shares + subsets + batches compared')


def prog_C01(ctx):
    generic(ctx, ['Dc4bcVerif.Props.C01'], 'algdiff', 'alg', ['C01'], ALG_TRUSTED, ALG_RULE, cov_from_stats=alg_cov)
    ctx.assumptions += ['placeholder entries written on event_signing_start (empty Signature) are not signature values; completeness at quiescence is checked under C07']


def prog_C02(ctx):
    fsm_part(ctx, ['C02'], ['event_dkg_master_key'])
    res = generic(ctx, ['Dc4bcVerif.Props.C02', 'Dc4bcVerif.Props.C02Fsm', 'Dc4bcVerif.Props.C02Air', 'Dc4bcVerif.Props.AirDkgSrc', 'Dc4bcVerif.Props.C01'], 'algdiff', 'alg', ['C02'], ALG_TRUSTED, ALG_RULE, cov_from_stats=alg_cov)
    airdkg_part(ctx, res)
    # the node's side of the last step: a key announcement posted by a registered participant in the name of one whose airgapped
    # machine has not executed its last step (nodediff, nodew24.go w24HeldBackAnnouncement; monitor C02 ready_implies_share)
    monitor_only(ctx, 'nodediff', ['C02'], 'node_layer_announcement_in_anothers_name')


NODE_TRUSTED = ['correspondence nodediff: a real BaseNodeService (LevelDB state, file board, real repositories) inside a real ceremony is fed every message through ProcessMessage, plus structure-aware mutations (altered payload, broken/empty/foreign signatures, renamed senders, foreign participant ids, replays under other events/rounds, junk) and answers through ProcessOperation/ApproveParticipation incl. altered, unknown, request-only and duplicated results; the compiled Lean node model gets the same inputs and must reproduce outcome, posted messages and the canonical node state after every step',
                'oracle fields of the model, computed by the harness with the REAL functions and universally quantified in the theorems: JSON decoding of message data (types.FSMRequestFromMessage), ed25519 verification under every registered key, the result of threshold reconstruction, byte equality of submitted and stored operation payloads',
                'modelled, not verified: encoding/json, ed25519, LevelDB, the md5 operation id (modelled by (round, payload) identity), wall-clock reads (an explicit input)']


def node_cov(ctx, st):
    ctx.cov.update(evaluations=st['Ops'], distinct_nontrivial=len(st.get('MutationHist') or {}) + len(st.get('OutcomeHist') or {}), exhaustive=False,
                   genuine_messages=st['Genuine'], mutated_messages=st['Mutated'], accepted=st['Accepted'], rejected=st['Rejected'],
                   panics=st['Panics'], operation_submissions=st['Execs'], scenarios=st['Scenarios'], mutation_histogram=st.get('MutationHist') or {},
                   driver_notes=st.get('Notes') or [])
    ctx.cov['input_histogram'] = st.get('OutcomeHist') or {}


NODE_RULE = ('ceremonies (n,t) of the tier with one observed node; every message addressed to it is preceded/followed by sampled mutations of itself (all kinds in the thorough tier) and occasionally duplicated; '
             'every operation of the observed node is answered with altered results first, then the genuine one, then a duplicate; distinct_nontrivial = distinct (mutation kind, outcome) and (message kind, outcome) pairs hit')


def prog_C09(ctx):
    generic(ctx, ['Dc4bcVerif.Props.C09', 'Dc4bcVerif.Props.SrcFacts'], 'nodediff', 'node', ['C09'], NODE_TRUSTED, NODE_RULE, cov_from_stats=node_cov)
    # forged messages after a re-initialisation (the replay toggles verification for the unsigned 0.1.4 patches)
    ev = ctx.cov.get('evaluations', 0)
    rd = monitor_only(ctx, 'reinitdiff', ['C09'], 'after_reinitialisation')
    if rd:
        ctx.cov['evaluations'] = ev + 3 * rd.get('Reinits', 0)


def prog_C10(ctx):
    generic(ctx, ['Dc4bcVerif.Props.C10', 'Dc4bcVerif.Props.SrcFacts'], 'nodediff', 'node', ['C10'], NODE_TRUSTED, NODE_RULE, cov_from_stats=node_cov)


def prog_C15(ctx):
    generic(ctx, ['Dc4bcVerif.Props.C15', 'Dc4bcVerif.Props.C15Conc', 'Dc4bcVerif.Props.SrcFacts'], 'nodediff', 'node', ['C15'], NODE_TRUSTED +
            ['translator: executeOperation\'s calls on answerMu and its lookup / post / retire calls in textual order (Gen/RoundLock.lean answerSteps), regenerated on every run; Props/C15Conc.lean answer_is_one_locked_step is kernel-evaluated over it; nodediff submits one result file twice at the same time (the first submission held at the board until the second is there too, or 300 ms) and results carrying 16 / 17 / 33 messages'],
            NODE_RULE, cov_from_stats=node_cov)


def prog_C08(ctx):
    generic(ctx, ['Dc4bcVerif.Props.C08', 'Dc4bcVerif.Props.C08Poll', 'Dc4bcVerif.Props.C20Node', 'Dc4bcVerif.Props.C13Clock', 'Dc4bcVerif.Props.SrcFacts'], 'nodediff', 'node', ['C08'], NODE_TRUSTED, NODE_RULE, cov_from_stats=node_cov)


def monitor_only(ctx, driver, monitor_prefixes, cov_key, timeout=7200):
    """a driver that runs the real code under monitors only (no model stream to compare)"""
    VERIF = G['VERIF']
    if not G['build_harness'](ctx):
        return None

    def go(d):
        t = time.time()
        rc, out = G['sh']([os.path.join(VERIF, 'bin', 'harness'), driver, d, str(ctx.seed), ctx.tier], timeout=timeout)
        r = dict(rc=rc, out=out[-3000:], wall=time.time() - t)
        if rc == 0:
            r['stats'] = json.load(open(os.path.join(d, 'stats.json')))
        return r
    r, d = G['cached'](ctx, driver + '-go', go)
    if r['rc'] != 0:
        crash_report(ctx, driver, r, d)
        return None
    st = r['stats']
    for mline in (st.get('Monitors') or []):
        if any(mline.startswith(p + ' ') for p in monitor_prefixes) or mline.startswith('harness:'):
            ctx.violations.append(dict(kind='impl-counterexample', driver=driver, what=mline))
    ctx.cov[cov_key] = {k: v for k, v in st.items() if k not in ('Monitors', 'Samples')}
    return st


def prog_C18(ctx):
    node_tr = list(NODE_TRUSTED)
    generic(ctx, ['Dc4bcVerif.Props.C18', 'Dc4bcVerif.Props.C18Fsm', 'Dc4bcVerif.Props.C18Node', 'Dc4bcVerif.Props.C18Reinit', 'Dc4bcVerif.Props.C18ReinitReject', 'Dc4bcVerif.Props.C18Air', 'Dc4bcVerif.Props.C16Lines'], 'nodediff', 'node', ['C18'], node_tr, NODE_RULE, cov_from_stats=node_cov)
    ev = ctx.cov.get('evaluations', 0)
    res = run_linediff(ctx, 'sszdiff', 'ssz')
    if res is not None:
        st = res['stats']
        for mline in (st.get('Monitors') or []):
            if mline.startswith('C18 '):
                ctx.violations.append(dict(kind='impl-counterexample', driver='sszdiff', what=mline))
        rel = [d for d in res['diffs'] if d['op'].startswith('tasks') or d['op'].startswith('baked')]
        if res['lean_ok'] and rel:
            ctx.broken.append(dict(kind='correspondence', what='sszdiff: TasksToMessages / ReconstructBakedMessage and the Lean model disagree on %d operations' % len(rel),
                                   detail='', diffs=rel[:10], script=os.path.join(res['dir'], 'ops.txt')))
        ctx.cov['expansion_layer'] = dict(task_lists=st['Tasks'], baked_positions=st['Baked'])
        ev += st['Tasks'] + st['Baked']
    air = monitor_only(ctx, 'airdiff', ['C18'], 'airgapped_fault_injection')
    if air:
        ev += air['Mutations']
        ctx.cov['distinct_nontrivial'] = ctx.cov.get('distinct_nontrivial', 0) + len(air.get('MutationHist') or {})
    # the board itself as an input: a message no reader accepts (boarddiff, monitors only here; the line stream belongs to C16)
    bd = monitor_only(ctx, 'boarddiff', ['C18'], 'board_layer')
    if bd:
        ev += bd.get('HugeSends', 0)
    ctx.cov['evaluations'] = ev
    ctx.cov['trusted_base'] = ctx.cov.get('trusted_base', []) + ['airgapped machine: the four key-generation handlers are modelled (Model/AirDkg.lean, tied by the airdkg stream in the C02/C11/C12 checks) but the theorems of this check do not use that model; the machine is covered here by fault injection on the real machine: every operation a participant receives in a real ceremony is fed to a clone in structure-aware mutated forms (field deletion, type confusion, negative/huge integers, empty/oversized arrays, short identifiers, unknown types, truncated/bit-flipped/random/zero byte strings incl. nested JSON, reversed/huge signing ranges) behind a recover(); a refused operation must leave the database byte-identical',
                                'byte-level coverage-guided fuzzing of the decoders is not part of this check (encoding/json is trusted)']
    ctx.cov['rule'] = ctx.cov.get('rule', '') + '; sszdiff: reversed/negative/huge ranges; airdiff: per operation of a ceremony a sample (quick) or all (thorough) of its mutations'


def prog_C06(ctx):
    G['fsm_family'](ctx, ['Dc4bcVerif.Props.C06'], ['C06'], ['event_signing_'])
    # "in either case the round returns to idle and accepts the next proposal" is the NODE's doing (it applies the restart event
    # after a collected or failed batch and stores the result): the node layer is tied by nodediff, with its own monitor
    res = run_linediff(ctx, 'nodediff', 'node')
    if res is not None:
        for mline in (res['stats'].get('Monitors') or []):
            if mline.startswith('C06 '):
                ctx.violations.append(dict(kind='impl-counterexample', driver='nodediff', what=mline))
        if res['lean_ok']:
            rel = [d for d in res['diffs'] if 'event_signing' in d['op'] or d['op'].startswith('exec')]
            if rel:
                ctx.broken.append(dict(kind='correspondence', what='nodediff: real node and Lean node model disagree on %d of %d operations (%d of the shown ones are signing messages or answers)' % (res['ndiffs'], res['nops'], len(rel)),
                                       detail='', diffs=rel[:10], script=os.path.join(res['dir'], 'ops.txt')))
        ctx.cov['node_layer'] = dict(operations=res['nops'], disagreements=res['ndiffs'], batches_completed_by_the_observed_node=res['stats'].get('CollectedHere'))
        ctx.cov['trusted_base'] = ctx.cov.get('trusted_base', []) + ['correspondence nodediff (the node applies event_signing_restart after a collected or failed batch and stores the result): as for C07/C18']


def prog_C07(ctx):
    fsm_part(ctx, ['C06', 'C07'], ['event_signing'])
    generic(ctx, ['Dc4bcVerif.Props.C07', 'Dc4bcVerif.Props.C06'], 'algdiff', 'alg', ['C07'], ALG_TRUSTED + NODE_TRUSTED[:1],
            ALG_RULE + '; C07: per ceremony one pair of racing proposals and schedules of two batches with a slow signer answering never / after the batch / after the next proposal / between the next batch\'s answers / after it, polls after each answer or only at the end (n=3,t=2: 16 sampled in quick, ALL in thorough; other configurations sampled)',
            cov_from_stats=alg_cov)
    # the node layer (collected => broadcast + idle in one step; broadcasts stored) is tied by nodediff
    res = run_linediff(ctx, 'nodediff', 'node')
    if res is not None and res['lean_ok'] and res['ndiffs']:
        ctx.broken.append(dict(kind='correspondence', what='nodediff: real node and Lean node model disagree on %d of %d operations' % (res['ndiffs'], res['nops']),
                               detail='', diffs=res['diffs'][:10], script=os.path.join(res['dir'], 'ops.txt')))
    if res is not None:
        ctx.cov['node_layer'] = dict(operations=res['nops'], disagreements=res['ndiffs'])


def prog_C11(ctx):
    fsm_part(ctx, ['C05', 'C11'], ['event_dkg'])
    res = generic(ctx, ['Dc4bcVerif.Props.C11', 'Dc4bcVerif.Props.C11Air', 'Dc4bcVerif.Props.C11AirComplete', 'Dc4bcVerif.Props.C12AirOrder', 'Dc4bcVerif.Props.AirDkgSrc', 'Dc4bcVerif.Props.C02'], 'algdiff', 'alg', ['C11'], ALG_TRUSTED,
            ALG_RULE + '; C11: one key generation per (deviation kind, dealer, victim): broadcast commitments with replaced tail / all replaced / longer / shorter / a non-point, deal bit-flipped / truncated / empty / meant for somebody else, a response turned into a complaint, a well-formed ciphertext of {} (a deal naming dealer 0), the self-confirmation marker as a deal; quick: (3,2) one pair per kind; thorough: four configurations, all or sampled pairs; plus a control run without deviation',
            cov_from_stats=alg_cov)
    airdkg_part(ctx, res)
    ctx.assumptions += ['a deviating participant is played by rewriting its own airgapped result before its own node posts it (executeOperation binds ID, type and request payload, not the result messages)']


def prog_C13(ctx):
    generic(ctx, ['Dc4bcVerif.Props.C13', 'Dc4bcVerif.Props.C13Fsm', 'Dc4bcVerif.Props.C13Node', 'Dc4bcVerif.Props.C13Start', 'Dc4bcVerif.Props.C13Clock', 'Dc4bcVerif.Props.C13Reinit', 'Dc4bcVerif.Props.SrcFacts', 'Dc4bcVerif.Props.C18'], 'nodediff', 'node', ['C13'], NODE_TRUSTED +
            ['translator: the ordered list of calls with durable effects per function of node_service.go (Gen/Effects.lean), regenerated on every run; order_in_source / answer_order_in_source are kernel-evaluated over it',
             'crashdiff: a real ceremony in which one node is killed before its k-th durable effect (every write to its state store, every send to the board; enumerated from a crash-free reference run), restarted with the real constructors on the same directories, and driven on; results of the airgapped machine are re-submitted, not re-computed',
             'assumed, not proved: atomicity of one LevelDB write, durability of the board file (ReapplySafe of the handler is proved for the node model: node_reapplySafe)'],
            NODE_RULE, cov_from_stats=node_cov)
    ev = ctx.cov.get('evaluations', 0)
    cr = monitor_only(ctx, 'crashdiff', ['C13'], 'crash_injection')
    rc = monitor_only(ctx, 'reinitdiff', ['C13'], 'crash_inside_reinit')
    if rc:
        ev += rc.get('ReinitCrashRuns', 0)
    if cr:
        ctx.cov['evaluations'] = ev + cr['Runs']
        ctx.cov['distinct_nontrivial'] = ctx.cov.get('distinct_nontrivial', 0) + len(cr.get('OutcomeHist') or {})
        ctx.cov['exhaustive'] = bool(cr.get('Exhaustive'))
        ctx.cov['rule'] = ctx.cov.get('rule', '') + '; crashdiff: quick = one kill per distinct (effect, handler, event) shape of a (2,2) ceremony (sampled to 45) + 6 runs with three kills; thorough = EVERY durable effect of a (2,2) and a (3,2) ceremony + 40 multi-kill runs each'


def prog_C14(ctx):
    generic(ctx, ['Dc4bcVerif.Props.C14', 'Dc4bcVerif.Props.C14Rounds', 'Dc4bcVerif.Props.C14Tick', 'Dc4bcVerif.Props.C15', 'Dc4bcVerif.Props.SrcFacts'], 'nodediff', 'node', ['C14'], NODE_TRUSTED +
            ['translator: for every method of BaseOperationRepo whether it holds the repository mutex for its whole body and which repository/state calls it makes (Gen/Locks.lean), regenerated on every run; repo_rmw_locked is kernel-evaluated over it',
             'scheddiff: an API request and a poll tick of one real node run as two goroutines over the SAME services; every call on the state store or the board first asks a scheduler, which executes a plan with up to three pre-emptions (a thread that blocks on a lock held by the other is detected by a 60 ms timeout and the holder is resumed); the final state (pool, tombstones, rounds, signatures, offset, posted messages) must be that of one of the two serial orders, computed on the same snapshot',
             'assumed: Go mutexes give mutual exclusion and the memory model makes a locked read-modify-write one atomic step (the Lean pool operations put/del are such steps); LevelDB single Put/Get are atomic'],
            NODE_RULE, cov_from_stats=node_cov)
    ev = ctx.cov.get('evaluations', 0)
    sd = monitor_only(ctx, 'scheddiff', ['C14'], 'interleavings')
    if sd:
        ctx.cov['evaluations'] = ev + sd['Schedules']
        ctx.cov['distinct_nontrivial'] = ctx.cov.get('distinct_nontrivial', 0) + len(sd.get('OutcomeHist') or {})
        ctx.cov['exhaustive'] = bool(sd.get('Exhaustive'))
        ctx.cov['rule'] = ctx.cov.get('rule', '') + '; scheddiff: thirteen (request, message) pairs (see the manifest text); per pair every single pre-emption and a sample of the double/triple ones (60 plans quick, 600 thorough - exhaustive within 3 pre-emptions when the pair has few steps)'


AIR_TRUSTED = ['airdiff: real ceremonies; a machine with the mnemonic of a participant is fed the operations of that participant and is stopped (database closed), reopened from its database and rebuilt with ReplayOperationsLog at every restart point: before each operation, after the handler ran but before logging, after logging with the result file lost, and after every single step; every later result (compared up to the encodings that depend on Go map iteration order and ECIES randomness: deals by addressee, responses by verdict) and the final keyring must be those of a machine that never stopped',
               'bookkeeping tie: the compiled Lean machine model (log / replay / restart) must predict the durable operation log of the real machine after every step (ids read from its LevelDB through a verif hook)',
               'assumed by the theorems, checked only by airdiff: the handlers (kyber DKG/VSS, ECIES, BLS: not modelled) are deterministic functions of the seed-derived state and the operation, and signing requests do not modify the DKG instance']


def air_cov(ctx, st):
    ctx.cov.update(evaluations=st['Ops'] + st['Mutations'] + st['CloneOps'], distinct_nontrivial=len(st.get('OutcomeHist') or {}) + st['RestartPoints'], exhaustive=False,
                   restart_points=st['RestartPoints'], restarts=st['Restarts'], second_ceremonies=st.get('SecondCeremonies', 0), clones=st['Clones'], fault_mutations=st['Mutations'], driver_notes=(st.get('Notes') or [])[:10])


def prog_C12(ctx):
    res = generic(ctx, ['Dc4bcVerif.Props.C12', 'Dc4bcVerif.Props.C12Process', 'Dc4bcVerif.Props.C12Air', 'Dc4bcVerif.Props.C12AirOrder', 'Dc4bcVerif.Props.C12AirReinit', 'Dc4bcVerif.Props.C20AirMasterKey', 'Dc4bcVerif.Props.AirDkgSrc', 'Dc4bcVerif.Props.C12Seed', 'Dc4bcVerif.Props.C18Air'], 'airdiff', 'air', ['C12'], AIR_TRUSTED +
            ['translator: every write to and every use of the airgapped machine\'s in-memory base seed, and what dkg.InitDKGInstance does with the slice it is handed (Gen/SeedFacts.lean), regenerated on every run; frand.NewCustom / sha256 / the suite constructor not writing their argument is trusted and exercised by the second-ceremony restarts'],
            'ceremonies (3,2),(2,2) [thorough: +(4,3),(3,3)]; per ceremony one participant: restart before every operation, and (sampled in quick, all in thorough) kill-before-log and kill-after-log at every operation, plus one run restarting after every step; two clones fed the same operations; then a SECOND ceremony of the same participants handled by the same process: the same restart points inside it (sampled in quick), and a machine fed the second ceremony alone; a machine started on an EMPTY database (it keeps the seed it generated; the mnemonic it prints is captured) against a machine made with set_seed from that mnemonic: same seed, long-term key, commitments and share; the airdkg stream: every key-generation operation, and a machine stopped, reopened and replayed after every operation',
            cov_from_stats=air_cov)
    # the concrete handlers: every key-generation operation of the ceremonies, and a machine stopped, opened again and replayed
    # after every operation, against Model/AirDkg.lean (`stop` + the logged operations again); Props/C12Air.lean
    airdkg_part(ctx, res)
    if res is not None and 'airgapped_dkg_handlers' in ctx.cov:
        st = res['stats'].get('AirDkg') or {}
        ctx.cov['airgapped_dkg_handlers'].update(restarts=st.get('Restarts'), replayed_operations=st.get('Replayed'))


def prog_C20(ctx):
    def cov(ctx, st):
        ctx.cov.update(evaluations=st['Ops'] + st['Reinits'], distinct_nontrivial=st['HashEditKinds'] + st['Scenarios'], exhaustive=False,
                       reinitialisations=st['Reinits'], hash_edits=st['HashEdits'], driver_notes=(st.get('Notes') or [])[:10])
    res0 = generic(ctx, ['Dc4bcVerif.Props.C20', 'Dc4bcVerif.Props.C20Node', 'Dc4bcVerif.Props.C20Air', 'Dc4bcVerif.Props.C20AirOrder', 'Dc4bcVerif.Props.C20AirMasterKey', 'Dc4bcVerif.Props.C12', 'Dc4bcVerif.Props.C08'], 'reinitdiff', 'reinit', ['C20'],
            ['translator: the order in which CalcStartReInitDKGMessageHash writes the fields (Gen/NodeGlue.lean reinitHashOrder), regenerated on every run; order_matches_source is kernel-evaluated',
             'reinitdiff: a completed real ceremony (signing batches and junk on the board, incl. a forged decline every original node rejected) is re-initialised from a dump of its board on fresh nodes with new communication keys and fresh airgapped databases with the same mnemonics, through GenerateReDKGMessage (+ GetAdaptedReDKG on dumps stripped of self-confirmations), ReInitDKG, the reinit operation and the airgapped replay; every node must end signing-ready with the same participants, threshold and public polynomial, every machine with the same share, a batch signed afterwards must verify (prysm) under the ORIGINAL group key; the confirmation hash must be the same on every node and change under every single-field edit (the Lean model of the hashed byte string must agree on every edit)',
             'the airgapped side (Model/AirReinit.lean: handleReinitDKG over the handler model; Props/C20Air.lean): every reinit_dkg operation a real machine handles in these runs is written down for the model - a SHADOW machine (fresh database, same mnemonic) is handed the entries of the payload one by one, each compared with the model like any key-generation operation, and the model\'s reinitOp over those entries must give the real machine\'s answer (the public polynomial of operation_processed_successfully / error result / fatal) and the share it holds afterwards; re-initialised machines stopped, reopened and replayed, and machines that died inside the operation and are handed it again, are `stop` + the operation again; the translation of operations into the model\'s terms is harness code (see the airdkg stream)',
             'assumed: SHA-1 collision resistance; %d rendering injective; Go\'s range orders: Props/C20AirOrder.lean reinit_reproduces_share_any_order (the deals steps in any order, the master-key step in any order provided the re-initialised machine answers it with an announcement at all - whether it does may depend on the order only through which refusal comes first), over C12AirOrder.responses_order_irrelevant and Props/C20AirMasterKey.lean (the examined responses never change the deals the verifiers hold; the key ring reads the deals only)'],
            'per scenario also: every re-initialised machine stopped, reopened and replayed, then a batch (must verify under the original group key), and the reinit operation handed over a second time after a kill between key ring and log; a fourth quick scenario whose junk holds a signing proposal posted before the end of the key generation (fix c405ec9); three ceremonies quick [(3,2) plain; (2,2) with signing batches and junk; (3,2) junk + 0.1.4 adaptation], seven thorough; per file: every header and participant field, and 7 fields of 12 (quick) or all (thorough) messages, messages of other rounds first',
            cov_from_stats=cov)
    # the airgapped side: the key-generation operations of the original ceremonies and every reinit_dkg operation of the new
    # installations (with restarts) against Model/AirDkg.lean + Model/AirReinit.lean
    airdkg_part(ctx, res0)
    if res0 is not None and 'airgapped_dkg_handlers' in ctx.cov:
        st = res0['stats'].get('AirDkg') or {}
        ctx.cov['airgapped_dkg_handlers'].update(restarts=st.get('Restarts'), replayed_operations=st.get('Replayed'),
                                                 reinit_operations=(st.get('ByKind') or {}).get('reinit'), reinit_entries=st.get('ReinitEntries'), reinit_entries_passed_over=st.get('ReinitPassedOver'))
    # the node side: the Lean model of reinitDKG is compared with the real handler on real dumps (plain and adapted), and
    # crafted reinit messages are probed against existing rounds
    res = run_linediff(ctx, 'nodediff', 'node')
    if res is not None and res['lean_ok']:
        rel = [d for d in res['diffs'] if d['op'].startswith('reinit')]
        if rel:
            ctx.broken.append(dict(kind='correspondence', what='nodediff: the real reinitDKG and the Lean model disagree on %d re-initialisations' % len(rel),
                                   detail='', diffs=rel[:4], script=os.path.join(res['dir'], 'ops.txt')))
        ctx.cov['reinit_handler_model'] = dict(reinitialisations_compared=(res['stats'].get('Reinits') or 0), disagreements=len(rel))
    if res is not None:
        for mline in (res['stats'].get('Monitors') or []):
            if 'reinit' in mline and (mline.startswith('C08 ') or mline.startswith('C18 ')):
                ctx.violations.append(dict(kind='impl-counterexample', driver='nodediff', what='C20 ' + mline))


def prog_C04(ctx):
    G['step_translate'](ctx)
    G['step_proofs'](ctx, ['Dc4bcVerif.Props.C04', 'Dc4bcVerif.Props.C04Src', 'Dc4bcVerif.Props.C04Air', 'Dc4bcVerif.Props.AirDkgSrc', 'Dc4bcVerif.Props.C02'])
    ctx.cov['trusted_base'] = BASE_TRUSTED + [
        'symbolic model Model/Sym.lean: the terms a machine exports are written by hand from airgapped/dkg.go and airgapped/bls.go; cryptography is perfect by construction (ECIES, Schnorr, BLS, exponentiation are constructors without inverses)',
        'secretdiff (no model stream: the real code under monitors): three key generations (same participants; same and different threshold) and two signing batches on the same real machines; every result file, every board message and every file of every airgapped database is searched for every secret read through the verif hooks (long-term key, seed, every polynomial coefficient, every BLS share) raw, reversed, hex, HEX, base64 std/url with and without padding, also inside JSON-nested base64 to depth 4; every (deal, machine key) pair is tried with ecies.Decrypt; five wrong passwords per machine after a correct unlock in the same process, and on ONE live Machine value (the running machines of the ceremonies; a machine restarted on its database): right password and use, DropSensitiveData (the idle timer), no password / several wrong passwords in sequence - LoadKeysFromDB, GetBLSKeyrings and the signing operations must fail every time - and the right password again at the end; shares, public polynomials and dealer coefficients of all pairs of rounds are compared',
        'translator: every mention of the long-term private key and of the BLS share in packages airgapped and dkg with the call that consumes it (Gen/SecretUses.lean), regenerated on every run; Props/C04Src.lean fixes the list and the set of consuming callees (none of which prints)',
        'secretdiff, faulty operations: a machine with a participant\'s mnemonic is fed mutated variants of every operation that participant received (JSON leaves, fields carried over from a sibling entry, identifiers of every short length, type confusion; 25 sampled per operation in quick plus all sibling-field variants, all in thorough) and every answer - result file or refusal text - is searched like the genuine results; numbers are also searched as printed numbers (hex without leading zero bytes, decimal)',
        'not covered: process memory, swap, side channels, strength of scrypt/AES-GCM/ECIES; the base seed itself is stored in the clear in the database (the property names the private key and the shares as encrypted at rest, not the seed; recorded in DESIGN.md as an observation)']
    ctx.cov['rule'] = 'quick: (3,2); thorough: (3,2),(2,2),(4,3),(4,2); all outputs of the three rounds and two batches'
    # what a machine signs when it handles the same deals again (replays, clones of one mnemonic): airdiff's nonce monitor
    # (fix 6d0dc23: two Schnorr signatures with one nonce over different responses give the long-term key away)
    ar = monitor_only(ctx, 'airdiff', ['C04'], 'replayed_answers')
    if ar:
        ctx.cov['replayed_answers'] = dict(response_signatures=ar.get('ResponseSigs'), nonce_reuses=ar.get('NonceReuses'))
    st = monitor_only(ctx, 'secretdiff', ['C04'], 'secret_scan')
    if st:
        ctx.cov.update(evaluations=st['Searches'] + st['DealPairs'] + st['WrongPasswords'] + st['RoundPairs'], distinct_nontrivial=st['Secrets'] + st['Haystacks'], exhaustive=False,
                       samples=[], input_histogram=dict(secrets=st['Secrets'], haystacks=st['Haystacks'], answers_to_faulty_operations=st.get('FaultyAnswers', 0), deal_key_pairs=st['DealPairs'], wrong_passwords=st['WrongPasswords'], relocked_machines=st.get('Relocks', 0), round_pairs=st['RoundPairs']),
                       traces_validated_against_impl=0)
