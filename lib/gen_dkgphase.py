#!/usr/bin/env python3
"""Writes lean/Dc4bcVerif/Lemmas/DkgPhases.lean: the same lemma block instantiated for the commits,
deals and responses phases of the key-generation machine (the model uses one shared callback
shape for the three; the proofs are literally the same text)."""
import os
TEMPLATE = r'''
-- ═════════════ phase: @PH@ ═════════════
section @PH@

abbrev s@PH@Await : St := .@S_AWAIT@
abbrev s@PH@Next : St := .@S_NEXT@
abbrev s@PH@CancErr : St := .@S_CERR@
abbrev s@PH@CancTo : St := .@S_CTO@
abbrev e@PH@Ok : Ev := .@E_OK@
abbrev e@PH@Err : Ev := .@E_ERR@
abbrev e@PH@Val : Ev := .@E_VAL@

theorem @ph@_lookup_ok : lookup dkgMachine s@PH@Await e@PH@Ok = some ⟨e@PH@Ok, s@PH@Await, false, false, 0⟩ := by decide
theorem @ph@_lookup_err : lookup dkgMachine s@PH@Await e@PH@Err = some ⟨e@PH@Err, s@PH@CancErr, false, false, 0⟩ := by decide
theorem @ph@_cb_ok : callbackOf dkgMachine e@PH@Ok = some .@A_OK@ := by decide
theorem @ph@_cb_err : callbackOf dkgMachine e@PH@Err = some .dkg_actionConfirmationError := by decide
theorem @ph@_cb_val : callbackOf dkgMachine e@PH@Val = some .@A_VAL@ := by decide
theorem @ph@_auto : autoLookup dkgMachine s@PH@Await 2 = some ⟨e@PH@Val, s@PH@Await, true, true, 2⟩ := by decide
theorem @ph@_auto_cancerr : autoLookup dkgMachine s@PH@CancErr 2 = none := by decide
theorem @ph@_set_ok : setState dkgMachine s@PH@Await e@PH@Ok = some s@PH@Await := by decide
theorem @ph@_set_err : setState dkgMachine s@PH@Await e@PH@Err = some s@PH@CancErr := by decide
theorem @ph@_set_val : setState dkgMachine s@PH@Await e@PH@Val = some s@PH@Await := by decide
theorem @ph@_set_done : setState dkgMachine s@PH@Await .@E_DONE@ = some s@PH@Next := by decide
theorem @ph@_set_to : setState dkgMachine s@PH@Await .@E_TO@ = some s@PH@CancTo := by decide

/-- in this phase every event other than the two public ones is a route error -/
theorem @ph@_other (e : Ev) (h1 : e ≠ e@PH@Ok) (h2 : e ≠ e@PH@Err) :
    (lookup dkgMachine s@PH@Await e).all (·.isInternal) = true := by
  revert h1 h2; cases e <;> decide

theorem runAction_@ph@_ok : runAction .@A_OK@ = @A_OKFN@ := rfl
theorem runAction_@ph@_val : runAction .@A_VAL@ = @A_VALFN@ := rfl

/-- the tail of an accepted contribution: the phase's auto-validator decides -/
def @ph@After (o : AOut) (a : Arg) : Out :=
  let v := @A_VALFN@ e@PH@Val o.payload a
  match v.res with
  | .ok =>
    match setState dkgMachine s@PH@Await (v.outEvent.getD e@PH@Val) with
    | some s2 => ⟨some (some s2, pickData v.data o.data), .ok, s2, v.payload⟩
    | none => ⟨some (some s@PH@Await, pickData v.data o.data), .err, s@PH@Await, v.payload⟩
  | r => ⟨some (some s@PH@Await, pickData v.data o.data), r, s@PH@Await, v.payload⟩

theorem @ph@_after (tr : Tr) (cur : St) (p : Payload) (o : AOut) (a : Arg)
    (hs : setState dkgMachine cur (o.outEvent.getD tr.event) = some s@PH@Await) :
    doTrAfter dkgMachine runAction tr (noBefore cur p) o a = @ph@After o a := by
  rw [doTrAfter_auto (s1 := s@PH@Await) (au := ⟨e@PH@Val, s@PH@Await, true, true, 2⟩)
      (vid := .@A_VAL@) hs @ph@_auto @ph@_cb_val]
  simp only [runAction_@ph@_val, @ph@After]
  rfl

theorem @ph@_received_spec (p : Payload) (a : Arg) :
    let o := @A_OKFN@ e@PH@Ok p a
    o.outEvent = none ∧ o.data = none ∧ (o.res = .err → o.payload = p) ∧
    (o.res = .ok → ∃ pid data ts dc part, a = .@ARG@ pid data ts ∧ p.dkg = some dc ∧
      getAt dc.quorum pid = some part ∧ part.status = @AWAIT@ ∧ ¬ isZeroTime ts = true ∧
      o.payload = { p with dkg := some { dc with
        quorum := setAt dc.quorum pid { ({ part with @FIELD@ := data } : DkgPart) with status := @OK@, updatedAt := ts },
        updatedAt := ts } }) := by
  unfold @A_OKFN@
  cases a <;> simp [aErr]
  rename_i pid data ts
  have h := dkgReceived_spec p pid ts data.isEmpty @AWAIT@ @OK@ (fun q => { q with @FIELD@ := data })
  simp only at h
  refine ⟨h.1, h.2.1, h.2.2.1, ?_⟩
  intro hok
  obtain ⟨dc, part, hd, hg, hst, _, hz, hp⟩ := h.2.2.2.1 hok
  exact ⟨pid, data, ts, ⟨rfl, rfl, rfl⟩, dc, hd, part, hg, hst, by simpa using hz, hp⟩

/-- one `Do` of the phase's contribution event, as an equation -/
theorem @ph@_do_ok (p : Payload) (a : Arg) :
    doEvent dkgMachine runAction s@PH@Await p e@PH@Ok a =
      let o := @A_OKFN@ e@PH@Ok p a
      if o.res != .ok then ⟨some (none, o.data), o.res, s@PH@Await, o.payload⟩
      else @ph@After o a := by
  rw [doEvent_std @ph@_lookup_ok rfl (no_before_auto .dkg s@PH@Await) @ph@_cb_ok]
  simp only [runAction_@ph@_ok]
  by_cases hok : ((@A_OKFN@ e@PH@Ok p a).res != .ok) = true
  · simp only [hok, ↓reduceIte]
  · simp only [hok, Bool.false_eq_true, ↓reduceIte]
    apply @ph@_after
    rw [(@ph@_received_spec p a).1]; exact @ph@_set_ok

/-- invariant of the phase: everybody is either still awaited or has delivered, and somebody is still awaited -/
structure @PH@Inv (p : Payload) (dc : DkgConf) : Prop where
  hdkg : p.dkg = some dc
  hall : allIn dc @AWAIT@ @OK@
  hopen : cntDkg dc @OK@ < dc.quorum.length

theorem @ph@_no_err (dc : DkgConf) (h : allIn dc @AWAIT@ @OK@) : dc.quorum.any (·.status == @ERR@) = false := by
  rw [Bool.eq_false_iff]
  intro hany
  rw [List.any_eq_true] at hany
  obtain ⟨q, hq, hst⟩ := hany
  rcases h q hq with h' | h' <;> simp [h'] at hst

/-- what the validator decides after an accepted contribution (no participant is in the phase's error status) -/
theorem @ph@After_cases (o : AOut) (a : Arg) (dc : DkgConf) (hd : o.payload.dkg = some dc)
    (hne : dc.quorum.any (·.status == @ERR@) = false) :
    let out := @ph@After o a
    out.res = .ok ∧
    (if dc.expiresAt < dc.updatedAt then out.state = s@PH@CancTo ∧ out.payload = o.payload
     else if cntDkg dc @OK@ < dc.quorum.length then out.state = s@PH@Await ∧ out.payload = o.payload
     else out.state = s@PH@Next ∧
          out.payload = { o.payload with dkg := some { dc with quorum := dc.quorum.map (fun q => { q with status := @NEXT@ }) } }) := by
  have hv := dkgValidate_spec o.payload dc hd @ERR@ @OK@ @NEXT@ .@E_TO@ .@E_ERRINT@ .@E_DONE@ @MKRESP@
  simp only at hv
  obtain ⟨hres, hcase⟩ := hv
  have hvfn : @A_VALFN@ e@PH@Val o.payload a = dkgValidate o.payload @ERR@ @OK@ @NEXT@ .@E_TO@ .@E_ERRINT@ .@E_DONE@ @MKRESP@ := rfl
  unfold @ph@After
  simp only [hvfn, hres]
  by_cases h1 : dc.expiresAt < dc.updatedAt
  · simp only [h1, ↓reduceIte] at hcase ⊢
    simp only [hcase.1, Option.getD_some, @ph@_set_to, hcase.2, and_self]
  · simp only [h1, ↓reduceIte, hne, Bool.false_eq_true] at hcase ⊢
    by_cases h3 : cntDkg dc @OK@ < dc.quorum.length
    · simp only [h3, ↓reduceIte] at hcase ⊢
      simp only [hcase.1, Option.getD_none, @ph@_set_val, hcase.2.1, and_self]
    · simp only [h3, ↓reduceIte] at hcase ⊢
      simp only [hcase.1, Option.getD_some, @ph@_set_done, hcase.2.1, and_self]

/-- **unanimity, one phase.** In this phase an accepted contribution comes from a participant that
was still awaited (so nobody contributes twice); the round moves to the next phase exactly when
that was the last participant missing, every other one having delivered; a contribution stamped
after the deadline cancels the round; otherwise the round keeps waiting. -/
theorem @ph@_received_outcome (p : Payload) (a : Arg) (dc : DkgConf) (hinv : @PH@Inv p dc)
    (hok : (doEvent dkgMachine runAction s@PH@Await p e@PH@Ok a).res = .ok) :
    let out := doEvent dkgMachine runAction s@PH@Await p e@PH@Ok a
    ∃ pid data ts part, a = .@ARG@ pid data ts ∧ getAt dc.quorum pid = some part ∧ part.status = @AWAIT@ ∧
    ((dc.expiresAt < ts ∧ out.state = s@PH@CancTo) ∨
     (¬ dc.expiresAt < ts ∧ cntDkg dc @OK@ + 1 = dc.quorum.length ∧ out.state = s@PH@Next ∧
        ∃ dc', out.payload.dkg = some dc' ∧ dc'.quorum.length = dc.quorum.length ∧ (∀ q ∈ dc'.quorum, q.status = @NEXT@)) ∨
     (¬ dc.expiresAt < ts ∧ cntDkg dc @OK@ + 1 < dc.quorum.length ∧ out.state = s@PH@Await ∧
        ∃ dc', @PH@Inv out.payload dc' ∧ cntDkg dc' @OK@ = cntDkg dc @OK@ + 1 ∧ dc'.quorum.length = dc.quorum.length)) := by
  have hd := hinv.hdkg
  rw [@ph@_do_ok] at hok ⊢
  simp only at hok ⊢
  by_cases h : ((@A_OKFN@ e@PH@Ok p a).res != .ok) = true
  · simp only [h, ↓reduceIte] at hok
    simp [hok] at h
  · simp only [h, Bool.false_eq_true, ↓reduceIte] at hok ⊢
    have hok' : (@A_OKFN@ e@PH@Ok p a).res = .ok := by simpa using h
    obtain ⟨pid, data, ts, dc0, part, ha, hd', hg, hst, hz, hp⟩ := (@ph@_received_spec p a).2.2.2 hok'
    rw [hd] at hd'; cases hd'
    generalize ho : @A_OKFN@ e@PH@Ok p a = o at *
    let part' : DkgPart := { ({ part with @FIELD@ := data } : DkgPart) with status := @OK@, updatedAt := ts }
    let dc' : DkgConf := { dc with quorum := setAt dc.quorum pid part', updatedAt := ts }
    have hdc' : o.payload.dkg = some dc' := by rw [hp]
    have hc := cntDkg_setAt dc pid part part' @OK@ hg ts
    simp only [hst, part'] at hc
    have hc' : cntDkg dc' @OK@ = cntDkg dc @OK@ + 1 := by
      simp only [dc', part']; simpa using hc
    have hlen : dc'.quorum.length = dc.quorum.length := by simp only [dc']; exact setAt_length _ _ _
    have hall' : allIn dc' @AWAIT@ @OK@ := by
      intro q hq
      rcases mem_setAt hq with hq | hq
      · exact hinv.hall q hq
      · right; rw [hq]
    have hcases := (@ph@After_cases o a dc' hdc' (@ph@_no_err dc' hall')).2
    simp only [hc', hlen] at hcases
    refine ⟨pid, data, ts, part, ha, hg, hst, ?_⟩
    have hexp : (dc'.expiresAt < dc'.updatedAt) ↔ (dc.expiresAt < ts) := Iff.rfl
    by_cases he : dc.expiresAt < ts
    · left
      have he' : dc'.expiresAt < dc'.updatedAt := he
      simp only [he', ↓reduceIte] at hcases
      exact ⟨he, hcases.1⟩
    · right
      have he' : ¬ dc'.expiresAt < dc'.updatedAt := he
      simp only [he', ↓reduceIte] at hcases
      have hopen := hinv.hopen
      by_cases h3 : cntDkg dc @OK@ + 1 < (dc.quorum.length : Int)
      · right
        simp only [h3, ↓reduceIte] at hcases
        refine ⟨he, h3, hcases.1, dc', ?_, hc', hlen⟩
        rw [hcases.2]
        exact ⟨hdc', hall', by rw [hc', hlen]; exact h3⟩
      · left
        simp only [h3, ↓reduceIte] at hcases
        refine ⟨he, by omega, hcases.1, _, by rw [hcases.2], by simp [hlen], ?_⟩
        intro q hq
        simp only [List.mem_map] at hq
        obtain ⟨q0, _, hq0⟩ := hq
        rw [← hq0]

/-- **an error report cancels.** An accepted error report moves the round to the phase's
`canceled_by_error` state (from which `C05.cancel_absorbing` shows there is no way back). -/
theorem @ph@_error_outcome (p : Payload) (a : Arg)
    (hok : (doEvent dkgMachine runAction s@PH@Await p e@PH@Err a).res = .ok) :
    (doEvent dkgMachine runAction s@PH@Await p e@PH@Err a).state = s@PH@CancErr := by
  rw [doEvent_std @ph@_lookup_err rfl (no_before_auto .dkg s@PH@Await) @ph@_cb_err] at hok ⊢
  by_cases h : ((runAction .dkg_actionConfirmationError e@PH@Err p a).res != .ok) = true
  · simp only [h, ↓reduceIte] at hok
    simp [hok] at h
  · simp only [h, Bool.false_eq_true, ↓reduceIte] at hok ⊢
    have hout : (runAction .dkg_actionConfirmationError e@PH@Err p a).outEvent = none := by
      show (dkg_actionConfirmationError e@PH@Err p a).outEvent = none
      unfold dkg_actionConfirmationError
      cases a <;> simp [aErr]
      split
      · simp
      · cases p.dkg with
        | none => simp [aPanic]
        | some dc =>
          simp only
          cases getAt dc.quorum _ with
          | none => simp
          | some part => simp only; split <;> simp [aErr, aOk]
    rw [doTrAfter_plain (s1 := s@PH@CancErr) (by rw [hout]; exact @ph@_set_err) @ph@_auto_cancerr]

end @PH@
'''

PHASES = [
    dict(PH='Commits', ph='commits', S_AWAIT='s_state_dkg_commits_await_confirmations', S_NEXT='s_state_dkg_deals_await_confirmations',
         S_CERR='s_state_dkg_commits_await_canceled_by_error', S_CTO='s_state_dkg_commits_await_canceled_by_timeout',
         E_OK='e_event_dkg_commit_confirm_received', E_ERR='e_event_dkg_commit_confirm_canceled_by_error', E_VAL='e_event_dkg_commits_validate_internal',
         E_DONE='e_event_dkg_commits_confirmed_internal', E_TO='e_event_dkg_commits_confirm_canceled_by_timeout_internal',
         E_ERRINT='e_event_dkg_commits_confirm_canceled_by_error_internal',
         A_OK='dkg_actionCommitConfirmationReceived', A_OKFN='dkg_actionCommitConfirmationReceived',
         A_VAL='dkg_actionValidateDkgProposalAwaitCommits', A_VALFN='dkg_actionValidateDkgProposalAwaitCommits',
         ARG='commit', FIELD='commit', AWAIT='0', OK='1', ERR='2', NEXT='3',
         MKRESP='(fun q => .dkgCommits ((orderedIdx q).map (fun (i, x) => (i, x.username, x.commit))))'),
    dict(PH='Deals', ph='deals', S_AWAIT='s_state_dkg_deals_await_confirmations', S_NEXT='s_state_dkg_responses_await_confirmations',
         S_CERR='s_state_dkg_deals_await_canceled_by_error', S_CTO='s_state_dkg_deals_await_canceled_by_timeout',
         E_OK='e_event_dkg_deal_confirm_received', E_ERR='e_event_dkg_deal_confirm_canceled_by_error', E_VAL='e_event_dkg_deals_validate_internal',
         E_DONE='e_event_dkg_deals_confirmed_internal', E_TO='e_event_dkg_deals_confirm_canceled_by_timeout_internal',
         E_ERRINT='e_event_dkg_deals_confirm_canceled_by_error_internal',
         A_OK='dkg_actionDealConfirmationReceived', A_OKFN='dkg_actionDealConfirmationReceived',
         A_VAL='dkg_actionValidateDkgProposalAwaitDeals', A_VALFN='dkg_actionValidateDkgProposalAwaitDeals',
         ARG='deal', FIELD='deal', AWAIT='3', OK='4', ERR='5', NEXT='6',
         MKRESP='(fun q => .dkgDeals (((orderedIdx q).filter (fun (_, x) => !x.deal.isEmpty)).map (fun (i, x) => (i, x.username, x.deal))))'),
    dict(PH='Responses', ph='responses', S_AWAIT='s_state_dkg_responses_await_confirmations', S_NEXT='s_state_dkg_master_key_await_confirmations',
         S_CERR='s_state_dkg_responses_await_canceled_by_error', S_CTO='s_state_dkg_responses_sending_canceled_by_timeout',
         E_OK='e_event_dkg_response_confirm_received', E_ERR='e_event_dkg_response_confirm_canceled_by_error', E_VAL='e_event_dkg_responses_validate_internal',
         E_DONE='e_event_dkg_responses_confirmed_internal', E_TO='e_event_dkg_response_confirm_canceled_by_timeout_internal',
         E_ERRINT='e_event_dkg_response_confirm_canceled_by_error_internal',
         A_OK='dkg_actionResponseConfirmationReceived', A_OKFN='dkg_actionResponseConfirmationReceived',
         A_VAL='dkg_actionValidateDkgProposalAwaitResponses', A_VALFN='dkg_actionValidateDkgProposalAwaitResponses',
         ARG='response', FIELD='response', AWAIT='6', OK='7', ERR='8', NEXT='9',
         MKRESP='(fun q => .dkgResponses ((orderedIdx q).map (fun (i, x) => (i, x.username, x.response))))'),
]

HEADER = '''/-
  The commits, deals and responses phases of the key-generation machine: table facts, `Do` as an
  equation, the phase invariant and the outcome of an accepted contribution / error report.
  WRITTEN BY /verif/lib/gen_dkgphase.py from one template (the three phases share one callback
  shape in the model, so the proofs are the same text); checked into git like any proof file.
-/
import Dc4bcVerif.Lemmas.DkgCommon

namespace Dc4bcVerif.Model
open Dc4bcVerif.Gen
'''

def main():
    out = HEADER
    for ph in PHASES:
        t = TEMPLATE
        for k, v in ph.items():
            t = t.replace('@%s@' % k, v)
        out += t
    out += '\nend Dc4bcVerif.Model\n'
    path = os.path.join(os.path.dirname(os.path.dirname(os.path.abspath(__file__))), 'lean', 'Dc4bcVerif', 'Lemmas', 'DkgPhases.lean')
    open(path, 'w').write(out)
    print('wrote', path)

if __name__ == '__main__':
    main()
