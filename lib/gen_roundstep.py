#!/usr/bin/env python3
"""Writes lean/Dc4bcVerif/Lemmas/RoundStepDkg.lean: preservation of the round invariant by one step
in the commits / deals / responses phases (one template, three instances)."""
import os
TEMPLATE = r'''
theorem @ph@_step_inv (p : Payload) (e : Ev) (a : Arg) (dc : DkgConf) (hinv : @PH@Inv p dc)
    (hok : (doEvent dkgMachine runAction s@PH@Await p e a).res = .ok) :
    phaseInv (doEvent dkgMachine runAction s@PH@Await p e a).state (doEvent dkgMachine runAction s@PH@Await p e a).payload := by
  by_cases h1 : e = e@PH@Ok
  · subst h1
    obtain ⟨pid, data, ts, part, _, _, _, hcase⟩ := @ph@_received_outcome p a dc hinv hok
    rcases hcase with ⟨_, hst⟩ | ⟨_, hcnt, hst, dc', hd', hlen', hall'⟩ | ⟨_, _, hst, dc', hinv', _, _⟩
    · rw [hst]; trivial
    · rw [hst]
      have hpos : (0 : Int) < (dc'.quorum.length : Int) := by
        have := cntDkg_nonneg dc @OK@; rw [hlen']; omega
      @NEXTINV@
    · rw [hst]; exact ⟨dc', hinv'⟩
  · by_cases h2 : e = e@PH@Err
    · subst h2
      rw [@ph@_error_outcome p a hok]; trivial
    · rw [doEvent_route (@ph@_other e h1 h2)] at hok; cases hok
'''
NEXT_DKG = '''exact ⟨dc', hd', fun q hq => Or.inl (hall' q hq), by rw [cntDkg_zero_of_all dc' @NEXT@ @NEXTOK@ (by decide) hall']; exact hpos⟩'''
NEXT_MK = '''refine ⟨dc', hd', fun q hq => Or.inl (hall' q hq), by rw [cntDkg_zero_of_all dc' 9 10 (by decide) hall']; exact hpos, ?_⟩
      intro q hq q' _ hs _
      rw [hall' q hq] at hs; cases hs'''
PHASES = [dict(PH='Commits', ph='commits', OK='1', NEXT='3', NEXTOK='4', NEXTINV=NEXT_DKG),
          dict(PH='Deals', ph='deals', OK='4', NEXT='6', NEXTOK='7', NEXTINV=NEXT_DKG),
          dict(PH='Responses', ph='responses', OK='7', NEXT='9', NEXTOK='10', NEXTINV=NEXT_MK)]
HEADER = '''/-
  One step in the commits / deals / responses phases preserves the round invariant.
  WRITTEN BY /verif/lib/gen_roundstep.py from one template; checked into git like any proof file.
-/
import Dc4bcVerif.Lemmas.RoundInv

namespace Dc4bcVerif.Model
open Dc4bcVerif.Gen
'''
def main():
    out = HEADER
    for ph in PHASES:
        t = TEMPLATE.replace('@NEXTINV@', ph['NEXTINV'])
        for k, v in ph.items():
            t = t.replace('@%s@' % k, v)
        out += t
    out += '\nend Dc4bcVerif.Model\n'
    path = os.path.join(os.path.dirname(os.path.dirname(os.path.abspath(__file__))), 'lean', 'Dc4bcVerif', 'Lemmas', 'RoundStepDkg.lean')
    open(path, 'w').write(out)
    print('wrote', path)
if __name__ == '__main__':
    main()
