/- board sub-driver: `reset`, `send <id> <size>`, `read <off> <ids|-> <offs|->` (see harness/boarddiff.go) -/
import Driver.Parse
import Dc4bcVerif.Model.Board

namespace Driver
open Dc4bcVerif.Model Dc4bcVerif.Model.Board

def boardStep (file : List Entry) (toks : List String) : List Entry × String :=
  match toks with
  | ["reset"] => ([], "reset")
  | ["send", id, size] =>
    match parseStr id, size.toNat? with
    | some id, some sz =>
      let f' := send genCfg file id sz
      (f', match f'.getLast? with | some e => s!"off {e.offset}" | none => "bad-op")
    | _, _ => (file, "bad-op")
  | ["read", off, ids, offs] =>
    let idList : Option (List String) := if ids == "-" then some [] else (ids.splitOn ",").mapM parseStr
    let offList : Option (List Nat) := if offs == "-" then some [] else (offs.splitOn ",").mapM String.toNat?
    match off.toNat?, idList, offList with
    | some k, some il, some ol =>
      match getMessages genCfg file k il ol with
      | some ms => (file, "ok [" ++ ",".intercalate (ms.map (fun e => s!"{e.offset}:{hs e.id}")) ++ "]")
      | none => (file, "err")
    | _, _, _ => (file, "bad-op")
  | _ => (file, "bad-op")

end Driver
