/- airdkg sub-driver: the airgapped machine's key-generation handlers (`Model/AirDkg.lean`) over `Fr`; see harness/airdkg.go -/
import Driver.AlgDriver
import Dc4bcVerif.Model.AirDkg
import Dc4bcVerif.Model.AirReinit

namespace Driver
open Dc4bcVerif.Model Dc4bcVerif.Model.AirDkg

instance : NatCast Fr := ⟨Fr.ofNat⟩

abbrev AM := Machine Fr Nat

structure AirDkgSt where
  ms : List (Nat × AM) := []
  /-- per machine: what it was handed so far, newest first, in the terms of a re-initialisation payload (`reinit … from …`) -/
  hist : List (Nat × List (Inner Fr Nat)) := []

abbrev P := StateT (List String) Option

def tok : P String := do
  match (← get) with
  | [] => failure
  | t :: rest => set rest; pure t

def pNat : P Nat := do match (← tok).toNat? with | some n => pure n | none => failure
def pInt : P Int := do match (← tok).toInt? with | some n => pure n | none => failure
def pBool : P Bool := do match (← tok) with | "1" => pure true | "0" => pure false | _ => failure
def pFr : P Fr := do match parseFr (← tok) with | some n => pure n | none => failure
def pStr : P String := do match parseStr (← tok) with | some n => pure n | none => failure

def pMany {α : Type} (p : P α) : Nat → P (List α)
  | 0 => pure []
  | k + 1 => do let a ← p; let rest ← pMany p k; pure (a :: rest)

def pList {α : Type} (p : P α) : P (List α) := do let k ← pNat; pMany p k

/-- `-` or a value -/
def pOpt {α : Type} (p : P α) : P (Option α) := do
  match (← get) with
  | "-" :: rest => set rest; pure none
  | _ => some <$> p

def pSid : P (Sid Fr) := do let d ← pNat; let t ← pNat; let cs ← pList pFr; pure (d, cs, t)

def pPlain : P (PlainDeal Fr) := do
  let sid ← pSid; let i ← pNat; let v ← pFr; let t ← pNat; let cs ← pList pFr
  pure { sid := sid, secI := i, secV := v, thr := t, commits := cs }

def pOuter : P (OuterDeal Fr) := do
  let idx ← pNat; let s ← pBool; let inner ← pOpt pPlain
  pure { idx := idx, sigOk := s, inner := inner }

def pResp : P (RespMsg Fr) := do
  let d ← pNat; let v ← pNat; let s ← pBool; let sid ← pSid; let ok ← pBool
  pure { dealer := d, ver := v, status := s, sid := sid, sigOk := ok }

def pKeyEntry : P (KeyEntry Nat) := do
  let pid ← pInt; let name ← pStr; let key ← pOpt pNat; let thr ← pInt
  pure { pid := pid, name := name, key := key, thr := thr }

def frHex (x : Fr) : String := natToHex32 x.val
def strHex (s : String) : String := hexOfBytes s.toUTF8.toList

def showRes (m : AM) (round : String) (r : Res Fr) : String :=
  match outcome m round r with
  | .fatal => "fatal"
  | .errorResult pid => s!"err pid={pid}"
  | .result .err => "err"
  | .result .badOracle => "bad-oracle"
  | .result (.commits pid cs) => s!"commits pid={pid} " ++ " ".intercalate (cs.map frHex)
  | .result (.deals pid ds self) =>
    s!"deals pid={pid} self={strHex self} " ++ " ".intercalate (ds.map (fun d =>
      let k := match d.2.1 with | some k => toString k | none => "-"
      let v := match d.2.2.inner with | some p => frHex p.secV | none => "-"
      s!"{strHex d.1}:{k}:{v}"))
  | .result (.responses pid ds) => s!"responses pid={pid} " ++ " ".intercalate (ds.map toString)
  | .result (.partials pid share n) =>
    let sh := match share with | some x => frHex x | none => "-"
    s!"partials pid={pid} n={n} share={sh}"
  | .result (.masterKey pid key poly) =>
    let share := match lookup round m.rings with | some kr => frHex kr.share | none => "-"
    let k := match key with | some k => frHex k | none => "-"
    s!"masterkey pid={pid} key={k} share={share} poly=" ++ ",".intercalate (poly.map frHex)

def getM (s : AirDkgSt) (m : Nat) : Option AM := (s.ms.find? (·.1 == m)).map (·.2)
def setM (s : AirDkgSt) (m : Nat) (v : AM) : AirDkgSt := { s with ms := (m, v) :: s.ms.filter (·.1 != m) }
def getH (s : AirDkgSt) (m : Nat) : List (Inner Fr Nat) := ((s.hist.find? (·.1 == m)).map (·.2)).getD []
def pushH (s : AirDkgSt) (m : Nat) (e : Inner Fr Nat) : AirDkgSt := { s with hist := (m, e :: getH s m) :: s.hist.filter (·.1 != m) }

def showReinit (r : ReinitRes Fr) : String :=
  match r with
  | .fatal => "fatal"
  | .errorResult pid => s!"err pid={pid}"
  | .processed poly => "processed poly=" ++ ",".intercalate (poly.map frHex)

def runP {α : Type} (p : P α) (toks : List String) : Option α :=
  match p.run toks with
  | some (a, []) => some a
  | _ => none

def airDkgStep (s : AirDkgSt) (toks : List String) : AirDkgSt × String :=
  match toks with
  | ["new", m, k] =>
    match m.toNat?, k.toNat? with
    | some m, some k => (setM s m { me := k }, "ok")
    | _, _ => (s, "bad-op")
  | ["stop", m] =>
    match m.toNat? >>= getM s with
    | some v => (setM s m.toNat! (stop v), "ok")
    | none => (s, "bad-op")
  | ["innerskip", m] =>
    match m.toNat? with
    | some mi => (pushH s mi .skip, "ok")
    | none => (s, "bad-op")
  | ["innerfail", m, round] =>
    match m.toNat?, parseStr round with
    | some mi, some round => (pushH s mi (.failing round), "ok")
    | _, _ => (s, "bad-op")
  | ["reinit", m, round, "from", sh] =>
    match m.toNat?, parseStr round, sh.toNat? with
    | some mi, some round, some si =>
      match getM s mi with
      | none => (s, "bad-op")
      | some v =>
        let x := reinitOp v round (getH s si).reverse
        (setM s mi x.1, showReinit x.2)
    | _, _, _ => (s, "bad-op")
  | ["ring", m, round] =>
    match m.toNat? >>= getM s, parseStr round with
    | some v, some round =>
      (s, "share=" ++ (match lookup round v.rings with | some kr => frHex kr.share | none => "-"))
    | _, _ => (s, "bad-op")
  | op :: m :: round :: rest =>
    match m.toNat?, parseStr round with
    | some mi, some round =>
      match getM s mi with
      | none => (s, "bad-op")
      | some v =>
        let fin (x : AM × Res Fr) : AirDkgSt × String := (setM s mi x.1, showRes x.1 round x.2)
        let finH (e : Inner Fr Nat) (x : AM × Res Fr) : AirDkgSt × String := (pushH (setM s mi x.1) mi e, showRes x.1 round x.2)
        match op with
        | "badpayload" => finH (.failing round) (v, .err)
        | "sign" =>
          match rest with
          | [ok, n] =>
            let msgs : Option Nat := if n == "-" then none else n.toNat?
            if n != "-" && msgs.isNone then (s, "bad-op") else
            finH (.sign round (ok == "1") msgs) (signOp v round (ok == "1") msgs)
          | _ => (s, "bad-op")
        | "commits" =>
          match runP (do let es ← pList pKeyEntry; let poly ← pList pFr; pure (es, poly)) rest with
          | some (es, poly) => finH (.kg (.commits round es poly)) (commitsOp v round es poly)
          | none => (s, "bad-op")
        | "deals" =>
          match runP (pList (do let n ← pStr; let cs ← pOpt (pList pFr); pure (n, cs))) rest with
          | some es => finH (.kg (.deals round es)) (dealsOp v round es)
          | none => (s, "bad-op")
        | "responses" =>
          match runP (pList (do let pid ← pInt; let n ← pStr; let d ← pOpt pOuter; pure (pid, n, d))) rest with
          | some es =>
            -- the order of Go's range over the stored deals is not observable: a fixed one is used (see C12Air)
            let ord := match lookup round v.insts with
              | some i => (dealNames (storeDeals i es).1)
              | none => []
            finH (.kg (.responses round es ord)) (responsesOp v round es ord)
          | none => (s, "bad-op")
        | "masterkey" =>
          match runP (pList (do let n ← pStr; let rs ← pOpt (pList pResp); pure (n, rs))) rest with
          | some es =>
            let ord := match lookup round v.insts with
              | some i => (storeIdxs (storeResponses i es).1)
              | none => []
            finH (.kg (.masterKey round es ord)) (masterKeyOp v round es ord)
          | none => (s, "bad-op")
        | _ => (s, "bad-op")
    | _, _ => (s, "bad-op")
  | _ => (s, "bad-op")

end Driver
