/- boardlines sub-driver (`Model/BoardLines.lean`): `reset`, `send <id> <size>`, `dies <size>`, `garbage <size>`,
   `read <off> <ids|-> <offs|->` (see harness/boarddiff.go, odd-line histories) -/
import Driver.Parse
import Dc4bcVerif.Model.BoardLines

namespace Driver
open Dc4bcVerif.Model Dc4bcVerif.Model.BoardLines

def boardLinesStep (f : File) (toks : List String) : File × String :=
  match toks with
  | ["reset"] => ({}, "reset")
  | ["send", id, size] =>
    match parseStr id, size.toNat? with
    | some id, some sz =>
      let f' := send f id sz
      (f', match f'.lines.getLast? with | some (.msg e) => s!"off {e.offset}" | _ => "bad-op")
    | _, _ => (f, "bad-op")
  | ["dies", size] =>
    match size.toNat? with
    | some sz => (step f (.dies sz), "ok")
    | none => (f, "bad-op")
  | ["garbage", size] =>
    match size.toNat? with
    | some sz => (step f (.garbage sz), "ok")
    | none => (f, "bad-op")
  | ["read", off, ids, offs] =>
    let idList : Option (List String) := if ids == "-" then some [] else (ids.splitOn ",").mapM parseStr
    let offList : Option (List Nat) := if offs == "-" then some [] else (offs.splitOn ",").mapM String.toNat?
    match off.toNat?, idList, offList with
    | some k, some il, some ol =>
      (f, "ok [" ++ ",".intercalate ((getMessages f k il ol).map (fun e => s!"{e.offset}:{hs e.id}")) ++ "]")
    | _, _, _ => (f, "bad-op")
  | _ => (f, "bad-op")

end Driver
