/- node sub-driver: `node`, `msg …`, `exec …`, `approve …` (see harness/nodediff.go) -/
import Driver.Parse
import Driver.SszDriver
import Dc4bcVerif.Model.NodeOps

namespace Driver
open Dc4bcVerif.Model Dc4bcVerif.Model.Node Dc4bcVerif.Gen

def rRSig (s : RSig) : String :=
  joinWith ":" [hs s.file, hs s.batch, hs s.msgId, hx s.srcPayload, hx s.signature, hs s.username, hs s.round, toString s.valIdx]

/-- dump rendering for node runs: timestamps that come from `time.Now()` inside the node are masked -/
def rDkgN : Option DkgConf → String
  | none => "nil"
  | some c => "[u=" ++ rTime c.updatedAt ++ " poly=" ++ hx c.pubPolyBz ++ " q=(" ++ joinWith ";" (c.quorum.map rDkgPart) ++ ")]"

def rSignN : Option SignConf → String
  | none => "nil"
  | some c => "[batch=" ++ hs c.batchId ++ " init=" ++ toString c.initiatorId ++ " u=" ++ rTime c.updatedAt ++
      " src=" ++ rTasks c.srcPayload ++ " q=(" ++ joinWith ";" (c.quorum.map rSignPart) ++ ")]"

def rDumpN (ds : Option St) (p : Payload) : String :=
  "D{st=" ++ rOptSt ds ++ " id=" ++ hs p.dkgId ++ " thr=" ++ toString p.threshold ++ " sig=" ++ rSig p.sig ++
  " dkg=" ++ rDkgN p.dkg ++ " sign=" ++ rSignN p.sign ++ " keys=" ++ rMapBytes p.pubKeys ++ " ids=" ++ rMapInt p.ids ++ "}"

def sortStrs (l : List String) : List String := (sortByKey (l.map (fun s => (s, "")))).map (·.1)

def rOp (o : NOp) : String := hs o.type ++ "/" ++ hs o.round ++ "/" ++ rResp (some o.payload)

def rNodeSt (st : NodeSt) : String :=
  let rounds := sortStrs (st.rounds.map (fun (r, (ds, p)) => hexOfString r ++ "=" ++ rDumpN ds p))
  let ops := sortStrs ((visibleOps st).map rOp)
  let del := sortStrs (st.deleted.map rOp)
  let sigs := sortStrs (st.sigs.flatMap (fun (round, bm) => bm.flatMap (fun (batch, mm) => mm.map (fun (mid, entries) =>
    hexOfString round ++ "/" ++ hexOfString batch ++ "/" ++ hexOfString mid ++ "=[" ++ joinWith "," (entries.map rRSig) ++ "]"))))
  "S{rounds=(" ++ joinWith " ; " rounds ++ ") ops=(" ++ joinWith " ; " ops ++ ") deleted=(" ++ joinWith " ; " del ++
  ") sigs=(" ++ joinWith " ; " sigs ++ ")}"

def rOutcome : Outcome → String
  | .ok => "ok" | .reject => "reject" | .panic => "panic"

def parseRSigs : Nat → List String → Option (List RSig × List String)
  | 0, l => some ([], l)
  | k + 1, f :: b :: mid :: src :: sg :: u :: r :: v :: rest => do
    let s : RSig := ⟨← parseStr f, ← parseStr b, ← parseStr mid, ← parseBytes src, ← parseBytes sg, ← parseStr u, ← parseStr r, ← parseInt v⟩
    let (more, rest') ← parseRSigs k rest
    pure (s :: more, rest')
  | _, _ => none

def splitBar (toks : List String) : List (List String) :=
  toks.foldr (fun t acc => if t == "|" then [] :: acc else match acc with
    | [] => [[t]]
    | h :: r => (t :: h) :: r) [[]]

def payloadOfMsg (x : Tasks.Msg) : Bytes :=
  match x.payload, x.baked with
  | some p, _ => p
  | none, some v => (Ssz.codeSigningRoot sha (UInt64.ofNat v)).getD []
  | none, none => []

def parseKeys (tok : String) : Option (List Bytes) :=
  if tok == "-" then some [] else (tok.splitOn ",").mapM parseBytes

def parseTasksSec : List String → Option (String × List Task)
  | batch :: k :: rest => do
    let k ← k.toNat?
    let (gs, rest') ← groups 5 k rest
    if !rest'.isEmpty then none
    let tasks ← gs.mapM (fun g => match g with
      | [mid, f, pl, rs, re] => do pure (⟨← parseStr mid, ← parseStr f, ← parseOptBytes pl, ← parseInt rs, ← parseInt re⟩ : Task)
      | _ => none)
    pure ((← parseStr batch), tasks)
  | _ => none

/-- `msg <round> <event> <from> <to> <now> <keys> | arg … | sigs … | prop … | recon …` -/
def parseNMsg (toks : List String) : Option (NMsg × Time) :=
  match splitBar toks with
  | [r, ev, fr, to, now, keys] :: secs => do
    let argSec := secs.find? (fun s => s.head? == some "arg")
    let sigSec := secs.find? (fun s => s.head? == some "sigs")
    let propSec := secs.find? (fun s => s.head? == some "prop")
    let reconSec := secs.find? (fun s => s.head? == some "recon")
    let arg : Option Arg := match argSec with
      | some (_ :: rest) => if rest == ["other"] then some .other else parseArg rest
      | _ => none
    let sigs : Option (List RSig) := match sigSec with
      | some (_ :: n :: rest) => (n.toNat?).bind (fun n => (parseRSigs n rest).map (·.1))
      | _ => none
    let prop := match propSec with
      | some (_ :: rest) => parseTasksSec rest
      | _ => none
    let recon : Option (List RSig) := match reconSec with
      | some (_ :: n :: rest) => (n.toNat?).bind (fun n => (parseRSigs n rest).map (·.1))
      | _ => none
    pure ({ round := ← parseStr r, event := ← parseStr ev, sender := ← parseStr fr, recipient := ← parseStr to,
            arg := arg, validKeys := ← parseKeys keys, sigs := sigs, proposal := prop, recon := recon }, ← parseTime now)
  | _ => none

def rSent (s : Sent) : String := hs s.event ++ "/" ++ hs s.round ++ "/[" ++ joinWith "," (s.sigs.map rRSig) ++ "]"

def nodeStep (st : NodeSt) (toks : List String) : NodeSt × String :=
  match toks with
  | ["node", self, key] =>
    match parseStr self, parseBytes key with
    | some s, some k => ({ self := s, selfKey := k }, "node")
    | _, _ => (st, "bad-op")
  | "msg" :: rest =>
    match parseNMsg rest with
    | none => (st, "bad-op")
    | some (m, now) =>
      let r := processMessageTop st m now payloadOfMsg
      (r.st, rOutcome r.out ++ " sent=(" ++ joinWith ";" (r.sent.map rSent) ++ ") " ++ rNodeSt r.st)
  | "trymsg" :: rest =>
    match parseNMsg rest with
    | none => (st, "bad-op")
    | some (m, now) =>
      let r := processMessageTop st m now payloadOfMsg
      (st, rOutcome r.out ++ " sent=(" ++ joinWith ";" (r.sent.map rSent) ++ ") " ++ rNodeSt r.st)
  | "reinit" :: rest =>
    -- `reinit <dkgId> <now> <np> {name key}* {|| <patch> <msg tokens…>}*`
    let chunks := splitOn2 rest
    match chunks with
    | (id :: now :: np :: ps) :: inner =>
      match parseStr id, parseTime now, np.toNat? with
      | some id, some now, some np =>
        let parts : Option (List (String × Bytes)) := (pairsOf np ps)
        let msgs : Option (List InnerMsg) := inner.mapM (fun c => match c with
          | patch :: mt => (parseNMsg mt).map (fun (m, _) => ({ msg := m, patch := patch == "1" } : InnerMsg))
          | [] => none)
        match parts, msgs with
        | some parts, some msgs =>
          let r := reinitDKG st { dkgId := id, participants := parts, inner := msgs } now payloadOfMsg
          (r.st, rOutcome r.out ++ " " ++ rNodeSt r.st)
        | _, _ => (st, "bad-op")
      | _, _, _ => (st, "bad-op")
    | _ => (st, "bad-op")
  | ["reput", idx] =>
    match idx.toNat?.bind (fun k => (sortOps st.deleted)[k]?) with
    | none => (st, "bad-op")
    | some op =>
      match putOperation st op with
      | some st' => (st', "ok " ++ rNodeSt st')
      | none => (st, "reject " ++ rNodeSt st)
  | ["reset"] => (resetState st, "ok " ++ rNodeSt (resetState st))
  | "skipverify" :: [b] => ({ st with skipVerify := b == "1" }, "ok")
  | "exec" :: rest =>
    match parseSubOp rest with
    | none => (st, "bad-op")
    | some sub =>
      let r := executeOperation st sub
      (r.st, rOutcome r.out ++ " posted=(" ++ joinWith ";" (r.posted.map rOutMsg) ++ ") " ++ rNodeSt r.st)
  | ["approve", idx] =>
    let idOf : Option NOp := match idx.toNat? with
      | some k => (sortOps (visibleOps st))[k]?
      | none => none
    let r := approveParticipation st idOf
    let posted := match r.posted with
      | some (round, to, pid) => hs "event_sig_proposal_confirm_by_participant" ++ ":" ++ hs round ++ ":" ++ hs to ++ ":" ++ hs st.self ++ ":sigPart:" ++ toString pid ++ ":signed"
      | none => ""
    (r.st, rOutcome r.out ++ " posted=(" ++ posted ++ ") " ++ rNodeSt r.st)
  | _ => (st, "bad-op")
where
  splitOn2 (toks : List String) : List (List String) :=
    toks.foldr (fun t acc => if t == "||" then [] :: acc else match acc with
      | [] => [[t]]
      | h :: r => (t :: h) :: r) [[]]
  pairsOf : Nat → List String → Option (List (String × Bytes))
    | 0, _ => some []
    | k + 1, n :: key :: rest => do
      let more ← pairsOf k rest
      pure ((← parseStr n, ← parseBytes key) :: more)
    | _, _ => none
  rOutMsg (m : OutMsg) : String := joinWith ":" [hs m.event, hs m.round, hs m.recipient, hs m.sender, hx m.data, if m.signedBySelf then "signed" else "unsigned"]
  parseOutMsgs : Nat → List String → Option (List OutMsg × List String)
    | 0, l => some ([], l)
    | k + 1, ev :: r :: to :: d :: rest => do
      let m : OutMsg := { event := ← parseStr ev, round := ← parseStr r, recipient := ← parseStr to, data := ← parseBytes d }
      let (more, rest') ← parseOutMsgs k rest
      pure (m :: more, rest')
    | _, _ => none
  /-- `exec <idx|-> <typeSame> <payloadSame> <round> <event|-> <extra> <n> {ev round to data}*`: `idx` is the
  position, in the sorted list of pending operations, of the one whose ID the submitted operation carries -/
  parseSubOp (toks : List String) : Option SubOp :=
    match toks with
    | idx :: ts :: ps :: r :: ev :: extra :: n :: rest => do
      let n ← n.toNat?
      let (msgs, _) ← parseOutMsgs n rest
      let idOf : Option NOp := match idx.toNat? with
        | some k => (sortOps (visibleOps st))[k]?
        | none => none
      pure { idOf := idOf, typeSame := ts == "1", payloadSame := ps == "1", round := ← parseStr r,
             event := (if ev == "-" then "" else (parseStr ev).getD "?"), extra := ← parseBytes extra, resultMsgs := msgs }
    | _ => none
  sortOps (l : List NOp) : List NOp :=
    let keyed := l.map (fun o => (rOp o, o))
    (sortByKey (keyed.map (fun (k, _) => (k, "")))).filterMap (fun (k, _) => (keyed.find? (fun p => p.1 == k)).map (·.2))

end Driver
