import Driver.FsmDriver

open Driver

partial def loopFsm (h : IO.FS.Stream) (out : IO.FS.Stream) (s : FsmSt) : IO Unit := do
  let line ← h.getLine
  if line.isEmpty then return ()
  let toks := (line.trimAscii.toString.splitOn " ").filter (· != "")
  let (s', o) := fsmStep s toks
  out.putStrLn o
  loopFsm h out s'

def main (args : List String) : IO UInt32 := do
  let stdin ← IO.getStdin
  let stdout ← IO.getStdout
  match args with
  | ["fsm"] => loopFsm stdin stdout {}; pure 0
  | _ => IO.eprintln "usage: driver fsm|…"; pure 2
