import Driver.FsmDriver
import Driver.SszDriver
import Driver.BoardDriver
import Driver.BoardLinesDriver
import Driver.AlgDriver
import Driver.NodeDriver
import Driver.AirDriver
import Driver.ReinitDriver
import Driver.AirDkgDriver

open Driver

partial def loopFsm (h : IO.FS.Stream) (out : IO.FS.Stream) (s : FsmSt) : IO Unit := do
  let line ← h.getLine
  if line.isEmpty then return ()
  let toks := (line.trimAscii.toString.splitOn " ").filter (· != "")
  let (s', o) := fsmStep s toks
  out.putStrLn o
  loopFsm h out s'

partial def loopFsmR (h : IO.FS.Stream) (out : IO.FS.Stream) (s : FsmSt) : IO Unit := do
  let line ← h.getLine
  if line.isEmpty then return ()
  let toks := (line.trimAscii.toString.splitOn " ").filter (· != "")
  let (s', o) := fsmReapply s toks
  out.putStrLn o
  loopFsmR h out s'

partial def loopSsz (h : IO.FS.Stream) (out : IO.FS.Stream) (s : SszSt) : IO Unit := do
  let line ← h.getLine
  if line.isEmpty then return ()
  let toks := (line.trimAscii.toString.splitOn " ").filter (· != "")
  out.putStrLn (sszStep s toks)
  loopSsz h out s

partial def loopBoard (h : IO.FS.Stream) (out : IO.FS.Stream) (f : List Dc4bcVerif.Model.Board.Entry) : IO Unit := do
  let line ← h.getLine
  if line.isEmpty then return ()
  let toks := (line.trimAscii.toString.splitOn " ").filter (· != "")
  let (f', o) := boardStep f toks
  out.putStrLn o
  loopBoard h out f'

partial def loopBoardLines (h : IO.FS.Stream) (out : IO.FS.Stream) (f : Dc4bcVerif.Model.BoardLines.File) : IO Unit := do
  let line ← h.getLine
  if line.isEmpty then return ()
  let toks := (line.trimAscii.toString.splitOn " ").filter (· != "")
  let (f', o) := boardLinesStep f toks
  out.putStrLn o
  loopBoardLines h out f'

partial def loopAlg (h : IO.FS.Stream) (out : IO.FS.Stream) (st : AlgSt) : IO Unit := do
  let line ← h.getLine
  if line.isEmpty then return ()
  let toks := (line.trimAscii.toString.splitOn " ").filter (· != "")
  let (st', o) := algStep st toks
  out.putStrLn o
  loopAlg h out st'

partial def loopNode (h : IO.FS.Stream) (out : IO.FS.Stream) (st : Dc4bcVerif.Model.Node.NodeSt) : IO Unit := do
  let line ← h.getLine
  if line.isEmpty then return ()
  let toks := (line.trimAscii.toString.splitOn " ").filter (· != "")
  let (st', o) := nodeStep st toks
  out.putStrLn o
  loopNode h out st'

partial def loopAir (h : IO.FS.Stream) (out : IO.FS.Stream) (m : AirM) : IO Unit := do
  let line ← h.getLine
  if line.isEmpty then return ()
  let toks := (line.trimAscii.toString.splitOn " ").filter (· != "")
  let (m', o) := airStep m toks
  out.putStrLn o
  loopAir h out m'

partial def loopReinit (h : IO.FS.Stream) (out : IO.FS.Stream) : IO Unit := do
  let line ← h.getLine
  if line.isEmpty then return ()
  let toks := (line.trimAscii.toString.splitOn " ").filter (· != "")
  out.putStrLn (reinitStep toks)
  loopReinit h out

partial def loopAirDkg (h : IO.FS.Stream) (out : IO.FS.Stream) (st : AirDkgSt) : IO Unit := do
  let line ← h.getLine
  if line.isEmpty then return ()
  let toks := (line.trimAscii.toString.splitOn " ").filter (· != "")
  let (st', o) := airDkgStep st toks
  out.putStrLn o
  loopAirDkg h out st'

def main (args : List String) : IO UInt32 := do
  let stdin ← IO.getStdin
  let stdout ← IO.getStdout
  match args with
  | ["fsm"] => loopFsm stdin stdout {}; pure 0
  | ["fsm-reapply"] => loopFsmR stdin stdout {}; pure 0
  | ["node"] => loopNode stdin stdout { self := "" }; pure 0
  | ["reinit"] => loopReinit stdin stdout; pure 0
  | ["air"] => loopAir stdin stdout Dc4bcVerif.Model.Air.fresh; pure 0
  | ["alg"] => loopAlg stdin stdout {}; pure 0
  | ["airdkg"] => loopAirDkg stdin stdout {}; pure 0
  | ["board"] => loopBoard stdin stdout []; pure 0
  | ["boardlines"] => loopBoardLines stdin stdout {}; pure 0
  | ["ssz"] => loopSsz stdin stdout ⟨Dc4bcVerif.Model.Tasks.bakedIndices.toArray⟩; pure 0
  | _ => IO.eprintln "usage: driver fsm|…"; pure 2
