/- reinit sub-driver: `hashedit <file1> || <file2>` — does the hashed byte string differ? (see harness/reinitdiff.go) -/
import Driver.Parse
import Dc4bcVerif.Model.ReinitHash

namespace Driver
open Dc4bcVerif.Model Dc4bcVerif.Model.ReinitHash

def strBytes (tok : String) : Option Bytes := (parseStr tok).map (fun s => s.toUTF8.toList)

def parseParts : Nat → List String → Option (List Part × List String)
  | 0, l => some ([], l)
  | k + 1, a :: b :: c :: d :: rest => do
    let p : Part := ⟨← parseBytes a, ← parseBytes b, ← parseBytes c, ← strBytes d⟩
    let (more, rest') ← parseParts k rest
    pure (p :: more, rest')
  | _, _ => none

def parseRMsgs : Nat → List String → Option (List RMsg × List String)
  | 0, l => some ([], l)
  | k + 1, d :: s :: r :: e :: sn :: rd :: off :: rest => do
    let m : RMsg := ⟨← parseBytes d, ← parseBytes s, ← strBytes r, ← strBytes e, ← strBytes sn, ← strBytes rd, ← off.toInt?⟩
    let (more, rest') ← parseRMsgs k rest
    pure (m :: more, rest')
  | _, _ => none

def parseReDKG (toks : List String) : Option ReDKG :=
  match toks with
  | id :: thr :: np :: rest => do
    let (ps, rest1) ← parseParts (← np.toNat?) rest
    match rest1 with
    | nm :: rest2 => do
      let (ms, _) ← parseRMsgs (← nm.toNat?) rest2
      pure ⟨← strBytes id, ← thr.toInt?, ps, ms⟩
    | [] => none
  | _ => none

def reinitStep (toks : List String) : String :=
  match toks with
  | "hashedit" :: rest =>
    match parseReDKG (rest.takeWhile (· != "||")), parseReDKG ((rest.dropWhile (· != "||")).drop 1) with
    | some a, some b => if hashInput decStr a == hashInput decStr b then "same" else "differs"
    | _, _ => "bad-op"
  | _ => "bad-op"

end Driver
