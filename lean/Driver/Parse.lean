/- token helpers for the line protocol (core-only) -/
import Dc4bcVerif.Model.Render

namespace Driver
open Dc4bcVerif.Model Dc4bcVerif.Gen

def hexVal (c : Char) : Option Nat :=
  if '0' ≤ c ∧ c ≤ '9' then some (c.toNat - 48)
  else if 'a' ≤ c ∧ c ≤ 'f' then some (c.toNat - 87)
  else if 'A' ≤ c ∧ c ≤ 'F' then some (c.toNat - 55)
  else none

partial def hexToBytesAux : List Char → List UInt8 → Option (List UInt8)
  | [], acc => some acc.reverse
  | [_], _ => none
  | a :: b :: t, acc =>
    match hexVal a, hexVal b with
    | some x, some y => hexToBytesAux t (UInt8.ofNat (x * 16 + y) :: acc)
    | _, _ => none

/-- token `x<hex>` → bytes -/
def parseBytes (tok : String) : Option Bytes :=
  match tok.toList with
  | 'x' :: rest => hexToBytesAux rest []
  | _ => none

def parseStr (tok : String) : Option String := do
  let b ← parseBytes tok
  String.fromUTF8? (ByteArray.mk b.toArray)

def parseOptBytes (tok : String) : Option (Option Bytes) :=
  if tok == "-" then some none else (parseBytes tok).map some

def parseOptStr (tok : String) : Option (Option String) :=
  if tok == "-" then some none else (parseStr tok).map some

def parseInt (tok : String) : Option Int := tok.toInt?

def parseTime (tok : String) : Option Time :=
  if tok == "z" then some zeroTime else tok.toInt?

def evOfName (s : String) : Option Ev := Ev.all.find? (fun e => e.name == s)
def stOfName (s : String) : Option St := St.all.find? (fun e => e.name == s)

/-- take `k` groups of `w` tokens -/
def groups (w : Nat) : Nat → List String → Option (List (List String) × List String)
  | 0, l => some ([], l)
  | k + 1, l =>
    if l.length < w then none else
    match groups w k (l.drop w) with
    | some (gs, rest) => some (l.take w :: gs, rest)
    | none => none

def parseArg : List String → Option Arg
  | "sigInit" :: thr :: ts :: n :: rest => do
    let thr ← parseInt thr; let ts ← parseTime ts; let n ← n.toNat?
    let (gs, rest') ← groups 3 n rest
    if !rest'.isEmpty then none
    let parts ← gs.mapM (fun g => match g with
      -- a JSON null in the list (a nil entry, refused by `Validate` since fix 7f6bdd6): to the model an entry without a name
      | ["NIL", _, _] => pure (⟨"", [], []⟩ : PartEntry)
      | [u, pk, dk] => do pure (⟨← parseStr u, ← parseBytes pk, ← parseBytes dk⟩ : PartEntry)
      | _ => none)
    pure (.sigInit parts thr ts)
  | ["sigPart", pid, ts] => do pure (.sigPart (← parseInt pid) (← parseTime ts))
  | ["default", ts] => do pure (.default (← parseTime ts))
  | ["commit", pid, d, ts] => do pure (.commit (← parseInt pid) (← parseBytes d) (← parseTime ts))
  | ["deal", pid, d, ts] => do pure (.deal (← parseInt pid) (← parseBytes d) (← parseTime ts))
  | ["response", pid, d, ts] => do pure (.response (← parseInt pid) (← parseBytes d) (← parseTime ts))
  | ["masterKey", pid, k, ts, poly] => do
    pure (.masterKey (← parseInt pid) (← parseBytes k) (← parseTime ts) (← parseBytes poly))
  | ["dkgErr", pid, e, ts] => do pure (.dkgErr (← parseInt pid) (← parseOptStr e) (← parseTime ts))
  | "signStart" :: b :: pid :: ts :: k :: rest => do
    let k ← k.toNat?
    let (gs, rest') ← groups 5 k rest
    if !rest'.isEmpty then none
    let tasks ← gs.mapM (fun g => match g with
      | [mid, f, pl, rs, re] => do
        pure (⟨← parseStr mid, ← parseStr f, ← parseOptBytes pl, ← parseInt rs, ← parseInt re⟩ : Task)
      | _ => none)
    pure (.signStart (← parseStr b) (← parseInt pid) (← parseTime ts) tasks)
  | "partialSigns" :: b :: pid :: ts :: k :: rest => do
    let k ← k.toNat?
    let (gs, rest') ← groups 2 k rest
    if !rest'.isEmpty then none
    let signs ← gs.mapM (fun g => match g with
      | [mid, s] => do pure ((← parseStr mid), (← parseBytes s))
      | _ => none)
    pure (.partialSigns (← parseStr b) (← parseInt pid) signs (← parseTime ts))
  | ["signErr", pid, e, ts] => do pure (.signErr (← parseInt pid) (← parseOptStr e) (← parseTime ts))
  | _ => none

end Driver
