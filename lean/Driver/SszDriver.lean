/- ssz sub-driver: `root`, `baked`, `tasks`, `sha`, `bakedfile` (see harness/sszdiff.go) -/
import Driver.Parse
import Dc4bcVerif.Model.Sha256
import Dc4bcVerif.Model.Ssz
import Dc4bcVerif.Model.Tasks

namespace Driver
open Dc4bcVerif.Model Dc4bcVerif.Model.Tasks

def sha : Ssz.HashFn := Sha256.hash

def rootHex (idx : UInt64) : String :=
  match Ssz.codeSigningRoot sha idx with
  | some r => hexOfBytes r
  | none => "!model-wiring-unresolved"

def rMsg (m : Msg) : String :=
  let pl := match m.payload, m.baked with
    | some p, _ => hx p
    | none, some v => "x" ++ rootHex (UInt64.ofNat v)
    | none, none => "!no-payload"
  joinWith ":" [hs m.file, hs m.messageId, pl, if m.baked.isSome then "baked" else "plain"]

structure SszSt where
  arr : Array Nat

def fastLookup (s : SszSt) (id : Int) : LookupRes :=
  if id < 0 || id ≥ (Dc4bcVerif.Gen.Baked.splitCount : Int) then .errRange
  else match s.arr[id.toNat]? with
    | some v => if v < 2 ^ 63 then .ok v else .errParse
    | none => .errParse

def rLookup (id : Int) : LookupRes → String
  | .ok v => "ok " ++ rMsg { messageId := toString v, file := "bakedrange" ++ toString id, payload := none, baked := some v }
  | .errRange => "err"
  | .errParse => "err"
  | .panic => "panic"

def sszStep (s : SszSt) (toks : List String) : String :=
  match toks with
  | ["root", idx] =>
    match idx.toNat? with
    | some n => if n < 2 ^ 64 then rootHex (UInt64.ofNat n) else "bad-op"
    | none => "bad-op"
  | ["baked", pos] =>
    match pos.toInt? with
    | some id => rLookup id (fastLookup s id)
    | none => "bad-op"
  -- the model function itself (list-based, slow): used on a sample, must agree with the fast path
  | ["bakedmodel", pos] =>
    match pos.toInt? with
    | some id => rLookup id (reconstructBaked id)
    | none => "bad-op"
  | "tasks" :: k :: rest =>
    match k.toNat? with
    | none => "bad-op"
    | some k =>
      match groups 5 k rest with
      | some (gs, []) =>
        let tasks := gs.mapM (fun g => match g with
          | [mid, f, pl, rs, re] => do
            pure (⟨← parseStr mid, ← parseStr f, ← parseOptBytes pl, ← parseInt rs, ← parseInt re⟩ : Task)
          | _ => none)
        match tasks with
        | none => "bad-op"
        | some ts =>
          match tasksToMessages ts with
          | .ok ms => "ok (" ++ joinWith ";" (ms.map rMsg) ++ ")"
          | .error .panic => "panic"
          | .error _ => "err"
      | _ => "bad-op"
  | ["sha", h] =>
    match parseBytes h with
    | some b => hexOfBytes (sha b)
    | none => "bad-op"
  | ["bakedfile"] =>
    -- the text the run table stands for: canonical decimals joined by '\n', then the odd fields
    let body := "\n".intercalate (s.arr.toList.map toString)
    let text := body ++ String.join (Dc4bcVerif.Gen.Baked.oddFields.map (fun p => "\n" ++ p.2))
    s!"{Dc4bcVerif.Gen.Baked.splitCount} {hexOfBytes (sha text.toUTF8.toList)} {Dc4bcVerif.Gen.Baked.fileSha256}"
  | _ => "bad-op"

end Driver
