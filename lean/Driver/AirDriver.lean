/- air sub-driver: the machine's log bookkeeping (`reset`, `proc <id> <logged>`, `dies <id>`, `restart`); see harness/airdiff.go -/
import Driver.Parse
import Dc4bcVerif.Model.Render
import Dc4bcVerif.Model.Air

namespace Driver
open Dc4bcVerif.Model.Air Dc4bcVerif.Model

abbrev AirOp := String × Bool
abbrev AirM := Machine (List String) AirOp

/-- the instantiation used for the bookkeeping tie: the volatile state is the list of logged operations it has seen -/
def airH : H (List String) AirOp Unit := fun v op => (if op.2 then some (v.getD [] ++ [op.1]) else v, ())

def rAir (m : AirM) : String := "log=" ++ joinWith "," (m.log.map (·.1)) ++ " inst=" ++ (match m.inst with | none => "-" | some l => joinWith "," l)

def airStep (m : AirM) (toks : List String) : AirM × String :=
  match toks with
  | ["reset"] => (fresh, "ok")
  | ["proc", id, lg] =>
    let m' := (processOp airH (·.2) m (id, lg == "1")).1
    (m', rAir m')
  | ["dies", id, lg] =>
    let m' := restart airH (diesBeforeLog airH m (id, lg == "1"))
    (m', rAir m')
  | ["restart"] => let m' := restart airH m; (m', rAir m')
  | _ => (m, "bad-op")

end Driver
