/- fsm sub-driver: `create`, `do`, `keep`, `restore`, `redo` (see harness/fsmdiff.go) -/
import Driver.Parse

namespace Driver
open Dc4bcVerif.Model Dc4bcVerif.Gen

structure FsmSt where
  store : Array Instance := #[]
  last : Option Instance := none

def fsmStep (s : FsmSt) (toks : List String) : FsmSt × String :=
  match toks with
  | ["create", id] =>
    match parseStr id with
    | some id => ({ s with store := s.store.push (Instance.create id) }, s!"created {s.store.size}")
    | none => (s, "bad-op")
  | "do" :: idx :: ev :: argToks =>
    match idx.toNat? with
    | none => (s, "bad-op")
    | some k =>
      match s.store[k]? with
      | none => (s, "bad-op")
      | some inst =>
        match parseArg argToks with
        | none => (s, "bad-op")
        | some arg =>
          match evOfName ev with
          | none => -- unknown event: no transition ⇒ route error, nothing changes
            ({ s with last := some inst }, "route " ++ rDump inst.dumpState inst.payload)
          | some e =>
            let (i', o) := inst.doEv e arg
            ({ s with last := some i' }, rObs i' o)
  -- continue on the in-memory result of the previous `do` (no dump/restore in between)
  | "redo" :: ev :: argToks =>
    match s.last, parseArg argToks with
    | some inst, some arg =>
      match evOfName ev with
      | none => (s, "route " ++ rDump inst.dumpState inst.payload)
      | some e =>
        let (i', o) := inst.doEv e arg
        ({ s with last := some i' }, rObs i' o)
    | _, _ => (s, "bad-op")
  | ["keep"] =>
    match s.last with
    | some i =>
      -- the harness stores the *dump* and restores it before the next event, as the node does
      match Instance.restore i.dumpState i.payload with
      | some r => ({ s with store := s.store.push r }, s!"kept {s.store.size}")
      | none => (s, "kept-unrestorable")
    | none => (s, "bad-op")
  | ["restore"] =>
    match s.last with
    | some i =>
      match Instance.restore i.dumpState i.payload with
      | some r => (s, s!"restore ok {repr r.machine}")
      | none => (s, "restore err")
    | none => (s, "bad-op")
  | _ => (s, "bad-op")

end Driver
