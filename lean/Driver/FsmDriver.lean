/- fsm sub-driver: `create`, `do`, `keep`, `restore`, `redo` (see harness/fsmdiff.go) -/
import Driver.Parse

namespace Driver
open Dc4bcVerif.Model Dc4bcVerif.Gen

structure FsmSt where
  store : Array Instance := #[]
  last : Option Instance := none

def fsmStep (s : FsmSt) (toks : List String) : FsmSt × String :=
  match toks with
  | ["create", id] =>
    match parseStr id with
    | some id => ({ s with store := s.store.push (Instance.create id) }, s!"created {s.store.size}")
    | none => (s, "bad-op")
  | "do" :: idx :: ev :: argToks =>
    match idx.toNat? with
    | none => (s, "bad-op")
    | some k =>
      match s.store[k]? with
      | none => (s, "bad-op")
      | some inst =>
        match parseArg argToks with
        | none => (s, "bad-op")
        | some arg =>
          match evOfName ev with
          | none => -- unknown event: no transition ⇒ route error, nothing changes
            ({ s with last := some inst }, "route " ++ rDump inst.dumpState inst.payload)
          | some e =>
            let (i', o) := inst.doEv e arg
            ({ s with last := some i' }, rObs i' o)
  -- continue on the in-memory result of the previous `do` (no dump/restore in between)
  | "redo" :: ev :: argToks =>
    match s.last, parseArg argToks with
    | some inst, some arg =>
      match evOfName ev with
      | none => (s, "route " ++ rDump inst.dumpState inst.payload)
      | some e =>
        let (i', o) := inst.doEv e arg
        ({ s with last := some i' }, rObs i' o)
    | _, _ => (s, "bad-op")
  | ["keep"] =>
    match s.last with
    | some i =>
      -- the harness stores the *dump* and restores it before the next event, as the node does
      match Instance.restore i.dumpState i.payload with
      | some r => ({ s with store := s.store.push r }, s!"kept {s.store.size}")
      | none => (s, "kept-unrestorable")
    | none => (s, "bad-op")
  | ["restore"] =>
    match s.last with
    | some i =>
      match Instance.restore i.dumpState i.payload with
      | some r => (s, s!"restore ok {repr r.machine}")
      | none => (s, "restore err")
    | none => (s, "bad-op")
  | _ => (s, "bad-op")

end Driver

namespace Driver
open Dc4bcVerif.Model Dc4bcVerif.Gen

/-- probe for re-application: for every accepted `do`, apply the same event with the same argument to the restored
result and say what happens (`refused`, `same`, `changed`) -/
def fsmReapply (s : FsmSt) (toks : List String) : FsmSt × String :=
  match toks with
  | "do" :: idx :: ev :: argToks =>
    match idx.toNat?, parseArg argToks, evOfName ev with
    | some k, some arg, some e =>
      match s.store[k]? with
      | none => (s, "-")
      | some inst =>
        let (i', o) := inst.doEv e arg
        let s' := { s with last := some i' }
        if o.res != .ok || o.resp.isNone then (s', "-") else
        match Instance.restore i'.dumpState i'.payload with
        | none => (s', "unrestorable")
        | some r =>
          let (i'', o2) := r.doEv e arg
          if o2.res != .ok || o2.resp.isNone then (s', "refused")
          else if rDump i''.dumpState i''.payload == rDump i'.dumpState i'.payload then (s', s!"same {ev} in {repr inst.state}")
          else (s', s!"changed {ev} in {repr inst.state} -> {repr i'.state} -> {repr i''.state}")
    | _, _, _ => (fsmStep s toks).1 |> fun s' => (s', "-")
  | _ => ((fsmStep s toks).1, "-")

end Driver
