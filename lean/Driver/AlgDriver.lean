/- alg sub-driver: `reset n t`, `poly <i> <c0> …`, `share <j>`, `recover <i,j,…>` (see harness/algdiff.go) -/
import Driver.Parse
import Dc4bcVerif.Model.Shamir

namespace Driver
open Dc4bcVerif.Model Dc4bcVerif.Model.Shamir

structure AlgSt where
  n : Nat := 0
  t : Nat := 0
  polys : List (Nat × List Fr) := []

def bytesToNat (b : List UInt8) : Nat := b.foldl (fun acc x => acc * 256 + x.toNat) 0

def natToHex32 (n : Nat) : String :=
  hexOfBytes ((List.range 32).map (fun i => UInt8.ofNat ((n / 256 ^ (31 - i)) % 256)))

def parseFr (tok : String) : Option Fr := (parseBytes tok).map (fun b => Fr.ofNat (bytesToNat b))

/-- the group's secret polynomial: sum of the dealers' polynomials -/
def groupPoly (s : AlgSt) : List Fr := sumPolys (s.polys.map (·.2))

def nodeOf (j : Nat) : Fr := Fr.ofNat (j + 1)

def algStep (s : AlgSt) (toks : List String) : AlgSt × String :=
  match toks with
  | ["reset", n, t] =>
    match n.toNat?, t.toNat? with
    | some n, some t => ({ n := n, t := t }, "ok")
    | _, _ => (s, "bad-op")
  | "poly" :: i :: cs =>
    match i.toNat?, cs.mapM parseFr with
    | some i, some cs => ({ s with polys := s.polys ++ [(i, cs)] }, s!"ok {cs.length}")
    | _, _ => (s, "bad-op")
  | ["share", j] =>
    match j.toNat? with
    | some j => (s, natToHex32 (evalPoly (groupPoly s) (nodeOf j)).val)
    | none => (s, "bad-op")
  | ["recover", subset] =>
    match (subset.splitOn ",").mapM String.toNat? with
    | some idxs =>
      let pts := idxs.map (fun j => (nodeOf j, evalPoly (groupPoly s) (nodeOf j)))
      (s, natToHex32 (recoverAtZero pts).val)
    | none => (s, "bad-op")
  | "dealcheck" :: j :: rest =>
    -- `dealcheck <victim> <broadcast…> | <dealer's real coefficients…>`: the deal carries the real polynomial
    match j.toNat?, (rest.takeWhile (· != "|")).mapM parseFr, ((rest.dropWhile (· != "|")).drop 1).mapM parseFr with
    | some j, some bc, some real =>
      (s, if acceptDeal bc real (nodeOf j) (evalPoly real (nodeOf j)) then "accept" else "refuse")
    | _, _, _ => (s, "bad-op")
  | ["secret"] => (s, natToHex32 (evalPoly (groupPoly s) (Fr.ofNat 0)).val)
  | _ => (s, "bad-op")

end Driver
