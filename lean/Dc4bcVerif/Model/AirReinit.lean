/-
  M-AIRREINIT: the airgapped machine's `handleReinitDKG` (`airgapped/dkg.go`) over the handler model of
  `Model/AirDkg.lean`.

  The payload of a `reinit_dkg` operation is a list of operations (what the node's replay of the log dump issued).
  The handler walks it in order:
    * an entry whose event is not empty, or of the invitation type, is passed over (`continue`);
    * every other entry goes through `GetOperationResult`: the handler of its type runs (with `recover`), a handler error
      becomes an error RESULT when the machine holds an instance of the ENTRY's round (`writeErrorRequestToOperation`,
      `getParticipantID`) - and the loop goes on -, and ends the re-initialisation when it holds none;
    * afterwards the key ring of the OPERATION's round is loaded; its public polynomial is the answer
      (`operation_processed_successfully`, `ExtraData`).
  An error of `handleReinitDKG` itself is turned into a result by the same `GetOperationResult`: an error result when the
  machine holds an instance of the operation's round, a fatal error (no result file, nothing logged) otherwise.
  What the loop did before it failed stays. Core-only.
-/
import Dc4bcVerif.Model.AirDkg

namespace Dc4bcVerif.Model.AirDkg

variable {F : Type} [Add F] [Mul F] [Sub F] [Div F] [Zero F] [One F] [DecidableEq F] [NatCast F]
variable {K : Type} [DecidableEq K]

/-- the round an operation names (`restart` is not an operation) -/
def Op.round? : Op F K → Option String
  | .commits r _ _ => some r
  | .deals r _ => some r
  | .responses r _ _ => some r
  | .masterKey r _ _ => some r
  | .restart => none

/-- an entry of a re-initialisation payload, as `handleReinitDKG` treats it -/
inductive Inner (F K : Type) where
  /-- event not empty, or the invitation type: passed over -/
  | skip
  /-- the handler fails before it touches anything: a type `handleOperation` does not know, a payload that does not parse -/
  | failing (round : String)
  /-- a signing request (the node's replay issues none since `c405ec9`; a hand-made file can) -/
  | sign (round : String) (payloadOk : Bool) (msgs : Option Nat)
  /-- one of the four key-generation operations -/
  | kg (op : Op F K)

/-- the loop of `handleReinitDKG`; `false`: `GetOperationResult` returned an error (the re-initialisation ends there) -/
def reinitLoop (m : Machine F K) : List (Inner F K) → Machine F K × Bool
  | [] => (m, true)
  | .skip :: rest => reinitLoop m rest
  | .failing round :: rest => if (lookup round m.insts).isSome then reinitLoop m rest else (m, false)
  | .sign round p n :: rest =>
    match outcome m round (signOp m round p n).2 with
    | .fatal => (m, false)
    | _ => reinitLoop m rest
  | .kg op :: rest =>
    match op.round? with
    | none => reinitLoop m rest
    | some round =>
      match outcome (exec m op).1 round (exec m op).2 with
      | .fatal => ((exec m op).1, false)
      | _ => reinitLoop (exec m op).1 rest

/-- the machine's answer to a `reinit_dkg` operation -/
inductive ReinitRes (F : Type) where
  /-- `operation_processed_successfully` with the stored public polynomial -/
  | processed (pubPoly : List F)
  /-- an error result naming the own index (its event is EMPTY: `eventToErrorMap` has no entry for `reinit_dkg`) -/
  | errorResult (pid : Nat)
  | fatal
  deriving DecidableEq

/-- what `GetOperationResult` makes of an error of `handleReinitDKG` -/
def reinitFail (m : Machine F K) (round : String) : ReinitRes F :=
  match lookup round m.insts with
  | some i => .errorResult i.pid
  | none => .fatal

/-- `handleReinitDKG` under `GetOperationResult` -/
def reinitOp (m : Machine F K) (round : String) (inner : List (Inner F K)) : Machine F K × ReinitRes F :=
  match reinitLoop m inner with
  | (m1, false) => (m1, reinitFail m1 round)
  | (m1, true) =>
    match lookup round m1.rings with
    | none => (m1, reinitFail m1 round)
    | some kr => (m1, .processed kr.pubPoly)

/-- the two-party round of `exOps`, handed to a machine that was just started as a re-initialisation: the same key ring -/
example :
    (reinitOp ({ me := 1 } : Machine Int Nat) "r" ((exOps.map Inner.kg) ++ [.skip, .kg (.masterKey "r" exResps [0, 1])])).2
      = ReinitRes.processed [10, 16] := by decide
example :
    (lookup "r" (reinitOp ({ me := 1 } : Machine Int Nat) "r" ((exOps.map Inner.kg) ++ [.kg (.masterKey "r" exResps [0, 1])])).1.rings).map (·.share)
      = some 26 := by decide
/-- without the master-key step there is no key ring to answer with: an error result (the instance exists) -/
example : (reinitOp ({ me := 1 } : Machine Int Nat) "r" (exOps.map Inner.kg)).2 = ReinitRes.errorResult 0 := by decide
/-- an entry of a round the machine knows nothing of ends the re-initialisation: fatal -/
example : (reinitOp ({ me := 1 } : Machine Int Nat) "r" [.failing "q"]).2 = ReinitRes.fatal := by decide

end Dc4bcVerif.Model.AirDkg
