/-
  M-ALG: Shamir sharing and Lagrange recovery as kyber computes them
  (`share.PriPoly.Eval`: Horner at node `i+1`; `share.RecoverSecret` / `RecoverCommit` /
  `tbls.Recover`: weights `Π_{j≠i} x_j / (x_j − x_i)`), and Pedersen-DKG bookkeeping
  (sum of the dealers' polynomials). Polymorphic over any type with the field operations, so the
  same definitions run on `Fr` (integers mod the BLS12-381 scalar order) in the driver and are
  reasoned about over an arbitrary Mathlib `Field` in `Props/C01.lean`, `Props/C02.lean`.
  Core-only.
-/
namespace Dc4bcVerif.Model.Shamir

variable {F : Type} [Add F] [Mul F] [Sub F] [Div F] [Zero F] [One F] [DecidableEq F]

def sumL (l : List F) : F := l.foldr (· + ·) 0
def prodL (l : List F) : F := l.foldr (· * ·) 1

/-- `PriPoly.Eval`: Horner, coefficients constant term first -/
def evalPoly (coeffs : List F) (x : F) : F := coeffs.foldr (fun c acc => c + x * acc) 0

/-- the Lagrange-at-zero weight of node `xi` among the nodes `xs` -/
def weight (xs : List F) (xi : F) : F := prodL ((xs.filter (fun xj => xj ≠ xi)).map (fun xj => xj / (xj - xi)))

/-- `RecoverSecret` on points `(x, y)` with distinct `x` -/
def recoverAtZero (pts : List (F × F)) : F :=
  sumL (pts.map (fun p => p.2 * weight (pts.map (·.1)) p.1))

/-- coefficient-wise sum of the dealers' polynomials (all of the same length `t`) -/
def addPoly : List F → List F → List F
  | a :: as, b :: bs => (a + b) :: addPoly as bs
  | [], bs => bs
  | as, [] => as

def sumPolys (ps : List (List F)) : List F := ps.foldr addPoly []

/-- the addressee's check of a private deal (`dkg.ProcessDeals` = kyber's `ProcessDeal` + `processDealCommits`),
at the level of exponents: `broadcast` are the discrete logarithms of the commitments the dealer posted on the
board, `inDeal` those of the commitments inside the decrypted deal, `share` the secret share in the deal for
node `x`. Accepted iff the two commitment vectors are equal coefficient by coefficient (same length included)
and the share lies on them. -/
def acceptDeal (broadcast inDeal : List F) (x share : F) : Bool :=
  decide (broadcast = inDeal) && decide (evalPoly inDeal x = share)

end Dc4bcVerif.Model.Shamir

namespace Dc4bcVerif.Model

/-- the BLS12-381 scalar field order -/
def rOrder : Nat := 0x73eda753299d7d483339d80809a1d80553bda402fffe5bfeffffffff00000001

/-- integers modulo `rOrder` for the driver (no Mathlib) -/
structure Fr where
  val : Nat
  deriving DecidableEq, Repr

namespace Fr
def ofNat (n : Nat) : Fr := ⟨n % rOrder⟩
instance : Add Fr := ⟨fun a b => ofNat (a.val + b.val)⟩
instance : Mul Fr := ⟨fun a b => ofNat (a.val * b.val)⟩
instance : Sub Fr := ⟨fun a b => ofNat (a.val + rOrder - b.val % rOrder)⟩
instance : Zero Fr := ⟨⟨0⟩⟩
instance : One Fr := ⟨⟨1⟩⟩

/-- square-and-multiply -/
def powAux (fuel : Nat) (b : Fr) (e : Nat) (acc : Fr) : Fr :=
  match fuel with
  | 0 => acc
  | f + 1 => if e == 0 then acc else powAux f (b * b) (e / 2) (if e % 2 == 1 then acc * b else acc)

def pow (b : Fr) (e : Nat) : Fr := powAux 300 b e 1

/-- inverse by Fermat (`r` is prime); `0⁻¹ = 0` -/
def inv (a : Fr) : Fr := pow a (rOrder - 2)
instance : Div Fr := ⟨fun a b => a * inv b⟩
end Fr

end Dc4bcVerif.Model
