/-
  M-TASKS: the baked validator list (GENERATED run table, `Gen/Baked.lean`), the position lookup
  `requests.ReconstructBakedMessage` and the proposal expansion `requests.TasksToMessages`
  (fsm/types/requests/signing_proposal.go). Hand-written model, tied by `sszdiff`.
-/
import Dc4bcVerif.Gen.Baked
import Dc4bcVerif.Model.Payload

namespace Dc4bcVerif.Model.Tasks
open Dc4bcVerif.Gen.Baked Dc4bcVerif.Model

def allRuns : List (Nat × Nat) := runChunks.flatten

def expandRuns : List (Nat × Nat) → List Nat
  | [] => []
  | (s, n) :: t => List.range' s n ++ expandRuns t

/-- the validator indices, in file order -/
def bakedIndices : List Nat := expandRuns allRuns

inductive LookupRes where
  | ok (validatorIndex : Nat)
  | errRange          -- "index validator is out off the validator's list"
  | errParse          -- strconv.ParseInt failed on the field (e.g. the trailing empty field)
  | panic
  deriving Repr, DecidableEq

/-- `ReconstructBakedMessage(id)`: `strings.Split(list, "\n")` has `splitCount` fields; the first
`bakedIndices.length` are canonical decimal indices, the remaining ones (`oddFields`) do not parse. -/
def reconstructBaked (id : Int) : LookupRes :=
  if id < 0 || id ≥ (splitCount : Int) then .errRange
  else match bakedIndices[id.toNat]? with
    | some v => if v < 2 ^ 63 then .ok v else .errParse
    | none => .errParse

/-- `MessageToSign` -/
structure Msg where
  messageId : String
  file : String
  /-- `none`: the payload is the signing root of validator `validatorIndex` (baked message) -/
  payload : Option Bytes
  baked : Option Nat := none
  deriving Repr, DecidableEq

/-- `TasksToMessages`: explicit payload iff `Payload != nil`, otherwise every position
`RangeStart ≤ i < RangeEnd`; the first failing lookup aborts the whole expansion. -/
def rangeMsgs : Nat → Int → Except LookupRes (List Msg)
  | 0, _ => .ok []
  | k + 1, i =>
    match reconstructBaked i with
    | .ok v =>
      match rangeMsgs k (i + 1) with
      | .ok rest => .ok ({ messageId := toString v, file := "bakedrange" ++ toString i, payload := none, baked := some v } :: rest)
      | .error e => .error e
    | e => .error e

/-- the messages of one task -/
def taskMsgs (t : Task) : Except LookupRes (List Msg) :=
  match t.payload with
  | some p => .ok [{ messageId := t.messageId, file := t.file, payload := some p }]
  | none => rangeMsgs (t.rangeEnd - t.rangeStart).toNat t.rangeStart

def tasksToMessages : List Task → Except LookupRes (List Msg)
  | [] => .ok []
  | t :: rest =>
    match taskMsgs t, tasksToMessages rest with
    | .ok a, .ok b => .ok (a ++ b)
    | .error e, _ => .error e
    | .ok _, .error e => .error e

end Dc4bcVerif.Model.Tasks
