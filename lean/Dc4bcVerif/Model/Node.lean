/-
  M-NODE: the hot node's message handling (client/services/node/node_service.go
  `ProcessMessage`, `processMessage`, `processSignature`, `processSignatureProposal`,
  `executeOperation`, `ApproveParticipation`; client/services/fsmservice; the operation and
  signature repositories) over an abstract key-value state.

  Abstracted through per-message oracle fields (supplied by the harness from the REAL functions, and
  universally quantified in the theorems): JSON decoding of `Data`, ed25519 verification, threshold
  reconstruction. Wall-clock reads (`time.Now()`) are the explicit input `now`.
  Hand-written model, tied by `nodediff`.
-/
import Dc4bcVerif.Model.Instance
import Dc4bcVerif.Model.Tasks
import Dc4bcVerif.Gen.NodeGlue

namespace Dc4bcVerif.Model.Node
open Dc4bcVerif.Gen Dc4bcVerif.Model

/-- `fsmtypes.ReconstructedSignature` -/
structure RSig where
  file : String
  batch : String
  msgId : String
  srcPayload : Bytes
  signature : Bytes
  username : String
  round : String
  valIdx : Int
  deriving Repr, DecidableEq, Inhabited

/-- a board message as the node sees it, with the oracle answers about its opaque parts -/
structure NMsg where
  round : String
  event : String
  sender : String
  recipient : String
  /-- `FSMRequestFromMessage(Data)`: `none` = the JSON did not decode (the code then hands an error
  value to the FSM, whose type assertion fails) -/
  arg : Option Arg
  /-- keys `k` for which `ed25519.Verify(k, Data, Signature)` holds -/
  validKeys : List Bytes
  /-- `Data` decoded as `[]ReconstructedSignature` (used by `signature_reconstructed`) -/
  sigs : Option (List RSig) := none
  /-- `Data` decoded as a signing proposal: batch id and tasks (used by `processSignatureProposal`) -/
  proposal : Option (String × List Task) := none
  /-- oracle: result of `reconstructThresholdSignature` if this message completes a batch -/
  recon : Option (List RSig) := none
  deriving Repr

/-- a pending operation; its id is `md5(round, payload)`, so (round, payload) identifies it -/
structure NOp where
  type : String
  round : String
  payload : RespData
  deriving Repr, DecidableEq

abbrev DumpV := Option St × Payload

structure NodeSt where
  self : String
  /-- the node's own ed25519 public key -/
  selfKey : Bytes := []
  /-- `<topic>_fsm_state`: round id ↦ dump -/
  rounds : List (String × DumpV) := []
  /-- `<topic>_operations` -/
  ops : List NOp := []
  /-- `<topic>_deleted_operations` -/
  deleted : List NOp := []
  /-- `signatures_<round>`: batch ↦ message id ↦ entries in insertion order -/
  sigs : List (String × List (String × List (String × List RSig))) := []
  skipVerify : Bool := false
  deriving Repr

inductive Outcome where
  | ok | reject | panic
  deriving Repr, DecidableEq

/-- a message appended to the board by the node while handling a message -/
structure Sent where
  event : String
  round : String
  sigs : List RSig
  deriving Repr

def lookupS {β : Type} (l : List (String × β)) (k : String) : Option β := (l.find? (fun p => p.1 == k)).map (·.2)

-- ───────────── signature repository ─────────────

/-- `AddReconstructedSignature`: entry of the same user replaced in place, otherwise appended -/
def addEntry (entries : List RSig) (rs : RSig) : List RSig :=
  if entries.any (fun x => x.username == rs.username) then
    -- replaces the first entry of that user (the loop `break`s)
    let rec go : List RSig → List RSig
      | [] => []
      | x :: t => if x.username == rs.username then rs :: t else x :: go t
    go entries
  else entries ++ [rs]

def addSig (store : List (String × List (String × List RSig))) (rs : RSig) : List (String × List (String × List RSig)) :=
  let batchMap := (lookupS store rs.batch).getD []
  let entries := (lookupS batchMap rs.msgId).getD []
  assocSet store rs.batch (assocSet batchMap rs.msgId (addEntry entries rs))

/-- `SaveSignatures`: `none` = error ("nothing to save"); all entries go to the round of the first one -/
def saveSignatures (st : NodeSt) (l : List RSig) : Option NodeSt :=
  match l with
  | [] => none
  | first :: _ =>
    let store := (lookupS st.sigs first.round).getD []
    some { st with sigs := assocSet st.sigs first.round (l.foldl addSig store) }

-- ───────────── FSM service ─────────────

def saveFSM (st : NodeSt) (round : String) (d : DumpV) : NodeSt := { st with rounds := assocSet st.rounds round d }

/-- `strings.TrimSpace(id) == ""` for the ids the harness uses (ASCII): all characters are blanks -/
def blankId (id : String) : Bool := id.toList.all (fun c => c == ' ' || c == '\t' || c == '\n' || c == '\r')

/-- `GetFSMInstance(round, createIfMissing = true)` -/
def getInstance (st : NodeSt) (round : String) : Option (NodeSt × Instance) :=
  match lookupS st.rounds round with
  | some (ds, p) => (Instance.restore ds p).map (fun i => (st, i))
  | none =>
    if blankId round then none
    else some (st, Instance.create round)   -- not saved here (fix: … leaves no trace)

-- ───────────── processMessage ─────────────

structure PMOut where
  st : NodeSt
  out : Outcome
  op : Option NOp := none
  sent : List Sent := []

def rejectWith (st : NodeSt) : PMOut := { st := st, out := .reject }

/-- `verifyMessage` -/
def verifyMessage (st : NodeSt) (inst : Instance) (m : NMsg) : Outcome :=
  if st.skipVerify then .ok else
  if inst.payload.pubKeys.isEmpty then .reject        -- "{PubKeys} not initialized" (nil map)
  else if m.sender == "" then .reject
  else match lookupS inst.payload.pubKeys m.sender with
    | none => .reject
    | some key =>
      if key.length != 32 then .reject                -- "bad public key length" guard (fix: … wrong key length)
      else if m.validKeys.contains key then .ok else .reject

def stateName (ds : Option St) : String := match ds with | some s => s.name | none => ""

def endsWith (s suffix : String) : Bool := suffix.toList.isSuffixOf s.toList
def startsWith (s pre : String) : Bool := pre.toList.isPrefixOf s.toList

/-- expansion of a proposal into placeholder signature entries (`processSignatureProposal`) -/
def proposalEntries (m : NMsg) (batch : String) (msgs : List Tasks.Msg) (payloadOf : Tasks.Msg → Bytes) : List RSig :=
  msgs.map (fun x =>
    { file := x.file, batch := batch, msgId := x.messageId, srcPayload := payloadOf x, signature := [],
      username := m.sender, round := m.round,
      valIdx := (match x.baked with | some v => (v : Int) | none => 0) })

/-- the participant id a decoded request claims to come from (`participantIDFromRequest`) -/
def participantIdOf : Arg → Option Int
  | .sigPart pid _ => some pid
  | .commit pid _ _ => some pid
  | .deal pid _ _ => some pid
  | .response pid _ _ => some pid
  | .masterKey pid _ _ _ => some pid
  | .dkgErr pid _ _ => some pid
  | .signStart _ pid _ _ => some pid
  | .partialSigns _ pid _ _ => some pid
  | .signErr pid _ _ => some pid
  | _ => none

/-- apply one event through `FSMInstance.Do`, with the node's conventions for errors -/
def doOrReject (i : Instance) (e : Ev) (a : Arg) : Option (Instance × Out) :=
  let r := i.doEv e a
  if r.2.res == .ok then some r else none

/-- a callback of the FSM would dereference a missing payload part (a Go panic, which is not recovered
anywhere on the message path) -/
def doPanics (i : Instance) (e : Ev) (a : Arg) : Bool := (i.doEv e a).2.res == .panic

/-- result of the preliminary steps (rounds stopped in an error / timeout state) -/
inductive Pre where
  /-- the message is swallowed: nothing (more) happens -/
  | swallow (st : NodeSt)
  /-- a restart failed -/
  | fail (st : NodeSt)
  /-- go on with the (possibly restarted and re-saved) instance -/
  | cont (st : NodeSt) (inst : Instance)

/-- restart a signing round that ended in an error / timeout state; the restarted round is saved only
together with the effect of the message (fix: a rejected message leaves the stored round as it was) -/
def restartSigning (st : NodeSt) (inst : Instance) (_round : String) (now : Time) : Option (NodeSt × Instance) :=
  match doOrReject inst .e_event_signing_restart (.default now) with
  | some (i', _) => some (st, i')
  | none => none

/-- the round stopped in a key-generation error state: the message is swallowed -/
def errSwallow (inst : Instance) : Bool :=
  endsWith (stateName inst.dumpState) "_error" &&
  (match inst.payload.dkg with
   | some dc => dc.quorum.any (fun q => q.error.isSome)
   | none => false)

/-- a signing round cancelled by error is restarted first -/
def step1 (st : NodeSt) (inst : Instance) (m : NMsg) (now : Time) : Option (NodeSt × Instance) :=
  if endsWith (stateName inst.dumpState) "_error" && inst.payload.sign.isSome then restartSigning st inst m.round now
  else some (st, inst)

/-- invitation / key generation timed out: the message is swallowed -/
def toSwallow (inst : Instance) : Bool :=
  endsWith (stateName inst.dumpState) "_timeout" &&
  (startsWith (stateName inst.dumpState) "state_sig_" || startsWith (stateName inst.dumpState) "state_dkg")

/-- a signing round cancelled by timeout is restarted first -/
def step2 (st : NodeSt) (inst : Instance) (m : NMsg) (now : Time) : Option (NodeSt × Instance) :=
  if endsWith (stateName inst.dumpState) "_timeout" && startsWith (stateName inst.dumpState) "state_signing_" then
    restartSigning st inst m.round now
  else some (st, inst)

/-- steps (4)/(5) of `processMessage`: state names ending in `_error` / `_timeout` -/
def preSteps (st : NodeSt) (inst : Instance) (m : NMsg) (now : Time) : Pre :=
  if errSwallow inst then .swallow st else
  match step1 st inst m now with
  | none => .fail st
  | some (st1, inst1) =>
    if toSwallow inst1 then .swallow st1 else
    match step2 st1 inst1 m now with
    | none => .fail st1
    | some (st2, inst2) => .cont st2 inst2

/-- a participant may speak only for itself (fix: … claims to come from participant) -/
def bound (st : NodeSt) (inst : Instance) (m : NMsg) (arg : Arg) : Bool :=
  match participantIdOf arg with
  | none => true
  | some pid =>
    if st.skipVerify then true
    else if m.sender == "" then false
    else match lookupS inst.payload.ids m.sender with
      | some sid => sid == pid
      | none => false

def respStateOf (o : Out) : Option St := match o.resp with | some (s, _) => s | none => none
def respDataOf (o : Out) : Option RespData := match o.resp with | some (_, d) => d | none => none

/-- a hand-over: re-load from the dump just produced and apply the hand-over event -/
def handOver (i : Instance) (e : Ev) (now : Time) : Option (Instance × Option St × Option RespData) :=
  match Instance.restore i.dumpState i.payload with
  | none => none
  | some r =>
    match doOrReject r e (.default now) with
    | some (i', o) => some (i', respStateOf o, respDataOf o)
    | none => none

/-- (12) placeholders of a new proposal are written to the signature store -/
def placeholders (st2 : NodeSt) (m : NMsg) (payloadOf : Tasks.Msg → Bytes) : Option NodeSt :=
  if m.event == "event_signing_start" then
    match m.proposal with
    | none => none
    | some (batch, tasks) =>
      match Tasks.tasksToMessages tasks with
      | .ok msgs => saveSignatures st2 (proposalEntries m batch msgs payloadOf)
      | .error _ => none
  else some st2

/-- (11) after a collected batch the round is re-loaded and restarted -/
def restartAfterCollect (collected : Bool) (i5 : Instance) (now : Time) : Option Instance :=
  if collected then
    match Instance.restore i5.dumpState i5.payload with
    | none => none
    | some r => (doOrReject r .e_event_signing_restart (.default now)).map (·.1)
  else some i5

/-- (10) reconstruction and broadcast when the batch is collected -/
def reconstructStep (collected : Bool) (m : NMsg) : Option (List Sent) :=
  if collected then
    match m.recon with
    | some sigs => some [⟨"signature_reconstructed", m.round, sigs⟩]
    | none => none
  else some []

/-- steps (10)–(13) -/
def finish (st2 : NodeSt) (i5 : Instance) (rs5 : Option St) (rd5 : Option RespData) (m : NMsg) (now : Time)
    (payloadOf : Tasks.Msg → Bytes) : PMOut :=
  let op : Option NOp :=
    match rs5, rd5 with
    | some s, some d => if Dc4bcVerif.Gen.NodeGlue.operationStates.contains s.name then some ⟨s.name, m.round, d⟩ else none
    | _, _ => none
  let collected := rs5 == some .s_state_signing_partial_signs_collected
  match reconstructStep collected m with
  | none => rejectWith st2
  | some sent =>
    match restartAfterCollect collected i5 now with
    | none => { st := st2, out := .reject, sent := sent }
    | some i6 =>
      match placeholders st2 m payloadOf with
      | none => { st := st2, out := .reject, sent := sent }
      | some st3 => { st := saveFSM st3 m.round (i6.dumpState, i6.payload), out := .ok, op := op, sent := sent }

/-- (8) invitations collected ⇒ key generation is started by hand -/
def firstHandOver (i3 : Instance) (o3 : Out) (now : Time) : Option (Instance × Option St × Option RespData) :=
  if respStateOf o3 == some .s_state_sig_proposal_collected then handOver i3 .e_event_dkg_init_process now
  else some (i3, respStateOf o3, respDataOf o3)

/-- (9) master keys collected ⇒ the signing machine is initialised by hand -/
def secondHandOver (i4 : Instance) (rs4 : Option St) (rd4 : Option RespData) (now : Time) :
    Option (Instance × Option St × Option RespData) :=
  if rs4 == some .s_state_dkg_master_key_collected then handOver i4 .e_event_signing_init now
  else some (i4, rs4, rd4)

/-- steps (8)/(9): the two hand-overs -/
def afterDo (st2 : NodeSt) (i3 : Instance) (o3 : Out) (m : NMsg) (now : Time) (payloadOf : Tasks.Msg → Bytes) : PMOut :=
  match firstHandOver i3 o3 now with
  | none => rejectWith st2
  | some (i4, rs4, rd4) =>
    match secondHandOver i4 rs4 rd4 now with
    | none => rejectWith st2
    | some (i5, rs5, rd5) => finish st2 i5 rs5 rd5 m now payloadOf

/-- steps (7)–(13): apply the event and everything that follows from it -/
def applyEvent (st2 : NodeSt) (inst2 : Instance) (ev : Ev) (arg : Arg) (m : NMsg) (now : Time)
    (payloadOf : Tasks.Msg → Bytes) : PMOut :=
  if doPanics inst2 ev arg then { st := st2, out := .panic } else
  match doOrReject inst2 ev arg with
  | none => rejectWith st2
  | some (i3, o3) => afterDo st2 i3 o3 m now payloadOf

/-- step (6) and the binding check, then `applyEvent` -/
def dispatch (st2 : NodeSt) (inst2 : Instance) (m : NMsg) (now : Time) (payloadOf : Tasks.Msg → Bytes) : PMOut :=
  match Ev.all.find? (fun e => e.name == m.event) with
  | none => rejectWith st2
  | some ev =>
    if !(Dc4bcVerif.Gen.NodeGlue.requestTypeOfEvent.any (fun p => p.1 == m.event)) then rejectWith st2 else
    let arg := m.arg.getD .other
    if !bound st2 inst2 m arg then rejectWith st2 else
    applyEvent st2 inst2 ev arg m now payloadOf

/-- the part of `processMessage` after verification, for ordinary protocol events -/
def handleEvent (st : NodeSt) (inst : Instance) (m : NMsg) (now : Time) (payloadOf : Tasks.Msg → Bytes) : PMOut :=
  match preSteps st inst m now with
  | .swallow st' => { st := st', out := .ok }
  | .fail st' => rejectWith st'
  | .cont st2 inst2 => dispatch st2 inst2 m now payloadOf

/-- `processMessage` -/
def processMessage (st : NodeSt) (m : NMsg) (now : Time) (payloadOf : Tasks.Msg → Bytes) : PMOut :=
  match getInstance st m.round with
  | none => rejectWith st
  | some (st1, inst) =>
    let v : Outcome := if m.event == "event_sig_proposal_init" then .ok else verifyMessage st1 inst m
    match v with
    | .panic => { st := st1, out := .panic }
    | .reject => rejectWith st1
    | .ok =>
      if m.event == "signature_reconstructed" then
        match m.sigs with
        | none => rejectWith st1
        | some l =>
          match saveSignatures st1 (l.map (fun x => { x with username := m.sender, round := m.round })) with
          | some st2 => { st := st2, out := .ok }
          | none => rejectWith st1
      else if m.event == "signature_reconstruction_failed" then
        match m.arg with
        | some (.signErr _ _ _) => { st := st1, out := .ok }
        | _ => rejectWith st1
      else handleEvent st1 inst m now payloadOf

/-- `PutOperation`: refused when an operation with that id is pending (not counting retired ones) -/
def visibleOps (st : NodeSt) : List NOp := st.ops.filter (fun o => !st.deleted.contains o)

def putOperation (st : NodeSt) (op : NOp) : Option NodeSt :=
  if (visibleOps st).contains op then none
  else some { st with ops := visibleOps st ++ [op] }

/-- the operation a message gives rise to is stored unless an identical one is already pending
(`ErrOperationExists` is tolerated: the message is being handled again after a crash) -/
def putOperationOnce (st : NodeSt) (op : NOp) : NodeSt :=
  match putOperation st op with
  | some st' => st'
  | none => st

/-- `ProcessMessage` for ordinary (non-reinit) messages. The operation is written just before the round
state (fix "store the operation before the round state"); both writes belong to the successful end of
`processMessage`, so the resulting state is `processMessage`'s with the operation added. The ORDER of the
two writes matters only for crashes in between and is modelled in `Model/Crash.lean`. -/
def processMessageTop (st : NodeSt) (m : NMsg) (now : Time) (payloadOf : Tasks.Msg → Bytes) : PMOut :=
  let r := processMessage st m now payloadOf
  match r.out, r.op with
  | .ok, some op => { r with st := putOperationOnce r.st op }
  | _, _ => r

/-- `ResetFSMState` / `state.Reset`: a new, empty state database; identity and switches are kept -/
def resetState (st : NodeSt) : NodeSt := { self := st.self, selfKey := st.selfKey, skipVerify := st.skipVerify }

end Dc4bcVerif.Model.Node
