/-
  M-BOARDLINES: the data file of the file bulletin board with lines that are no messages (eighth session, fix 58eae51).
  `Model/Board.lean` has messages only and treats the scanner limits; here every line fits the limits and the question is what
  a line that was not written by `Send` does: a tail without a newline left by a writer that died in the middle of an append
  (`torn`), a complete line that does not decode (`junk`).
    * `send`  (the code since 58eae51): a torn tail is closed first - it becomes a line of its own that is no message -, the
      lines are counted, the entry is appended with that count as its offset;
    * `sendPinned` (the pinned tree): the tail is counted as a line and the new entry is glued onto it;
    * `getMessages` skips the first `off` LINES, passes over lines that are no messages and over a torn tail;
      `getMessagesPinned` fails on a line that does not decode.
  Core-only.
-/
import Dc4bcVerif.Model.Board

namespace Dc4bcVerif.Model.BoardLines
open Dc4bcVerif.Model.Board

inductive Line where
  | msg (e : Entry)
  /-- a complete line that does not decode as a message (its size) -/
  | junk (size : Nat)
  deriving DecidableEq

structure File where
  lines : List Line := []
  /-- a tail without a newline: what a writer that died in the middle of an append left (its size) -/
  torn : Option Nat := none
  deriving DecidableEq

def Line.msg? : Line → Option Entry
  | .msg e => some e
  | .junk _ => none

/-- `closeTornTail` -/
def closeTorn (f : File) : File :=
  match f.torn with
  | none => f
  | some s => { lines := f.lines ++ [.junk s], torn := none }

/-- `send` since fix 58eae51 -/
def send (f : File) (id : String) (size : Nat) : File :=
  let g := closeTorn f
  { g with lines := g.lines ++ [.msg ⟨id, g.lines.length, size⟩] }

/-- `send` of the pinned tree: `countLines` counts the unterminated tail, `Fprintln` appends to it -/
def sendPinned (f : File) (id : String) (size : Nat) : File :=
  match f.torn with
  | none => { f with lines := f.lines ++ [.msg ⟨id, f.lines.length, size⟩] }
  | some s => { lines := f.lines ++ [.junk (s + size)], torn := none }

inductive Op where
  | send (id : String) (size : Nat)
  /-- a writer dies after `size` bytes of its line -/
  | dies (size : Nat)
  /-- somebody appends a complete line that is no message -/
  | garbage (size : Nat)

def step (f : File) : Op → File
  | .send id size => send f id size
  | .dies size => match f.torn with
    | none => { f with torn := some size }
    | some s => { f with torn := some (s + size) }
  | .garbage size => match f.torn with
    | none => { f with lines := f.lines ++ [.junk size] }
    | some s => { lines := f.lines ++ [.junk (s + size)], torn := none }

def run (f : File) (ops : List Op) : File := ops.foldl step f

/-- `GetMessages(off)` since fix 58eae51 -/
def getMessages (f : File) (off : Nat) (ignId : List String) (ignOff : List Nat) : List Entry :=
  ((f.lines.drop off).filterMap Line.msg?).filter (fun e => !(ignId.contains e.id) && !(ignOff.contains e.offset))

/-- `GetMessages(off)` of the pinned tree: `none` = the error that ends the Poll loop -/
def getMessagesPinned (f : File) (off : Nat) (ignId : List String) (ignOff : List Nat) : Option (List Entry) :=
  if (f.lines.drop off).all (fun l => l.msg?.isSome) then some (getMessages f off ignId ignOff) else none

end Dc4bcVerif.Model.BoardLines
