/-
  M-SYM: a symbolic (Dolev–Yao style) account of what an airgapped machine exports, for C04.
  Terms are built from secret atoms and public data with one-way exponentiation (`exp`: commitments, public
  keys, master key), ECIES encryption to a participant (`enc`), signatures (`psig`: Schnorr on responses, BLS
  partial signatures — the key is not recoverable from them) and pairing. The attacker sees every exported
  term, owns the decryption keys of a set `C` of corrupted participants, and can take terms apart and build
  new ones. Cryptography is perfect by construction: this model says WHERE secrets are placed, not how
  strong the primitives are. Core-only.
-/
namespace Dc4bcVerif.Model.Sym

inductive Term (S P : Type) where
  | sec (s : S)
  | pub (p : P)
  | exp (t : Term S P)
  | enc (to : Nat) (t : Term S P)
  | psig (key msg : Term S P)
  | pair (a b : Term S P)
  deriving DecidableEq

variable {S P : Type}

/-- what the attacker can derive from the exported terms `K` with the decryption keys of the participants in `C` -/
inductive Derivable (C : Nat → Prop) (K : Term S P → Prop) : Term S P → Prop
  | known {t} : K t → Derivable C K t
  | fst {a b} : Derivable C K (.pair a b) → Derivable C K a
  | snd {a b} : Derivable C K (.pair a b) → Derivable C K b
  | dec {j t} : Derivable C K (.enc j t) → C j → Derivable C K t
  | sigMsg {k m} : Derivable C K (.psig k m) → Derivable C K m
  | mkPair {a b} : Derivable C K a → Derivable C K b → Derivable C K (.pair a b)
  | mkExp {t} : Derivable C K t → Derivable C K (.exp t)
  | mkEnc {j t} : Derivable C K t → Derivable C K (.enc j t)
  | mkSig {k m} : Derivable C K k → Derivable C K m → Derivable C K (.psig k m)
  | pubData {p} : Derivable C K (.pub p)

/-- the secret atom `s` occurs in the term only where the attacker cannot reach it: under `exp`, as a signing
key, or inside a ciphertext for a participant that is not corrupted -/
def guarded [DecidableEq S] (C : Nat → Prop) (s : S) : Term S P → Prop
  | .sec x => x ≠ s
  | .pub _ => True
  | .exp _ => True
  | .enc j t => ¬ C j ∨ guarded C s t
  | .psig _ m => guarded C s m
  | .pair a b => guarded C s a ∧ guarded C s b

-- ───────────── what a machine exports in one round ─────────────

/-- the secret atoms of participant `i` -/
inductive Atom where
  | longTermKey (i : Nat)
  | seed (i : Nat)
  | coefficient (i k : Nat)
  | finalShare (i : Nat)
  /-- the evaluation `f_i(j)` that dealer `i` sends to `j` -/
  | dealShare (i j : Nat)
  deriving DecidableEq, Repr

/-- public data -/
inductive PubData where
  | text (n : Nat)
  deriving DecidableEq, Repr

abbrev T := Term Atom PubData

/-- everything participant `i` exports during key generation and signing with `n` participants, threshold `t`
and `nmsgs` signed messages (read off airgapped/dkg.go and airgapped/bls.go):
its DKG public key, its commitments, one encrypted deal per other participant (the share for that participant
and the commitments again), its signed responses, the master key and public polynomial (public points), its
partial signatures, and error reports (public text) -/
def exported (i n t nmsgs : Nat) : List T :=
  let commits : List T := (List.range t).map (fun k => .exp (.sec (.coefficient i k)))
  let commitBlob : T := commits.foldr (fun c acc => .pair c acc) (.pub (.text 0))
  [.exp (.sec (.longTermKey i))] ++ commits ++
  ((List.range n).filter (· ≠ i)).map (fun j => .enc j (.pair (.sec (.dealShare i j)) commitBlob)) ++
  ((List.range n).filter (· ≠ i)).map (fun j => .psig (.sec (.longTermKey i)) (.pub (.text j))) ++
  [.exp (.sec (.finalShare i)), .pub (.text 1)] ++
  (List.range nmsgs).map (fun m => .psig (.sec (.finalShare i)) (.pub (.text m)))

end Dc4bcVerif.Model.Sym
