/-
  M-NODE, part 2: answering operations (`executeOperation`, `ApproveParticipation`) and the
  operation repository with its tombstones.
-/
import Dc4bcVerif.Model.Node

namespace Dc4bcVerif.Model.Node
open Dc4bcVerif.Gen Dc4bcVerif.Model

/-- a message inside an operation result / posted to the board -/
structure OutMsg where
  event : String
  round : String
  recipient : String
  data : Bytes
  sender : String := ""
  /-- the `Signature` field is `ed25519.Sign(node key, Data)` -/
  signedBySelf : Bool := false
  deriving Repr, DecidableEq

/-- an operation submitted to `ProcessOperation`. The submitted `ID` is represented by the pending
operation that carries this ID (`none`: no pending operation does); byte equality of `Type` and
`Payload` with the stored ones are oracle flags (the harness compares the bytes itself). -/
structure SubOp where
  idOf : Option NOp
  typeSame : Bool
  payloadSame : Bool
  round : String
  event : String
  extra : Bytes
  resultMsgs : List OutMsg
  deriving Repr

structure ExecOut where
  st : NodeSt
  out : Outcome
  posted : List OutMsg := []

/-- `DeleteOperation`: tombstone first, then rewrite the pool without it -/
def deleteOperation (st : NodeSt) (op : NOp) : Option NodeSt :=
  if st.deleted.contains op then none
  else
    let st1 := { st with deleted := st.deleted ++ [op] }
    some { st1 with ops := (visibleOps st1).filter (fun o => o != op) }

/-- the guards of `executeOperation`: a result (not a request), carrying the ID of a pending operation,
with unchanged `Type` and `Payload` -/
def execGuard (st : NodeSt) (sub : SubOp) : Option NOp :=
  if sub.event == "" then none else
  match sub.idOf with
  | none => none
  | some stored =>
    if (visibleOps st).contains stored && sub.typeSame && sub.payloadSame then some stored else none

/-- ordinary results: sign and post the result messages, then retire the operation -/
def execPost (st : NodeSt) (sub : SubOp) (stored : NOp) : ExecOut :=
  let posted := sub.resultMsgs.map (fun m => { m with sender := st.self, signedBySelf := true })
  match deleteOperation st stored with
  | some st' => { st := st', out := .ok, posted := posted }
  | none => { st := st, out := .reject, posted := posted }

/-- `operation_processed_successfully` (re-initialisation): write the public polynomial returned by the
airgapped machine into the round, then retire the operation; nothing is posted -/
def execReinit (st : NodeSt) (sub : SubOp) (stored : NOp) : ExecOut :=
  match lookupS st.rounds sub.round with
  | none => { st := st, out := .reject }
  | some (ds, p) =>
    match Instance.restore ds p with
    | none => { st := st, out := .reject }
    | some _ =>
      match p.dkg with
      -- a round without a key-generation part: an error since fix 2fefb3d (a nil dereference, i.e. a panic, before)
      | none => { st := st, out := .reject }
      | some dc =>
        let st1 := saveFSM st sub.round (ds, { p with dkg := some { dc with pubPolyBz := sub.extra } })
        match deleteOperation st1 stored with
        | some st' => { st := st', out := .ok }
        | none => { st := st1, out := .reject }

/-- `executeOperation` -/
def executeOperation (st : NodeSt) (sub : SubOp) : ExecOut :=
  match execGuard st sub with
  | none => { st := st, out := .reject }
  | some stored =>
    if sub.event != "operation_processed_successfully" then execPost st sub stored
    else execReinit st sub stored

end Dc4bcVerif.Model.Node

namespace Dc4bcVerif.Model.Node
open Dc4bcVerif.Gen Dc4bcVerif.Model

structure ApproveOut where
  st : NodeSt
  out : Outcome
  /-- the confirmation posted: (round, recipient, participant id) -/
  posted : Option (String × String × Int) := none

/-- `ApproveParticipation(operationID)`: the operation must be a pending invitation; the participant id
is the one whose invited communication key is the node's own key -/
def approveParticipation (st : NodeSt) (idOf : Option NOp) : ApproveOut :=
  match idOf with
  | none => { st := st, out := .reject }
  | some op =>
    if !(visibleOps st).contains op then { st := st, out := .reject } else
    if op.type != "state_sig_proposal_await_participants_confirmations" then { st := st, out := .reject } else
    match op.payload with
    | .sigInvitations l =>
      match l.find? (fun e => e.2.2.2.2 == st.selfKey) with
      | none => { st := st, out := .reject }
      | some e =>
        match deleteOperation st op with
        | some st' => { st := st', out := .ok, posted := some (op.round, "", e.1) }
        | none => { st := st, out := .reject, posted := some (op.round, "", e.1) }
    | _ => { st := st, out := .reject }

end Dc4bcVerif.Model.Node

namespace Dc4bcVerif.Model.Node
open Dc4bcVerif.Gen Dc4bcVerif.Model

-- ───────────── re-initialisation from a dump (`reinitDKG`, after fix 840e470) ─────────────

/-- a message of the dump, decoded like a board message, with the flag `isAdaptationPatch` (unsigned
self-confirmation synthesised by the 0.1.4 adaptation) -/
structure InnerMsg where
  msg : NMsg
  patch : Bool

/-- the decoded `ReDKG` payload of a `reinit_dkg` message -/
structure ReinitReq where
  dkgId : String
  /-- participant name ↦ new communication key -/
  participants : List (String × Bytes)
  inner : List InnerMsg

/-- which messages of the dump are replayed: up to the first signing proposal; only those of the round being
re-initialised; only those addressed to everybody or to this node -/
def replayed (self dkgId : String) (im : InnerMsg) : Bool :=
  im.msg.round == dkgId && (im.msg.recipient == "" || im.msg.recipient == self)

/-- `types.IsSigningPhaseEvent` -/
def signingPhaseEvent (e : String) : Bool :=
  e.startsWith "event_signing_" || e == "signature_reconstructed" || e == "signature_reconstruction_failed"

/-- the messages a re-initialisation replays: those of the signing phase are skipped wherever they stand (until fix
`c405ec9` the list was CUT at the first `event_signing_start`: known finding C20-early-signing-proposal, now repaired) -/
def beforeSigning (inner : List InnerMsg) : List InnerMsg := inner.filter (fun im => !signingPhaseEvent im.msg.event)

/-- one replayed message: verification as configured, except for the unsigned 0.1.4 patches; the operation it gives
rise to is collected, not stored; a rejected message changes nothing and is skipped -/
def reinitStep (skip0 : Bool) (now : Time) (payloadOf : Tasks.Msg → Bytes) (acc : NodeSt × List NOp) (im : InnerMsg) : NodeSt × List NOp :=
  let r := processMessage { acc.1 with skipVerify := skip0 || im.patch } im.msg now payloadOf
  ({ r.st with skipVerify := skip0 },
   match r.out, r.op with
   | .ok, some op => acc.2 ++ [op]
   | _, _ => acc.2)

def reinitLoop (self dkgId : String) (skip0 : Bool) (now : Time) (payloadOf : Tasks.Msg → Bytes) (st : NodeSt) (inner : List InnerMsg) :
    NodeSt × List NOp :=
  ((beforeSigning inner).filter (replayed self dkgId)).foldl (reinitStep skip0 now payloadOf) (st, [])

structure ReinitOut where
  st : NodeSt
  out : Outcome

/-- `reinitDKG` as the pinned tree had it (kept for `Props/C18ReinitReject.lean`): nothing if the round exists; otherwise replay, register the `reinit_dkg` operation (whose payload lists
the collected operations), write the new communication keys into the round and save it under `dkg_id` -/
def reinitDKGPinned (st : NodeSt) (req : ReinitReq) (now : Time) (payloadOf : Tasks.Msg → Bytes) : ReinitOut :=
  if (lookupS st.rounds req.dkgId).isSome then { st := st, out := .ok } else
  let (st1, ops) := reinitLoop st.self req.dkgId st.skipVerify now payloadOf st req.inner
  let op : NOp := ⟨"reinit_dkg", req.dkgId, .reinitOps (ops.map (·.type))⟩
  match putOperation st1 op with
  | none => { st := st1, out := .reject }
  | some st2 =>
    match getInstance st2 req.dkgId with
    | none => { st := st2, out := .reject }
    | some (_, inst) =>
      let keys := req.participants.foldl (fun acc nk => assocSet acc nk.1 nk.2) inst.payload.pubKeys
      { st := saveFSM st2 req.dkgId (inst.dumpState, { inst.payload with pubKeys := keys }), out := .ok }

/-- `reinitDKG` since the fix "a re-initialisation message without a round id left a pending operation behind": a file
whose `dkg_id` is empty after trimming is refused before anything is touched (no round can be created under such an id:
`getInstance`) -/
def reinitDKG (st : NodeSt) (req : ReinitReq) (now : Time) (payloadOf : Tasks.Msg → Bytes) : ReinitOut :=
  if blankId req.dkgId then { st := st, out := .reject } else
  if (lookupS st.rounds req.dkgId).isSome then { st := st, out := .ok } else
  let (st1, ops) := reinitLoop st.self req.dkgId st.skipVerify now payloadOf st req.inner
  let op : NOp := ⟨"reinit_dkg", req.dkgId, .reinitOps (ops.map (·.type))⟩
  match putOperation st1 op with
  | none => { st := st1, out := .reject }
  | some st2 =>
    match getInstance st2 req.dkgId with
    | none => { st := st2, out := .reject }
    | some (_, inst) =>
      let keys := req.participants.foldl (fun acc nk => assocSet acc nk.1 nk.2) inst.payload.pubKeys
      { st := saveFSM st2 req.dkgId (inst.dumpState, { inst.payload with pubKeys := keys }), out := .ok }

end Dc4bcVerif.Model.Node
