/-
  M-NODE, part 2: answering operations (`executeOperation`, `ApproveParticipation`) and the
  operation repository with its tombstones.
-/
import Dc4bcVerif.Model.Node

namespace Dc4bcVerif.Model.Node
open Dc4bcVerif.Gen Dc4bcVerif.Model

/-- a message inside an operation result / posted to the board -/
structure OutMsg where
  event : String
  round : String
  recipient : String
  data : Bytes
  sender : String := ""
  /-- the `Signature` field is `ed25519.Sign(node key, Data)` -/
  signedBySelf : Bool := false
  deriving Repr, DecidableEq

/-- an operation submitted to `ProcessOperation`. The submitted `ID` is represented by the pending
operation that carries this ID (`none`: no pending operation does); byte equality of `Type` and
`Payload` with the stored ones are oracle flags (the harness compares the bytes itself). -/
structure SubOp where
  idOf : Option NOp
  typeSame : Bool
  payloadSame : Bool
  round : String
  event : String
  extra : Bytes
  resultMsgs : List OutMsg
  deriving Repr

structure ExecOut where
  st : NodeSt
  out : Outcome
  posted : List OutMsg := []

/-- `DeleteOperation`: tombstone first, then rewrite the pool without it -/
def deleteOperation (st : NodeSt) (op : NOp) : Option NodeSt :=
  if st.deleted.contains op then none
  else
    let st1 := { st with deleted := st.deleted ++ [op] }
    some { st1 with ops := (visibleOps st1).filter (fun o => o != op) }

/-- the guards of `executeOperation`: a result (not a request), carrying the ID of a pending operation,
with unchanged `Type` and `Payload` -/
def execGuard (st : NodeSt) (sub : SubOp) : Option NOp :=
  if sub.event == "" then none else
  match sub.idOf with
  | none => none
  | some stored =>
    if (visibleOps st).contains stored && sub.typeSame && sub.payloadSame then some stored else none

/-- ordinary results: sign and post the result messages, then retire the operation -/
def execPost (st : NodeSt) (sub : SubOp) (stored : NOp) : ExecOut :=
  let posted := sub.resultMsgs.map (fun m => { m with sender := st.self, signedBySelf := true })
  match deleteOperation st stored with
  | some st' => { st := st', out := .ok, posted := posted }
  | none => { st := st, out := .reject, posted := posted }

/-- `operation_processed_successfully` (re-initialisation): write the public polynomial returned by the
airgapped machine into the round, then retire the operation; nothing is posted -/
def execReinit (st : NodeSt) (sub : SubOp) (stored : NOp) : ExecOut :=
  match lookupS st.rounds sub.round with
  | none => { st := st, out := .reject }
  | some (ds, p) =>
    match Instance.restore ds p with
    | none => { st := st, out := .reject }
    | some _ =>
      match p.dkg with
      | none => { st := st, out := .panic }
      | some dc =>
        let st1 := saveFSM st sub.round (ds, { p with dkg := some { dc with pubPolyBz := sub.extra } })
        match deleteOperation st1 stored with
        | some st' => { st := st', out := .ok }
        | none => { st := st1, out := .reject }

/-- `executeOperation` -/
def executeOperation (st : NodeSt) (sub : SubOp) : ExecOut :=
  match execGuard st sub with
  | none => { st := st, out := .reject }
  | some stored =>
    if sub.event != "operation_processed_successfully" then execPost st sub stored
    else execReinit st sub stored

end Dc4bcVerif.Model.Node

namespace Dc4bcVerif.Model.Node
open Dc4bcVerif.Gen Dc4bcVerif.Model

structure ApproveOut where
  st : NodeSt
  out : Outcome
  /-- the confirmation posted: (round, recipient, participant id) -/
  posted : Option (String × String × Int) := none

/-- `ApproveParticipation(operationID)`: the operation must be a pending invitation; the participant id
is the one whose invited communication key is the node's own key -/
def approveParticipation (st : NodeSt) (idOf : Option NOp) : ApproveOut :=
  match idOf with
  | none => { st := st, out := .reject }
  | some op =>
    if !(visibleOps st).contains op then { st := st, out := .reject } else
    if op.type != "state_sig_proposal_await_participants_confirmations" then { st := st, out := .reject } else
    match op.payload with
    | .sigInvitations l =>
      match l.find? (fun e => e.2.2.2.2 == st.selfKey) with
      | none => { st := st, out := .reject }
      | some e =>
        match deleteOperation st op with
        | some st' => { st := st', out := .ok, posted := some (op.round, "", e.1) }
        | none => { st := st, out := .reject, posted := some (op.round, "", e.1) }
    | _ => { st := st, out := .reject }

end Dc4bcVerif.Model.Node
