/-
  How the hot node drives a round's FSM (client/services/node/node_service.go processMessage,
  client/services/fsmservice): restore the instance from the persisted dump, `Do` the event,
  persist the new dump only when `Do` succeeded.
-/
import Dc4bcVerif.Model.Instance

namespace Dc4bcVerif.Model
open Dc4bcVerif.Gen

/-- one event against the persisted round -/
def persistStep (i : Instance) (ea : Ev × Arg) : Instance :=
  let r := i.doEv ea.1 ea.2
  if r.2.res == .ok then (Instance.restore r.1.dumpState r.1.payload).getD r.1 else i

/-- any finite sequence of events (every event × every argument, accepted or not) -/
def run (i : Instance) (evs : List (Ev × Arg)) : Instance := evs.foldl persistStep i

theorem run_nil (i : Instance) : run i [] = i := rfl
theorem run_cons (i : Instance) (ea : Ev × Arg) (evs : List (Ev × Arg)) :
    run i (ea :: evs) = run (persistStep i ea) evs := rfl
theorem run_append (i : Instance) (l1 l2 : List (Ev × Arg)) : run i (l1 ++ l2) = run (run i l1) l2 := by
  unfold run; exact List.foldl_append

/-- a property preserved by every step holds after every run -/
theorem run_induction {Q : Instance → Prop} (hstep : ∀ i ea, Q i → Q (persistStep i ea))
    (i : Instance) (h : Q i) (evs : List (Ev × Arg)) : Q (run i evs) := by
  induction evs generalizing i with
  | nil => exact h
  | cons ea evs ih => exact ih _ (hstep i ea h)

end Dc4bcVerif.Model
