/-
  M-FSM, part 1: the generic engine of fsm/fsm/fsm.go (`MustNewFSM`, `Do`, `do`,
  `processAutoEvent`, `SetState`) over the GENERATED tables.

  Hand-written model (tied to the code by the `fsmdiff` correspondence driver).
  Core-only: this file must stay free of Mathlib imports (it is linked into the driver).
-/
import Dc4bcVerif.Gen.FsmTables

namespace Dc4bcVerif.Model
open Dc4bcVerif.Gen

/-- `trEvent` of fsm.go -/
structure Tr where
  event : Ev
  dst : St
  isInternal : Bool
  isAuto : Bool
  runMode : Nat
  deriving Repr, DecidableEq

/-- `MustNewFSM`: `IsAuto ∧ AutoRunMode = Default ⇒ After` (1 = before, 2 = after). -/
def normRunMode (d : EventDesc) : Nat :=
  if d.isAuto && d.runMode == 0 then 2 else d.runMode

def EventDesc.toTr (d : EventDesc) : Tr :=
  ⟨d.name, d.dst, d.isInternal, d.isAuto, normRunMode d⟩

/-- `f.transitions[trKey{s, e}]` -/
def lookup (m : MachineDesc) (s : St) (e : Ev) : Option Tr :=
  (m.events.find? (fun d => d.name == e && d.src.contains s)).map EventDesc.toTr

/-- `f.autoTransitions[trAutoKeyEvent{s, mode}]` -/
def autoLookup (m : MachineDesc) (s : St) (mode : Nat) : Option Tr :=
  (m.events.find? (fun d => d.isAuto && normRunMode d == mode && d.src.contains s)).map EventDesc.toTr

def callbackOf (m : MachineDesc) (e : Ev) : Option ActionId :=
  (m.callbacks.find? (fun c => c.1 == e)).map (·.2)

/-- The panics of `MustNewFSM` that depend on the table (duplicate event names, duplicate auto
events per (state, mode), callbacks on unknown events, fewer than two destination states). -/
def wellFormed (m : MachineDesc) : Bool :=
  (m.events.map (·.name)).Nodup
  && !m.events.isEmpty
  && m.events.all (fun d => !d.src.isEmpty)
  && m.callbacks.all (fun c => m.events.any (fun d => d.name == c.1))
  && (m.callbacks.map (·.1)).Nodup
  && St.all.all (fun s => [1, 2].all (fun mode =>
        ((m.events.filter (fun d => d.isAuto && normRunMode d == mode && d.src.contains s)).length ≤ 1)))
  && m.events.all (fun d => !d.isAuto || normRunMode d == 1 || normRunMode d == 2)
  && decide (2 ≤ (m.events.map (·.dst)).eraseDups.length)

/-- `StatesList()`: the *source* states of the transitions. -/
def sourceStates (m : MachineDesc) : List St :=
  St.all.filter (fun s => m.events.any (fun d => d.src.contains s))

/-- `finStates`: destination states that are not sources (and not `__idle`). -/
def isFinState (m : MachineDesc) (s : St) : Bool :=
  s != .s___idle && m.events.any (fun d => d.dst == s) && !(sourceStates m).contains s

/-- outcome class of a callback / of `Do` -/
inductive Res where
  | ok | err | panic
  deriving Repr, DecidableEq, Inhabited

/-- what a callback returns: `(outEvent, response, err)` plus the (mutated) payload -/
structure ActOut (P R : Type) where
  outEvent : Option Ev := none     -- `none` = ""
  data : Option R := none          -- `none` = nil interface
  res : Res := .ok
  payload : P

/-- result of `FSM.Do` -/
structure DoOut (P R : Type) where
  /-- `*Response`: `none` on route errors; `State = none` models `""` -/
  resp : Option (Option St × Option R)
  res : Res
  /-- the machine's `currentState` afterwards -/
  state : St
  payload : P

variable {P R A : Type}

/-- `SetState` -/
def setState (m : MachineDesc) (cur : St) (e : Ev) : Option St :=
  (lookup m cur e).map (·.dst)

structure AutoOut (P R : Type) where
  executed : Bool
  outEvent : Option Ev
  data : Option R
  res : Res
  state : St
  payload : P

/-- `processAutoEvent` -/
def processAuto (m : MachineDesc) (act : ActionId → Ev → P → A → ActOut P R)
    (cur : St) (p : P) (mode : Nat) (a : A) : AutoOut P R :=
  match autoLookup m cur mode with
  | none => ⟨false, none, none, .ok, cur, p⟩
  | some au =>
    let o : ActOut P R := match callbackOf m au.event with
      | some aid => act aid au.event p a
      | none => { payload := p }
    match o.res with
    | .panic => ⟨true, none, o.data, .panic, cur, o.payload⟩
    | .err => ⟨true, none, o.data, .err, cur, o.payload⟩
    | .ok =>
      match setState m cur (o.outEvent.getD au.event) with
      | some s' => ⟨true, o.outEvent, o.data, .ok, s', o.payload⟩
      | none => ⟨true, o.outEvent, o.data, .err, cur, o.payload⟩

/-- `if data != nil { resp.Data = data }` -/
def pickData {R : Type} (new old : Option R) : Option R :=
  match new with
  | some d => some d
  | none => old

/-- the main callback of `do` (when the event has none, `outEvent`/`resp.Data` keep what the
before-auto step left) -/
def mainCallback (m : MachineDesc) (act : ActionId → Ev → P → A → ActOut P R)
    (tr : Tr) (b : AutoOut P R) (a : A) : ActOut P R :=
  match callbackOf m tr.event with
  | some aid => act aid tr.event b.payload a
  | none => { outEvent := b.outEvent, data := (if b.executed then b.data else none), res := .ok, payload := b.payload }

/-- second half of `do`: `SetState`, after-auto event, final response -/
def doTrAfter (m : MachineDesc) (act : ActionId → Ev → P → A → ActOut P R)
    (tr : Tr) (b : AutoOut P R) (o : ActOut P R) (a : A) : DoOut P R :=
  let respState0 : Option St := if b.executed then some b.state else none
  match setState m b.state (o.outEvent.getD tr.event) with
  | none => ⟨some (respState0, o.data), .err, b.state, o.payload⟩
  | some s1 =>
    let a2 := processAuto m act s1 o.payload 2 a
    let respData2 : Option R :=
      if a2.executed then pickData a2.data o.data else o.data
    ⟨some (some a2.state, respData2), a2.res, a2.state, a2.payload⟩

/-- `do` -/
def doTr (m : MachineDesc) (act : ActionId → Ev → P → A → ActOut P R)
    (cur : St) (p : P) (tr : Tr) (a : A) : DoOut P R :=
  let b := processAuto m act cur p 1 a
  let respState0 : Option St := if b.executed then some b.state else none
  if b.executed && b.res != .ok then
    ⟨some (respState0, if b.executed then b.data else none), b.res, b.state, b.payload⟩
  else
    let o := mainCallback m act tr b a
    if o.res != .ok then
      ⟨some (respState0, o.data), o.res, b.state, o.payload⟩
    else doTrAfter m act tr b o a

/-- `FSM.Do` -/
def doEvent (m : MachineDesc) (act : ActionId → Ev → P → A → ActOut P R)
    (cur : St) (p : P) (e : Ev) (a : A) : DoOut P R :=
  match lookup m cur e with
  | none => ⟨none, .err, cur, p⟩
  | some tr =>
    if tr.isInternal then ⟨none, .err, cur, p⟩
    else doTr m act cur p tr a

end Dc4bcVerif.Model
