/-
  M-REINIT-HASH: the byte string `CalcStartReInitDKGMessageHash` (client/types/types.go) feeds to SHA-1:
  the fields of the reinit file concatenated without separators, in the order the translator reads off the
  source (`Gen/NodeGlue.lean reinitHashOrder`; `Props/C20.lean order_matches_source` compares).
  `%d` rendering is a parameter `dec` (the driver uses `toString`). Core-only.
-/
import Dc4bcVerif.Model.Payload

namespace Dc4bcVerif.Model.ReinitHash
open Dc4bcVerif.Model

structure Part where
  newKey : Bytes
  oldKey : Bytes
  dkgKey : Bytes
  name : Bytes
  deriving DecidableEq, Repr

structure RMsg where
  data : Bytes
  sig : Bytes
  recipient : Bytes
  event : Bytes
  sender : Bytes
  round : Bytes
  offset : Int
  deriving DecidableEq, Repr

structure ReDKG where
  dkgId : Bytes
  threshold : Int
  parts : List Part
  msgs : List RMsg
  deriving DecidableEq, Repr

def encP (p : Part) : Bytes := p.newKey ++ p.oldKey ++ p.dkgKey ++ p.name

def encM (dec : Int → Bytes) (m : RMsg) : Bytes :=
  m.data ++ m.sig ++ m.recipient ++ m.event ++ m.sender ++ m.round ++ dec m.offset

def hashInput (dec : Int → Bytes) (re : ReDKG) : Bytes :=
  re.dkgId ++ dec re.threshold ++ re.parts.flatMap encP ++ re.msgs.flatMap (encM dec)

/-- the order in which the source writes the fields, as the translator records it -/
def expectedOrder : List String :=
  ["top:msg.DKGID:raw", "top:msg.Threshold:%d",
   "msg.Participants:p.NewCommPubKey:raw", "msg.Participants:p.OldCommPubKey:raw", "msg.Participants:p.DKGPubKey:raw", "msg.Participants:p.Name:raw",
   "msg.Messages:m.Data:raw", "msg.Messages:m.Signature:raw", "msg.Messages:m.RecipientAddr:raw", "msg.Messages:m.Event:raw",
   "msg.Messages:m.SenderAddr:raw", "msg.Messages:m.DkgRoundID:raw", "msg.Messages:m.Offset:%d"]

def decStr (n : Int) : Bytes := (toString n).toUTF8.toList

end Dc4bcVerif.Model.ReinitHash
