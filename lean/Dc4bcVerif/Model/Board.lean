/-
  M-BOARD: the file bulletin board (storage/file_storage/fileStorage.go).
  The data file is a list of lines; `send` (under the lock: one atomic step) counts the lines with a
  bufio.Scanner of token limit `countLimit` and appends one line whose `offset` field is that
  count; `GetMessages` scans with limit `readLimit`. A Scanner delivers a line iff the line plus
  its newline fits the limit, and stops at the first line that does not.
  The two limits are GENERATED from the source (`Gen/Board.lean`).
-/
import Dc4bcVerif.Gen.Board

namespace Dc4bcVerif.Model.Board

/-- one stored message: id, the offset written into it, and the byte length of its JSON line -/
structure Entry where
  id : String
  offset : Nat
  size : Nat
  deriving Repr, DecidableEq

structure Cfg where
  countLimit : Nat
  readLimit : Nat

def genCfg : Cfg := ⟨Dc4bcVerif.Gen.Board.countLimit, Dc4bcVerif.Gen.Board.readLimit⟩

/-- bufio.Scanner with max token size `L` returns the line (which is followed by '\n') -/
def fits (L : Nat) (e : Entry) : Bool := decide (e.size + 1 ≤ L)

/-- `countLines`: tokens delivered before the scanner stops (its error is ignored) -/
def countLines (L : Nat) (file : List Entry) : Nat := (file.takeWhile (fits L)).length

/-- `send` of one message whose JSON line has `size` bytes; `id` is the fresh uuid -/
def send (cfg : Cfg) (file : List Entry) (id : String) (size : Nat) : List Entry :=
  file ++ [⟨id, countLines cfg.countLimit file, size⟩]

/-- a history of sends (any interleaving of any number of writers is such a sequence, because
`send` holds the inter-process lock from counting to appending) -/
def sends (cfg : Cfg) (file : List Entry) : List (String × Nat) → List Entry
  | [] => file
  | (id, size) :: rest => sends cfg (send cfg file id size) rest

/-- `GetMessages(offset)` with the two ignore lists; `none` = error (a line exceeds the reader's limit) -/
def getMessages (cfg : Cfg) (file : List Entry) (off : Nat) (ignId : List String) (ignOff : List Nat) : Option (List Entry) :=
  if file.all (fits cfg.readLimit) then
    some ((file.drop off).filter (fun e => !(ignId.contains e.id) && !(ignOff.contains e.offset)))
  else none

end Dc4bcVerif.Model.Board
