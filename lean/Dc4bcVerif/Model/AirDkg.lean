/-
  M-AIRDKG: the airgapped machine's key-generation handlers (`airgapped/dkg.go`, `dkg/dkg.go`) together with
  the part of kyber's Pedersen DKG / VSS they drive (`share/dkg/pedersen`, `share/vss/pedersen`), as
  bookkeeping "in the exponent": a curve point `s·G` is represented by the scalar `s` (G generates a group of
  prime order, so equality of points is equality of scalars), an ECIES / DH-AEAD ciphertext by what its
  addressee obtains from it (`none` when decryption fails), a Schnorr signature by whether it verifies, a
  session id (a hash of dealer key, verifier keys, commitments and threshold) by the commitments and threshold it
  was computed from. What the machine draws from its seeded stream — the dealer polynomial — is an input
  (`poly`) of the commits step; the harness reads it from the real machine through a hook.

  Go ranges over maps in `ProcessDeals` (`d.deals`) and `ProcessResponses` (`indexToData`); the order is an
  explicit argument here (`ord`), and `Props/C12Air.lean` shows what does not depend on it.

  Mirrors, statement by statement:
    handleStateDkgCommitsAwaitConfirmations → `commitsOp`      (StorePubKey, InitDKGInstance, NewDistKeyGenerator, NewDealer)
    handleStateDkgDealsAwaitConfirmations   → `dealsOp`        (StoreCommits, Deals incl. the own deal)
    handleStateDkgResponsesAwaitConfirmations → `responsesOp`  (StoreDeal, ProcessDeals = ProcessDeal + processDealCommits)
    handleStateDkgMasterKeyAwaitConfirmations → `masterKeyOp`  (StoreResponses, ProcessResponses, Certified, dkgKey, saveBLSKeyring)
  Mutations a handler made before it fails stay (the instance is a pointer), as in the code. Core-only.
-/
import Dc4bcVerif.Model.Shamir

namespace Dc4bcVerif.Model.AirDkg
open Dc4bcVerif.Model.Shamir

variable {F : Type} [Add F] [Mul F] [Sub F] [Div F] [Zero F] [One F] [DecidableEq F] [NatCast F]
variable {K : Type} [DecidableEq K]

/-- a session id: the dealer, commitments and threshold it hashes (the verifier keys are fixed per instance) -/
abbrev Sid (F : Type) := Nat × List F × Nat

/-- `vss.Deal` in clear -/
structure PlainDeal (F : Type) where
  sid : Sid F
  secI : Nat
  secV : F
  thr : Nat
  commits : List F
  deriving DecidableEq

/-- `dkg.Deal` as its addressee sees it -/
structure OuterDeal (F : Type) where
  /-- `Index`: the dealer -/
  idx : Nat
  /-- the Schnorr signature verifies under the key of participant `idx` -/
  sigOk : Bool
  /-- what `Verifier.DecryptDeal` returns (`none`: an error) -/
  inner : Option (PlainDeal F)
  deriving DecidableEq

/-- `vss.Response` inside a `dkg.Response` -/
structure RespMsg (F : Type) where
  dealer : Nat
  ver : Nat
  status : Bool
  sid : Sid F
  sigOk : Bool
  deriving DecidableEq

/-- `vss.Aggregator` of one verifier -/
structure Verifier (F : Type) where
  deal : Option (PlainDeal F) := none
  /-- `responses`: verifier index ↦ status; the first write wins (`addResponse`), a justified complaint is flipped -/
  resp : List (Nat × Bool) := []
  bad : Bool := false
  deriving DecidableEq

/-- `dkg.DKG` + its `DistKeyGenerator` -/
structure Inst (F K : Type) where
  pid : Nat
  /-- `DKG.Threshold` as given in the payload -/
  thr : Int
  /-- threshold of the dealer (`newThreshold`) -/
  t : Nat
  /-- `pubKeys`, sorted by participant id: name, key -/
  keys : List (String × K)
  poly : List F
  commits : List (String × List F) := []
  deals : List (String × OuterDeal F) := []
  vers : List (Verifier F)
  /-- the dealer's own aggregator: responses to the own deal -/
  dealerResp : List (Nat × Bool) := []
  processedOwn : Bool := false
  /-- `messageStore`: (sender name, response), in the order of arrival -/
  store : List (String × RespMsg F) := []
  deriving DecidableEq

structure Keyring (F : Type) where
  pubPoly : List F
  share : F
  deriving DecidableEq

/-- the machine: volatile instances, durable key rings (own key fixed) -/
structure Machine (F K : Type) where
  me : K
  insts : List (String × Inst F K) := []
  rings : List (String × Keyring F) := []
  deriving DecidableEq

/-! ### association lists (Go maps) -/

def lookup {V : Type} (k : String) : List (String × V) → Option V
  | [] => none
  | (k', v) :: rest => if k' = k then some v else lookup k rest

/-- `m[k] = v` -/
def put {V : Type} (k : String) (v : V) : List (String × V) → List (String × V)
  | [] => [(k, v)]
  | (k', v') :: rest => if k' = k then (k, v) :: rest else (k', v') :: put k v rest

def lookupN (k : Nat) : List (Nat × Bool) → Option Bool
  | [] => none
  | (k', v) :: rest => if k' = k then some v else lookupN k rest

/-- `addResponse`: refuses a second response of the same origin -/
def addResp (k : Nat) (s : Bool) (l : List (Nat × Bool)) : Option (List (Nat × Bool)) :=
  match lookupN k l with
  | some _ => none
  | none => some (l ++ [(k, s)])

def setResp (k : Nat) (s : Bool) : List (Nat × Bool) → List (Nat × Bool)
  | [] => []
  | (k', v) :: rest => if k' = k then (k, s) :: rest else (k', v) :: setResp k s rest

/-! ### vss -/

def node (i : Nat) : F := ((i + 1 : Nat) : F)

/-- `validT` -/
def validT (t : Nat) (n : Nat) : Bool := decide (2 ≤ t) && decide (t ≤ n)

inductive Verdict | ok | already | bad
  deriving DecidableEq

/-- `Aggregator.VerifyDeal` -/
def verifyDeal (n : Nat) (v : Verifier F) (d : PlainDeal F) (inclusion : Bool) : Verifier F × Verdict :=
  if v.deal.isSome && inclusion then (v, .already) else
  let v' : Verifier F := if v.deal.isNone then { v with deal := some d } else v
  match v'.deal with
  | none => (v', .bad)
  | some first =>
    if !validT d.thr n then (v', .bad)
    else if d.thr ≠ first.thr then (v', .bad)
    else if first.sid ≠ d.sid then (v', .bad)
    else if !(decide (d.secI < n)) then (v', .bad)
    else if evalPoly d.commits (node d.secI) ≠ d.secV then (v', .bad)
    else (v', .ok)

/-- `Verifier.ProcessEncryptedDeal` for the verifier of index `own`; `none`: an error -/
def processEncryptedDeal (n own : Nat) (v : Verifier F) (inner : Option (PlainDeal F)) : Verifier F × Option Bool :=
  match inner with
  | none => (v, none)
  | some d =>
    if d.secI ≠ own then (v, none) else
    let (v', verdict) := verifyDeal n v d true
    if verdict = .already then (v', none) else
    let status := decide (verdict = .ok)
    match addResp own status v'.resp with
    | none => (v', none)
    | some r => ({ v' with resp := r }, some status)

/-- `UnsafeSetResponseDKG`: `addResponse` whose error is dropped -/
def unsafeSet (k : Nat) (s : Bool) (v : Verifier F) : Verifier F :=
  match addResp k s v.resp with
  | some r => { v with resp := r }
  | none => v

/-- `DistKeyGenerator.ProcessDeal`; the answer is the status of the response (`none`: an error) -/
def dkgProcessDeal (i : Inst F K) (od : OuterDeal F) : Inst F K × Option Bool :=
  let n := i.keys.length
  if !(decide (od.idx < n)) then (i, none) else
  if !od.sigOk then (i, none) else
  match i.vers[od.idx]? with
  | none => (i, none)
  | some v =>
    let (v', r) := processEncryptedDeal n i.pid v od.inner
    match r with
    | none => ({ i with vers := i.vers.set od.idx v' }, none)
    | some status => ({ i with vers := i.vers.set od.idx (unsafeSet od.idx true v') }, some status)

/-! ### dc4bc's `dkg` package -/

/-- `processDealCommits` -/
def dealCommitsOk (i : Inst F K) (od : OuterDeal F) : Bool :=
  match od.inner, i.keys[od.idx]? with
  | some d, some (name, _) =>
    match lookup name i.commits with
    | some bc => decide (bc = d.commits)
    | none => false
  | _, _ => false

/-- `DKG.ProcessDeals` over the deals in the order `ord` (names); the answer: the dealers answered -/
def processDeals (i : Inst F K) : List String → List Nat → Inst F K × Option (List Nat)
  | [], acc => (i, some acc)
  | name :: rest, acc =>
    match lookup name i.deals with
    | none => processDeals i rest acc
    | some od =>
      if od.idx = i.pid then processDeals i rest acc else
      let (i', r) := dkgProcessDeal i od
      match r with
      | none => (i', none)
      | some status =>
        if !status || !dealCommitsOk i' od then (i', none)
        else processDeals i' rest (acc ++ [od.idx])

/-- the machine's own deal for verifier `j` -/
def ownDeal (i : Inst F K) (j : Nat) : OuterDeal F :=
  { idx := i.pid, sigOk := true,
    inner := some { sid := (i.pid, i.poly, i.t), secI := j, secV := evalPoly i.poly (node j), thr := i.t, commits := i.poly } }

/-- `DistKeyGenerator.Deals`: the own deal is processed the first time; `none`: the panic inside (recovered by `handleOperation`) -/
def genDeals (i : Inst F K) : Inst F K × Bool :=
  if i.processedOwn then (i, true) else
  let i1 := { i with processedOwn := true }
  match dkgProcessDeal i1 (ownDeal i1 i1.pid) with
  | (i2, some true) => (i2, true)
  | (i2, _) => (i2, false)

/-- `messageStore.add` with its limit per sender -/
def storeAdd (cap : Nat) (name : String) (r : RespMsg F) (s : List (String × RespMsg F)) : List (String × RespMsg F) :=
  if (s.filter (fun e => e.1 = name)).length = cap then s else s ++ [(name, r)]

/-- `Verifier.ProcessResponse` + `Aggregator.verifyResponse` -/
def verProcessResponse (n : Nat) (v : Verifier F) (r : RespMsg F) : Option (Verifier F) :=
  match v.deal with
  | none => none
  | some first =>
    if r.sid ≠ first.sid then none
    else if !(decide (r.ver < n)) then none
    else if !r.sigOk then none
    else match addResp r.ver r.status v.resp with
      | none => none
      | some l => some { v with resp := l }

/-- `Aggregator.verifyJustification` for the own, honest deal of verifier `k` -/
def justify (n : Nat) (i : Inst F K) (v : Verifier F) (k : Nat) : Verifier F × Bool :=
  match lookupN k v.resp with
  | none => (v, false)
  | some true => (v, false)
  | some false =>
    match (ownDeal i k).inner with
    | none => (v, false)
    | some d =>
      let (v', verdict) := verifyDeal n v d false
      if verdict = .ok then ({ v' with resp := setResp k true v'.resp }, true) else ({ v' with bad := true }, false)

/-- `DistKeyGenerator.ProcessResponse`; `none`: an error (the instance keeps what was written before it) -/
def dkgProcessResponse (i : Inst F K) (r : RespMsg F) : Inst F K × Bool :=
  let n := i.keys.length
  match i.vers[r.dealer]? with
  | none => (i, false)
  | some v =>
    match verProcessResponse n v r with
    | none => (i, false)
    | some v1 =>
      let i1 := { i with vers := i.vers.set r.dealer v1 }
      if r.dealer ≠ i.pid then (i1, true) else
      -- the response is about the own deal: `Dealer.ProcessResponse`
      if r.sid ≠ (i.pid, i.poly, i.t) then (i1, false)
      else if !(decide (r.ver < n)) then (i1, false)
      else match addResp r.ver r.status i1.dealerResp with
        | none => (i1, false)
        | some dr =>
          let i2 := { i1 with dealerResp := dr }
          if r.status then (i2, true) else
          let (v2, ok) := justify n i2 v1 r.ver
          ({ i2 with vers := i2.vers.set r.dealer v2 }, ok)

/-- the responses of one verifier index, in the order of arrival (`indexToData[k]`) -/
def storedOf (i : Inst F K) (k : Nat) : List (RespMsg F) := (i.store.filter (fun e => e.2.ver = k)).map (·.2)

def processRespList (i : Inst F K) : List (RespMsg F) → Inst F K × Bool
  | [] => (i, true)
  | r :: rest =>
    if r.ver = i.pid then processRespList i rest else
    -- there is no justification phase in dc4bc: a complaint ends the step (fix c76d172; until then a complaint about the
    -- machine's OWN deal was justified on the spot - `justify` below - and counted as an approval on that machine only)
    if !r.status then (i, false) else
    match dkgProcessResponse i r with
    | (i', false) => (i', false)
    | (i', true) => processRespList i' rest

/-- `Aggregator.DealCertified` without a timeout -/
def dealCertified (n : Nat) (v : Verifier F) : Bool :=
  match v.deal with
  | none => false
  | some first =>
    let rs := (List.range n).map (fun k => lookupN k v.resp)
    let approvals := (rs.filter (· == some true)).length
    !v.bad && decide (first.thr ≤ approvals) && !(rs.any (· == some false)) && !(rs.any (· == none))

/-- `DKG.ProcessResponses` over the verifier indices in the order `ord`, then `Certified` -/
def processResponses (i : Inst F K) : List Nat → Inst F K × Bool
  | [] => (i, i.vers.all (dealCertified i.keys.length) && decide (i.keys.length ≤ i.vers.length))
  | k :: rest =>
    match processRespList i (storedOf i k) with
    | (i', false) => (i', false)
    | (i', true) => processResponses i' rest

def allSameLength : List (List F) → Bool
  | [] => true
  | a :: rest => rest.all (fun b => b.length = a.length)

/-- `dkgKey` + `GetBLSKeyring`: sum of the shares received, sum of the commitments (all of one length, else `PubPoly.Add` fails) -/
def distKey (i : Inst F K) : Option (Keyring F) :=
  let ds := i.vers.filterMap (·.deal)
  if ds.length ≠ i.vers.length then none else
  if !allSameLength (ds.map (·.commits)) then none else
  match ds with
  | [] => none
  | _ => some { pubPoly := sumPolys (ds.map (·.commits)), share := sumL (ds.map (·.secV)) }

/-! ### the handlers -/

/-- entry of the commits payload: participant id, name, key (`none`: does not parse), threshold -/
structure KeyEntry (K : Type) where
  pid : Int
  name : String
  key : Option K
  thr : Int

/-- stable insertion by participant id (`sort.Sort` on fewer than 13 entries is an insertion sort) -/
def insertByPid (e : Int × String × K) : List (Int × String × K) → List (Int × String × K)
  | [] => [e]
  | x :: rest => if e.1 < x.1 then e :: x :: rest else x :: insertByPid e rest

def sortByPid (l : List (Int × String × K)) : List (Int × String × K) := l.foldl (fun acc e => insertByPid e acc) []

/-- `PKStore.Add` -/
def pkAdd (e : Int × String × K) (l : List (Int × String × K)) : List (Int × String × K) :=
  if l.any (fun x => x.2.1 = e.2.1 ∧ x.2.2 = e.2.2) then l else l ++ [e]

def firstIdx (p : α → Bool) : List α → Option Nat
  | [] => none
  | x :: rest => if p x then some 0 else (firstIdx p rest).map (· + 1)

def hasDup [DecidableEq α] : List α → Bool
  | [] => false
  | x :: rest => rest.contains x || hasDup rest

inductive Res (F : Type) where
  | err
  /-- the polynomial handed in as the machine's draw has the wrong length: a fault of the harness, not of the machine -/
  | badOracle
  /-- own index, own commitments -/
  | commits (pid : Nat) (cs : List F)
  /-- own index, (addressee name, key the deal is encrypted to, the deal) for every other participant, name the self-confirmation goes to -/
  | deals (pid : Nat) (ds : List (String × Option Nat × OuterDeal F)) (self : String)
  /-- own index, dealers answered (all approvals) -/
  | responses (pid : Nat) (dealers : List Nat)
  /-- own index, master key, public polynomial -/
  | masterKey (pid : Nat) (key : Option F) (pubPoly : List F)
  /-- own index, the share the partial signatures are made with (`none`: no message to sign, the key ring was not read), their number -/
  | partials (pid : Nat) (share : Option F) (n : Nat)
  deriving DecidableEq

/-- the end of the commits step: `NewDistKeyGenerator` with the dealer's threshold `t`, the instance is filed -/
def commitsFinish (m : Machine F K) (round : String) (poly : List F) (keys : List (String × K)) (idx : Nat) (thr : Int) (t : Nat) :
    Machine F K × Res F :=
  let n := keys.length
  if thr < 0 then (m, .err) else
  if !validT t n then (m, .err) else
  if hasDup (keys.map (·.2)) then (m, .err) else
  if poly.length ≠ t then (m, .badOracle) else
  let inst : Inst F K := { pid := idx, thr := thr, t := t, keys := keys, poly := poly, vers := List.replicate n {} }
  ({ m with insts := put round inst m.insts }, .commits idx poly)

/-- the first loop of the commits step: it stops at the own key or at a key that does not parse -/
def findOwn (me : K) : List (KeyEntry K) → Option Int
  | [] => none
  | e :: rest => match e.key with
    | none => none
    | some k => if k = me then some e.pid else findOwn me rest

/-- `handleStateDkgCommitsAwaitConfirmations` -/
def commitsOp (m : Machine F K) (round : String) (entries : List (KeyEntry K)) (poly : List F) : Machine F K × Res F :=
  match findOwn m.me entries with
  | none => (m, .err)
  | some pid =>
    if pid < 0 then (m, .err) else
    if (lookup round m.insts).isSome then (m, .err) else
    match entries.mapM (fun e => e.key.map (fun k => (e.pid, e.name, k))) with
    | none => (m, .err)
    | some es =>
      let thr := (entries.head?.map (·.thr)).getD 0
      let sorted := sortByPid (es.foldl (fun acc e => pkAdd e acc) [])
      let keys := sorted.map (fun e => (e.2.1, e.2.2))
      match firstIdx (fun e => decide (e.2 = m.me)) keys with
      | none => (m, .err)
      | some idx => commitsFinish m round poly keys idx thr (if thr = 0 then (keys.length + 1) / 2 else thr.toNat)

/-- entry of the deals payload: name, broadcast commitments (`none`: do not parse) -/
def storeCommits (i : Inst F K) : List (String × Option (List F)) → Inst F K × Bool
  | [] => (i, true)
  | (_, none) :: _ => (i, false)
  | (name, some cs) :: rest => storeCommits { i with commits := put name cs i.commits } rest

/-- `handleStateDkgDealsAwaitConfirmations` -/
def dealsOp (m : Machine F K) (round : String) (entries : List (String × Option (List F))) : Machine F K × Res F :=
  match lookup round m.insts with
  | none => (m, .err)
  | some i =>
    let (i1, ok) := storeCommits i entries
    if !ok then ({ m with insts := put round i1 m.insts }, .err) else
    match genDeals i1 with
    | (i2, false) => ({ m with insts := put round i2 m.insts }, .err)
    | (i2, true) =>
      let others := (List.range i2.keys.length).filter (· ≠ i2.pid)
      let nameOf (j : Nat) : String := (i2.keys[j]?.map (·.1)).getD ""
      let ds := others.map (fun j => (nameOf j, firstIdx (fun e : String × K => decide (e.1 = nameOf j)) i2.keys, ownDeal i2 j))
      ({ m with insts := put round i2 m.insts }, .deals i2.pid ds (nameOf i2.pid))

/-- entries of the responses payload: participant id, name, the deal (`none`: the ECIES layer or its JSON fails) -/
def storeDeals (i : Inst F K) : List (Int × String × Option (OuterDeal F)) → Inst F K × Bool
  | [] => (i, true)
  | (pid, name, d) :: rest =>
    if pid = (i.pid : Int) then storeDeals i rest else
    match d with
    | none => (i, false)
    | some od =>
      -- a deal is its sender's (fix 9d113d5): one naming another dealer is refused before it is filed
      if (od.idx : Int) ≠ pid then (i, false) else
      storeDeals { i with deals := put name od i.deals } rest

/-- `handleStateDkgResponsesAwaitConfirmations`; `ord`: the order in which Go ranges over `d.deals` -/
def responsesOp (m : Machine F K) (round : String) (entries : List (Int × String × Option (OuterDeal F))) (ord : List String) :
    Machine F K × Res F :=
  match lookup round m.insts with
  | none => (m, .err)
  | some i =>
    let (i1, ok) := storeDeals i entries
    if !ok then ({ m with insts := put round i1 m.insts }, .err) else
    match processDeals i1 ord [] with
    | (i2, none) => ({ m with insts := put round i2 m.insts }, .err)
    | (i2, some dealers) => ({ m with insts := put round i2 m.insts }, .responses i2.pid dealers)

def storeResponses (i : Inst F K) : List (String × Option (List (RespMsg F))) → Inst F K × Bool
  | [] => (i, true)
  | (_, none) :: _ => (i, false)
  | (name, some rs) :: rest =>
    let cap := (i.keys.length - 1) * (i.keys.length - 1)
    storeResponses { i with store := rs.foldl (fun s r => storeAdd cap name r s) i.store } rest

/-- `handleStateDkgMasterKeyAwaitConfirmations`; `ord`: the order in which Go ranges over `indexToData` -/
def masterKeyOp (m : Machine F K) (round : String) (entries : List (String × Option (List (RespMsg F)))) (ord : List Nat) :
    Machine F K × Res F :=
  match lookup round m.insts with
  | none => (m, .err)
  | some i =>
    let (i1, ok) := storeResponses i entries
    if !ok then ({ m with insts := put round i1 m.insts }, .err) else
    match processResponses i1 ord with
    | (i2, false) => ({ m with insts := put round i2 m.insts }, .err)
    | (i2, true) =>
      match distKey i2 with
      | none => ({ m with insts := put round i2 m.insts }, .err)
      | some kr =>
        if kr.pubPoly.isEmpty then ({ m with insts := put round i2 m.insts }, .err) else
        ({ m with insts := put round i2 m.insts, rings := put round kr m.rings }, .masterKey i2.pid kr.pubPoly.head? kr.pubPoly)

/-- the names under which deals are stored: what Go ranges over in `ProcessDeals`, in some order -/
def dealNames (i : Inst F K) : List String := i.deals.map (·.1)

/-- the verifier indices under which responses are stored: what Go ranges over in `ProcessResponses`, in some order -/
def storeIdxs (i : Inst F K) : List Nat := (i.store.map (·.2.ver)).eraseDups

/-- what `GetOperationResult` makes of a handler error: an error result naming the own index, or - no instance for the
round - a fatal error (no result file, nothing logged) -/
inductive Outcome (F : Type) where
  | result (r : Res F)
  | errorResult (pid : Nat)
  | fatal
  deriving DecidableEq

def outcome (m : Machine F K) (round : String) (r : Res F) : Outcome F :=
  match r with
  | .err => match lookup round m.insts with
    | some i => .errorResult i.pid
    | none => .fatal
  | r => .result r

/-- `handleStateSigningAwaitPartialSigns`: `msgs` = how many messages the proposal expands to (`none`: the payload or its
task list does not parse, or a range leaves the baked list); needs the round's instance (for the own index) and, if there is
anything to sign, its key ring; writes nothing -/
def signOp (m : Machine F K) (round : String) (payloadOk : Bool) (msgs : Option Nat) : Machine F K × Res F :=
  if !payloadOk then (m, .err) else
  match lookup round m.insts with
  | none => (m, .err)
  | some i =>
    match msgs with
    | none => (m, .err)
    | some 0 => (m, .partials i.pid none 0)
    | some (k + 1) =>
      match lookup round m.rings with
      | none => (m, .err)
      | some kr => (m, .partials i.pid (some kr.share) (k + 1))

/-- stop and start: the volatile instances are gone, the key rings stay -/
def stop (m : Machine F K) : Machine F K := { m with insts := [] }

/-- what an operator can hand a machine (with the orders Go's map ranges happen to take) -/
inductive Op (F K : Type) where
  | commits (round : String) (entries : List (KeyEntry K)) (poly : List F)
  | deals (round : String) (entries : List (String × Option (List F)))
  | responses (round : String) (entries : List (Int × String × Option (OuterDeal F))) (ord : List String)
  | masterKey (round : String) (entries : List (String × Option (List (RespMsg F)))) (ord : List Nat)
  /-- the process is stopped and started: the volatile instances are gone -/
  | restart

def exec (m : Machine F K) : Op F K → Machine F K × Res F
  | .commits r e p => commitsOp m r e p
  | .deals r e => dealsOp m r e
  | .responses r e o => responsesOp m r e o
  | .masterKey r e o => masterKeyOp m r e o
  | .restart => (stop m, Res.err)

def run (m : Machine F K) (ops : List (Op F K)) : Machine F K := ops.foldl (fun m op => (exec m op).1) m

/-- a two-party round over the integers, seen from participant `a` (key 1, index 0): its own polynomial 3 + 5x, `b`'s 7 + 11x -/
def exOps : List (Op Int Nat) :=
  [ .commits "r" [{ pid := 0, name := "a", key := some 1, thr := 2 }, { pid := 1, name := "b", key := some 2, thr := 2 }] [3, 5],
    .deals "r" [("a", some [3, 5]), ("b", some [7, 11])],
    .responses "r" [(0, "a", none), (1, "b", some { idx := 1, sigOk := true, inner := some { sid := (1, [7, 11], 2), secI := 0, secV := 18, thr := 2, commits := [7, 11] } })] ["b"] ]

def exResps : List (String × Option (List (RespMsg Int))) :=
  [("a", some [{ dealer := 1, ver := 0, status := true, sid := (1, [7, 11], 2), sigOk := true }]),
   ("b", some [{ dealer := 0, ver := 1, status := true, sid := (0, [3, 5], 2), sigOk := true }])]

/-- the model reaches an announcement: master key 10 = 3 + 7, polynomial 10 + 16x, share 26 = 10 + 16·1 -/
example : (masterKeyOp (run ({ me := 1 } : Machine Int Nat) exOps) "r" exResps [0, 1]).2 = Res.masterKey 0 (some 10) [10, 16] := by decide
example : (lookup "r" (masterKeyOp (run ({ me := 1 } : Machine Int Nat) exOps) "r" exResps [0, 1]).1.rings).map (·.share) = some 26 := by decide
end Dc4bcVerif.Model.AirDkg
