/-
  M-FSM, part 4: fsm_pool.Init / MachineByState and state_machines.{Create, FromDump,
  FSMInstance.Do} (fsm/fsm_pool/fsm_pool.go, fsm/state_machines/provider.go).
-/
import Dc4bcVerif.Model.Actions

namespace Dc4bcVerif.Model
open Dc4bcVerif.Gen

def machineOf : MachineId → MachineDesc
  | .sig => sigMachine
  | .dkg => dkgMachine
  | .sign => signMachine

def allMachines : List MachineDesc := [sigMachine, dkgMachine, signMachine]

/-- `f.initialEvent`: the first event (in table order) that has the initial state among its sources -/
def initialEvent (m : MachineDesc) : Option Ev :=
  (m.events.find? (fun d => d.src.contains m.initial)).map (·.name)

/-- `GlobalInitialEvent()` -/
def globalInitialEvent (m : MachineDesc) : Option Ev :=
  match initialEvent m with
  | none => none
  | some e => match lookup m .s___idle e with
    | some tr => if tr.isInternal then none else some e
    | none => none

/-- public events (`EventsList()`): events that have a non-internal transition -/
def publicEvents (m : MachineDesc) : List Ev :=
  (m.events.filter (fun d => !d.isInternal)).map (·.name)

/-- `p.states`: filled from each machine's `StatesList()` (source states); a source state is
never a fin state, so the second loop of `Init` always takes the `else` branch.
Terminal (destination-only) states are registered too when `registerFin` is on — the
repaired behaviour of `fsm_pool.Init` (see known_findings.json, fixed C19). -/
def poolStateWith (registerFin : Bool) (s : St) : Option MachineId :=
  match allMachines.find? (fun m => (sourceStates m).contains s) with
  | some m => some m.id
  | none =>
    if registerFin then (allMachines.find? (fun m => isFinState m s)).map (·.id) else none

/-- `Init` panics: duplicate machine names, duplicate public events, a state that is a source
in two machines, zero or two global entry events. -/
def poolWellFormed : Bool :=
  (allMachines.map (·.name)).Nodup
  && (allMachines.flatMap publicEvents).Nodup
  && St.all.all (fun s => decide ((allMachines.filter (fun m => (sourceStates m).contains s)).length ≤ 1))
  && decide ((allMachines.filterMap globalInitialEvent).length = 1)
  && allMachines.all wellFormed

/-- `FSMInstance`: the machine picked at creation, the machine's `currentState`, the dump's
`State` field (`none` = ""), and the shared payload. -/
structure Instance where
  machine : MachineId
  state : St
  dumpState : Option St
  payload : Payload
  deriving Repr, DecidableEq, Inhabited

/-- `Create(dkgID)` (for an id that is non-empty after trimming) -/
def Instance.create (dkgId : String) : Instance :=
  { machine := .sig, state := .s___idle, dumpState := some .s___idle, payload := { dkgId := dkgId } }

abbrev Out := DoOut Payload RespData

/-- `FSMInstance.Do` -/
def Instance.doEv (i : Instance) (e : Ev) (a : Arg) : Instance × Out :=
  let o := doEvent (machineOf i.machine) runAction i.state i.payload e a
  let ds := match o.resp with
    | some (st, _) => st
    | none => i.dumpState
  ({ i with state := o.state, dumpState := ds, payload := o.payload }, o)

end Dc4bcVerif.Model

namespace Dc4bcVerif.Model
open Dc4bcVerif.Gen

/-- does the pool of the code under verification register terminal states? (`false` = the
tree as pinned; `true` since the C19 repair "fix: keep rounds in finish states restorable") -/
def registerFinStates : Bool := true

def poolState (s : St) : Option MachineId := poolStateWith registerFinStates s

/-- `FromDump` on a well-formed dump: `MachineByState(dump.State)` then `WithSetup`.
`none` = error ("cannot init machine for state"). `MustCopyWithState` cannot panic here
because the pool only maps a state to a machine that lists it. -/
def Instance.restore (ds : Option St) (p : Payload) : Option Instance :=
  match ds with
  | none => none
  | some s => (poolState s).map (fun m => { machine := m, state := s, dumpState := some s, payload := p })

end Dc4bcVerif.Model
