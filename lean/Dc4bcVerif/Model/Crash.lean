/-
  M-CRASH: the poll loop of the hot node as a sequence of durable writes, with the process being
  killed between any two of them and restarted from what is on disk.

  One poll step handles the message at the saved offset: if the handler accepts it, the step writes
  the operation the message gives rise to (put-once), the new application state, and the advanced
  offset — in an ORDER that is a parameter here and is read off the source by the translator
  (`Gen/Effects.lean`: `storeOperation` / `SaveFSM` in `handleMessage`, `SaveOffset` after
  `ProcessMessage` in `Poll`). If the handler rejects the message only the offset is written.
  A crash keeps a prefix of the writes. Abstract in the handler; `Props/C13.lean` states what is
  assumed of it. Core-only.
-/
namespace Dc4bcVerif.Model.Crash

variable {S M O : Type} [DecidableEq O]

structure Store (S O : Type) where
  state : S
  ops : List O
  offset : Nat

/-- a message handler: `none` = rejected; otherwise the new state and the operation it gives rise to -/
abbrev Handler (S M O : Type) := S → M → Option (S × Option O)

/-- `PutOperation` with `ErrOperationExists` tolerated -/
def putOnce (ops : List O) (o : Option O) : List O :=
  match o with
  | none => ops
  | some x => if x ∈ ops then ops else ops ++ [x]

inductive W where
  | op | state
  deriving DecidableEq, Repr

def applyW (d : Store S O) (s' : S) (o : Option O) : W → Store S O
  | .op => { d with ops := putOnce d.ops o }
  | .state => { d with state := s' }

/-- the first `k` writes of one poll step on message `m` (`k` large = the complete step) -/
def stepPrefix (order : List W) (h : Handler S M O) (d : Store S O) (m : M) (k : Nat) : Store S O :=
  match h d.state m with
  | none => if k = 0 then d else { d with offset := d.offset + 1 }
  | some (s', o) =>
    let d1 := (order.take k).foldl (fun acc w => applyW acc s' o w) d
    if k > order.length then { d1 with offset := d1.offset + 1 } else d1

/-- one attempt: read the message at the saved offset, perform the first `k` writes (`none`: all of them), die / go on -/
def attempt (order : List W) (h : Handler S M O) (log : List M) (d : Store S O) (c : Option Nat) : Store S O :=
  match log[d.offset]? with
  | none => d
  | some m =>
    match c with
    | none => stepPrefix order h d m (order.length + 1)
    | some k => stepPrefix order h d m k

/-- a run under a crash schedule: each entry is one start of the process handling one message (crashing after
`k` writes) — restarts simply read the store again -/
def run (order : List W) (h : Handler S M O) (log : List M) (d : Store S O) (sched : List (Option Nat)) : Store S O :=
  sched.foldl (attempt order h log) d

/-- the crash-free step -/
def cleanStep (h : Handler S M O) (d : Store S O) (m : M) : Store S O :=
  match h d.state m with
  | none => { d with offset := d.offset + 1 }
  | some (s', o) => { state := s', ops := putOnce d.ops o, offset := d.offset + 1 }

/-- the crash-free run over the first `j` unconsumed messages -/
def clean (h : Handler S M O) (log : List M) (d : Store S O) : Nat → Store S O
  | 0 => d
  | j + 1 =>
    let c := clean h log d j
    match log[c.offset]? with
    | none => c
    | some m => cleanStep h c m

end Dc4bcVerif.Model.Crash
