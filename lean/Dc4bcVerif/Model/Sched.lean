/-
  M-SCHED: two activities of one node (an API request, a poll tick) interleaved at the granularity of
  their steps on the shared state store.

  * `Interleaves`: all merges of two step sequences; `interleaving_eq_serial` (Props/C14) is about them.
  * the operation pool as the repository presents it (pending operations, tombstones), with `put` / `del`
    as the ATOMIC steps they are when the repository mutex is held for the whole read-modify-write
    (`Gen/Locks.lean` says whether it is), and, for contrast, the same two operations as the unlocked
    read / write steps of the pinned tree (`UStep`), whose interleavings lose updates.
  * the poll tick against a state reset (`RStep`): the known finding.
  Core-only.
-/
namespace Dc4bcVerif.Model.Sched

/-- `l` is a merge of `l1` and `l2` that keeps the order inside each -/
inductive Interleaves {α : Type} : List α → List α → List α → Prop
  | nil : Interleaves [] [] []
  | left {a : α} {l1 l2 l : List α} : Interleaves l1 l2 l → Interleaves (a :: l1) l2 (a :: l)
  | right {b : α} {l1 l2 l : List α} : Interleaves l1 l2 l → Interleaves l1 (b :: l2) (b :: l)

def runSteps {S : Type} (l : List (S → S)) (s : S) : S := l.foldl (fun acc f => f acc) s

-- ───────────── the operation pool ─────────────

structure Pool (O : Type) where
  pending : List O
  retired : List O
  deriving DecidableEq, Repr

variable {O : Type} [DecidableEq O]

/-- `PutOperation` (with "already exists" tolerated): a retired or pending id is not added again -/
def put (b : O) (p : Pool O) : Pool O :=
  if b ∈ p.pending ∨ b ∈ p.retired then p else { p with pending := p.pending ++ [b] }

/-- `DeleteOperation`: tombstone, then remove from the pool; refused for an id that is already retired -/
def del (a : O) (p : Pool O) : Pool O :=
  if a ∈ p.retired then p else { pending := p.pending.filter (· ≠ a), retired := p.retired ++ [a] }

-- ───────────── the same, unlocked: separate reads and writes with thread-local copies ─────────────

/-- raw store of the repository: the two JSON blobs -/
structure Raw (O : Type) where
  ops : List O
  deleted : List O
  deriving DecidableEq, Repr

def Raw.visible (r : Raw O) : List O := r.ops.filter (fun o => o ∉ r.deleted)

/-- thread-local snapshot taken by the reads -/
structure Local (O : Type) where
  ops : List O := []
  deleted : List O := []

/-- the steps of `PutOperation b` and `DeleteOperation a` of the pinned tree -/
inductive UStep (O : Type) where
  | readDeleted | readOps
  | writeOpsPut (b : O)           -- ops := visible(snapshot) ++ [b]
  | writeDeleted (a : O)          -- deleted := snapshot.deleted ++ [a]
  | writeOpsDel (a : O)           -- ops := visible(snapshot) without a

def putSteps (b : O) : List (UStep O) := [.readDeleted, .readOps, .writeOpsPut b]
def delSteps (a : O) : List (UStep O) := [.readDeleted, .writeDeleted a, .readDeleted, .readOps, .writeOpsDel a]

def ustep (r : Raw O) (l : Local O) : UStep O → Raw O × Local O
  | .readDeleted => (r, { l with deleted := r.deleted })
  | .readOps => (r, { l with ops := r.ops })
  | .writeOpsPut b => ({ r with ops := (l.ops.filter (fun o => o ∉ l.deleted)) ++ [b] }, l)
  | .writeDeleted a => ({ r with deleted := l.deleted ++ [a] }, l)
  | .writeOpsDel a => ({ r with ops := (l.ops.filter (fun o => o ∉ l.deleted)).filter (· ≠ a) }, l)

/-- run a schedule: each entry is (thread, step); each thread has its own snapshot -/
def urun (r : Raw O) (l0 l1 : Local O) : List (Bool × UStep O) → Raw O
  | [] => r
  | (false, s) :: rest => let (r', l') := ustep r l0 s; urun r' l' l1 rest
  | (true, s) :: rest => let (r', l') := ustep r l1 s; urun r' l0 l' rest

-- ───────────── poll tick against a state reset ─────────────

/-- the durable state as far as the offset is concerned: the database generation it lives in, the offset, and how
many messages have been applied to that database -/
structure RState where
  applied : List Nat   -- offsets of the messages applied to the current database
  offset : Nat
  deriving DecidableEq, Repr

inductive RStep where
  | apply (k : Nat)      -- ProcessMessage of the message at offset k (read from the board before)
  | save (k : Nat)       -- SaveOffset(k)
  | reset                -- new empty database, offset 0
  deriving DecidableEq, Repr

def rstep (s : RState) : RStep → RState
  | .apply k => { s with applied := s.applied ++ [k] }
  | .save k => { s with offset := k }
  | .reset => { applied := [], offset := 0 }

def rrun (s : RState) (l : List RStep) : RState := l.foldl rstep s

end Dc4bcVerif.Model.Sched
