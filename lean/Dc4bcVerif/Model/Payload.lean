/-
  M-FSM, part 2: `DumpedMachineStatePayload` (fsm/state_machines/internal) and the request
  values the callbacks receive. Quorums are lists: the Go maps are keyed `0..n-1` by
  construction (`actionInitSignatureProposal` uses the slice index), so id = position.
-/
namespace Dc4bcVerif.Model

abbrev Bytes := List UInt8
/-- nanoseconds since the Unix epoch; Go's zero `time.Time` is `zeroTime` -/
abbrev Time := Int

def zeroTime : Time := -62135596800000000000

structure SigPart where
  username : String
  pubKey : Bytes
  dkgPubKey : Bytes
  /-- 0 await, 1 confirmed, 2 declined, 3 error -/
  status : Nat
  threshold : Int
  updatedAt : Time
  deriving Repr, DecidableEq, Inhabited

structure SigConf where
  quorum : List SigPart
  createdAt : Time
  updatedAt : Time
  expiresAt : Time
  deriving Repr, DecidableEq, Inhabited

structure DkgPart where
  username : String
  dkgPubKey : Bytes
  commit : Bytes := []
  deal : Bytes := []
  response : Bytes := []
  masterKey : Bytes := []
  /-- 0..11 as in `DKGParticipantStatus` -/
  status : Nat
  error : Option String := none
  updatedAt : Time
  deriving Repr, DecidableEq, Inhabited

structure DkgConf where
  quorum : List DkgPart
  createdAt : Time
  updatedAt : Time
  expiresAt : Time
  pubPolyBz : Bytes := []
  deriving Repr, DecidableEq, Inhabited

/-- `requests.SigningTask`; `payload = none` models a nil slice -/
structure Task where
  messageId : String
  file : String
  payload : Option Bytes
  rangeStart : Int
  rangeEnd : Int
  deriving Repr, DecidableEq, Inhabited

structure SignPart where
  username : String
  /-- 0 await, 1 confirmed, 2 error, 3 process -/
  status : Nat
  /-- map messageID ↦ signature, kept as an association list (insert replaces) -/
  partialSigns : List (String × Bytes) := []
  error : Option String := none
  updatedAt : Time
  deriving Repr, DecidableEq, Inhabited

structure SignConf where
  batchId : String := ""
  initiatorId : Int := 0
  quorum : List SignPart := []
  /-- `SrcPayload` = `json.Marshal(SigningTasks)`; kept structured (JSON is modelled, not verified) -/
  srcPayload : List Task := []
  createdAt : Time
  updatedAt : Time := zeroTime
  expiresAt : Time
  deriving Repr, DecidableEq, Inhabited

structure Payload where
  dkgId : String
  threshold : Int := 0
  sig : Option SigConf := none
  dkg : Option DkgConf := none
  sign : Option SignConf := none
  pubKeys : List (String × Bytes) := []
  ids : List (String × Int) := []
  deriving Repr, DecidableEq, Inhabited

structure PartEntry where
  username : String
  pubKey : Bytes
  dkgPubKey : Bytes
  deriving Repr, DecidableEq, Inhabited

/-- the single argument handed to `Do` (already decoded, as `FSMRequestFromMessage` does) -/
inductive Arg where
  | sigInit (parts : List PartEntry) (threshold : Int) (createdAt : Time)
  | sigPart (pid : Int) (createdAt : Time)
  | default (createdAt : Time)
  | commit (pid : Int) (data : Bytes) (createdAt : Time)
  | deal (pid : Int) (data : Bytes) (createdAt : Time)
  | response (pid : Int) (data : Bytes) (createdAt : Time)
  | masterKey (pid : Int) (key : Bytes) (createdAt : Time) (pubPoly : Bytes)
  | dkgErr (pid : Int) (error : Option String) (createdAt : Time)
  | signStart (batchId : String) (pid : Int) (createdAt : Time) (tasks : List Task)
  | partialSigns (batchId : String) (pid : Int) (signs : List (String × Bytes)) (createdAt : Time)
  | signErr (pid : Int) (error : Option String) (createdAt : Time)
  /-- a value of a type no callback accepts (e.g. the error value `FSMRequestFromMessage` returns for undecodable JSON) -/
  | other
  deriving Repr, DecidableEq, Inhabited

/-- response data of the callbacks (fsm/types/responses) -/
inductive RespData where
  | sigInvitations (l : List (Int × String × Int × Bytes × Bytes))   -- id, username, threshold, dkgPubKey, pubKey
  | sigStatuses (l : List (Int × String × Nat))                      -- unordered in Go; kept id-sorted
  | dkgPubKeys (l : List (Int × String × Bytes × Int))
  | dkgCommits (l : List (Int × String × Bytes))
  | dkgDeals (l : List (Int × String × Bytes))
  | dkgResponses (l : List (Int × String × Bytes))
  | signInvitations (batchId : String) (initiator : Int) (parts : List (Int × String × Nat)) (src : List Task)
  | signProcess (batchId : String) (src : List Task) (parts : List (Int × String × List (String × Bytes)))
  /-- payload of a `reinit_dkg` operation: the operations collected while replaying the dump (their types, in order) -/
  | reinitOps (types : List String)
  deriving Repr, DecidableEq, Inhabited

/-- map insert on association lists (replace or append) -/
def assocSet {β : Type} (l : List (String × β)) (k : String) (v : β) : List (String × β) :=
  match l with
  | [] => [(k, v)]
  | (k', v') :: t => if k' == k then (k, v) :: t else (k', v') :: assocSet t k v

/-- `0 ≤ id < len` — membership in a quorum map keyed `0..n-1` -/
def getAt {α : Type} (l : List α) (id : Int) : Option α :=
  if id < 0 then none else l[id.toNat]?

def setAt {α : Type} (l : List α) (id : Int) (v : α) : List α :=
  if id < 0 then l else l.set id.toNat v

end Dc4bcVerif.Model
