/-
  Canonical text rendering of model values for the line protocol. The Go harness renders the
  real objects with the same grammar (harness/render.go); the two streams are diffed.
-/
import Dc4bcVerif.Model.Instance

namespace Dc4bcVerif.Model
open Dc4bcVerif.Gen

def hexDigit (n : Nat) : Char :=
  if n < 10 then Char.ofNat (48 + n) else Char.ofNat (87 + n)

def hexOfBytes (b : Bytes) : String :=
  String.ofList (b.flatMap (fun x => [hexDigit (x.toNat / 16), hexDigit (x.toNat % 16)]))

def hexOfString (s : String) : String := hexOfBytes s.toUTF8.toList

def hx (b : Bytes) : String := "x" ++ hexOfBytes b
def hs (s : String) : String := "x" ++ hexOfString s

def rTime (t : Time) : String := if t == zeroTime then "z" else toString t

def rOptStr : Option String → String
  | none => "-"
  | some s => hs s

def joinWith (sep : String) (l : List String) : String := sep.intercalate l

def rTask (t : Task) : String :=
  joinWith ":" [hs t.messageId, hs t.file, (match t.payload with | none => "-" | some b => hx b),
                toString t.rangeStart, toString t.rangeEnd]

def rTasks (l : List Task) : String := "(" ++ joinWith ";" (l.map rTask) ++ ")"

/-- insertion sort on string keys (small lists; keeps the model free of unsafe array code) -/
def insertSorted (x : String × String) : List (String × String) → List (String × String)
  | [] => [x]
  | y :: t => if x.1 < y.1 then x :: y :: t else y :: insertSorted x t

def sortByKey (l : List (String × String)) : List (String × String) := l.foldr insertSorted []

def rMapBytes (l : List (String × Bytes)) : String :=
  "{" ++ joinWith "," ((sortByKey (l.map (fun (k, v) => (hexOfString k, hexOfBytes v)))).map
    (fun (k, v) => "x" ++ k ++ "=x" ++ v)) ++ "}"

def rMapInt (l : List (String × Int)) : String :=
  "{" ++ joinWith "," ((sortByKey (l.map (fun (k, v) => (hexOfString k, toString v)))).map
    (fun (k, v) => "x" ++ k ++ "=" ++ v)) ++ "}"

def rSigPart (q : SigPart) : String :=
  joinWith ":" [hs q.username, toString q.status, toString q.threshold, rTime q.updatedAt, hx q.pubKey, hx q.dkgPubKey]

def rSig : Option SigConf → String
  | none => "nil"
  | some c => "[c=" ++ rTime c.createdAt ++ " u=" ++ rTime c.updatedAt ++ " e=" ++ rTime c.expiresAt ++
      " q=(" ++ joinWith ";" (c.quorum.map rSigPart) ++ ")]"

def rDkgPart (q : DkgPart) : String :=
  joinWith ":" [hs q.username, toString q.status, rTime q.updatedAt, hx q.dkgPubKey, hx q.commit, hx q.deal,
                hx q.response, hx q.masterKey, rOptStr q.error]

def rDkg : Option DkgConf → String
  | none => "nil"
  | some c => "[c=" ++ rTime c.createdAt ++ " u=" ++ rTime c.updatedAt ++ " e=" ++ rTime c.expiresAt ++
      " poly=" ++ hx c.pubPolyBz ++ " q=(" ++ joinWith ";" (c.quorum.map rDkgPart) ++ ")]"

def rSignPart (q : SignPart) : String :=
  joinWith ":" [hs q.username, toString q.status, rTime q.updatedAt, rOptStr q.error, rMapBytes q.partialSigns]

def rSign : Option SignConf → String
  | none => "nil"
  | some c => "[batch=" ++ hs c.batchId ++ " init=" ++ toString c.initiatorId ++ " c=" ++ rTime c.createdAt ++
      " u=" ++ rTime c.updatedAt ++ " e=" ++ rTime c.expiresAt ++ " src=" ++ rTasks c.srcPayload ++
      " q=(" ++ joinWith ";" (c.quorum.map rSignPart) ++ ")]"

def rOptSt : Option St → String
  | none => "\"\""
  | some s => s.name

def rDump (ds : Option St) (p : Payload) : String :=
  "D{st=" ++ rOptSt ds ++ " id=" ++ hs p.dkgId ++ " thr=" ++ toString p.threshold ++ " sig=" ++ rSig p.sig ++
  " dkg=" ++ rDkg p.dkg ++ " sign=" ++ rSign p.sign ++ " keys=" ++ rMapBytes p.pubKeys ++ " ids=" ++ rMapInt p.ids ++ "}"

def rResp : Option RespData → String
  | none => "nil"
  | some (.sigInvitations l) => "sigInv(" ++ joinWith ";" (l.map (fun (i, u, t, d, k) =>
      joinWith ":" [toString i, hs u, toString t, hx d, hx k])) ++ ")"
  | some (.sigStatuses l) => "sigStat(" ++ joinWith ";" (l.map (fun (i, u, s) =>
      joinWith ":" [toString i, hs u, toString s])) ++ ")"
  | some (.dkgPubKeys l) => "dkgKeys(" ++ joinWith ";" (l.map (fun (i, u, d, t) =>
      joinWith ":" [toString i, hs u, hx d, toString t])) ++ ")"
  | some (.dkgCommits l) => "dkgCommits(" ++ joinWith ";" (l.map (fun (i, u, d) =>
      joinWith ":" [toString i, hs u, hx d])) ++ ")"
  | some (.dkgDeals l) => "dkgDeals(" ++ joinWith ";" (l.map (fun (i, u, d) =>
      joinWith ":" [toString i, hs u, hx d])) ++ ")"
  | some (.dkgResponses l) => "dkgResps(" ++ joinWith ";" (l.map (fun (i, u, d) =>
      joinWith ":" [toString i, hs u, hx d])) ++ ")"
  | some (.signInvitations b i parts src) => "signInv(" ++ hs b ++ " " ++ toString i ++ " " ++
      joinWith ";" (parts.map (fun (i, u, s) => joinWith ":" [toString i, hs u, toString s])) ++ " " ++ rTasks src ++ ")"
  | some (.signProcess b src parts) => "signProc(" ++ hs b ++ " " ++ rTasks src ++ " " ++
      joinWith ";" (parts.map (fun (i, u, m) => joinWith ":" [toString i, hs u, rMapBytes m])) ++ ")"
  | some (.reinitOps ts) => "reinitOps(" ++ joinWith ";" (ts.map hs) ++ ")"

def rRes : Res → String
  | .ok => "ok" | .err => "err" | .panic => "panic"

/-- observation of one `FSMInstance.Do` call -/
def rObs (i : Instance) (o : Out) : String :=
  match o.resp with
  | none => "route " ++ rDump i.dumpState i.payload
  | some (st, d) => rRes o.res ++ " resp=" ++ rOptSt st ++ " data=" ++ rResp d ++ " cur=" ++ i.state.name ++ " " ++
      rDump i.dumpState i.payload

end Dc4bcVerif.Model
