/-
  M-SSZ: (a) the consensus-spec functions `pack`, `merkleize`, `hash_tree_root` for `uint64`,
  `BytesN` and containers, written from the specification; (b) an interpreter for the GENERATED
  hasher-op lists (`Gen/SszSchema.lean`, read off the fastssz-generated `HashTreeRootWith`
  methods) with fastssz's `Hasher` semantics; (c) `GetSigningRoot` of pkg/wc_rotation assembled
  from the generated wiring (which value goes into which field, how the domain is put together).

  Everything is parametric in the 64-byte → 32-byte compression `hash`; the driver instantiates
  it with `Sha256.hash`. fastssz's incremental `merkleizeImpl` is modelled by the specification's
  `merkleize` (validated differentially by `sszdiff`, not verified).
-/
import Dc4bcVerif.Gen.SszSchema

namespace Dc4bcVerif.Model.Ssz
open Dc4bcVerif.Gen.Ssz

abbrev Bytes := List UInt8
abbrev HashFn := Bytes → Bytes

def zeroChunk : Bytes := List.replicate 32 0

def padTo32 (c : Bytes) : Bytes := c ++ List.replicate (32 - c.length) 0

/-- `pack`: split into 32-byte chunks, the last one zero-padded (fuel = length suffices) -/
def chunksAux : Nat → Bytes → List Bytes
  | 0, _ => []
  | k + 1, b => if b.isEmpty then [] else padTo32 (b.take 32) :: chunksAux k (b.drop 32)

def chunksOf (b : Bytes) : List Bytes := chunksAux b.length b

/-- smallest `d` with `2^d ≥ n` (fuel-bounded search) -/
def depthAux : Nat → Nat → Nat → Nat
  | 0, d, _ => d
  | f + 1, d, n => if 2 ^ d ≥ n then d else depthAux f (d + 1) n

def depth (n : Nat) : Nat := depthAux n 0 n

def reduceLayer (hash : HashFn) : List Bytes → List Bytes
  | a :: b :: t => hash (a ++ b) :: reduceLayer hash t
  | [a] => [hash (a ++ zeroChunk)]
  | [] => []

def reduceN (hash : HashFn) : Nat → List Bytes → List Bytes
  | 0, l => l
  | k + 1, l => reduceN hash k (reduceLayer hash l)

/-- `merkleize(chunks)` without limit: pad with zero chunks to the next power of two, hash pairwise
up to the root; no chunks ⇒ the zero chunk -/
def merkleize (hash : HashFn) (chunks : List Bytes) : Bytes :=
  let d := depth chunks.length
  let padded := chunks ++ List.replicate (2 ^ d - chunks.length) zeroChunk
  (reduceN hash d padded).headD zeroChunk

def le64 (v : UInt64) : Bytes := (List.range 8).map (fun i => (v >>> (UInt64.ofNat (8 * i))).toUInt8)

-- ───────────── (a) specification side ─────────────

inductive SszVal where
  | uint64 (v : UInt64)
  | bytesN (b : Bytes)

/-- `hash_tree_root` of a basic value / fixed-size byte vector -/
def htr (hash : HashFn) : SszVal → Bytes
  | .uint64 v => merkleize hash (chunksOf (le64 v))
  | .bytesN b => merkleize hash (chunksOf b)

/-- `hash_tree_root` of a container of such fields -/
def htrContainer (hash : HashFn) (fields : List SszVal) : Bytes := merkleize hash (fields.map (htr hash))

-- ───────────── (b) fastssz Hasher on the generated op lists ─────────────

/-- buffer is kept as a list of 32-byte chunks (every append is padded to a multiple of 32);
the ops of one `HashTreeRootWith` start at `indx = 0` of a fresh hasher -/
def runOpsAux (hash : HashFn) (val : String → Option SszVal) : List HOp → List Bytes → Option Bytes
  | [], _ => none
  | .putUint64 f :: r, buf =>
    match val f with
    | some (.uint64 v) => runOpsAux hash val r (buf ++ chunksOf (le64 v))
    | _ => none
  | .putBytes f :: r, buf =>
    match val f with
    | some (.bytesN b) =>
      if b.length ≤ 32 then runOpsAux hash val r (buf ++ chunksOf b)
      else runOpsAux hash val r (buf ++ [merkleize hash (chunksOf b)])
    | _ => none
  | .merkleize :: r, buf => if r.isEmpty then some (merkleize hash buf) else none

def runOps (hash : HashFn) (ops : List HOp) (val : String → Option SszVal) : Option Bytes :=
  runOpsAux hash val ops []

-- ───────────── (c) GetSigningRoot from the generated wiring ─────────────

def bytesOfNats (l : List Nat) : Bytes := l.map UInt8.ofNat

def assoc (l : List (String × String)) (k : String) : Option String := (l.find? (fun p => p.1 == k)).map (·.2)

/-- package-level variables of rotation.go -/
def globalVal (name : String) : Option Bytes :=
  if name == "GenesisForkVersion" then some (bytesOfNats genesisForkVersion)
  else if name == "DomainBlsToExecutionChange" then some (bytesOfNats domainBlsToExecutionChange)
  else if name == "GenesisValidatorRoot" then some (bytesOfNats genesisValidatorRoot)
  else if name == "LidoBlsPubKeyBB" then some (bytesOfNats lidoBlsPubKeyBB)
  else if name == "ToExecutionAddress" then some (bytesOfNats toExecutionAddress)
  else none

/-- bind formal parameters to actual values -/
def bindParams (params : List String) (vals : List (Option Bytes)) (name : String) : Option Bytes :=
  ((params.zip vals).find? (fun p => p.1 == name)).bind (·.2)

/-- `computeForkDataRoot(forkVersion, genesisValidatorsRoot)` -/
def codeForkDataRoot (hash : HashFn) (args : List (Option Bytes)) : Option Bytes :=
  let env := bindParams computeForkDataRootParams args
  runOps hash forkDataOps (fun field => (assoc forkDataFields field).bind (fun e => (env e).map SszVal.bytesN))

/-- `computeDomain(domainType, forkVersion, genesisValidatorsRoot)` -/
def codeDomain (hash : HashFn) (args : List (Option Bytes)) : Option Bytes :=
  let env := bindParams computeDomainParams args
  match codeForkDataRoot hash (computeForkDataRootArgs.map env) with
  | none => none
  | some fdr =>
    let env2 := fun n => if n == "forkDataRoot" then some fdr else env n
    match env2 domainAppend.1, env2 domainAppend.2.1 with
    | some a, some b => some (padTo32 ((a ++ b.take domainAppend.2.2).take 32))   -- copy(domain[:], append(…)) into [32]byte
    | _, _ => none

/-- `GetSigningRoot(validatorIndex)` -/
def codeSigningRoot (hash : HashFn) (idx : UInt64) : Option Bytes :=
  match codeDomain hash (computeDomainArgs.map globalVal) with
  | none => none
  | some domain =>
    let msgVal := fun e => if e == "validatorIndex" then some (SszVal.uint64 idx) else (globalVal e).map SszVal.bytesN
    match runOps hash bLSToExecutionChangeOps (fun field => (assoc messageFields field).bind msgVal) with
    | none => none
    | some objRoot =>
      let sdVal := fun e => if e == "objRoot" then some (SszVal.bytesN objRoot)
                            else if e == "domain" then some (SszVal.bytesN domain) else none
      runOps hash signingDataOps (fun field => (assoc signingDataFields field).bind sdVal)

end Dc4bcVerif.Model.Ssz
