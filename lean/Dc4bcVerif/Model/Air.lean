/-
  M-AIR: the airgapped machine's bookkeeping for one round: a volatile DKG instance, a durable operation
  log, `ProcessOperation` (compute, then log unless it is a signing request, then write the result file),
  `ReplayOperationsLog` (re-execute the log without logging again) and a restart (volatile state gone,
  database kept). The handlers themselves (kyber DKG, ECIES, BLS) are a parameter `H`: a deterministic
  function of the volatile state and the operation. What is NOT deterministic in the real machine —
  the order in which Go ranges over its maps while producing deals/responses, the ECIES randomness of
  deals — changes encodings, not meaning, and is outside this model. Core-only.
-/
namespace Dc4bcVerif.Model.Air

structure Machine (V Op : Type) where
  /-- `am.dkgInstances[round]` -/
  inst : Option V
  /-- `operations_log[round]` -/
  log : List Op

variable {V Op R : Type}

/-- a handler: new volatile state and the result (error results included) -/
abbrev H (V Op R : Type) := Option V → Op → Option V × R

/-- `ProcessOperation(op, storeOperation = true)` -/
def processOp (h : H V Op R) (logged : Op → Bool) (m : Machine V Op) (op : Op) : Machine V Op × R :=
  let (v', r) := h m.inst op
  ({ inst := v', log := if logged op then m.log ++ [op] else m.log }, r)

/-- the volatile state `ReplayOperationsLog` rebuilds, and the results it writes -/
def replayState (h : H V Op R) (log : List Op) : Option V := log.foldl (fun v op => (h v op).1) none

def replayResults (h : H V Op R) : Option V → List Op → List R
  | _, [] => []
  | v, op :: rest => (h v op).2 :: replayResults h (h v op).1 rest

/-- stop the process, open the database again, replay the log -/
def restart (h : H V Op R) (m : Machine V Op) : Machine V Op := { inst := replayState h m.log, log := m.log }

/-- the process dies after the handler ran but before the operation was logged -/
def diesBeforeLog (h : H V Op R) (m : Machine V Op) (op : Op) : Machine V Op := { m with inst := (h m.inst op).1 }

def runOps (h : H V Op R) (logged : Op → Bool) (m : Machine V Op) : List Op → Machine V Op × List R
  | [] => (m, [])
  | op :: rest =>
    let (m1, r) := processOp h logged m op
    let (m2, rs) := runOps h logged m1 rest
    (m2, r :: rs)

def fresh : Machine V Op := { inst := none, log := [] }

end Dc4bcVerif.Model.Air
