/-
  M-FSM, part 3: the callbacks of the three machines
  (fsm/state_machines/{signature,dkg,signing}_proposal_fsm/actions.go) and the request
  `Validate()` methods (fsm/types/requests/*_validation.go).

  Hand-written; dispatched through the GENERATED `ActionId` enum so that a callback added,
  removed or renamed in /repo breaks the build of this file (a broken tie).
-/
import Dc4bcVerif.Gen.FsmTables
import Dc4bcVerif.Gen.Config
import Dc4bcVerif.Model.Fsm
import Dc4bcVerif.Model.Payload

namespace Dc4bcVerif.Model
open Dc4bcVerif.Gen

abbrev AOut := ActOut Payload RespData

def aErr (p : Payload) : AOut := { res := .err, payload := p }
def aPanic (p : Payload) : AOut := { res := .panic, payload := p }
def aOk (p : Payload) (out : Option Ev := none) (d : Option RespData := none) : AOut :=
  { outEvent := out, data := d, res := .ok, payload := p }

/-- `time.Time.IsZero` -/
def isZeroTime (t : Time) : Bool := t == zeroTime

-- ───────────── request validation ─────────────

def validSigInit (parts : List PartEntry) (threshold : Int) (createdAt : Time) : Bool :=
  decide (Config.participantsMinCount ≤ (parts.length : Int))
  && decide (Config.signatureProposalSigningThresholdMinCount ≤ threshold)
  && decide (threshold ≤ (parts.length : Int))
  && (parts.map (·.username)).Nodup
  && parts.all (fun e =>
        decide (Config.usernameMinLength ≤ (e.username.utf8ByteSize : Int))
        && decide ((e.username.utf8ByteSize : Int) ≤ Config.usernameMaxLength)
        && decide (Config.participantPubKeyMinLength ≤ (e.pubKey.length : Int))
        && decide (Config.dkgPubKeyMinLength ≤ (e.dkgPubKey.length : Int)))
  && !isZeroTime createdAt

def validTask (t : Task) : Bool :=
  t.messageId != "" && !((t.payload.getD []).isEmpty && decide (t.rangeStart > t.rangeEnd))

-- ───────────── signature proposal machine ─────────────

def orderedIdx {α : Type} (l : List α) : List (Int × α) :=
  (List.range l.length).zip l |>.map (fun (i, x) => ((i : Int), x))

def sig_actionInitSignatureProposal (inEvent : Ev) (p : Payload) (a : Arg) : AOut :=
  match a with
  | .sigInit parts threshold createdAt =>
    if !validSigInit parts threshold createdAt then aErr p else
    let quorum : List SigPart := parts.map (fun e =>
      { username := e.username, pubKey := e.pubKey, dkgPubKey := e.dkgPubKey, status := 0,
        threshold := threshold, updatedAt := createdAt })
    let sc : SigConf := { quorum := quorum, createdAt := createdAt, updatedAt := zeroTime,
                          expiresAt := createdAt + Config.signatureProposalConfirmationDeadline }
    let pubKeys := (orderedIdx parts).foldl (fun acc (_, e) => assocSet acc e.username e.pubKey) p.pubKeys
    let ids := (orderedIdx parts).foldl (fun acc (i, e) => assocSet acc e.username i) p.ids
    let p' := { p with sig := some sc, pubKeys := pubKeys, ids := ids, threshold := threshold }
    let resp := (orderedIdx quorum).map (fun (i, q) => (i, q.username, q.threshold, q.dkgPubKey, q.pubKey))
    aOk p' (some inEvent) (some (.sigInvitations resp))
  | _ => aErr p

def sig_actionProposalResponseByParticipant (inEvent : Ev) (p : Payload) (a : Arg) : AOut :=
  match a with
  | .sigPart pid createdAt =>
    if pid < 0 || isZeroTime createdAt then aErr p else
    match p.sig with
    | none => aPanic p
    | some sc =>
      match getAt sc.quorum pid with
      | none => aErr p
      | some part =>
        if part.updatedAt + Config.signatureProposalConfirmationDeadline < createdAt then
          aOk p (some .e_event_sig_proposal_canceled_timeout)
        else if part.status != 0 then aErr p
        else
          let newStatus : Option Nat :=
            if inEvent == .e_event_sig_proposal_confirm_by_participant then some 1
            else if inEvent == .e_event_sig_proposal_decline_by_participant then some 2
            else none
          match newStatus with
          | none => aErr p
          | some st =>
            let part' := { part with status := st, updatedAt := createdAt }
            let sc' := { sc with quorum := setAt sc.quorum pid part', updatedAt := createdAt }
            aOk { p with sig := some sc' }
  | _ => aErr p

def sig_actionValidateSignatureProposal (_inEvent : Ev) (p : Payload) (_a : Arg) : AOut :=
  match p.sig with
  | none => aPanic p
  | some sc =>
    if sc.expiresAt < sc.updatedAt then aOk p (some .e_event_sig_proposal_canceled_timeout) else
    let unconfirmed : Int := (sc.quorum.length : Int) - ((sc.quorum.filter (·.status == 1)).length : Int)
    let hasDecline := sc.quorum.any (·.status == 2)
    if hasDecline then aOk p (some .e_event_sig_proposal_canceled_participant)
    else if unconfirmed > 0 then aOk p
    else
      let resp := (orderedIdx sc.quorum).map (fun (i, q) => (i, q.username, q.status))
      aOk p (some .e_event_sig_proposal_set_validated) (some (.sigStatuses resp))

-- ───────────── DKG proposal machine ─────────────

def dkg_actionInitDKGProposal (inEvent : Ev) (p : Payload) (a : Arg) : AOut :=
  if p.dkg.isSome then aOk p else
  match a with
  | .default createdAt =>
    match p.sig with
    | none => aPanic p
    | some sc =>
      let quorum : List DkgPart := sc.quorum.map (fun q =>
        { username := q.username, dkgPubKey := q.dkgPubKey, status := 0, updatedAt := q.updatedAt })
      let dc : DkgConf := { quorum := quorum, createdAt := createdAt, updatedAt := zeroTime,
                            expiresAt := createdAt + Config.dkgConfirmationDeadline }
      let p' := { p with dkg := some dc }
      match sc.quorum.head? with
      | none => aPanic p'
      | some q0 =>
        let resp := (orderedIdx quorum).map (fun (i, q) => (i, q.username, q.dkgPubKey, q0.threshold))
        aOk p' (some inEvent) (some (.dkgPubKeys resp))
  | _ => aErr p

/-- common shape of the four `action…ConfirmationReceived` callbacks -/
def dkgReceived (p : Payload) (pid : Int) (createdAt : Time) (dataEmpty : Bool)
    (awaitSt newSt : Nat) (upd : DkgPart → DkgPart) : AOut :=
  if pid < 0 || dataEmpty || isZeroTime createdAt then aErr p else
  match p.dkg with
  | none => aPanic p
  | some dc =>
    match getAt dc.quorum pid with
    | none => aErr p
    | some part =>
      if part.status != awaitSt then aErr p else
      let part' := { upd part with status := newSt, updatedAt := createdAt }
      let dc' := { dc with quorum := setAt dc.quorum pid part', updatedAt := createdAt }
      aOk { p with dkg := some dc' }

def dkg_actionCommitConfirmationReceived (_e : Ev) (p : Payload) (a : Arg) : AOut :=
  match a with
  | .commit pid data createdAt =>
    dkgReceived p pid createdAt data.isEmpty 0 1 (fun q => { q with commit := data })
  | _ => aErr p

def dkg_actionDealConfirmationReceived (_e : Ev) (p : Payload) (a : Arg) : AOut :=
  match a with
  | .deal pid data createdAt =>
    dkgReceived p pid createdAt data.isEmpty 3 4 (fun q => { q with deal := data })
  | _ => aErr p

def dkg_actionResponseConfirmationReceived (_e : Ev) (p : Payload) (a : Arg) : AOut :=
  match a with
  | .response pid data createdAt =>
    dkgReceived p pid createdAt data.isEmpty 6 7 (fun q => { q with response := data })
  | _ => aErr p

def dkg_actionMasterKeyConfirmationReceived (_e : Ev) (p : Payload) (a : Arg) : AOut :=
  match a with
  | .masterKey pid key createdAt pubPoly =>
    if pid < 0 || key.isEmpty || isZeroTime createdAt then aErr p else
    match p.dkg with
    | none => aPanic p
    | some dc =>
      match getAt dc.quorum pid with
      | none => aErr p
      | some part =>
        if part.status != 9 then aErr p else
        -- a polynomial differing from the one already announced aborts the round
        if !dc.pubPolyBz.isEmpty && dc.pubPolyBz != pubPoly then
          let q' := dc.quorum.map (fun q => { q with status := 11, error := some "public polynomial is mismatched" })
          aOk { p with dkg := some { dc with quorum := q', updatedAt := createdAt } }
            (some .e_event_dkg_master_key_confirm_canceled_by_error_internal)
        else
          let part' := { part with masterKey := key, status := 10, updatedAt := createdAt }
          let dc' := { dc with quorum := setAt dc.quorum pid part', updatedAt := createdAt, pubPolyBz := pubPoly }
          aOk { p with dkg := some dc' }
  | _ => aErr p

/-- common shape of the commits / deals / responses auto-validators -/
def dkgValidate (p : Payload) (errSt okSt nextAwait : Nat) (timeoutEv errEv doneEv : Ev)
    (mkResp : List DkgPart → RespData) : AOut :=
  match p.dkg with
  | none => aPanic p
  | some dc =>
    if dc.expiresAt < dc.updatedAt then aOk p (some timeoutEv) else
    let hasErr := dc.quorum.any (·.status == errSt)
    let unconfirmed : Int := (dc.quorum.length : Int) - ((dc.quorum.filter (·.status == okSt)).length : Int)
    if hasErr then aOk p (some errEv)
    else if unconfirmed > 0 then aOk p
    else
      let q' := dc.quorum.map (fun q => { q with status := nextAwait })
      aOk { p with dkg := some { dc with quorum := q' } } (some doneEv) (some (mkResp q'))

def dkg_actionValidateDkgProposalAwaitCommits (_e : Ev) (p : Payload) (_a : Arg) : AOut :=
  dkgValidate p 2 1 3 .e_event_dkg_commits_confirm_canceled_by_timeout_internal
    .e_event_dkg_commits_confirm_canceled_by_error_internal .e_event_dkg_commits_confirmed_internal
    (fun q => .dkgCommits ((orderedIdx q).map (fun (i, x) => (i, x.username, x.commit))))

def dkg_actionValidateDkgProposalAwaitDeals (_e : Ev) (p : Payload) (_a : Arg) : AOut :=
  dkgValidate p 5 4 6 .e_event_dkg_deals_confirm_canceled_by_timeout_internal
    .e_event_dkg_deals_confirm_canceled_by_error_internal .e_event_dkg_deals_confirmed_internal
    (fun q => .dkgDeals (((orderedIdx q).filter (fun (_, x) => !x.deal.isEmpty)).map
      (fun (i, x) => (i, x.username, x.deal))))

def dkg_actionValidateDkgProposalAwaitResponses (_e : Ev) (p : Payload) (_a : Arg) : AOut :=
  dkgValidate p 8 7 9 .e_event_dkg_response_confirm_canceled_by_timeout_internal
    .e_event_dkg_response_confirm_canceled_by_error_internal .e_event_dkg_responses_confirmed_internal
    (fun q => .dkgResponses ((orderedIdx q).map (fun (i, x) => (i, x.username, x.response))))

/-- the validator's key comparison: some confirmed key differs from the first confirmed one
(Go compares every confirmed key with `masterKeys[0]` of a randomly ordered list: "not all equal") -/
def keyMismatchL (confirmed : List DkgPart) : Bool :=
  match confirmed with
  | [] => false
  | k :: rest => rest.any (fun q => q.masterKey != k.masterKey)

def mkMismatchCond (dc : DkgConf) : Bool :=
  decide ((dc.quorum.filter (·.status == 10)).length > 1) && keyMismatchL (dc.quorum.filter (·.status == 10))

def dkg_actionValidateDkgProposalAwaitMasterKey (_e : Ev) (p : Payload) (_a : Arg) : AOut :=
  match p.dkg with
  | none => aPanic p
  | some dc =>
    if dc.expiresAt < dc.updatedAt then
      aOk p (some .e_event_dkg_master_key_confirm_canceled_by_timeout_internal) else
    if dc.quorum.any (·.status == 11) then aOk p (some .e_event_dkg_master_key_confirm_canceled_by_error_internal)
    else if mkMismatchCond dc then
      let q' := dc.quorum.map (fun q => { q with status := 11, error := some "master key is mismatched" })
      aOk { p with dkg := some { dc with quorum := q' } }
        (some .e_event_dkg_master_key_confirm_canceled_by_error_internal)
    else if (dc.quorum.length : Int) - ((dc.quorum.filter (·.status == 10)).length : Int) > 0 then aOk p
    else
      let q' := dc.quorum.map (fun q => { q with status := 10 })
      aOk { p with dkg := some { dc with quorum := q' } } (some .e_event_dkg_master_key_confirmed_internal)

def dkg_actionConfirmationError (inEvent : Ev) (p : Payload) (a : Arg) : AOut :=
  match a with
  | .dkgErr pid error createdAt =>
    if pid < 0 || error.isNone || isZeroTime createdAt then aErr p else
    match p.dkg with
    | none => aPanic p
    | some dc =>
      match getAt dc.quorum pid with
      | none => aErr p
      | some part =>
        let phase : Option (Nat × Nat) :=
          if inEvent == .e_event_dkg_commit_confirm_canceled_by_error then some (0, 2)
          else if inEvent == .e_event_dkg_deal_confirm_canceled_by_error then some (3, 5)
          else if inEvent == .e_event_dkg_response_confirm_canceled_by_error then some (6, 8)
          else if inEvent == .e_event_dkg_master_key_confirm_canceled_by_error then some (9, 11)
          else none
        match phase with
        | none => aErr p
        | some (awaitSt, errSt) =>
          if part.status != awaitSt then aErr p else
          let part' := { part with status := errSt, error := error, updatedAt := createdAt }
          let dc' := { dc with quorum := setAt dc.quorum pid part', updatedAt := createdAt }
          aOk { p with dkg := some dc' }
  | _ => aErr p

-- ───────────── signing proposal machine ─────────────

def sign_actionInitSigningProposal (_e : Ev) (p : Payload) (a : Arg) : AOut :=
  match a with
  | .default createdAt =>
    if isZeroTime createdAt then aErr p else
    let sc : SignConf := { createdAt := createdAt, expiresAt := createdAt + Config.signingConfirmationDeadline }
    aOk { p with sign := some sc }
  | _ => aErr p

def sign_actionStartSigningProposal (inEvent : Ev) (p : Payload) (a : Arg) : AOut :=
  match a with
  | .signStart batchId pid createdAt tasks =>
    if batchId == "" || tasks.isEmpty || pid < 0 || isZeroTime createdAt || !tasks.all validTask then aErr p else
    match p.sign, p.dkg with
    | some sc, some dc =>
      let quorum : List SignPart := dc.quorum.map (fun q =>
        { username := q.username, status := 0, updatedAt := createdAt })
      let sc' := { sc with createdAt := createdAt, batchId := batchId, initiatorId := pid,
                           srcPayload := tasks, quorum := quorum }
      let resp := RespData.signInvitations batchId pid
        ((orderedIdx quorum).map (fun (i, q) => (i, q.username, q.status))) tasks
      aOk { p with sign := some sc' } (some inEvent) (some resp)
    | _, _ => aPanic p
  | _ => aErr p

def sign_actionPartialSignConfirmationReceived (_e : Ev) (p : Payload) (a : Arg) : AOut :=
  match a with
  | .partialSigns batchId pid signs createdAt =>
    if batchId == "" || isZeroTime createdAt || pid < 0 || signs.isEmpty
       || !signs.all (fun s => s.1 != "" && !s.2.isEmpty) then aErr p else
    match p.sign with
    | none => aPanic p
    | some sc =>
      if batchId != sc.batchId then aErr p else
      match getAt sc.quorum pid with
      | none => aErr p
      | some part =>
        if part.status != 0 then aErr p else
        let ps := signs.foldl (fun acc s => assocSet acc s.1 s.2) part.partialSigns
        let part' := { part with partialSigns := ps, status := 1, updatedAt := createdAt }
        let sc' := { sc with quorum := setAt sc.quorum pid part' }
        match p.sig with
        | none => aPanic { p with sign := some sc' }
        | some sg => aOk { p with sign := some sc', sig := some { sg with updatedAt := createdAt } }
  | _ => aErr p

def sign_actionValidateSigningPartialSignsAwaitConfirmations (_e : Ev) (p : Payload) (_a : Arg) : AOut :=
  match p.sign with
  | none => aPanic p
  | some sc =>
    if sc.expiresAt < sc.updatedAt then
      aOk p (some .e_event_signing_partial_signs_await_cancel_by_timeout_internal) else
    let n : Int := sc.quorum.length
    let failed : Int := (sc.quorum.filter (·.status == 2)).length
    let unconfirmed : Int := n - ((sc.quorum.filter (·.status == 1)).length : Int)
    if failed > n - p.threshold then
      aOk p (some .e_event_signing_partial_signs_await_sign_cancel_by_error_internal)
    else if unconfirmed > n - p.threshold then aOk p
    else
      let q' := sc.quorum.map (fun q => { q with status := 3 })
      let resp := RespData.signProcess sc.batchId sc.srcPayload
        (((orderedIdx q').filter (fun (_, x) => !x.partialSigns.isEmpty)).map
          (fun (i, x) => (i, x.username, x.partialSigns)))
      aOk { p with sign := some { sc with quorum := q' } }
        (some .e_event_signing_partial_signs_confirmed_internal) (some resp)

def sign_actionSigningRestart (_e : Ev) (p : Payload) (_a : Arg) : AOut := aOk p

def sign_actionConfirmationError (inEvent : Ev) (p : Payload) (a : Arg) : AOut :=
  match a with
  | .signErr pid error createdAt =>
    if pid < 0 || error.isNone || isZeroTime createdAt then aErr p else
    match p.sign with
    | none => aPanic p
    | some sc =>
      match getAt sc.quorum pid with
      | none => aErr p
      | some part =>
        if inEvent != .e_event_signing_partial_sign_error_received then aErr p else
        if part.status != 0 then aErr p else
        let part' := { part with status := 2, error := error, updatedAt := createdAt }
        let sc' := { sc with quorum := setAt sc.quorum pid part' }
        match p.sig with
        | none => aPanic { p with sign := some sc' }
        | some sg => aOk { p with sign := some sc', sig := some { sg with updatedAt := createdAt } }
  | _ => aErr p

/-- dispatch through the generated enum: one arm per callback method named in the tables -/
def runAction : ActionId → Ev → Payload → Arg → AOut
  | .sig_actionInitSignatureProposal => sig_actionInitSignatureProposal
  | .sig_actionProposalResponseByParticipant => sig_actionProposalResponseByParticipant
  | .sig_actionValidateSignatureProposal => sig_actionValidateSignatureProposal
  | .dkg_actionInitDKGProposal => dkg_actionInitDKGProposal
  | .dkg_actionCommitConfirmationReceived => dkg_actionCommitConfirmationReceived
  | .dkg_actionConfirmationError => dkg_actionConfirmationError
  | .dkg_actionValidateDkgProposalAwaitCommits => dkg_actionValidateDkgProposalAwaitCommits
  | .dkg_actionDealConfirmationReceived => dkg_actionDealConfirmationReceived
  | .dkg_actionValidateDkgProposalAwaitDeals => dkg_actionValidateDkgProposalAwaitDeals
  | .dkg_actionResponseConfirmationReceived => dkg_actionResponseConfirmationReceived
  | .dkg_actionValidateDkgProposalAwaitResponses => dkg_actionValidateDkgProposalAwaitResponses
  | .dkg_actionMasterKeyConfirmationReceived => dkg_actionMasterKeyConfirmationReceived
  | .dkg_actionValidateDkgProposalAwaitMasterKey => dkg_actionValidateDkgProposalAwaitMasterKey
  | .sign_actionInitSigningProposal => sign_actionInitSigningProposal
  | .sign_actionStartSigningProposal => sign_actionStartSigningProposal
  | .sign_actionPartialSignConfirmationReceived => sign_actionPartialSignConfirmationReceived
  | .sign_actionValidateSigningPartialSignsAwaitConfirmations => sign_actionValidateSigningPartialSignsAwaitConfirmations
  | .sign_actionConfirmationError => sign_actionConfirmationError
  | .sign_actionSigningRestart => sign_actionSigningRestart

end Dc4bcVerif.Model
