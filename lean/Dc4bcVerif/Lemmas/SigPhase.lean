/-
  The invitation machine (signature_proposal_fsm): opening proposal, confirm / decline, validator.
-/
import Dc4bcVerif.Lemmas.DkgCommon

namespace Dc4bcVerif.Model
open Dc4bcVerif.Gen

abbrev sIdle0 : St := .s___idle
abbrev sSigAwait : St := .s_state_sig_proposal_await_participants_confirmations
abbrev sSigCollected : St := .s_state_sig_proposal_collected
abbrev sSigCancP : St := .s_state_sig_proposal_canceled_by_participant
abbrev sSigCancTo : St := .s_state_sig_proposal_canceled_by_timeout
abbrev eSigInit : Ev := .e_event_sig_proposal_init
abbrev eSigConfirm : Ev := .e_event_sig_proposal_confirm_by_participant
abbrev eSigDecline : Ev := .e_event_sig_proposal_decline_by_participant
abbrev eSigVal : Ev := .e_event_sig_proposal_validate
abbrev eSigTo : Ev := .e_event_sig_proposal_canceled_timeout
abbrev eSigCancP : Ev := .e_event_sig_proposal_canceled_participant
abbrev eSigDone : Ev := .e_event_sig_proposal_set_validated

theorem sig_lookup_init : lookup sigMachine sIdle0 eSigInit = some ⟨eSigInit, sSigAwait, false, false, 0⟩ := by decide
theorem sig_lookup_confirm : lookup sigMachine sSigAwait eSigConfirm = some ⟨eSigConfirm, sSigAwait, false, false, 0⟩ := by decide
theorem sig_lookup_decline : lookup sigMachine sSigAwait eSigDecline = some ⟨eSigDecline, sSigAwait, false, false, 0⟩ := by decide
theorem sig_cb_init : callbackOf sigMachine eSigInit = some .sig_actionInitSignatureProposal := by decide
theorem sig_cb_confirm : callbackOf sigMachine eSigConfirm = some .sig_actionProposalResponseByParticipant := by decide
theorem sig_cb_decline : callbackOf sigMachine eSigDecline = some .sig_actionProposalResponseByParticipant := by decide
theorem sig_cb_val : callbackOf sigMachine eSigVal = some .sig_actionValidateSignatureProposal := by decide
theorem sig_auto : autoLookup sigMachine sSigAwait 2 = some ⟨eSigVal, sSigAwait, true, true, 2⟩ := by decide
theorem sig_auto_cancto : autoLookup sigMachine sSigCancTo 2 = none := by decide
theorem sig_set_init : setState sigMachine sIdle0 eSigInit = some sSigAwait := by decide
theorem sig_set_confirm : setState sigMachine sSigAwait eSigConfirm = some sSigAwait := by decide
theorem sig_set_decline : setState sigMachine sSigAwait eSigDecline = some sSigAwait := by decide
theorem sig_set_val : setState sigMachine sSigAwait eSigVal = some sSigAwait := by decide
theorem sig_set_to : setState sigMachine sSigAwait eSigTo = some sSigCancTo := by decide
theorem sig_set_cancp : setState sigMachine sSigAwait eSigCancP = some sSigCancP := by decide
theorem sig_set_done : setState sigMachine sSigAwait eSigDone = some sSigCollected := by decide

theorem sig_idle_other (e : Ev) (h : e ≠ eSigInit) : (lookup sigMachine sIdle0 e).all (·.isInternal) = true := by
  revert h; cases e <;> decide
theorem sig_await_other (e : Ev) (h1 : e ≠ eSigConfirm) (h2 : e ≠ eSigDecline) :
    (lookup sigMachine sSigAwait e).all (·.isInternal) = true := by
  revert h1 h2; cases e <;> decide

def cntSig (sc : SigConf) (st : Nat) : Int := ((sc.quorum.filter (·.status == st)).length : Int)

theorem cntSig_setAt (sc : SigConf) (pid : Int) (old new : SigPart) (st : Nat) (h : getAt sc.quorum pid = some old) (ts : Time) :
    cntSig { sc with quorum := setAt sc.quorum pid new, updatedAt := ts } st + (if old.status == st then 1 else 0)
      = cntSig sc st + (if new.status == st then 1 else 0) := by
  obtain ⟨h0, hg⟩ := getAt_some h
  unfold cntSig setAt
  have hn : ¬ pid < 0 := by omega
  simp only [hn, ↓reduceIte]
  have := filter_length_set (fun q : SigPart => q.status == st) sc.quorum pid.toNat old new hg
  split at this <;> split at this <;> rename_i h1 h2 <;>
    simp only [h1, h2, ↓reduceIte, Bool.false_eq_true] <;> omega

/-- invariant of the invitation phase -/
structure SigInv (p : Payload) (sc : SigConf) : Prop where
  hsig : p.sig = some sc
  hdkg : p.dkg = none
  hall : ∀ q ∈ sc.quorum, q.status = 0 ∨ q.status = 1
  hopen : cntSig sc 1 < sc.quorum.length

theorem runAction_sig_resp : runAction .sig_actionProposalResponseByParticipant = sig_actionProposalResponseByParticipant := rfl
theorem runAction_sig_val : runAction .sig_actionValidateSignatureProposal = sig_actionValidateSignatureProposal := rfl
theorem runAction_sig_init : runAction .sig_actionInitSignatureProposal = sig_actionInitSignatureProposal := rfl

/-- outcome of `actionValidateSignatureProposal`, by its branch conditions -/
theorem sig_validate_spec (p : Payload) (sc : SigConf) (hs : p.sig = some sc) (e : Ev) (a : Arg) :
    let v := sig_actionValidateSignatureProposal e p a
    v.res = .ok ∧ v.payload = p ∧
    (if sc.expiresAt < sc.updatedAt then v.outEvent = some eSigTo
     else if sc.quorum.any (·.status == 2) = true then v.outEvent = some eSigCancP
     else if cntSig sc 1 < sc.quorum.length then v.outEvent = none ∧ v.data = none
     else v.outEvent = some eSigDone) := by
  unfold sig_actionValidateSignatureProposal
  simp only [hs, cntSig]
  by_cases h1 : sc.expiresAt < sc.updatedAt
  · simp [h1, aOk]
  · simp only [h1, ↓reduceIte]
    by_cases h2 : sc.quorum.any (·.status == 2) = true
    · simp [h2, aOk]
    · simp only [h2, Bool.false_eq_true, ↓reduceIte]
      by_cases h3 : ((List.filter (fun x => x.status == 1) sc.quorum).length : Int) < (sc.quorum.length : Int)
      · have h3' : (sc.quorum.length : Int) - ((List.filter (fun x => x.status == 1) sc.quorum).length : Int) > 0 := by omega
        simp [h3, h3', aOk]
      · have h3' : ¬ (sc.quorum.length : Int) - ((List.filter (fun x => x.status == 1) sc.quorum).length : Int) > 0 := by omega
        simp [h3, h3', aOk]

def sigAfter (o : AOut) (a : Arg) : Out :=
  let v := sig_actionValidateSignatureProposal eSigVal o.payload a
  match v.res with
  | .ok =>
    match setState sigMachine sSigAwait (v.outEvent.getD eSigVal) with
    | some s2 => ⟨some (some s2, pickData v.data o.data), .ok, s2, v.payload⟩
    | none => ⟨some (some sSigAwait, pickData v.data o.data), .err, sSigAwait, v.payload⟩
  | r => ⟨some (some sSigAwait, pickData v.data o.data), r, sSigAwait, v.payload⟩

theorem sig_after (tr : Tr) (cur : St) (p : Payload) (o : AOut) (a : Arg)
    (hs : setState sigMachine cur (o.outEvent.getD tr.event) = some sSigAwait) :
    doTrAfter sigMachine runAction tr (noBefore cur p) o a = sigAfter o a := by
  rw [doTrAfter_auto (s1 := sSigAwait) (au := ⟨eSigVal, sSigAwait, true, true, 2⟩)
      (vid := .sig_actionValidateSignatureProposal) hs sig_auto sig_cb_val]
  simp only [runAction_sig_val, sigAfter]
  rfl

theorem sigAfter_cases (o : AOut) (a : Arg) (sc : SigConf) (hs : o.payload.sig = some sc) :
    let out := sigAfter o a
    out.res = .ok ∧ out.payload = o.payload ∧
    (if sc.expiresAt < sc.updatedAt then out.state = sSigCancTo
     else if sc.quorum.any (·.status == 2) = true then out.state = sSigCancP
     else if cntSig sc 1 < sc.quorum.length then out.state = sSigAwait
     else out.state = sSigCollected) := by
  have hv := sig_validate_spec o.payload sc hs eSigVal a
  simp only at hv
  obtain ⟨hres, hpl, hcase⟩ := hv
  unfold sigAfter
  simp only [hres]
  by_cases h1 : sc.expiresAt < sc.updatedAt
  · simp only [h1, ↓reduceIte] at hcase ⊢
    simp only [hcase, Option.getD_some, sig_set_to, hpl, and_self]
  · simp only [h1, ↓reduceIte] at hcase ⊢
    by_cases h2 : sc.quorum.any (·.status == 2) = true
    · simp only [h2, ↓reduceIte] at hcase ⊢
      simp only [hcase, Option.getD_some, sig_set_cancp, hpl, and_self]
    · simp only [h2, Bool.false_eq_true, ↓reduceIte] at hcase ⊢
      by_cases h3 : cntSig sc 1 < sc.quorum.length
      · simp only [h3, ↓reduceIte] at hcase ⊢
        simp only [hcase.1, Option.getD_none, sig_set_val, hpl, and_self]
      · simp only [h3, ↓reduceIte] at hcase ⊢
        simp only [hcase, Option.getD_some, sig_set_done, hpl, and_self]

/-- what an accepted confirm / decline is and does -/
theorem sig_resp_spec (p : Payload) (e : Ev) (a : Arg) :
    let o := sig_actionProposalResponseByParticipant e p a
    o.data = none ∧ (o.res = .err → o.payload = p) ∧
    (o.res = .ok → ∃ pid ts sc part, a = .sigPart pid ts ∧ p.sig = some sc ∧ getAt sc.quorum pid = some part ∧
      ((part.updatedAt + Config.signatureProposalConfirmationDeadline < ts ∧ o.outEvent = some eSigTo ∧ o.payload = p) ∨
       (¬ part.updatedAt + Config.signatureProposalConfirmationDeadline < ts ∧ part.status = 0 ∧ o.outEvent = none ∧
        ∃ st, ((e = eSigConfirm ∧ st = 1) ∨ (e = eSigDecline ∧ st = 2 ∧ e ≠ eSigConfirm)) ∧
          o.payload = { p with sig := some { sc with
            quorum := setAt sc.quorum pid { part with status := st, updatedAt := ts }, updatedAt := ts } }))) := by
  unfold sig_actionProposalResponseByParticipant
  cases a
  case sigPart pid ts =>
    simp only
    by_cases hv : (decide (pid < 0) || isZeroTime ts) = true
    · simp [hv, aErr]
    · simp only [hv, Bool.false_eq_true, ↓reduceIte]
      cases hs : p.sig with
      | none => simp [aPanic]
      | some sc =>
        simp only
        cases hg : getAt sc.quorum pid with
        | none => simp [aErr]
        | some part =>
          simp only
          by_cases hto : part.updatedAt + Config.signatureProposalConfirmationDeadline < ts
          · simp only [hto, ↓reduceIte, aOk]
            exact ⟨trivial, by simp, fun _ => ⟨pid, ts, sc, part, rfl, rfl, hg, Or.inl ⟨hto, trivial, trivial⟩⟩⟩
          · simp only [hto, ↓reduceIte]
            by_cases hst : part.status = 0
            · have hne : (part.status != 0) = false := by simp [hst]
              simp only [hne, Bool.false_eq_true, ↓reduceIte]
              by_cases hc : e = eSigConfirm
              · have hc' : (e == eSigConfirm) = true := by simp [hc]
                simp only [hc', ↓reduceIte, aOk]
                exact ⟨trivial, by simp, fun _ => ⟨pid, ts, sc, part, rfl, rfl, hg, Or.inr ⟨hto, hst, trivial, 1, Or.inl ⟨hc, rfl⟩, rfl⟩⟩⟩
              · have hc' : (e == eSigConfirm) = false := by simp [hc]
                simp only [hc', Bool.false_eq_true, ↓reduceIte]
                by_cases hd : e = eSigDecline
                · have hd' : (e == eSigDecline) = true := by simp [hd]
                  simp only [hd', ↓reduceIte, aOk]
                  exact ⟨trivial, by simp, fun _ => ⟨pid, ts, sc, part, rfl, rfl, hg, Or.inr ⟨hto, hst, trivial, 2, Or.inr ⟨hd, rfl, hc⟩, rfl⟩⟩⟩
                · have hd' : (e == eSigDecline) = false := by simp [hd]
                  simp [hd', aErr]
            · have hne : (part.status != 0) = true := by simp [hst]
              simp [hne, aErr]
  all_goals simp [aErr]

end Dc4bcVerif.Model

namespace Dc4bcVerif.Model
open Dc4bcVerif.Gen

theorem sig_do_resp (p : Payload) (e : Ev) (a : Arg) (he : e = eSigConfirm ∨ e = eSigDecline) :
    doEvent sigMachine runAction sSigAwait p e a =
      let o := sig_actionProposalResponseByParticipant e p a
      if o.res != .ok then ⟨some (none, o.data), o.res, sSigAwait, o.payload⟩
      else doTrAfter sigMachine runAction ⟨e, sSigAwait, false, false, 0⟩ (noBefore sSigAwait p) o a := by
  rcases he with he | he <;> subst he
  · rw [doEvent_std sig_lookup_confirm rfl (no_before_auto .sig sSigAwait) sig_cb_confirm]
    simp only [runAction_sig_resp]; rfl
  · rw [doEvent_std sig_lookup_decline rfl (no_before_auto .sig sSigAwait) sig_cb_decline]
    simp only [runAction_sig_resp]; rfl

/-- **unanimity, invitation phase.** An accepted confirmation comes from an invited participant
still awaited; the invitation phase completes exactly when it was the last one missing; a reply
stamped after the deadline cancels the round. -/
theorem sig_confirm_outcome (p : Payload) (a : Arg) (sc : SigConf) (hinv : SigInv p sc)
    (hok : (doEvent sigMachine runAction sSigAwait p eSigConfirm a).res = .ok) :
    let out := doEvent sigMachine runAction sSigAwait p eSigConfirm a
    ∃ pid ts part, a = .sigPart pid ts ∧ getAt sc.quorum pid = some part ∧
    (out.state = sSigCancTo ∨
     (part.status = 0 ∧ cntSig sc 1 + 1 = sc.quorum.length ∧ out.state = sSigCollected ∧
        ∃ sc', out.payload.sig = some sc' ∧ out.payload.dkg = none ∧ sc'.quorum.length = sc.quorum.length ∧
          ∀ q ∈ sc'.quorum, q.status = 1) ∨
     (part.status = 0 ∧ cntSig sc 1 + 1 < sc.quorum.length ∧ out.state = sSigAwait ∧
        ∃ sc', SigInv out.payload sc' ∧ cntSig sc' 1 = cntSig sc 1 + 1 ∧ sc'.quorum.length = sc.quorum.length)) := by
  have hs := hinv.hsig
  rw [sig_do_resp p eSigConfirm a (Or.inl rfl)] at hok ⊢
  simp only at hok ⊢
  by_cases h : ((sig_actionProposalResponseByParticipant eSigConfirm p a).res != .ok) = true
  · simp only [h, ↓reduceIte] at hok
    simp [hok] at h
  · simp only [h, Bool.false_eq_true, ↓reduceIte] at hok ⊢
    have hok' : (sig_actionProposalResponseByParticipant eSigConfirm p a).res = .ok := by simpa using h
    obtain ⟨pid, ts, sc0, part, ha, hs', hg, hcase⟩ := (sig_resp_spec p eSigConfirm a).2.2 hok'
    rw [hs] at hs'; cases hs'
    generalize ho : sig_actionProposalResponseByParticipant eSigConfirm p a = o at *
    refine ⟨pid, ts, part, ha, hg, ?_⟩
    rcases hcase with ⟨_, hout, _⟩ | ⟨_, hst, hout, st, hst', hp⟩
    · left
      rw [doTrAfter_plain (s1 := sSigCancTo) (by rw [hout]; exact sig_set_to) sig_auto_cancto]
    · have hst1 : st = 1 := by
        rcases hst' with ⟨_, h1⟩ | ⟨h1, _, _⟩
        · exact h1
        · cases h1
      subst hst1
      rw [sig_after _ _ _ _ _ (by rw [hout]; exact sig_set_confirm)] at hok ⊢
      let part' : SigPart := { part with status := 1, updatedAt := ts }
      let sc' : SigConf := { sc with quorum := setAt sc.quorum pid part', updatedAt := ts }
      have hsc' : o.payload.sig = some sc' := by rw [hp]
      have hdkg' : o.payload.dkg = none := by rw [hp]; exact hinv.hdkg
      have hc := cntSig_setAt sc pid part part' 1 hg ts
      simp only [hst, part'] at hc
      have hc' : cntSig sc' 1 = cntSig sc 1 + 1 := by simp only [sc', part']; simpa using hc
      have hc2 := cntSig_setAt sc pid part part' 2 hg ts
      simp only [hst, part'] at hc2
      have hlen : sc'.quorum.length = sc.quorum.length := by simp only [sc']; exact setAt_length _ _ _
      have hall' : ∀ q ∈ sc'.quorum, q.status = 0 ∨ q.status = 1 := by
        intro q hq
        rcases mem_setAt hq with hq | hq
        · exact hinv.hall q hq
        · right; rw [hq]
      have hno2 : sc'.quorum.any (·.status == 2) = false := by
        rw [Bool.eq_false_iff]; intro hany; rw [List.any_eq_true] at hany
        obtain ⟨q, hq, hs2⟩ := hany
        rcases hall' q hq with h' | h' <;> simp [h'] at hs2
      obtain ⟨_, hpl, hcases⟩ := sigAfter_cases o a sc' hsc'
      simp only [hc', hlen, hno2, Bool.false_eq_true, ↓reduceIte] at hcases
      by_cases he : sc'.expiresAt < sc'.updatedAt
      · left; simp only [he, ↓reduceIte] at hcases; exact hcases
      · right
        simp only [he, ↓reduceIte] at hcases
        by_cases h3 : cntSig sc 1 + 1 < (sc.quorum.length : Int)
        · right
          simp only [h3, ↓reduceIte] at hcases
          refine ⟨hst, h3, hcases, sc', ?_, hc', hlen⟩
          rw [hpl]
          exact ⟨hsc', hdkg', hall', by rw [hc', hlen]; exact h3⟩
        · left
          simp only [h3, ↓reduceIte] at hcases
          have hopen := hinv.hopen
          refine ⟨hst, by omega, hcases, sc', by rw [hpl]; exact hsc', by rw [hpl]; exact hdkg', hlen, ?_⟩
          have hfull : ((sc'.quorum.filter (·.status == 1)).length : Int) = sc'.quorum.length := by
            have : cntSig sc' 1 = sc'.quorum.length := by rw [hc', hlen]; omega
            exact this
          have := (filter_length_eq_length (fun q : SigPart => q.status == 1) sc'.quorum).mp (by exact_mod_cast hfull)
          intro q hq; simpa using this q hq

/-- **a decline cancels.** -/
theorem sig_decline_outcome (p : Payload) (a : Arg) (sc : SigConf) (hinv : SigInv p sc)
    (hok : (doEvent sigMachine runAction sSigAwait p eSigDecline a).res = .ok) :
    (doEvent sigMachine runAction sSigAwait p eSigDecline a).state = sSigCancTo ∨
    (doEvent sigMachine runAction sSigAwait p eSigDecline a).state = sSigCancP := by
  have hs := hinv.hsig
  rw [sig_do_resp p eSigDecline a (Or.inr rfl)] at hok ⊢
  simp only at hok ⊢
  by_cases h : ((sig_actionProposalResponseByParticipant eSigDecline p a).res != .ok) = true
  · simp only [h, ↓reduceIte] at hok
    simp [hok] at h
  · simp only [h, Bool.false_eq_true, ↓reduceIte] at hok ⊢
    have hok' : (sig_actionProposalResponseByParticipant eSigDecline p a).res = .ok := by simpa using h
    obtain ⟨pid, ts, sc0, part, ha, hs', hg, hcase⟩ := (sig_resp_spec p eSigDecline a).2.2 hok'
    rw [hs] at hs'; cases hs'
    generalize ho : sig_actionProposalResponseByParticipant eSigDecline p a = o at *
    rcases hcase with ⟨_, hout, _⟩ | ⟨_, hst, hout, st, hst', hp⟩
    · left
      rw [doTrAfter_plain (s1 := sSigCancTo) (by rw [hout]; exact sig_set_to) sig_auto_cancto]
    · have hst2 : st = 2 := by
        rcases hst' with ⟨h1, _⟩ | ⟨_, h1, _⟩
        · cases h1
        · exact h1
      subst hst2
      rw [sig_after _ _ _ _ _ (by rw [hout]; exact sig_set_decline)]
      let part' : SigPart := { part with status := 2, updatedAt := ts }
      let sc' : SigConf := { sc with quorum := setAt sc.quorum pid part', updatedAt := ts }
      have hsc' : o.payload.sig = some sc' := by rw [hp]
      have hany : sc'.quorum.any (·.status == 2) = true := by
        rw [List.any_eq_true]
        exact ⟨part', mem_setAt_self hg, by simp [part']⟩
      obtain ⟨_, _, hcases⟩ := sigAfter_cases o a sc' hsc'
      simp only [hany, ↓reduceIte] at hcases
      by_cases he : sc'.expiresAt < sc'.updatedAt
      · left; simp only [he, ↓reduceIte] at hcases; exact hcases
      · right; simp only [he, ↓reduceIte] at hcases; exact hcases

end Dc4bcVerif.Model
