/-
  Invariant of the airgapped machine's key-generation state (`Model/AirDkg.lean`), kept by every handler, whatever
  the payloads and the orders of Go's map ranges:

    the machine's own index is a participant index, there is one verifier per participant, and a verifier that holds
    the machine's OWN approval holds a deal whose share lies on the commitments that deal carries.

  Core-only; the algebra that turns it into "the stored share lies on the announced polynomial" is in Props/C02Air.lean.
-/
import Dc4bcVerif.Model.AirDkg

set_option linter.unusedSectionVars false

namespace Dc4bcVerif.Lemmas.AirDkgInv
open Dc4bcVerif.Model.Shamir Dc4bcVerif.Model.AirDkg

variable {F : Type} [Add F] [Mul F] [Sub F] [Div F] [Zero F] [One F] [DecidableEq F] [NatCast F]
variable {K : Type} [DecidableEq K]

/-! ### association lists -/

theorem lookup_put_self {V : Type} (k : String) (v : V) (l : List (String × V)) : lookup k (put k v l) = some v := by
  induction l with
  | nil => simp [put, lookup]
  | cons x rest ih =>
    obtain ⟨k', v'⟩ := x
    unfold put
    split
    · simp [lookup]
    · rename_i hne
      simp only [lookup, hne, ↓reduceIte]
      exact ih

theorem lookup_put_ne {V : Type} (k k' : String) (v : V) (l : List (String × V)) (h : k' ≠ k) :
    lookup k' (put k v l) = lookup k' l := by
  induction l with
  | nil => simp [put, lookup, Ne.symm h]
  | cons x rest ih =>
    obtain ⟨k0, v0⟩ := x
    unfold put
    split
    · rename_i h0
      subst h0
      simp [lookup, Ne.symm h]
    · simp only [lookup]
      split
      · rfl
      · exact ih

theorem lookupN_append (j k : Nat) (s : Bool) (l : List (Nat × Bool)) :
    lookupN j (l ++ [(k, s)]) = match lookupN j l with
      | some b => some b
      | none => if k = j then some s else none := by
  induction l with
  | nil => simp [lookupN]
  | cons x rest ih =>
    obtain ⟨k0, v0⟩ := x
    simp only [List.cons_append, lookupN]
    split
    · rfl
    · exact ih

theorem addResp_some {k : Nat} {s : Bool} {l l' : List (Nat × Bool)} (h : addResp k s l = some l') :
    lookupN k l = none ∧ lookupN k l' = some s ∧ ∀ j, j ≠ k → lookupN j l' = lookupN j l := by
  unfold addResp at h
  split at h
  · simp at h
  · rename_i hn
    simp only [Option.some.injEq] at h
    subst h
    refine ⟨hn, ?_, ?_⟩
    · rw [lookupN_append, hn]; simp
    · intro j hj
      rw [lookupN_append]
      cases lookupN j l with
      | some b => rfl
      | none => simp [Ne.symm hj]

theorem lookupN_setResp_ne (j k : Nat) (s : Bool) (l : List (Nat × Bool)) (h : j ≠ k) :
    lookupN j (setResp k s l) = lookupN j l := by
  induction l with
  | nil => rfl
  | cons x rest ih =>
    obtain ⟨k0, v0⟩ := x
    unfold setResp
    split
    · rename_i h0
      subst h0
      simp [lookupN, Ne.symm h]
    · simp only [lookupN]
      split
      · rfl
      · exact ih

/-! ### the invariant -/

/-- a verifier holding the approval of index `pid` holds a deal whose share lies on the deal's commitments at `pid`'s node -/
def VerOk (pid : Nat) (v : Verifier F) : Prop :=
  lookupN pid v.resp = some true → ∃ d, v.deal = some d ∧ evalPoly d.commits (node pid) = d.secV

def InstInv (i : Inst F K) : Prop :=
  i.pid < i.keys.length ∧ i.vers.length = i.keys.length ∧ ∀ v ∈ i.vers, VerOk i.pid v

def MachineInv (m : Machine F K) : Prop := ∀ round i, lookup round m.insts = some i → InstInv i

theorem verOk_empty (pid : Nat) : VerOk pid ({} : Verifier F) := by
  intro h; simp [lookupN] at h

/-- replacing one verifier by one that is fine keeps the invariant -/
theorem instInv_set {i : Inst F K} (h : InstInv i) (j : Nat) (v : Verifier F) (hv : VerOk i.pid v) :
    InstInv { i with vers := i.vers.set j v } := by
  obtain ⟨h1, h2, h3⟩ := h
  refine ⟨h1, by simpa using h2, ?_⟩
  intro w hw
  rcases List.mem_or_eq_of_mem_set hw with hw' | rfl
  · exact h3 w hw'
  · exact hv

theorem verifyDeal_deal_of_some {n : Nat} {v : Verifier F} {d : PlainDeal F} {incl : Bool} (hs : v.deal.isSome = true) :
    (verifyDeal n v d incl).1 = v := by
  unfold verifyDeal
  split
  · rfl
  · have hn : v.deal.isNone = false := by cases hd : v.deal <;> simp_all
    simp only [hn, Bool.false_eq_true, ↓reduceIte]
    split
    · rfl
    · repeat (first | rfl | split)

theorem verifyDeal_of_none {n : Nat} {v : Verifier F} {d : PlainDeal F} {incl : Bool} (hs : v.deal = none) :
    (verifyDeal n v d incl).1 = { v with deal := some d } ∧
    ((verifyDeal n v d incl).2 = Verdict.ok → evalPoly d.commits (node d.secI) = d.secV) := by
  unfold verifyDeal
  simp only [hs, Option.isSome_none, Bool.false_and, Bool.false_eq_true, ↓reduceIte, Option.isNone_none]
  repeat (first | (constructor <;> first | rfl | (intro h; first | (simp at h; done) | skip)) | split)
  all_goals first | rfl | (rename_i h5; simpa using h5) | skip

/-- `ProcessEncryptedDeal` keeps a verifier fine -/
theorem processEncryptedDeal_ok (n own : Nat) (v : Verifier F) (inner : Option (PlainDeal F)) (hv : VerOk own v) :
    VerOk own (processEncryptedDeal n own v inner).1 ∧
    (∀ st, (processEncryptedDeal n own v inner).2 = some st → lookupN own (processEncryptedDeal n own v inner).1.resp = some st) := by
  unfold processEncryptedDeal
  split
  · exact ⟨hv, by intro st h; simp at h⟩
  · rename_i d
    split
    · exact ⟨hv, by intro st h; simp at h⟩
    · rename_i hI
      have hI' : d.secI = own := by simpa using hI
      cases hd : v.deal with
      | some d0 =>
        have hs : v.deal.isSome = true := by simp [hd]
        have h1 : (verifyDeal n v d true).1 = v := verifyDeal_deal_of_some hs
        have h2 : (verifyDeal n v d true).2 = Verdict.already := by
          unfold verifyDeal; simp [hs]
        generalize hr : verifyDeal n v d true = r at h1 h2
        obtain ⟨v1, vd⟩ := r
        simp only at h1 h2
        subst h1 h2
        simp only [↓reduceIte]
        exact ⟨hv, by intro st h; simp at h⟩
      | none =>
        obtain ⟨h1, h2⟩ := verifyDeal_of_none (n := n) (d := d) (incl := true) hd
        generalize hr : verifyDeal n v d true = r at h1 h2
        obtain ⟨v1, vd⟩ := r
        simp only at h1 h2
        subst h1
        simp only
        have hnone : lookupN own v.resp ≠ some true := by
          intro hc
          obtain ⟨d0, hd0, _⟩ := hv hc
          rw [hd] at hd0; simp at hd0
        split
        · refine ⟨?_, by intro st h; simp at h⟩
          intro hc; exact absurd hc hnone
        · split
          · refine ⟨?_, by intro st h; simp at h⟩
            intro hc; exact absurd hc hnone
          · rename_i r hadd
            obtain ⟨_, ha2, _⟩ := addResp_some hadd
            refine ⟨?_, ?_⟩
            · intro hc
              simp only at hc
              rw [ha2] at hc
              simp only [Option.some.injEq, decide_eq_true_eq] at hc
              refine ⟨d, rfl, ?_⟩
              have := h2 hc
              rw [hI'] at this
              exact this
            · intro st hst
              simp only [Option.some.injEq] at hst
              subst hst
              exact ha2

theorem unsafeSet_ok (own k : Nat) (s : Bool) (v : Verifier F) (hv : VerOk own v) (hk : k ≠ own ∨ (lookupN own v.resp).isSome = true) :
    VerOk own (unsafeSet k s v) := by
  unfold unsafeSet
  split
  · rename_i r hadd
    obtain ⟨hn, _, hother⟩ := addResp_some hadd
    rcases hk with hk | hk
    · intro hc
      simp only at hc
      rw [hother own (Ne.symm hk)] at hc
      exact hv hc
    · by_cases hko : k = own
      · subst hko; rw [hn] at hk; simp at hk
      · intro hc
        simp only at hc
        rw [hother own (Ne.symm hko)] at hc
        exact hv hc
  · exact hv

/-- **dkgProcessDeal keeps the invariant** -/
theorem dkgProcessDeal_inv (i : Inst F K) (od : OuterDeal F) (h : InstInv i) : InstInv (dkgProcessDeal i od).1 := by
  unfold dkgProcessDeal
  simp only
  split
  · exact h
  · split
    · exact h
    · split
      · exact h
      · rename_i v hv
        have hvin : v ∈ i.vers := List.mem_of_getElem? hv
        have hvok := h.2.2 v hvin
        obtain ⟨hok, hst⟩ := processEncryptedDeal_ok i.keys.length i.pid v od.inner hvok
        generalize hr : processEncryptedDeal i.keys.length i.pid v od.inner = r at hok hst
        obtain ⟨v1, res⟩ := r
        simp only at hok hst ⊢
        split
        · exact instInv_set h _ _ hok
        · rename_i status
          apply instInv_set h
          apply unsafeSet_ok _ _ _ _ hok
          right
          rw [hst status rfl]; rfl

theorem dkgProcessDeal_pid (i : Inst F K) (od : OuterDeal F) : (dkgProcessDeal i od).1.pid = i.pid := by
  unfold dkgProcessDeal
  simp only
  repeat (first | rfl | split)

theorem processDeals_inv (ord : List String) : ∀ (i : Inst F K) (acc : List Nat), InstInv i → InstInv (processDeals i ord acc).1 := by
  induction ord with
  | nil => intro i acc h; exact h
  | cons name rest ih =>
    intro i acc h
    unfold processDeals
    split
    · exact ih i acc h
    · rename_i od _
      split
      · exact ih i acc h
      · simp only
        have h1 := dkgProcessDeal_inv i od h
        generalize dkgProcessDeal i od = r at h1
        obtain ⟨i1, st⟩ := r
        simp only at h1 ⊢
        split
        · exact h1
        · split
          · exact h1
          · exact ih i1 _ h1

theorem genDeals_inv (i : Inst F K) (h : InstInv i) : InstInv (genDeals i).1 := by
  unfold genDeals
  split
  · exact h
  · simp only
    have h0 : InstInv { i with processedOwn := true } := h
    have h1 := dkgProcessDeal_inv _ (ownDeal { i with processedOwn := true } i.pid) h0
    generalize dkgProcessDeal { i with processedOwn := true } (ownDeal { i with processedOwn := true } i.pid) = r at h1
    obtain ⟨i2, st⟩ := r
    simp only at h1
    rcases st with _ | (_ | _) <;> simpa using h1

theorem storeCommits_inv (es : List (String × Option (List F))) : ∀ (i : Inst F K), InstInv i → InstInv (storeCommits i es).1 := by
  induction es with
  | nil => intro i h; exact h
  | cons e rest ih =>
    intro i h
    obtain ⟨name, cs⟩ := e
    cases cs with
    | none => exact h
    | some cs => exact ih _ h

theorem storeDeals_inv (es : List (Int × String × Option (OuterDeal F))) : ∀ (i : Inst F K), InstInv i → InstInv (storeDeals i es).1 := by
  induction es with
  | nil => intro i h; exact h
  | cons e rest ih =>
    intro i h
    obtain ⟨pid, name, d⟩ := e
    unfold storeDeals
    split
    · exact ih i h
    · cases d with
      | none => exact h
      | some od =>
        simp only
        split
        · exact h
        · exact ih _ h

theorem storeResponses_inv (es : List (String × Option (List (RespMsg F)))) : ∀ (i : Inst F K), InstInv i → InstInv (storeResponses i es).1 := by
  induction es with
  | nil => intro i h; exact h
  | cons e rest ih =>
    intro i h
    obtain ⟨name, rs⟩ := e
    cases rs with
    | none => exact h
    | some rs => exact ih _ h

/-- a response of another verifier index leaves the own approval alone -/
theorem verProcessResponse_ok {n own : Nat} {v v1 : Verifier F} {r : RespMsg F} (hv : VerOk own v) (hne : r.ver ≠ own)
    (h : verProcessResponse n v r = some v1) : VerOk own v1 ∧ v1.deal = v.deal ∧ v.deal.isSome = true := by
  unfold verProcessResponse at h
  split at h
  · simp at h
  · rename_i first hd
    split at h
    · simp at h
    · split at h
      · simp at h
      · split at h
        · simp at h
        · split at h
          · simp at h
          · rename_i l hadd
            simp only [Option.some.injEq] at h
            subst h
            obtain ⟨_, _, hother⟩ := addResp_some hadd
            refine ⟨?_, rfl, by simp [hd]⟩
            intro hc
            simp only at hc
            rw [hother own (Ne.symm hne)] at hc
            exact hv hc

theorem justify_ok {n own k : Nat} (i : Inst F K) {v : Verifier F} (hv : VerOk own v) (hne : k ≠ own) (hs : v.deal.isSome = true) :
    VerOk own (justify n i v k).1 := by
  unfold justify
  split
  · exact hv
  · exact hv
  · split
    · exact hv
    · rename_i d _
      have h1 : (verifyDeal n v d false).1 = v := verifyDeal_deal_of_some hs
      generalize hr : verifyDeal n v d false = q at h1
      obtain ⟨v', verdict⟩ := q
      simp only at h1
      subst h1
      simp only
      split
      · intro hc
        simp only at hc
        rw [lookupN_setResp_ne own k true _ (Ne.symm hne)] at hc
        exact hv hc
      · exact hv

theorem dkgProcessResponse_inv (i : Inst F K) (r : RespMsg F) (h : InstInv i) (hne : r.ver ≠ i.pid) :
    InstInv (dkgProcessResponse i r).1 ∧ (dkgProcessResponse i r).1.pid = i.pid := by
  unfold dkgProcessResponse
  simp only
  split
  · exact ⟨h, rfl⟩
  · rename_i v hv
    have hvin : v ∈ i.vers := List.mem_of_getElem? hv
    have hvok := h.2.2 v hvin
    split
    · exact ⟨h, rfl⟩
    · rename_i v1 hp
      obtain ⟨hok1, hdeal, hsome⟩ := verProcessResponse_ok hvok hne hp
      have hi1 : InstInv { i with vers := i.vers.set r.dealer v1 } := instInv_set h _ _ hok1
      split
      · exact ⟨hi1, rfl⟩
      · split
        · exact ⟨hi1, rfl⟩
        · split
          · exact ⟨hi1, rfl⟩
          · split
            · exact ⟨hi1, rfl⟩
            · rename_i dr _
              have hi2 : InstInv { i with vers := i.vers.set r.dealer v1, dealerResp := dr } := hi1
              split
              · exact ⟨hi2, rfl⟩
              · have hs1 : v1.deal.isSome = true := by rw [hdeal]; exact hsome
                have hj := justify_ok (n := i.keys.length) (own := i.pid) (k := r.ver)
                  { i with vers := i.vers.set r.dealer v1, dealerResp := dr } hok1 hne hs1
                generalize justify i.keys.length { i with vers := i.vers.set r.dealer v1, dealerResp := dr } v1 r.ver = q at hj
                obtain ⟨v2, ok⟩ := q
                simp only at hj ⊢
                have := instInv_set hi2 r.dealer v2 hj
                exact ⟨by simpa using this, by simp⟩

theorem processRespList_inv (rs : List (RespMsg F)) : ∀ (i : Inst F K), InstInv i →
    InstInv (processRespList i rs).1 ∧ (processRespList i rs).1.pid = i.pid := by
  induction rs with
  | nil => intro i h; exact ⟨h, rfl⟩
  | cons r rest ih =>
    intro i h
    unfold processRespList
    split
    · exact ih i h
    · rename_i hne
      split
      · exact ⟨h, rfl⟩
      · obtain ⟨h1, hp1⟩ := dkgProcessResponse_inv i r h hne
        generalize dkgProcessResponse i r = q at h1 hp1
        obtain ⟨i1, ok⟩ := q
        simp only at h1 hp1
        cases ok with
        | false => exact ⟨h1, hp1⟩
        | true =>
          simp only
          obtain ⟨h2, hp2⟩ := ih i1 h1
          exact ⟨h2, hp2.trans hp1⟩

theorem processResponses_inv (ord : List Nat) : ∀ (i : Inst F K), InstInv i → InstInv (processResponses i ord).1 := by
  induction ord with
  | nil => intro i h; exact h
  | cons k rest ih =>
    intro i h
    unfold processResponses
    obtain ⟨h1, _⟩ := processRespList_inv (storedOf i k) i h
    generalize processRespList i (storedOf i k) = q at h1
    obtain ⟨i1, ok⟩ := q
    simp only at h1
    cases ok with
    | false => exact h1
    | true => exact ih i1 h1

/-! ### the handlers keep the machine's invariant -/

theorem machineInv_put {m : Machine F K} (h : MachineInv m) (round : String) (i : Inst F K) (hi : InstInv i) :
    MachineInv { m with insts := put round i m.insts } := by
  intro r j hj
  by_cases hr : r = round
  · subst hr
    simp only [lookup_put_self, Option.some.injEq] at hj
    subst hj; exact hi
  · simp only at hj
    rw [lookup_put_ne _ _ _ _ hr] at hj
    exact h r j hj

theorem firstIdx_lt {α : Type} (p : α → Bool) : ∀ (l : List α) (k : Nat), firstIdx p l = some k → k < l.length := by
  intro l
  induction l with
  | nil => intro k h; simp [firstIdx] at h
  | cons x rest ih =>
    intro k h
    unfold firstIdx at h
    split at h
    · simp only [Option.some.injEq] at h; subst h; simp
    · cases hr : firstIdx p rest with
      | none => rw [hr] at h; simp at h
      | some j =>
        rw [hr] at h
        simp only [Option.map_some, Option.some.injEq] at h
        subst h
        have := ih j hr
        simp; omega

theorem commitsFinish_inv (m : Machine F K) (round : String) (poly : List F) (keys : List (String × K)) (idx : Nat) (thr : Int) (t : Nat)
    (hlt : idx < keys.length) (h : MachineInv m) : MachineInv (commitsFinish m round poly keys idx thr t).1 := by
  unfold commitsFinish
  simp only
  split
  · exact h
  · split
    · exact h
    · split
      · exact h
      · split
        · exact h
        · apply machineInv_put h
          refine ⟨hlt, by simp, ?_⟩
          intro v hv
          simp only [List.mem_replicate] at hv
          rw [hv.2]
          exact verOk_empty _

theorem commitsOp_inv (m : Machine F K) (round : String) (entries : List (KeyEntry K)) (poly : List F) (h : MachineInv m) :
    MachineInv (commitsOp m round entries poly).1 := by
  unfold commitsOp
  split
  · exact h
  · split
    · exact h
    · split
      · exact h
      · split
        · exact h
        · simp only
          split
          · exact h
          · rename_i idx hidx
            exact commitsFinish_inv _ _ _ _ _ _ _ (firstIdx_lt _ _ _ hidx) h

theorem dealsOp_inv (m : Machine F K) (round : String) (entries : List (String × Option (List F))) (h : MachineInv m) :
    MachineInv (dealsOp m round entries).1 := by
  unfold dealsOp
  split
  · exact h
  · rename_i i hi
    have h0 := h round i hi
    have h1 := storeCommits_inv entries i h0
    generalize storeCommits i entries = q at h1
    obtain ⟨i1, ok⟩ := q
    simp only at h1 ⊢
    split
    · exact machineInv_put h round i1 h1
    · have h2 := genDeals_inv i1 h1
      generalize genDeals i1 = q2 at h2
      obtain ⟨i2, ok2⟩ := q2
      simp only at h2
      cases ok2 <;> exact machineInv_put h round _ h2

theorem responsesOp_inv (m : Machine F K) (round : String) (entries : List (Int × String × Option (OuterDeal F))) (ord : List String)
    (h : MachineInv m) : MachineInv (responsesOp m round entries ord).1 := by
  unfold responsesOp
  split
  · exact h
  · rename_i i hi
    have h0 := h round i hi
    have h1 := storeDeals_inv entries i h0
    generalize storeDeals i entries = q at h1
    obtain ⟨i1, ok⟩ := q
    simp only at h1 ⊢
    split
    · exact machineInv_put h round i1 h1
    · have h2 := processDeals_inv ord i1 [] h1
      generalize processDeals i1 ord [] = q2 at h2
      obtain ⟨i2, res⟩ := q2
      simp only at h2
      cases res <;> exact machineInv_put h round _ h2

theorem masterKeyOp_inv (m : Machine F K) (round : String) (entries : List (String × Option (List (RespMsg F)))) (ord : List Nat)
    (h : MachineInv m) : MachineInv (masterKeyOp m round entries ord).1 := by
  unfold masterKeyOp
  split
  · exact h
  · rename_i i hi
    have h0 := h round i hi
    have h1 := storeResponses_inv entries i h0
    generalize storeResponses i entries = q at h1
    obtain ⟨i1, ok⟩ := q
    simp only at h1 ⊢
    split
    · exact machineInv_put h round i1 h1
    · have h2 := processResponses_inv ord i1 h1
      generalize processResponses i1 ord = q2 at h2
      obtain ⟨i2, res⟩ := q2
      simp only at h2
      cases res with
      | false => exact machineInv_put h round _ h2
      | true =>
        simp only
        split
        · exact machineInv_put h round _ h2
        · split
          · exact machineInv_put h round _ h2
          · intro r j hj
            exact machineInv_put h round _ h2 r j hj

end Dc4bcVerif.Lemmas.AirDkgInv
