/-
  The signing machine in `state_signing_await_partial_signs`: what the two public events and the
  auto-validator do, as equations, and the table facts they rest on (all `decide` over the
  generated tables).
-/
import Dc4bcVerif.Model.Run
import Dc4bcVerif.Lemmas.FsmEngine

namespace Dc4bcVerif.Model
open Dc4bcVerif.Gen

abbrev sIDLE : St := .s_stage_signing_idle
abbrev sAWAIT : St := .s_state_signing_await_partial_signs
abbrev sCOLLECTED : St := .s_state_signing_partial_signs_collected
abbrev sCANCERR : St := .s_state_signing_partial_signs_await_cancelled_by_error
abbrev sCANCTO : St := .s_state_signing_partial_signs_await_cancelled_by_timeout
abbrev eRECEIVED : Ev := .e_event_signing_partial_sign_received
abbrev eSIGNERR : Ev := .e_event_signing_partial_sign_error_received
abbrev eVALIDATE : Ev := .e_event_signing_partial_signs_await_validate
abbrev eSTART : Ev := .e_event_signing_start
abbrev eRESTART : Ev := .e_event_signing_restart

/-- number of quorum members with a given status, as Go's `int` -/
def cntSt (sc : SignConf) (st : Nat) : Int := ((sc.quorum.filter (·.status == st)).length : Int)

def markProcess (sc : SignConf) : SignConf := { sc with quorum := sc.quorum.map (fun q => { q with status := 3 }) }

-- table facts -----------------------------------------------------------------------------
theorem no_before_auto (mid : MachineId) (s : St) : autoLookup (machineOf mid) s 1 = none := by
  cases mid <;> cases s <;> decide

theorem sign_lookup_received : lookup signMachine sAWAIT eRECEIVED = some ⟨eRECEIVED, sAWAIT, false, false, 0⟩ := by decide
theorem sign_lookup_signerr : lookup signMachine sAWAIT eSIGNERR = some ⟨eSIGNERR, sAWAIT, false, false, 0⟩ := by decide
theorem sign_lookup_start : lookup signMachine sIDLE eSTART = some ⟨eSTART, sAWAIT, false, false, 0⟩ := by decide
theorem sign_cb_received : callbackOf signMachine eRECEIVED = some .sign_actionPartialSignConfirmationReceived := by decide
theorem sign_cb_signerr : callbackOf signMachine eSIGNERR = some .sign_actionConfirmationError := by decide
theorem sign_cb_start : callbackOf signMachine eSTART = some .sign_actionStartSigningProposal := by decide
theorem sign_cb_validate : callbackOf signMachine eVALIDATE = some .sign_actionValidateSigningPartialSignsAwaitConfirmations := by decide
theorem sign_auto_await : autoLookup signMachine sAWAIT 2 = some ⟨eVALIDATE, sAWAIT, true, true, 2⟩ := by decide
theorem sign_set_received : setState signMachine sAWAIT eRECEIVED = some sAWAIT := by decide
theorem sign_set_signerr : setState signMachine sAWAIT eSIGNERR = some sAWAIT := by decide
theorem sign_set_start : setState signMachine sIDLE eSTART = some sAWAIT := by decide
theorem sign_set_validate : setState signMachine sAWAIT eVALIDATE = some sAWAIT := by decide
theorem sign_set_confirmed : setState signMachine sAWAIT .e_event_signing_partial_signs_confirmed_internal = some sCOLLECTED := by decide
theorem sign_set_cancerr : setState signMachine sAWAIT .e_event_signing_partial_signs_await_sign_cancel_by_error_internal = some sCANCERR := by decide
theorem sign_set_cancto : setState signMachine sAWAIT .e_event_signing_partial_signs_await_cancel_by_timeout_internal = some sCANCTO := by decide

/-- in `await` every event other than the two public ones is a route error -/
theorem sign_await_other (e : Ev) (h1 : e ≠ eRECEIVED) (h2 : e ≠ eSIGNERR) :
    (lookup signMachine sAWAIT e).all (·.isInternal) = true := by
  revert h1 h2; cases e <;> decide

/-- in `idle` every event other than `event_signing_start` is a route error -/
theorem sign_idle_other (e : Ev) (h1 : e ≠ eSTART) : (lookup signMachine sIDLE e).all (·.isInternal) = true := by
  revert h1; cases e <;> decide

-- the auto-validator ------------------------------------------------------------------------

/-- outcome of `actionValidateSigningPartialSignsAwaitConfirmations`, by its branch conditions -/
theorem sign_validate_spec (p : Payload) (sc : SignConf) (hs : p.sign = some sc) (e : Ev) (a : Arg) :
    let v := sign_actionValidateSigningPartialSignsAwaitConfirmations e p a
    let n : Int := sc.quorum.length
    v.res = .ok ∧
    (if sc.expiresAt < sc.updatedAt then
        v.outEvent = some .e_event_signing_partial_signs_await_cancel_by_timeout_internal ∧ v.payload = p
     else if cntSt sc 2 > n - p.threshold then
        v.outEvent = some .e_event_signing_partial_signs_await_sign_cancel_by_error_internal ∧ v.payload = p
     else if n - cntSt sc 1 > n - p.threshold then
        v.outEvent = none ∧ v.payload = p ∧ v.data = none
     else
        v.outEvent = some .e_event_signing_partial_signs_confirmed_internal ∧
        v.payload = { p with sign := some (markProcess sc) } ∧ v.data.isSome = true) := by
  unfold sign_actionValidateSigningPartialSignsAwaitConfirmations
  simp only [hs, cntSt, markProcess]
  by_cases h1 : sc.expiresAt < sc.updatedAt
  · simp [h1, aOk]
  · simp only [h1, ↓reduceIte]
    by_cases h2 : ((List.filter (fun x => x.status == 2) sc.quorum).length : Int) > (sc.quorum.length : Int) - p.threshold
    · simp [h2, aOk]
    · simp only [h2, ↓reduceIte]
      by_cases h3 : (sc.quorum.length : Int) - ((List.filter (fun x => x.status == 1) sc.quorum).length : Int) > (sc.quorum.length : Int) - p.threshold
      · simp [h3, aOk]
      · simp [h3, aOk]

end Dc4bcVerif.Model

namespace Dc4bcVerif.Model
open Dc4bcVerif.Gen

/-- counting lemma: replacing one element changes a filter count by the two indicator values -/
theorem filter_length_set {α : Type} (f : α → Bool) (l : List α) (i : Nat) (old new : α) (h : l[i]? = some old) :
    ((l.set i new).filter f).length + (if f old then 1 else 0) = (l.filter f).length + (if f new then 1 else 0) := by
  induction l generalizing i with
  | nil => simp at h
  | cons x t ih =>
    cases i with
    | zero =>
      simp only [List.getElem?_cons_zero, Option.some.injEq] at h
      subst h
      simp only [List.set_cons_zero, List.filter_cons]
      by_cases h1 : f x <;> by_cases h2 : f new <;> simp [h1, h2] <;> omega
    | succ k =>
      simp only [List.getElem?_cons_succ] at h
      have := ih k h
      simp only [List.set_cons_succ, List.filter_cons]
      by_cases h1 : f x <;> simp [h1] <;> omega

theorem getAt_some {α : Type} {l : List α} {id : Int} {x : α} (h : getAt l id = some x) :
    0 ≤ id ∧ l[id.toNat]? = some x := by
  unfold getAt at h
  by_cases hn : id < 0
  · simp [hn] at h
  · simp [hn] at h; exact ⟨by omega, h⟩

theorem cntSt_setAt (sc : SignConf) (pid : Int) (old new : SignPart) (st : Nat) (h : getAt sc.quorum pid = some old) :
    cntSt { sc with quorum := setAt sc.quorum pid new } st + (if old.status == st then 1 else 0)
      = cntSt sc st + (if new.status == st then 1 else 0) := by
  obtain ⟨h0, hg⟩ := getAt_some h
  unfold cntSt setAt
  have hn : ¬ pid < 0 := by omega
  simp only [hn, ↓reduceIte]
  have := filter_length_set (fun q : SignPart => q.status == st) sc.quorum pid.toNat old new hg
  split at this <;> split at this <;> rename_i h1 h2 <;>
    simp only [h1, h2, ↓reduceIte, Bool.false_eq_true] <;> omega

theorem setAt_length {α : Type} (l : List α) (id : Int) (v : α) : (setAt l id v).length = l.length := by
  unfold setAt; split <;> simp

/-- what an accepted partial-signature message is and does -/
theorem sign_received_spec (p : Payload) (e : Ev) (a : Arg) :
    let o := sign_actionPartialSignConfirmationReceived e p a
    o.outEvent = none ∧ o.data = none ∧ (o.res = .err → o.payload = p) ∧
    (o.res = .ok → ∃ b pid signs ts sc part sg ps,
        a = .partialSigns b pid signs ts ∧ p.sign = some sc ∧ p.sig = some sg ∧ b = sc.batchId ∧
        getAt sc.quorum pid = some part ∧ part.status = 0 ∧
        o.payload = { p with
          sign := some { sc with quorum := setAt sc.quorum pid { part with partialSigns := ps, status := 1, updatedAt := ts } },
          sig := some { sg with updatedAt := ts } }) := by
  unfold sign_actionPartialSignConfirmationReceived
  cases a <;> simp [aErr, aOk, aPanic]
  rename_i b pid signs ts
  split
  · simp
  · cases hs : p.sign with
    | none => simp
    | some sc =>
      simp only
      by_cases hb : b = sc.batchId
      · simp only [hb, bne_self_eq_false, Bool.false_eq_true, ↓reduceIte]
        cases hg : getAt sc.quorum pid with
        | none => simp
        | some part =>
          simp only
          by_cases hst : part.status = 0
          · simp only [hst, bne_self_eq_false, Bool.false_eq_true, ↓reduceIte]
            cases hsg : p.sig with
            | none => simp
            | some sg =>
              simp only [true_and, reduceCtorEq, false_implies, forall_const]
              exact ⟨sc.batchId, pid, signs, ts, ⟨rfl, rfl, rfl, rfl⟩, sc, rfl, part, sg, rfl, rfl, hg, hst, _, rfl⟩
          · simp [hst]
      · simp [hb]

end Dc4bcVerif.Model

namespace Dc4bcVerif.Model
open Dc4bcVerif.Gen

/-- what an accepted error report is and does -/
theorem sign_signerr_spec (p : Payload) (a : Arg) :
    let o := sign_actionConfirmationError eSIGNERR p a
    o.outEvent = none ∧ o.data = none ∧ (o.res = .err → o.payload = p) ∧
    (o.res = .ok → ∃ pid err ts sc part sg,
        a = .signErr pid err ts ∧ p.sign = some sc ∧ p.sig = some sg ∧
        getAt sc.quorum pid = some part ∧ part.status = 0 ∧
        o.payload = { p with
          sign := some { sc with quorum := setAt sc.quorum pid { part with status := 2, error := err, updatedAt := ts } },
          sig := some { sg with updatedAt := ts } }) := by
  unfold sign_actionConfirmationError
  cases a <;> simp [aErr, aOk, aPanic]
  rename_i pid err ts
  split
  · simp
  · cases hs : p.sign with
    | none => simp
    | some sc =>
      simp only
      cases hg : getAt sc.quorum pid with
      | none => simp
      | some part =>
        simp only
        by_cases hst : part.status = 0
        · simp only [hst, bne_self_eq_false, Bool.false_eq_true, ↓reduceIte]
          cases hsg : p.sig with
          | none => simp
          | some sg =>
            simp only [true_and, reduceCtorEq, false_implies, forall_const]
            exact ⟨pid, err, ts, ⟨rfl, rfl, rfl⟩, sc, rfl, part, sg, rfl, hg, hst, rfl⟩
        · simp [hst]

/-- the signing payload right after an accepted proposal: fresh quorum, everybody awaited -/
def startedSign (sc : SignConf) (dc : DkgConf) (b : String) (pid : Int) (ts : Time) (tasks : List Task) : SignConf :=
  { sc with
    createdAt := ts, batchId := b, initiatorId := pid, srcPayload := tasks,
    quorum := dc.quorum.map (fun q => ({ username := q.username, status := 0, updatedAt := ts } : SignPart)) }

/-- what an accepted signing proposal is and does -/
theorem sign_start_spec (p : Payload) (a : Arg) :
    let o := sign_actionStartSigningProposal eSTART p a
    (o.res = .err → o.payload = p) ∧
    (o.res = .ok → o.outEvent = some eSTART ∧ ∃ b pid ts tasks sc dc,
        a = .signStart b pid ts tasks ∧ p.sign = some sc ∧ p.dkg = some dc ∧ b ≠ "" ∧
        o.payload = { p with sign := some (startedSign sc dc b pid ts tasks) }) := by
  unfold sign_actionStartSigningProposal startedSign
  cases a <;> simp [aErr, aOk, aPanic]
  rename_i b pid ts tasks
  split
  · simp
  · rename_i hv
    cases hs : p.sign with
    | none => simp
    | some sc =>
      cases hd : p.dkg with
      | none => simp
      | some dc =>
        simp only [true_and, reduceCtorEq, false_implies, forall_const]
        refine ⟨b, pid, ts, tasks, ⟨rfl, rfl, rfl, rfl⟩, sc, rfl, dc, rfl, ?_, rfl⟩
        intro hb; simp [hb] at hv

theorem runAction_received : runAction .sign_actionPartialSignConfirmationReceived = sign_actionPartialSignConfirmationReceived := rfl
theorem runAction_signerr : runAction .sign_actionConfirmationError = sign_actionConfirmationError := rfl
theorem runAction_start : runAction .sign_actionStartSigningProposal = sign_actionStartSigningProposal := rfl
theorem runAction_validate : runAction .sign_actionValidateSigningPartialSignsAwaitConfirmations = sign_actionValidateSigningPartialSignsAwaitConfirmations := rfl

/-- the common tail of an accepted event in (or into) `await`: the auto-validator runs and decides -/
def signAfterValidate (o : AOut) (a : Arg) : Out :=
  let v := sign_actionValidateSigningPartialSignsAwaitConfirmations eVALIDATE o.payload a
  match v.res with
  | .ok =>
    match setState signMachine sAWAIT (v.outEvent.getD eVALIDATE) with
    | some s2 => ⟨some (some s2, pickData v.data o.data), .ok, s2, v.payload⟩
    | none => ⟨some (some sAWAIT, pickData v.data o.data), .err, sAWAIT, v.payload⟩
  | r => ⟨some (some sAWAIT, pickData v.data o.data), r, sAWAIT, v.payload⟩

theorem sign_after (tr : Tr) (cur : St) (p : Payload) (o : AOut) (a : Arg)
    (hs : setState signMachine cur (o.outEvent.getD tr.event) = some sAWAIT) :
    doTrAfter signMachine runAction tr (noBefore cur p) o a = signAfterValidate o a := by
  rw [doTrAfter_auto (s1 := sAWAIT) (au := ⟨eVALIDATE, sAWAIT, true, true, 2⟩)
      (vid := .sign_actionValidateSigningPartialSignsAwaitConfirmations) hs sign_auto_await sign_cb_validate]
  simp only [runAction_validate, signAfterValidate]
  rfl

/-- one `Do` of `event_signing_partial_sign_received` in `await`, as an equation -/
theorem sign_do_received (p : Payload) (a : Arg) :
    doEvent signMachine runAction sAWAIT p eRECEIVED a =
      let o := sign_actionPartialSignConfirmationReceived eRECEIVED p a
      if o.res != .ok then ⟨some (none, o.data), o.res, sAWAIT, o.payload⟩
      else signAfterValidate o a := by
  rw [doEvent_std sign_lookup_received rfl (no_before_auto .sign sAWAIT) sign_cb_received]
  simp only [runAction_received]
  by_cases hok : ((sign_actionPartialSignConfirmationReceived eRECEIVED p a).res != .ok) = true
  · simp only [hok, ↓reduceIte]
  · simp only [hok, Bool.false_eq_true, ↓reduceIte]
    apply sign_after
    rw [(sign_received_spec p eRECEIVED a).1]; exact sign_set_received

theorem sign_do_signerr (p : Payload) (a : Arg) :
    doEvent signMachine runAction sAWAIT p eSIGNERR a =
      let o := sign_actionConfirmationError eSIGNERR p a
      if o.res != .ok then ⟨some (none, o.data), o.res, sAWAIT, o.payload⟩
      else signAfterValidate o a := by
  rw [doEvent_std sign_lookup_signerr rfl (no_before_auto .sign sAWAIT) sign_cb_signerr]
  simp only [runAction_signerr]
  by_cases hok : ((sign_actionConfirmationError eSIGNERR p a).res != .ok) = true
  · simp only [hok, ↓reduceIte]
  · simp only [hok, Bool.false_eq_true, ↓reduceIte]
    apply sign_after
    rw [(sign_signerr_spec p a).1]; exact sign_set_signerr

theorem sign_do_start (p : Payload) (a : Arg) :
    doEvent signMachine runAction sIDLE p eSTART a =
      let o := sign_actionStartSigningProposal eSTART p a
      if o.res != .ok then ⟨some (none, o.data), o.res, sIDLE, o.payload⟩
      else signAfterValidate o a := by
  rw [doEvent_std sign_lookup_start rfl (no_before_auto .sign sIDLE) sign_cb_start]
  simp only [runAction_start]
  by_cases hok : ((sign_actionStartSigningProposal eSTART p a).res != .ok) = true
  · simp only [hok, ↓reduceIte]
  · simp only [hok, Bool.false_eq_true, ↓reduceIte]
    apply sign_after
    have hok' : (sign_actionStartSigningProposal eSTART p a).res = .ok := by simpa using hok
    rw [((sign_start_spec p a).2 hok').1]; exact sign_set_start

end Dc4bcVerif.Model
