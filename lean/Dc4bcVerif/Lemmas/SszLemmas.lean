import Dc4bcVerif.Model.Ssz

namespace Dc4bcVerif.Model.Ssz

theorem chunksAux_nil (k : Nat) : chunksAux k [] = [] := by
  cases k <;> simp [chunksAux]

/-- a non-empty value of at most 32 bytes packs into exactly one zero-padded chunk -/
theorem chunksOf_short (b : Bytes) (h0 : b ≠ []) (h : b.length ≤ 32) : chunksOf b = [padTo32 b] := by
  unfold chunksOf
  cases hb : b with
  | nil => exact absurd hb h0
  | cons x t =>
    have hl : (x :: t).length ≤ 32 := by rw [← hb]; exact h
    simp only [List.length_cons, chunksAux, List.isEmpty_cons, Bool.false_eq_true, ↓reduceIte]
    have ht : (x :: t).take 32 = x :: t := List.take_of_length_le hl
    have hd : (x :: t).drop 32 = [] := List.drop_of_length_le hl
    rw [ht, hd, chunksAux_nil]

theorem padTo32_full (b : Bytes) (h : b.length = 32) : padTo32 b = b := by
  unfold padTo32; simp [h]

theorem padTo32_length (b : Bytes) (h : b.length ≤ 32) : (padTo32 b).length = 32 := by
  unfold padTo32; simp; omega

theorem merkleize_one (hash : HashFn) (c : Bytes) : merkleize hash [c] = c := by
  simp [merkleize, depth, depthAux, reduceN]

theorem merkleize_two (hash : HashFn) (a b : Bytes) : merkleize hash [a, b] = hash (a ++ b) := by
  simp [merkleize, depth, depthAux, reduceN, reduceLayer]

theorem merkleize_three (hash : HashFn) (a b c : Bytes) :
    merkleize hash [a, b, c] = hash (hash (a ++ b) ++ hash (c ++ zeroChunk)) := by
  simp [merkleize, depth, depthAux, reduceN, reduceLayer]

theorem le64_length (v : UInt64) : (le64 v).length = 8 := by simp [le64]

theorem le64_ne_nil (v : UInt64) : le64 v ≠ [] := by
  intro h; have := le64_length v; rw [h] at this; cases this

end Dc4bcVerif.Model.Ssz
