/-
  The invariant carried along every run of a round through the three machines, phase by phase.
-/
import Dc4bcVerif.Lemmas.Entry

namespace Dc4bcVerif.Model
open Dc4bcVerif.Gen

/-- key generation finished: everybody confirmed, and all announced master keys are equal -/
def FinalInv (p : Payload) : Prop :=
  ∃ dc, p.dkg = some dc ∧ (∀ q ∈ dc.quorum, q.status = 10) ∧
    (∀ q ∈ dc.quorum, ∀ q' ∈ dc.quorum, q.masterKey = q'.masterKey)

/-- what holds of the payload in each state -/
def phaseInv : St → Payload → Prop
  | .s___idle, p => p.dkg = none
  | .s_state_sig_proposal_await_participants_confirmations, p => ∃ sc, SigInv p sc
  | .s_state_sig_proposal_collected, p =>
      p.dkg = none ∧ ∃ sc, p.sig = some sc ∧ sc.quorum ≠ [] ∧ ∀ q ∈ sc.quorum, q.status = 1
  | .s_state_dkg_commits_await_confirmations, p => ∃ dc, CommitsInv p dc
  | .s_state_dkg_deals_await_confirmations, p => ∃ dc, DealsInv p dc
  | .s_state_dkg_responses_await_confirmations, p => ∃ dc, ResponsesInv p dc
  | .s_state_dkg_master_key_await_confirmations, p => ∃ dc, MKInv p dc
  | .s_state_dkg_master_key_collected, p => FinalInv p
  | .s_stage_signing_idle, p => FinalInv p
  | .s_state_signing_await_partial_signs, p => FinalInv p
  | .s_state_signing_partial_signs_collected, p => FinalInv p
  | .s_state_signing_partial_signs_await_cancelled_by_error, p => FinalInv p
  | .s_state_signing_partial_signs_await_cancelled_by_timeout, p => FinalInv p
  | _, _ => True

theorem cntDkg_nonneg (dc : DkgConf) (st : Nat) : 0 ≤ cntDkg dc st := by unfold cntDkg; omega

/-- the signing machine never touches the key-generation part of the payload -/
theorem sign_preserves_dkg : ∀ aid ∈ signMachine.callbacks.map (·.2), ∀ (e : Ev) (p : Payload) (a : Arg),
    (runAction aid e p a).payload.dkg = p.dkg := by
  intro aid hmem e p a
  have : aid = .sign_actionInitSigningProposal ∨ aid = .sign_actionStartSigningProposal ∨
      aid = .sign_actionPartialSignConfirmationReceived ∨
      aid = .sign_actionValidateSigningPartialSignsAwaitConfirmations ∨
      aid = .sign_actionConfirmationError ∨ aid = .sign_actionSigningRestart := by
    revert hmem; cases aid <;> decide
  rcases this with h | h | h | h | h | h <;> subst h <;> simp only [runAction]
  · unfold sign_actionInitSigningProposal
    (repeat' split) <;> simp_all [aErr, aOk, aPanic]
  · unfold sign_actionStartSigningProposal
    (repeat' split) <;> simp_all [aErr, aOk, aPanic]
  · unfold sign_actionPartialSignConfirmationReceived
    (repeat' split) <;> simp_all [aErr, aOk, aPanic]
  · cases hs : p.sign with
    | none => unfold sign_actionValidateSigningPartialSignsAwaitConfirmations; simp [hs, aPanic]
    | some sc =>
      have hv := (sign_validate_spec p sc hs e a).2
      by_cases h1 : sc.expiresAt < sc.updatedAt
      · simp only [h1, ↓reduceIte] at hv; rw [hv.2]
      · simp only [h1, ↓reduceIte] at hv
        by_cases h2 : cntSt sc 2 > (sc.quorum.length : Int) - p.threshold
        · simp only [h2, ↓reduceIte] at hv; rw [hv.2]
        · simp only [h2, ↓reduceIte] at hv
          by_cases h3 : (sc.quorum.length : Int) - cntSt sc 1 > (sc.quorum.length : Int) - p.threshold
          · simp only [h3, ↓reduceIte] at hv; rw [hv.2.1]
          · simp only [h3, ↓reduceIte] at hv; rw [hv.2.1]
  · unfold sign_actionConfirmationError
    (repeat' split) <;> simp_all [aErr, aOk, aPanic]
  · rfl

/-- states owned by the signing machine (its initial state `master_key_collected` included) -/
def signFamily (s : St) : Bool :=
  s == sMKCollected || s == sIDLE || s == sAWAIT || s == sCOLLECTED || s == sCANCERR || s == sCANCTO

theorem signFamily_closed : closedUnder signMachine signFamily = true := by decide

theorem signFamily_phaseInv (s : St) (h : signFamily s = true) (p : Payload) : phaseInv s p = FinalInv p := by
  revert h; cases s <;> first | (intro h; rfl) | (intro h; exact absurd h (by decide))

end Dc4bcVerif.Model
