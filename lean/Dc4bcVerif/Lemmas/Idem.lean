/-
  Idempotence of keyed-list folds.

  The node's stores (signature repository: batch ↦ message ↦ entries per user) are association lists that are only
  ever touched through "replace the first element with this key, or append": `assocSet` and `addEntry`. For such
  lists, folding a sequence of updates twice gives the same LIST (not just the same lookups) as folding it once —
  provided the update of a single slot is itself idempotent. The three levels of the signature store are instances,
  innermost first; the result is `saveSignatures_idem`-style facts used by `Props/C13Node.lean` (a board message
  handled a second time after a crash leaves the signature store exactly as it was).

  No well-formedness (unique keys) is assumed: only first matches are ever read or written, later duplicates are inert.
-/
set_option linter.unusedSimpArgs false

namespace Dc4bcVerif.Idem

variable {α X : Type}

/-- replace the first element with key `k` by `g (some old)`, or append `g none` -/
def touch (kf : α → String) (l : List α) (k : String) (g : Option α → α) : List α :=
  match l with
  | [] => [g none]
  | a :: t => if kf a == k then g (some a) :: t else a :: touch kf t k g

/-- the first element with key `k` -/
def get (kf : α → String) (l : List α) (k : String) : Option α := l.find? (fun a => kf a == k)

section
variable (kf : α → String)

theorem touch_cons_pos (a : α) (t : List α) (k : String) (g : Option α → α) (h : (kf a == k) = true) :
    touch kf (a :: t) k g = g (some a) :: t := by
  simp [touch, h]

theorem touch_cons_neg (a : α) (t : List α) (k : String) (g : Option α → α) (h : ¬ (kf a == k) = true) :
    touch kf (a :: t) k g = a :: touch kf t k g := by
  simp [touch, h]

theorem touch_touch_same (l : List α) (k : String) (g1 g2 : Option α → α) (h1 : ∀ o, kf (g1 o) = k) :
    touch kf (touch kf l k g1) k g2 = touch kf l k (fun o => g2 (some (g1 o))) := by
  induction l with
  | nil => simp [touch, h1]
  | cons a t ih =>
    by_cases h : (kf a == k) = true
    · rw [touch_cons_pos kf a t k g1 h, touch_cons_pos kf a t k _ h, touch_cons_pos kf _ t k g2 (by simp [h1])]
    · rw [touch_cons_neg kf a t k g1 h, touch_cons_neg kf a t k _ h, touch_cons_neg kf a _ k g2 h, ih]

theorem get_touch_same (l : List α) (k : String) (g : Option α → α) (h1 : ∀ o, kf (g o) = k) :
    get kf (touch kf l k g) k = some (g (get kf l k)) := by
  induction l with
  | nil => simp [touch, get, h1]
  | cons a t ih =>
    unfold touch
    by_cases h : (kf a == k) = true
    · simp [h, get, h1]
    · simp only [h, Bool.false_eq_true, ↓reduceIte]
      unfold get at ih ⊢
      simp only [List.find?_cons, h, ih]

theorem get_touch_ne (l : List α) (k k' : String) (g : Option α → α) (h1 : ∀ o, kf (g o) = k) (hne : k' ≠ k) :
    get kf (touch kf l k g) k' = get kf l k' := by
  have hk : (k == k') = false := by simp; exact fun h => hne h.symm
  induction l with
  | nil => simp [touch, get, h1, hk]
  | cons a t ih =>
    unfold touch
    by_cases h : (kf a == k) = true
    · have hka : kf a = k := by simpa using h
      simp only [h, ↓reduceIte]
      unfold get
      simp only [List.find?_cons, h1, hk, hka]
    · simp only [h, Bool.false_eq_true, ↓reduceIte]
      unfold get at ih ⊢
      simp only [List.find?_cons, ih]

theorem touch_comm (l : List α) (k1 k2 : String) (g1 g2 : Option α → α) (h1 : ∀ o, kf (g1 o) = k1) (h2 : ∀ o, kf (g2 o) = k2)
    (hne : k1 ≠ k2) (hp : (get kf l k1).isSome = true) :
    touch kf (touch kf l k1 g1) k2 g2 = touch kf (touch kf l k2 g2) k1 g1 := by
  have n12 : (k1 == k2) = false := by simpa using hne
  have n21 : (k2 == k1) = false := by simp; exact fun h => hne h.symm
  induction l with
  | nil => simp [get] at hp
  | cons a t ih =>
    by_cases ha1 : (kf a == k1) = true
    · have e1 : kf a = k1 := by simpa using ha1
      have ha2 : (kf a == k2) = false := by rw [e1]; exact n12
      conv => lhs; arg 2; unfold touch
      simp only [ha1, ↓reduceIte]
      conv => lhs; unfold touch
      simp only [h1, n12, Bool.false_eq_true, ↓reduceIte]
      conv => rhs; arg 2; unfold touch
      simp only [ha2, Bool.false_eq_true, ↓reduceIte]
      conv => rhs; unfold touch
      simp only [ha1, ↓reduceIte]
    · have hp' : (get kf t k1).isSome = true := by
        unfold get at hp ⊢
        simpa [List.find?_cons, ha1] using hp
      by_cases ha2 : (kf a == k2) = true
      · conv => lhs; arg 2; unfold touch
        simp only [ha1, Bool.false_eq_true, ↓reduceIte]
        conv => lhs; unfold touch
        simp only [ha2, ↓reduceIte]
        conv => rhs; arg 2; unfold touch
        simp only [ha2, ↓reduceIte]
        conv => rhs; unfold touch
        simp only [h2, n21, Bool.false_eq_true, ↓reduceIte]
      · conv => lhs; arg 2; unfold touch
        simp only [ha1, Bool.false_eq_true, ↓reduceIte]
        conv => lhs; unfold touch
        simp only [ha2, Bool.false_eq_true, ↓reduceIte]
        conv => rhs; arg 2; unfold touch
        simp only [ha2, Bool.false_eq_true, ↓reduceIte]
        conv => rhs; unfold touch
        simp only [ha1, Bool.false_eq_true, ↓reduceIte]
        rw [ih hp']

theorem touch_id (l : List α) (k : String) (g : Option α → α) (a : α) (hg : get kf l k = some a) (hga : g (some a) = a) :
    touch kf l k g = l := by
  induction l with
  | nil => simp [get] at hg
  | cons b t ih =>
    unfold touch
    by_cases h : (kf b == k) = true
    · unfold get at hg
      simp only [List.find?_cons, h, Option.some.injEq] at hg
      subst hg
      simp [h, hga]
    · unfold get at hg ih
      simp only [List.find?_cons, h] at hg
      simp only [h, Bool.false_eq_true, ↓reduceIte, ih hg]

end

/-! ### folds of updates -/

section
variable (kf : α → String) (key : X → String) (upd : Option α → X → α)

/-- one update: the slot of `key x` becomes `upd old x` -/
def step (l : List α) (x : X) : List α := touch kf l (key x) (fun o => upd o x)

def F (l : List α) (xs : List X) : List α := xs.foldl (step kf key upd) l

/-- the fold of one slot -/
def sf (o : Option α) (ys : List X) : Option α := ys.foldl (fun o x => some (upd o x)) o

variable (H1 : ∀ o x, kf (upd o x) = key x)
include H1

theorem get_step_same (l : List α) (x : X) : get kf (step kf key upd l x) (key x) = some (upd (get kf l (key x)) x) :=
  get_touch_same kf l (key x) _ (fun o => H1 o x)

theorem get_step_ne (l : List α) (x : X) (k : String) (h : k ≠ key x) : get kf (step kf key upd l x) k = get kf l k :=
  get_touch_ne kf l (key x) k _ (fun o => H1 o x) h

theorem present_step (l : List α) (x : X) (k : String) (h : (get kf l k).isSome = true) :
    (get kf (step kf key upd l x) k).isSome = true := by
  by_cases hk : k = key x
  · subst hk; rw [get_step_same kf key upd H1]; rfl
  · rw [get_step_ne kf key upd H1 l x k hk]; exact h

theorem present_F (xs : List X) (l : List α) (k : String) (h : (get kf l k).isSome = true) :
    (get kf (F kf key upd l xs) k).isSome = true := by
  induction xs generalizing l with
  | nil => exact h
  | cons x t ih => exact ih _ (present_step kf key upd H1 l x k h)

/-- elements of other keys do not touch slot `k` -/
theorem get_F_other (xs : List X) (l : List α) (k : String) (h : ∀ x ∈ xs, key x ≠ k) :
    get kf (F kf key upd l xs) k = get kf l k := by
  induction xs generalizing l with
  | nil => rfl
  | cons x t ih =>
    show get kf (F kf key upd (step kf key upd l x) t) k = _
    rw [ih _ (fun y hy => h y (List.mem_cons_of_mem _ hy))]
    exact get_step_ne kf key upd H1 l x k (fun e => h x (List.mem_cons_self) e.symm)

/-- the slot of `k` after a run of `k`-elements -/
theorem get_F_same (ys : List X) (l : List α) (k : String) (h : ∀ y ∈ ys, key y = k) :
    get kf (F kf key upd l ys) k = sf upd (get kf l k) ys := by
  induction ys generalizing l with
  | nil => rfl
  | cons y t ih =>
    show get kf (F kf key upd (step kf key upd l y) t) k = _
    rw [ih _ (fun z hz => h z (List.mem_cons_of_mem _ hz))]
    have hy : key y = k := h y List.mem_cons_self
    subst hy
    rw [get_step_same kf key upd H1]
    rfl

/-- a run of `k`-elements only rewrites the first `k`-element, to the final slot value -/
theorem F_same_key (ys : List X) (l : List α) (k : String) (h : ∀ y ∈ ys, key y = k) (hne : ys ≠ []) (b : α)
    (hb : get kf (F kf key upd l ys) k = some b) : F kf key upd l ys = touch kf l k (fun _ => b) := by
  induction ys generalizing l with
  | nil => exact absurd rfl hne
  | cons y t ih =>
    have hy : key y = k := h y List.mem_cons_self
    by_cases ht : t = []
    · subst ht
      show step kf key upd l y = _
      have : get kf (step kf key upd l y) k = some b := hb
      subst hy
      rw [get_step_same kf key upd H1] at this
      simp only [Option.some.injEq] at this
      unfold step
      -- the same touch, with a constant function that agrees at the point used
      have aux : ∀ (l : List α) (g1 g2 : Option α → α), g1 (get kf l (key y)) = g2 (get kf l (key y)) →
          touch kf l (key y) g1 = touch kf l (key y) g2 := by
        intro l g1 g2
        induction l with
        | nil => intro hh; simpa [touch, get] using hh
        | cons a t ih2 =>
          intro hh
          unfold touch
          by_cases hk : (kf a == key y) = true
          · unfold get at hh
            simp only [List.find?_cons, hk] at hh
            simp [hk, hh]
          · unfold get at hh ih2
            simp only [List.find?_cons, hk] at hh
            simp only [hk, Bool.false_eq_true, ↓reduceIte, ih2 hh]
      exact aux l _ _ this
    · have := ih (step kf key upd l y) (fun z hz => h z (List.mem_cons_of_mem _ hz)) ht hb
      show F kf key upd (step kf key upd l y) t = _
      rw [this]
      unfold step
      subst hy
      rw [touch_touch_same kf l (key y) _ _ (fun o => H1 o y)]

/-- a single element of another key commutes with a run of `k`-elements, when `k` is present -/
theorem F_comm_one (ys : List X) (l : List α) (k : String) (x : X) (h : ∀ y ∈ ys, key y = k) (hx : key x ≠ k)
    (hp : (get kf l k).isSome = true) :
    F kf key upd (step kf key upd l x) ys = step kf key upd (F kf key upd l ys) x := by
  induction ys generalizing l with
  | nil => rfl
  | cons y t ih =>
    have hy : key y = k := h y List.mem_cons_self
    show F kf key upd (step kf key upd (step kf key upd l x) y) t = step kf key upd (F kf key upd (step kf key upd l y) t) x
    have hswap : step kf key upd (step kf key upd l x) y = step kf key upd (step kf key upd l y) x := by
      unfold step
      rw [touch_comm kf l (key y) (key x) _ _ (fun o => H1 o y) (fun o => H1 o x) (by rw [hy]; exact fun e => hx e.symm) (by rw [hy]; exact hp)]
    rw [hswap]
    exact ih _ (fun z hz => h z (List.mem_cons_of_mem _ hz)) (present_step kf key upd H1 l y k hp)

/-- with `k` present, the `k`-elements can be processed first -/
theorem F_reorder (xs : List X) (l : List α) (k : String) (hp : (get kf l k).isSome = true) :
    F kf key upd l xs = F kf key upd (F kf key upd l (xs.filter (fun x => key x == k))) (xs.filter (fun x => !(key x == k))) := by
  induction xs generalizing l with
  | nil => rfl
  | cons x t ih =>
    by_cases hx : (key x == k) = true
    · simp only [List.filter_cons, hx, ↓reduceIte, Bool.not_true, Bool.false_eq_true]
      show F kf key upd (step kf key upd l x) t = F kf key upd (F kf key upd (step kf key upd l x) _) _
      exact ih _ (present_step kf key upd H1 l x k hp)
    · simp only [List.filter_cons, hx, Bool.false_eq_true, ↓reduceIte, Bool.not_false]
      show F kf key upd (step kf key upd l x) t = F kf key upd (step kf key upd (F kf key upd l _) x) _
      rw [ih _ (present_step kf key upd H1 l x k hp)]
      have hxk : key x ≠ k := by simpa using hx
      rw [F_comm_one kf key upd H1 _ l k x (fun y hy => by simpa using (List.mem_filter.mp hy).2) hxk hp]

/-- **Folding twice = folding once**, when the fold of a single slot is idempotent. -/
theorem F_idem (H2 : ∀ (k : String) (o : Option α) (ys : List X), (∀ y ∈ ys, key y = k) → sf upd (sf upd o ys) ys = sf upd o ys) :
    ∀ (n : Nat) (xs : List X), xs.length ≤ n → ∀ l, F kf key upd (F kf key upd l xs) xs = F kf key upd l xs := by
  intro n
  induction n with
  | zero =>
    intro xs hlen l
    have : xs = [] := List.length_eq_zero_iff.mp (Nat.le_zero.mp hlen)
    subst this; rfl
  | succ n ih =>
    intro xs hlen l
    cases xs with
    | nil => rfl
    | cons x t =>
      let k := key x
      let ys := (x :: t).filter (fun z => key z == k)
      let zs := (x :: t).filter (fun z => !(key z == k))
      have hys : ∀ y ∈ ys, key y = k := fun y hy => by simpa using (List.mem_filter.mp hy).2
      have hzs : ∀ z ∈ zs, key z ≠ k := fun z hz => by simpa using (List.mem_filter.mp hz).2
      have hxk : (key x == k) = true := by simp [k]
      have hys_ne : ys ≠ [] := by simp [ys, List.filter_cons, hxk]
      have hzlen : zs.length ≤ n := by
        have : zs = t.filter (fun z => !(key z == k)) := by simp [zs, List.filter_cons, hxk]
        rw [this]
        have := List.length_filter_le (fun z => !(key z == k)) t
        simp only [List.length_cons] at hlen
        omega
      -- first pass, regrouped: the `k`-elements first
      have hfirst : F kf key upd l (x :: t) = F kf key upd (F kf key upd l ys) zs := by
        show F kf key upd (step kf key upd l x) t = _
        have hp1 : (get kf (step kf key upd l x) k).isSome = true := by
          rw [get_step_same kf key upd H1]; rfl
        rw [F_reorder kf key upd H1 t _ k hp1]
        have e1 : ys = x :: t.filter (fun z => key z == k) := by simp [ys, List.filter_cons, hxk]
        have e2 : zs = t.filter (fun z => !(key z == k)) := by simp [zs, List.filter_cons, hxk]
        rw [e1, e2]; rfl
      let M := F kf key upd l ys
      let S := F kf key upd M zs
      have hS : F kf key upd l (x :: t) = S := hfirst
      -- slot `k` of `S`
      have hslot : get kf S k = sf upd (get kf l k) ys := by
        show get kf (F kf key upd M zs) k = _
        rw [get_F_other kf key upd H1 zs M k hzs]
        exact get_F_same kf key upd H1 ys l k hys
      have hpS : (get kf S k).isSome = true := by
        rw [hslot]
        -- a non-empty fold ends in `some`
        have : ∀ (ys : List X) (o : Option α), ys ≠ [] → (sf upd o ys).isSome = true := by
          intro ys
          induction ys with
          | nil => intro o h; exact absurd rfl h
          | cons y r ihr =>
            intro o _
            by_cases hr : r = []
            · subst hr; rfl
            · exact ihr (some (upd o y)) hr
        exact this ys _ hys_ne
      -- second pass
      rw [hS]
      show F kf key upd S (x :: t) = S
      rw [F_reorder kf key upd H1 (x :: t) S k hpS]
      -- the `k`-elements change nothing
      have hk_noop : F kf key upd S ys = S := by
        have hslot2 : get kf (F kf key upd S ys) k = get kf S k := by
          rw [get_F_same kf key upd H1 ys S k hys, hslot]
          exact H2 k _ ys hys
        cases hb : get kf S k with
        | none => rw [hb] at hpS; cases hpS
        | some b =>
          rw [F_same_key kf key upd H1 ys S k hys hys_ne b (by rw [hslot2, hb])]
          exact touch_id kf S k _ b hb rfl
      show F kf key upd (F kf key upd S ys) zs = S
      rw [hk_noop]
      exact ih zs hzlen M

end

end Dc4bcVerif.Idem
