/-
  Locality of message handling: what `processMessage` does for a message of round `R` is a function of
  the node's view of `R` (dump of `R`, signature store of `R`, verification switch) and of the message;
  two node states with the same view of `R` end with the same view of `R`, the same outcome, the same
  operation and the same posted messages. Helper lemmas for Props/C08.lean.
-/
import Dc4bcVerif.Model.NodeOps

namespace Dc4bcVerif.Lemmas.NodeLocal
open Dc4bcVerif.Gen Dc4bcVerif.Model Dc4bcVerif.Model.Node

theorem lookupS_assocSet_eq {β : Type} (l : List (String × β)) (k : String) (v : β) :
    lookupS (assocSet l k v) k = some v := by
  induction l with
  | nil => simp [assocSet, lookupS]
  | cons x t ih =>
    obtain ⟨kx, vx⟩ := x
    unfold assocSet
    by_cases hx : (kx == k) = true
    · simp only [hx, ↓reduceIte]
      simp [lookupS, List.find?]
    · simp only [hx, Bool.false_eq_true, ↓reduceIte]
      unfold lookupS at ih ⊢
      simp only [List.find?, hx]
      exact ih

/-- the node's view of round `R` -/
def ViewEq (R : String) (a b : NodeSt) : Prop :=
  lookupS a.rounds R = lookupS b.rounds R ∧ lookupS a.sigs R = lookupS b.sigs R ∧ a.skipVerify = b.skipVerify

theorem ViewEq.refl (R : String) (a : NodeSt) : ViewEq R a a := ⟨rfl, rfl, rfl⟩
theorem ViewEq.symm {R : String} {a b : NodeSt} (h : ViewEq R a b) : ViewEq R b a := ⟨h.1.symm, h.2.1.symm, h.2.2.symm⟩
theorem ViewEq.trans {R : String} {a b c : NodeSt} (h1 : ViewEq R a b) (h2 : ViewEq R b c) : ViewEq R a c :=
  ⟨h1.1.trans h2.1, h1.2.1.trans h2.2.1, h1.2.2.trans h2.2.2⟩

/-- both absent, or both present and related -/
def OptRel {α β : Type} (r : α → β → Prop) : Option α → Option β → Prop
  | some x, some y => r x y
  | none, none => True
  | _, _ => False

theorem view_saveFSM {R : String} {a b : NodeSt} (h : ViewEq R a b) (d : DumpV) :
    ViewEq R (saveFSM a R d) (saveFSM b R d) := by
  refine ⟨?_, h.2.1, h.2.2⟩
  simp only [saveFSM]
  rw [lookupS_assocSet_eq, lookupS_assocSet_eq]

theorem view_saveSignatures {R : String} {a b : NodeSt} (h : ViewEq R a b) (l : List RSig)
    (hall : ∀ x ∈ l, x.round = R) : OptRel (ViewEq R) (saveSignatures a l) (saveSignatures b l) := by
  unfold saveSignatures
  cases l with
  | nil => trivial
  | cons first rest =>
    have hf : first.round = R := hall first (List.mem_cons_self ..)
    simp only [OptRel]
    refine ⟨h.1, ?_, h.2.2⟩
    simp only
    rw [hf, lookupS_assocSet_eq, lookupS_assocSet_eq, h.2.1]

def InstRel (R : String) (x y : NodeSt × Instance) : Prop := ViewEq R x.1 y.1 ∧ x.2 = y.2

theorem view_getInstance {R : String} {a b : NodeSt} (h : ViewEq R a b) :
    OptRel (InstRel R) (getInstance a R) (getInstance b R) := by
  unfold getInstance
  cases hl : lookupS b.rounds R with
  | some v =>
    obtain ⟨ds, p⟩ := v
    have ha : lookupS a.rounds R = some (ds, p) := h.1.trans hl
    simp only [ha]
    cases Instance.restore ds p with
    | none => trivial
    | some i => exact ⟨h, rfl⟩
  | none =>
    have ha : lookupS a.rounds R = none := h.1.trans hl
    simp only [ha]
    split
    · trivial
    · exact ⟨h, rfl⟩

theorem view_verify {R : String} {a b : NodeSt} (h : ViewEq R a b) (inst : Instance) (m : NMsg) :
    verifyMessage a inst m = verifyMessage b inst m := by
  unfold verifyMessage; rw [h.2.2]

theorem view_bound {R : String} {a b : NodeSt} (h : ViewEq R a b) (inst : Instance) (m : NMsg) (arg : Arg) :
    bound a inst m arg = bound b inst m arg := by
  unfold bound; rw [h.2.2]

theorem view_restart {R : String} {a b : NodeSt} (h : ViewEq R a b) (inst : Instance) (now : Time) :
    OptRel (InstRel R) (restartSigning a inst R now) (restartSigning b inst R now) := by
  unfold restartSigning
  cases doOrReject inst .e_event_signing_restart (.default now) with
  | none => trivial
  | some r => exact ⟨h, rfl⟩

theorem view_step1 {a b : NodeSt} (m : NMsg) (h : ViewEq m.round a b) (inst : Instance) (now : Time) :
    OptRel (InstRel m.round) (step1 a inst m now) (step1 b inst m now) := by
  unfold step1
  split
  · exact view_restart h inst now
  · exact ⟨h, rfl⟩

theorem view_step2 {a b : NodeSt} (m : NMsg) (h : ViewEq m.round a b) (inst : Instance) (now : Time) :
    OptRel (InstRel m.round) (step2 a inst m now) (step2 b inst m now) := by
  unfold step2
  split
  · exact view_restart h inst now
  · exact ⟨h, rfl⟩

def PreRel (R : String) : Pre → Pre → Prop
  | .swallow x, .swallow y => ViewEq R x y
  | .fail x, .fail y => ViewEq R x y
  | .cont x i, .cont y j => ViewEq R x y ∧ i = j
  | _, _ => False

theorem view_preSteps {a b : NodeSt} (m : NMsg) (h : ViewEq m.round a b) (inst : Instance) (now : Time) :
    PreRel m.round (preSteps a inst m now) (preSteps b inst m now) := by
  unfold preSteps
  split
  · exact h
  · have h1 := view_step1 m h inst now
    cases ha : step1 a inst m now with
    | none =>
      cases hb : step1 b inst m now with
      | none => exact h
      | some y => rw [ha, hb] at h1; exact h1.elim
    | some x =>
      cases hb : step1 b inst m now with
      | none => rw [ha, hb] at h1; exact h1.elim
      | some y =>
        rw [ha, hb] at h1
        obtain ⟨a1, i1⟩ := x
        obtain ⟨b1, j1⟩ := y
        obtain ⟨hv, hi⟩ := h1
        simp only at hv hi
        subst hi
        dsimp only
        split
        · exact hv
        · have h2 := view_step2 m hv i1 now
          cases ha2 : step2 a1 i1 m now with
          | none =>
            cases hb2 : step2 b1 i1 m now with
            | none => exact hv
            | some y => rw [ha2, hb2] at h2; exact h2.elim
          | some x2 =>
            cases hb2 : step2 b1 i1 m now with
            | none => rw [ha2, hb2] at h2; exact h2.elim
            | some y2 =>
              rw [ha2, hb2] at h2
              exact h2

theorem view_placeholders {a b : NodeSt} (m : NMsg) (h : ViewEq m.round a b) (payloadOf : Tasks.Msg → Bytes) :
    OptRel (ViewEq m.round) (placeholders a m payloadOf) (placeholders b m payloadOf) := by
  unfold placeholders
  split
  · cases m.proposal with
    | none => trivial
    | some bt =>
      obtain ⟨batch, tasks⟩ := bt
      dsimp only
      cases Tasks.tasksToMessages tasks with
      | error e => trivial
      | ok msgs =>
        exact view_saveSignatures h _ (by
          intro x hx
          simp only [proposalEntries, List.mem_map] at hx
          obtain ⟨y, _, hy⟩ := hx
          rw [← hy])
  · exact h

/-- same view of the round, same outcome, same operation, same posted messages -/
def PMRel (R : String) (x y : PMOut) : Prop :=
  ViewEq R x.st y.st ∧ x.out = y.out ∧ x.op = y.op ∧ x.sent = y.sent

theorem view_finish {a b : NodeSt} (m : NMsg) (h : ViewEq m.round a b) (i5 : Instance) (rs5 : Option St) (rd5 : Option RespData)
    (now : Time) (payloadOf : Tasks.Msg → Bytes) :
    PMRel m.round (finish a i5 rs5 rd5 m now payloadOf) (finish b i5 rs5 rd5 m now payloadOf) := by
  unfold finish
  dsimp only
  cases reconstructStep (rs5 == some .s_state_signing_partial_signs_collected) m with
  | none => exact ⟨h, rfl, rfl, rfl⟩
  | some sent =>
    dsimp only
    cases restartAfterCollect (rs5 == some .s_state_signing_partial_signs_collected) i5 now with
    | none => exact ⟨h, rfl, rfl, rfl⟩
    | some i6 =>
      dsimp only
      have hp := view_placeholders m h payloadOf
      cases ha : placeholders a m payloadOf with
      | none =>
        cases hb : placeholders b m payloadOf with
        | none => exact ⟨h, rfl, rfl, rfl⟩
        | some y => rw [ha, hb] at hp; exact hp.elim
      | some x =>
        cases hb : placeholders b m payloadOf with
        | none => rw [ha, hb] at hp; exact hp.elim
        | some y =>
          rw [ha, hb] at hp
          exact ⟨view_saveFSM hp _, rfl, rfl, rfl⟩

theorem view_afterDo {a b : NodeSt} (m : NMsg) (h : ViewEq m.round a b) (i3 : Instance) (o3 : Out) (now : Time)
    (payloadOf : Tasks.Msg → Bytes) :
    PMRel m.round (afterDo a i3 o3 m now payloadOf) (afterDo b i3 o3 m now payloadOf) := by
  unfold afterDo
  cases firstHandOver i3 o3 now with
  | none => exact ⟨h, rfl, rfl, rfl⟩
  | some x =>
    obtain ⟨i4, rs4, rd4⟩ := x
    dsimp only
    cases secondHandOver i4 rs4 rd4 now with
    | none => exact ⟨h, rfl, rfl, rfl⟩
    | some y =>
      obtain ⟨i5, rs5, rd5⟩ := y
      exact view_finish m h i5 rs5 rd5 now payloadOf

theorem view_applyEvent {a b : NodeSt} (m : NMsg) (h : ViewEq m.round a b) (inst : Instance) (ev : Ev) (arg : Arg) (now : Time)
    (payloadOf : Tasks.Msg → Bytes) :
    PMRel m.round (applyEvent a inst ev arg m now payloadOf) (applyEvent b inst ev arg m now payloadOf) := by
  unfold applyEvent
  split
  · exact ⟨h, rfl, rfl, rfl⟩
  · cases doOrReject inst ev arg with
    | none => exact ⟨h, rfl, rfl, rfl⟩
    | some r =>
      obtain ⟨i3, o3⟩ := r
      exact view_afterDo m h i3 o3 now payloadOf

theorem view_dispatch {a b : NodeSt} (m : NMsg) (h : ViewEq m.round a b) (inst : Instance) (now : Time)
    (payloadOf : Tasks.Msg → Bytes) :
    PMRel m.round (dispatch a inst m now payloadOf) (dispatch b inst m now payloadOf) := by
  unfold dispatch
  cases Ev.all.find? (fun e => e.name == m.event) with
  | none => exact ⟨h, rfl, rfl, rfl⟩
  | some ev =>
    dsimp only
    split
    · exact ⟨h, rfl, rfl, rfl⟩
    · rw [view_bound h inst m (m.arg.getD .other)]
      split
      · exact ⟨h, rfl, rfl, rfl⟩
      · exact view_applyEvent m h inst ev _ now payloadOf

theorem view_handleEvent {a b : NodeSt} (m : NMsg) (h : ViewEq m.round a b) (inst : Instance) (now : Time)
    (payloadOf : Tasks.Msg → Bytes) :
    PMRel m.round (handleEvent a inst m now payloadOf) (handleEvent b inst m now payloadOf) := by
  unfold handleEvent
  have hp := view_preSteps m h inst now
  cases ha : preSteps a inst m now <;> cases hb : preSteps b inst m now <;> rw [ha, hb] at hp <;>
    first
    | exact hp.elim
    | exact ⟨hp, rfl, rfl, rfl⟩
    | (obtain ⟨hv, hi⟩ := hp; subst hi; exact view_dispatch m hv _ now payloadOf)

theorem view_afterVerify {a b : NodeSt} (m : NMsg) (h : ViewEq m.round a b) (inst : Instance) (now : Time)
    (payloadOf : Tasks.Msg → Bytes) (v : Outcome) :
    PMRel m.round
      (match v with
        | .panic => ({ st := a, out := .panic } : PMOut)
        | .reject => rejectWith a
        | .ok =>
          if m.event == "signature_reconstructed" then
            match m.sigs with
            | none => rejectWith a
            | some l =>
              match saveSignatures a (l.map (fun x => { x with username := m.sender, round := m.round })) with
              | some st2 => { st := st2, out := .ok }
              | none => rejectWith a
          else if m.event == "signature_reconstruction_failed" then
            match m.arg with
            | some (.signErr _ _ _) => { st := a, out := .ok }
            | _ => rejectWith a
          else handleEvent a inst m now payloadOf)
      (match v with
        | .panic => ({ st := b, out := .panic } : PMOut)
        | .reject => rejectWith b
        | .ok =>
          if m.event == "signature_reconstructed" then
            match m.sigs with
            | none => rejectWith b
            | some l =>
              match saveSignatures b (l.map (fun x => { x with username := m.sender, round := m.round })) with
              | some st2 => { st := st2, out := .ok }
              | none => rejectWith b
          else if m.event == "signature_reconstruction_failed" then
            match m.arg with
            | some (.signErr _ _ _) => { st := b, out := .ok }
            | _ => rejectWith b
          else handleEvent b inst m now payloadOf) := by
  cases v with
  | panic => exact ⟨h, rfl, rfl, rfl⟩
  | reject => exact ⟨h, rfl, rfl, rfl⟩
  | ok =>
    dsimp only
    split
    · cases m.sigs with
      | none => exact ⟨h, rfl, rfl, rfl⟩
      | some l =>
        dsimp only
        have hs := view_saveSignatures h (l.map (fun x => { x with username := m.sender, round := m.round })) (by
          intro x hx
          simp only [List.mem_map] at hx
          obtain ⟨y, _, hy⟩ := hx
          rw [← hy])
        cases ha : saveSignatures a (l.map (fun x => { x with username := m.sender, round := m.round })) <;>
          cases hb : saveSignatures b (l.map (fun x => { x with username := m.sender, round := m.round })) <;>
          rw [ha, hb] at hs
        · exact ⟨h, rfl, rfl, rfl⟩
        · exact hs.elim
        · exact hs.elim
        · exact ⟨hs, rfl, rfl, rfl⟩
    · split
      · split <;> exact ⟨h, rfl, rfl, rfl⟩
      · exact view_handleEvent m h inst now payloadOf

theorem view_processMessage {a b : NodeSt} (m : NMsg) (h : ViewEq m.round a b) (now : Time) (payloadOf : Tasks.Msg → Bytes) :
    PMRel m.round (processMessage a m now payloadOf) (processMessage b m now payloadOf) := by
  unfold processMessage
  have hg := view_getInstance h
  cases ha : getInstance a m.round <;> cases hb : getInstance b m.round <;> rw [ha, hb] at hg
  · exact ⟨h, rfl, rfl, rfl⟩
  · exact hg.elim
  · exact hg.elim
  · rename_i x y
    obtain ⟨a1, i1⟩ := x
    obtain ⟨b1, j1⟩ := y
    obtain ⟨hv, hi⟩ := hg
    simp only at hv hi
    subst hi
    dsimp only
    rw [view_verify hv i1 m]
    exact view_afterVerify m hv i1 now payloadOf _

theorem view_putOperation_left (R : String) (a a' : NodeSt) (op : NOp) (h : putOperation a op = some a') : ViewEq R a' a := by
  unfold putOperation at h
  split at h
  · cases h
  · simp only [Option.some.injEq] at h; rw [← h]; exact ⟨rfl, rfl, rfl⟩

theorem view_putOperationOnce (R : String) (a : NodeSt) (op : NOp) : ViewEq R (putOperationOnce a op) a := by
  unfold putOperationOnce
  cases hp : putOperation a op with
  | some a' => exact view_putOperation_left R a a' op hp
  | none => exact ViewEq.refl _ _

theorem top_view (R : String) (st : NodeSt) (m : NMsg) (now : Time) (payloadOf : Tasks.Msg → Bytes) :
    ViewEq R (processMessageTop st m now payloadOf).st (processMessage st m now payloadOf).st := by
  unfold processMessageTop
  dsimp only
  split
  · exact view_putOperationOnce R _ _
  · exact ViewEq.refl _ _

theorem view_top {a b : NodeSt} (m : NMsg) (h : ViewEq m.round a b) (now : Time) (payloadOf : Tasks.Msg → Bytes) :
    ViewEq m.round (processMessageTop a m now payloadOf).st (processMessageTop b m now payloadOf).st :=
  (top_view _ a m now payloadOf).trans ((view_processMessage m h now payloadOf).1.trans (top_view _ b m now payloadOf).symm)

end Dc4bcVerif.Lemmas.NodeLocal
