/-
  The key-generation machine: generic specifications of the shared callback shapes
  (`dkgReceived`, `dkgValidate` in Model/Actions.lean) used by the commits, deals and responses
  phases, and counting lemmas on the DKG quorum.
-/
import Dc4bcVerif.Model.Run
import Dc4bcVerif.Lemmas.FsmEngine
import Dc4bcVerif.Lemmas.SignPhase

namespace Dc4bcVerif.Model
open Dc4bcVerif.Gen

/-- number of DKG quorum members with a given status -/
def cntDkg (dc : DkgConf) (st : Nat) : Int := ((dc.quorum.filter (·.status == st)).length : Int)

theorem cntDkg_setAt (dc : DkgConf) (pid : Int) (old new : DkgPart) (st : Nat) (h : getAt dc.quorum pid = some old)
    (ts : Time) :
    cntDkg { dc with quorum := setAt dc.quorum pid new, updatedAt := ts } st + (if old.status == st then 1 else 0)
      = cntDkg dc st + (if new.status == st then 1 else 0) := by
  obtain ⟨h0, hg⟩ := getAt_some h
  unfold cntDkg setAt
  have hn : ¬ pid < 0 := by omega
  simp only [hn, ↓reduceIte]
  have := filter_length_set (fun q : DkgPart => q.status == st) dc.quorum pid.toNat old new hg
  split at this <;> split at this <;> rename_i h1 h2 <;>
    simp only [h1, h2, ↓reduceIte, Bool.false_eq_true] <;> omega

/-- all members have one of two statuses -/
def allIn (dc : DkgConf) (a b : Nat) : Prop := ∀ q ∈ dc.quorum, q.status = a ∨ q.status = b

theorem mem_setAt {α : Type} {l : List α} {id : Int} {v x : α} (h : x ∈ setAt l id v) : x ∈ l ∨ x = v := by
  unfold setAt at h
  split at h
  · left; exact h
  · rcases List.mem_or_eq_of_mem_set h with h | h
    · left; exact h
    · right; exact h

theorem mem_set_of_ne {α : Type} {l : List α} {i : Nat} {old v q : α} (hq : q ∈ l) (hi : l[i]? = some old)
    (hne : q ≠ old) : q ∈ l.set i v := by
  induction l generalizing i with
  | nil => cases hq
  | cons x t ih =>
    cases i with
    | zero =>
      simp only [List.getElem?_cons_zero, Option.some.injEq] at hi
      subst hi
      rcases List.mem_cons.mp hq with h | h
      · exact absurd h hne
      · simp [h]
    | succ k =>
      simp only [List.getElem?_cons_succ] at hi
      rcases List.mem_cons.mp hq with h | h
      · simp [h]
      · simp only [List.set_cons_succ, List.mem_cons]; right; exact ih h hi

theorem mem_setAt_self {α : Type} {l : List α} {id : Int} {old v : α} (h : getAt l id = some old) : v ∈ setAt l id v := by
  obtain ⟨h0, hg⟩ := getAt_some h
  unfold setAt
  have : ¬ id < 0 := by omega
  simp only [this, ↓reduceIte]
  have hlt : id.toNat < l.length := by
    rcases List.getElem?_eq_some_iff.mp hg with ⟨h, _⟩; exact h
  exact List.mem_set hlt v

theorem mem_setAt_of_ne {α : Type} {l : List α} {id : Int} {old v q : α} (h : getAt l id = some old)
    (hq : q ∈ l) (hne : q ≠ old) : q ∈ setAt l id v := by
  obtain ⟨h0, hg⟩ := getAt_some h
  unfold setAt
  have : ¬ id < 0 := by omega
  simp only [this, ↓reduceIte]
  exact mem_set_of_ne hq hg hne

theorem filter_length_eq_length {α : Type} (f : α → Bool) (l : List α) :
    (l.filter f).length = l.length ↔ ∀ x ∈ l, f x = true := by
  induction l with
  | nil => simp
  | cons x t ih =>
    simp only [List.filter_cons, List.length_cons, List.mem_cons, forall_eq_or_imp]
    by_cases hx : f x = true
    · simp only [hx, ↓reduceIte, List.length_cons, Nat.add_right_cancel_iff, true_and]; exact ih
    · have hle := List.length_filter_le f t
      simp only [hx, Bool.false_eq_true, ↓reduceIte, false_and, iff_false]; omega

/-- what an accepted `…ConfirmationReceived` of the commits / deals / responses phases is and does -/
theorem dkgReceived_spec (p : Payload) (pid : Int) (ts : Time) (dataEmpty : Bool) (awaitSt newSt : Nat)
    (upd : DkgPart → DkgPart) :
    let o := dkgReceived p pid ts dataEmpty awaitSt newSt upd
    o.outEvent = none ∧ o.data = none ∧ (o.res = .err → o.payload = p) ∧
    (o.res = .ok → ∃ dc part, p.dkg = some dc ∧ getAt dc.quorum pid = some part ∧ part.status = awaitSt ∧
      dataEmpty = false ∧ ¬ isZeroTime ts = true ∧
      o.payload = { p with dkg := some { dc with
        quorum := setAt dc.quorum pid { upd part with status := newSt, updatedAt := ts }, updatedAt := ts } }) ∧
    (p.dkg.isSome = true → o.res ≠ .panic) := by
  unfold dkgReceived
  by_cases hv : (decide (pid < 0) || dataEmpty || isZeroTime ts) = true
  · simp [hv, aErr]
  · simp only [hv, Bool.false_eq_true, ↓reduceIte]
    simp only [Bool.or_eq_true, decide_eq_true_eq, not_or] at hv
    cases hd : p.dkg with
    | none => simp [aPanic]
    | some dc =>
      simp only
      cases hg : getAt dc.quorum pid with
      | none => simp [aErr]
      | some part =>
        simp only
        by_cases hst : part.status = awaitSt
        · have hne : (part.status != awaitSt) = false := by simp [hst]
          simp only [hne, Bool.false_eq_true, ↓reduceIte, aOk]
          refine ⟨trivial, trivial, by simp, ?_, by simp⟩
          intro _
          exact ⟨dc, part, rfl, hg, hst, by simpa using hv.1.2, by simpa using hv.2, rfl⟩
        · have hne : (part.status != awaitSt) = true := by simp [hst]
          simp [hne, aErr]

/-- outcome of the commits / deals / responses auto-validators, by their branch conditions -/
theorem dkgValidate_spec (p : Payload) (dc : DkgConf) (hd : p.dkg = some dc) (errSt okSt nextAwait : Nat)
    (timeoutEv errEv doneEv : Ev) (mkResp : List DkgPart → RespData) :
    let v := dkgValidate p errSt okSt nextAwait timeoutEv errEv doneEv mkResp
    v.res = .ok ∧
    (if dc.expiresAt < dc.updatedAt then v.outEvent = some timeoutEv ∧ v.payload = p
     else if dc.quorum.any (·.status == errSt) = true then v.outEvent = some errEv ∧ v.payload = p
     else if cntDkg dc okSt < dc.quorum.length then v.outEvent = none ∧ v.payload = p ∧ v.data = none
     else v.outEvent = some doneEv ∧
          v.payload = { p with dkg := some { dc with quorum := dc.quorum.map (fun q => { q with status := nextAwait }) } } ∧
          v.data.isSome = true) := by
  unfold dkgValidate
  simp only [hd, cntDkg]
  by_cases h1 : dc.expiresAt < dc.updatedAt
  · simp [h1, aOk]
  · simp only [h1, ↓reduceIte]
    by_cases h2 : dc.quorum.any (·.status == errSt) = true
    · simp [h2, aOk]
    · simp only [h2, Bool.false_eq_true, ↓reduceIte]
      by_cases h3 : ((List.filter (fun x => x.status == okSt) dc.quorum).length : Int) < (dc.quorum.length : Int)
      · have h3' : (dc.quorum.length : Int) - ((List.filter (fun x => x.status == okSt) dc.quorum).length : Int) > 0 := by omega
        simp [h3, h3', aOk]
      · have h3' : ¬ (dc.quorum.length : Int) - ((List.filter (fun x => x.status == okSt) dc.quorum).length : Int) > 0 := by omega
        simp [h3, h3', aOk]

end Dc4bcVerif.Model
