/-
  The signature repository of the node model is idempotent under saving the same list twice:
  `saveSignatures st l = some st' → saveSignatures st' l = some st'` — as LISTS, whatever the list contains
  (duplicates included) and whatever the store looked like before. Three instances of `Idem.F_idem`:
  entries per user (`addEntry`), messages of a batch, batches of a round.
-/
import Dc4bcVerif.Lemmas.Idem
import Dc4bcVerif.Model.Node

set_option linter.unusedSimpArgs false

namespace Dc4bcVerif.Model.Node
open Dc4bcVerif.Model Dc4bcVerif.Idem

/-! ### association lists as keyed lists -/

theorem lookupS_eq_get {β : Type} (l : List (String × β)) (k : String) : lookupS l k = (get Prod.fst l k).map Prod.snd := rfl

theorem assocSet_eq_touch {β : Type} (l : List (String × β)) (k : String) (f : Option β → β) :
    assocSet l k (f (lookupS l k)) = touch Prod.fst l k (fun o => (k, f (o.map Prod.snd))) := by
  induction l with
  | nil => simp [assocSet, touch, lookupS]
  | cons a t ih =>
    obtain ⟨k', v'⟩ := a
    by_cases h : (k' == k) = true
    · rw [touch_cons_pos Prod.fst (k', v') t k _ h]
      simp [assocSet, h, lookupS, List.find?_cons]
    · rw [touch_cons_neg Prod.fst (k', v') t k _ h]
      have hl : lookupS ((k', v') :: t) k = lookupS t k := by simp [lookupS, List.find?_cons, h]
      rw [hl]
      simp only [assocSet, h, Bool.false_eq_true, ↓reduceIte, ih]

/-- the fold of one slot of an association list whose values are themselves folded by `inner` -/
theorem sf_assoc {β X : Type} (key : X → String) (inner : β → X → β) (d : β) (k : String) (ys : List X)
    (hys : ∀ y ∈ ys, key y = k) (hne : ys ≠ []) (o : Option (String × β)) :
    sf (fun o x => (key x, inner ((o.map Prod.snd).getD d) x)) o ys = some (k, ys.foldl inner ((o.map Prod.snd).getD d)) := by
  induction ys generalizing o with
  | nil => exact absurd rfl hne
  | cons y t ih =>
    have hy : key y = k := hys y List.mem_cons_self
    by_cases ht : t = []
    · subst ht; simp [sf, hy]
    · have := ih (fun z hz => hys z (List.mem_cons_of_mem _ hz)) ht (some (key y, inner ((o.map Prod.snd).getD d) y))
      simpa [sf] using this

/-- **lifting idempotence through one level of association list** -/
theorem assoc_fold_idem {β X : Type} (key : X → String) (inner : β → X → β) (d : β)
    (hin : ∀ (b : β) (ys : List X), ys.foldl inner (ys.foldl inner b) = ys.foldl inner b) (l : List (String × β)) (xs : List X) :
    let stp := fun (l : List (String × β)) (x : X) => assocSet l (key x) (inner ((lookupS l (key x)).getD d) x)
    xs.foldl stp (xs.foldl stp l) = xs.foldl stp l := by
  intro stp
  have hstp : stp = step Prod.fst key (fun o x => (key x, inner ((o.map Prod.snd).getD d) x)) := by
    funext l x
    show assocSet l (key x) (inner ((lookupS l (key x)).getD d) x) = _
    exact assocSet_eq_touch l (key x) (fun o => inner (o.getD d) x)
  rw [hstp]
  refine F_idem Prod.fst key (fun o x => (key x, inner ((o.map Prod.snd).getD d) x)) (fun _ _ => rfl) ?_ xs.length xs (Nat.le_refl _) l
  intro k o ys hys
  by_cases hne : ys = []
  · subst hne; rfl
  · rw [sf_assoc key inner d k ys hys hne o, sf_assoc key inner d k ys hys hne _]
    simp only [Option.map_some, Option.getD_some]
    rw [hin]

/-! ### level 1: the entries of one message, one per user -/

theorem addEntry_go_eq (rs : RSig) (es : List RSig) (h : es.any (fun x => x.username == rs.username) = true) :
    addEntry.go rs es = touch (fun x : RSig => x.username) es rs.username (fun _ => rs) := by
  induction es with
  | nil => simp at h
  | cons x t ih =>
    by_cases hx : (x.username == rs.username) = true
    · rw [touch_cons_pos _ x t _ _ hx]
      simp [addEntry.go, hx]
    · rw [touch_cons_neg _ x t _ _ hx]
      have ht : t.any (fun x => x.username == rs.username) = true := by
        simpa [List.any_cons, hx] using h
      simp only [addEntry.go, hx, Bool.false_eq_true, ↓reduceIte, ih ht]

theorem touch_absent (rs : RSig) (es : List RSig) (h : es.any (fun x => x.username == rs.username) = false) :
    touch (fun x : RSig => x.username) es rs.username (fun _ => rs) = es ++ [rs] := by
  induction es with
  | nil => rfl
  | cons x t ih =>
    have hx : ¬ (x.username == rs.username) = true := by
      intro hx; simp [List.any_cons, hx] at h
    have ht : t.any (fun x => x.username == rs.username) = false := by
      simpa [List.any_cons, hx] using h
    rw [touch_cons_neg _ x t _ _ hx, ih ht]; rfl

theorem addEntry_eq_touch (es : List RSig) (rs : RSig) :
    addEntry es rs = touch (fun x : RSig => x.username) es rs.username (fun _ => rs) := by
  unfold addEntry
  by_cases h : es.any (fun x => x.username == rs.username) = true
  · simp only [h, ↓reduceIte]; exact addEntry_go_eq rs es h
  · have h' : es.any (fun x => x.username == rs.username) = false := by simpa using h
    simp only [h', Bool.false_eq_true, ↓reduceIte]; exact (touch_absent rs es h').symm

theorem entries_idem (es : List RSig) (xs : List RSig) : xs.foldl addEntry (xs.foldl addEntry es) = xs.foldl addEntry es := by
  have hstp : addEntry = step (fun x : RSig => x.username) (fun x : RSig => x.username) (fun _ x => x) := by
    funext es rs; exact addEntry_eq_touch es rs
  rw [hstp]
  refine F_idem (fun x : RSig => x.username) (fun x : RSig => x.username) (fun _ x => x) (fun _ _ => rfl) ?_ xs.length xs (Nat.le_refl _) es
  intro k o ys _
  -- a non-empty fold of "replace" forgets where it started
  have : ∀ (ys : List RSig) (o o' : Option RSig), ys ≠ [] → sf (fun _ x => x) o ys = sf (fun _ x => x) o' ys := by
    intro ys
    induction ys with
    | nil => intro _ _ h; exact absurd rfl h
    | cons y t _ => intro o o' _; rfl
  by_cases hne : ys = []
  · subst hne; rfl
  · exact this ys _ _ hne

/-! ### level 2 and 3: messages of a batch, batches of a round -/

/-- `addSig` on the messages of one batch -/
def addMsg (bm : List (String × List RSig)) (rs : RSig) : List (String × List RSig) :=
  assocSet bm rs.msgId (addEntry ((lookupS bm rs.msgId).getD []) rs)

theorem addSig_eq (store : List (String × List (String × List RSig))) (rs : RSig) :
    addSig store rs = assocSet store rs.batch (addMsg ((lookupS store rs.batch).getD []) rs) := rfl

theorem msgs_idem (bm : List (String × List RSig)) (xs : List RSig) : xs.foldl addMsg (xs.foldl addMsg bm) = xs.foldl addMsg bm :=
  assoc_fold_idem (fun x : RSig => x.msgId) addEntry [] (fun b ys => entries_idem b ys) bm xs

theorem sigs_idem (store : List (String × List (String × List RSig))) (xs : List RSig) :
    xs.foldl addSig (xs.foldl addSig store) = xs.foldl addSig store := by
  have : addSig = fun (l : List (String × List (String × List RSig))) (x : RSig) =>
      assocSet l x.batch (addMsg ((lookupS l x.batch).getD []) x) := by
    funext l x; exact addSig_eq l x
  rw [this]
  exact assoc_fold_idem (fun x : RSig => x.batch) addMsg [] (fun b ys => msgs_idem b ys) store xs

theorem assocSet_idem {β : Type} (l : List (String × β)) (k : String) (v : β) : assocSet (assocSet l k v) k v = assocSet l k v := by
  induction l with
  | nil => simp [assocSet]
  | cons a t ih =>
    obtain ⟨k', v'⟩ := a
    by_cases h : (k' == k) = true
    · simp [assocSet, h]
    · simp only [assocSet, h, Bool.false_eq_true, ↓reduceIte, ih]

theorem lookupS_assocSet_self {β : Type} (l : List (String × β)) (k : String) (v : β) : lookupS (assocSet l k v) k = some v := by
  induction l with
  | nil => simp [assocSet, lookupS]
  | cons a t ih =>
    obtain ⟨k', v'⟩ := a
    by_cases h : (k' == k) = true
    · simp [assocSet, h, lookupS, List.find?_cons]
    · simp only [assocSet, h, Bool.false_eq_true, ↓reduceIte]
      simp only [lookupS, List.find?_cons, h] at ih ⊢
      exact ih

/-- **saving the same signatures twice leaves the store exactly as after the first time** -/
theorem saveSignatures_idem (st st' : NodeSt) (l : List RSig) (h : saveSignatures st l = some st') :
    saveSignatures st' l = some st' := by
  unfold saveSignatures at h ⊢
  cases l with
  | nil => cases h
  | cons first rest =>
    simp only [Option.some.injEq] at h ⊢
    subst h
    simp only [lookupS_assocSet_self, Option.getD_some]
    rw [sigs_idem, assocSet_idem]

end Dc4bcVerif.Model.Node
