/-
  One step from each remaining class of states preserves the round invariant.
-/
import Dc4bcVerif.Lemmas.RoundStepDkg

namespace Dc4bcVerif.Model
open Dc4bcVerif.Gen

theorem idle_step_inv (p : Payload) (e : Ev) (a : Arg) (hdkg : p.dkg = none)
    (hok : (doEvent sigMachine runAction sIdle0 p e a).res = .ok) :
    phaseInv (doEvent sigMachine runAction sIdle0 p e a).state (doEvent sigMachine runAction sIdle0 p e a).payload := by
  by_cases h1 : e = eSigInit
  · subst h1
    rcases sig_init_outcome p a hdkg hok with hst | ⟨hst, sc, hinv⟩
    · rw [hst]; trivial
    · rw [hst]; exact ⟨sc, hinv⟩
  · rw [doEvent_route (sig_idle_other e h1)] at hok; cases hok

theorem sigAwait_step_inv (p : Payload) (e : Ev) (a : Arg) (sc : SigConf) (hinv : SigInv p sc)
    (hok : (doEvent sigMachine runAction sSigAwait p e a).res = .ok) :
    phaseInv (doEvent sigMachine runAction sSigAwait p e a).state (doEvent sigMachine runAction sSigAwait p e a).payload := by
  by_cases h1 : e = eSigConfirm
  · subst h1
    obtain ⟨pid, ts, part, _, _, hcase⟩ := sig_confirm_outcome p a sc hinv hok
    rcases hcase with hst | ⟨_, hcnt, hst, sc', hs', hd', hlen', hall'⟩ | ⟨_, _, hst, sc', hinv', _, _⟩
    · rw [hst]; trivial
    · rw [hst]
      refine ⟨hd', sc', hs', ?_, hall'⟩
      intro hnil
      have h0 : sc'.quorum.length = 0 := by rw [hnil]; rfl
      have hopen := hinv.hopen
      have : (0 : Int) ≤ cntSig sc 1 := by unfold cntSig; omega
      rw [hlen'] at h0
      omega
    · rw [hst]; exact ⟨sc', hinv'⟩
  · by_cases h2 : e = eSigDecline
    · subst h2
      rcases sig_decline_outcome p a sc hinv hok with hst | hst <;> rw [hst] <;> trivial
    · rw [doEvent_route (sig_await_other e h1 h2)] at hok; cases hok

theorem sigCollected_step_inv (p : Payload) (e : Ev) (a : Arg) (hdkg : p.dkg = none) (sc : SigConf) (hs : p.sig = some sc)
    (hok : (doEvent dkgMachine runAction sSigCollected p e a).res = .ok) :
    phaseInv (doEvent dkgMachine runAction sSigCollected p e a).state (doEvent dkgMachine runAction sSigCollected p e a).payload := by
  by_cases h1 : e = eDkgInit
  · subst h1
    rcases dkg_init_outcome p a hdkg sc hs hok with hst | ⟨hst, dc, hinv, _⟩
    · rw [hst]; trivial
    · rw [hst]; exact ⟨dc, hinv⟩
  · rw [doEvent_route (dkg_collected_other e h1)] at hok; cases hok

theorem mk_step_inv (p : Payload) (e : Ev) (a : Arg) (dc : DkgConf) (hinv : MKInv p dc)
    (hok : (doEvent dkgMachine runAction sMKAwait p e a).res = .ok) :
    phaseInv (doEvent dkgMachine runAction sMKAwait p e a).state (doEvent dkgMachine runAction sMKAwait p e a).payload := by
  by_cases h1 : e = eMKOk
  · subst h1
    obtain ⟨pid, key, ts, poly, part, _, _, _, hcase⟩ := mk_received_outcome p a dc hinv hok
    rcases hcase with ⟨_, _, hst⟩ | ⟨_, hcase⟩
    · rw [hst]; trivial
    · rcases hcase with ⟨_, hst⟩ | ⟨_, _, hst⟩ | ⟨_, _, hcase⟩
      · rw [hst]; trivial
      · rw [hst]; trivial
      · rcases hcase with ⟨_, hst, dc', hd', _, _, hall'⟩ | ⟨_, hst, dc', hinv', _⟩
        · rw [hst]
          exact ⟨dc', hd', fun q hq => (hall' q hq).1, fun q hq q' hq' => by rw [(hall' q hq).2, (hall' q' hq').2]⟩
        · rw [hst]; exact ⟨dc', hinv'⟩
  · by_cases h2 : e = eMKErr
    · subst h2
      rw [mk_error_outcome p a hok]; trivial
    · rw [doEvent_route (mk_other e h1 h2)] at hok; cases hok

/-- in the states of the signing machine the key-generation result is carried along unchanged -/
theorem signFamily_step_inv (s : St) (hs : signFamily s = true) (p : Payload) (e : Ev) (a : Arg) (hf : FinalInv p) :
    phaseInv (doEvent signMachine runAction s p e a).state (doEvent signMachine runAction s p e a).payload := by
  have hst := closedUnder_hops signFamily_closed (doEvent_hops signMachine runAction s p e a) hs
  rw [signFamily_phaseInv _ hst]
  have hd := doEvent_preserves (fun q : Payload => q.dkg) signMachine runAction sign_preserves_dkg s p e a
  obtain ⟨dc, hdc, h1, h2⟩ := hf
  exact ⟨dc, by rw [hd]; exact hdc, h1, h2⟩

/-- the cancelled states of invitation and key generation (absorbing, see C05.cancel_absorbing) -/
def cancelledSt (s : St) : Bool :=
  s == .s_state_sig_proposal_canceled_by_participant || s == .s_state_sig_proposal_canceled_by_timeout
  || s == .s_state_dkg_commits_await_canceled_by_error || s == .s_state_dkg_commits_await_canceled_by_timeout
  || s == .s_state_dkg_deals_await_canceled_by_error || s == .s_state_dkg_deals_await_canceled_by_timeout
  || s == .s_state_dkg_responses_await_canceled_by_error || s == .s_state_dkg_responses_sending_canceled_by_timeout
  || s == .s_state_dkg_master_key_await_canceled_by_error || s == .s_state_dkg_master_key_await_canceled_by_timeout

theorem cancelledSt_closed (mid : MachineId) : closedUnder (machineOf mid) cancelledSt = true := by
  cases mid <;> decide

theorem cancelledSt_phaseInv (s : St) (h : cancelledSt s = true) (p : Payload) : phaseInv s p := by
  revert h; cases s <;> first | (intro _; trivial) | (intro h; exact absurd h (by decide))

theorem cancelled_step_inv (mid : MachineId) (s : St) (hs : cancelledSt s = true) (p : Payload) (e : Ev) (a : Arg) :
    phaseInv (doEvent (machineOf mid) runAction s p e a).state (doEvent (machineOf mid) runAction s p e a).payload :=
  cancelledSt_phaseInv _ (closedUnder_hops (cancelledSt_closed mid) (doEvent_hops (machineOf mid) runAction s p e a) hs) _

/-- every state is of one of the classes treated above -/
theorem state_classes (s : St) :
    s = sIdle0 ∨ s = sSigAwait ∨ s = sSigCollected ∨ s = sCommitsAwait ∨ s = sDealsAwait ∨ s = sResponsesAwait ∨
    s = sMKAwait ∨ signFamily s = true ∨ cancelledSt s = true := by
  cases s <;> decide

end Dc4bcVerif.Model
