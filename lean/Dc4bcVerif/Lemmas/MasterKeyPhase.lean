/-
  The master-key phase of the key-generation machine (state_dkg_master_key_await_confirmations):
  announcements of the group key and the public polynomial, and the validator that compares keys.
-/
import Dc4bcVerif.Lemmas.DkgCommon

namespace Dc4bcVerif.Model
open Dc4bcVerif.Gen

abbrev sMKAwait : St := .s_state_dkg_master_key_await_confirmations
abbrev sMKCollected : St := .s_state_dkg_master_key_collected
abbrev sMKCancErr : St := .s_state_dkg_master_key_await_canceled_by_error
abbrev sMKCancTo : St := .s_state_dkg_master_key_await_canceled_by_timeout
abbrev eMKOk : Ev := .e_event_dkg_master_key_confirm_received
abbrev eMKErr : Ev := .e_event_dkg_master_key_confirm_canceled_by_error
abbrev eMKVal : Ev := .e_event_dkg_master_key_validate_internal
abbrev eMKErrInt : Ev := .e_event_dkg_master_key_confirm_canceled_by_error_internal
abbrev eMKDone : Ev := .e_event_dkg_master_key_confirmed_internal
abbrev eMKTo : Ev := .e_event_dkg_master_key_confirm_canceled_by_timeout_internal

theorem mk_lookup_ok : lookup dkgMachine sMKAwait eMKOk = some ⟨eMKOk, sMKAwait, false, false, 0⟩ := by decide
theorem mk_lookup_err : lookup dkgMachine sMKAwait eMKErr = some ⟨eMKErr, sMKCancErr, false, false, 0⟩ := by decide
theorem mk_cb_ok : callbackOf dkgMachine eMKOk = some .dkg_actionMasterKeyConfirmationReceived := by decide
theorem mk_cb_err : callbackOf dkgMachine eMKErr = some .dkg_actionConfirmationError := by decide
theorem mk_cb_val : callbackOf dkgMachine eMKVal = some .dkg_actionValidateDkgProposalAwaitMasterKey := by decide
theorem mk_auto : autoLookup dkgMachine sMKAwait 2 = some ⟨eMKVal, sMKAwait, true, true, 2⟩ := by decide
theorem mk_auto_cancerr : autoLookup dkgMachine sMKCancErr 2 = none := by decide
theorem mk_set_ok : setState dkgMachine sMKAwait eMKOk = some sMKAwait := by decide
theorem mk_set_err : setState dkgMachine sMKAwait eMKErr = some sMKCancErr := by decide
theorem mk_set_val : setState dkgMachine sMKAwait eMKVal = some sMKAwait := by decide
theorem mk_set_errint : setState dkgMachine sMKAwait eMKErrInt = some sMKCancErr := by decide
theorem mk_set_done : setState dkgMachine sMKAwait eMKDone = some sMKCollected := by decide
theorem mk_set_to : setState dkgMachine sMKAwait eMKTo = some sMKCancTo := by decide

theorem mk_other (e : Ev) (h1 : e ≠ eMKOk) (h2 : e ≠ eMKErr) :
    (lookup dkgMachine sMKAwait e).all (·.isInternal) = true := by
  revert h1 h2; cases e <;> decide

/-- all participants that have confirmed announced the same master key -/
def keysAgree (dc : DkgConf) : Prop :=
  ∀ q ∈ dc.quorum, ∀ q' ∈ dc.quorum, q.status = 10 → q'.status = 10 → q.masterKey = q'.masterKey

theorem keyMismatch_false_iff (dc : DkgConf) : keyMismatchL (dc.quorum.filter (·.status == 10)) = false ↔ keysAgree dc := by
  unfold keysAgree
  constructor
  · intro h q hq q' hq' hs hs'
    have hm : q ∈ dc.quorum.filter (·.status == 10) := by simp [List.mem_filter, hq, hs]
    have hm' : q' ∈ dc.quorum.filter (·.status == 10) := by simp [List.mem_filter, hq', hs']
    cases hf : dc.quorum.filter (·.status == 10) with
    | nil => rw [hf] at hm; cases hm
    | cons k rest =>
      rw [hf] at h hm hm'
      simp only [keyMismatchL, List.any_eq_false, bne_iff_ne, ne_eq, Decidable.not_not] at h
      have e1 : q.masterKey = k.masterKey := by
        rcases List.mem_cons.mp hm with h1 | h1
        · rw [h1]
        · exact h q h1
      have e2 : q'.masterKey = k.masterKey := by
        rcases List.mem_cons.mp hm' with h1 | h1
        · rw [h1]
        · exact h q' h1
      rw [e1, e2]
  · intro h
    cases hf : dc.quorum.filter (·.status == 10) with
    | nil => rfl
    | cons k rest =>
      simp only [keyMismatchL, List.any_eq_false, bne_iff_ne, ne_eq, Decidable.not_not]
      intro q hq
      have hk : k ∈ dc.quorum.filter (·.status == 10) := by rw [hf]; exact List.mem_cons_self ..
      have hq' : q ∈ dc.quorum.filter (·.status == 10) := by rw [hf]; exact List.mem_cons_of_mem _ hq
      simp only [List.mem_filter, beq_iff_eq] at hk hq'
      exact h q hq'.1 k hk.1 hq'.2 hk.2

/-- outcome of `actionValidateDkgProposalAwaitMasterKey`, by its branch conditions -/
theorem mk_validate_spec (p : Payload) (dc : DkgConf) (hd : p.dkg = some dc) (e : Ev) (a : Arg) :
    let v := dkg_actionValidateDkgProposalAwaitMasterKey e p a
    v.res = .ok ∧ v.data = none ∧
    (if dc.expiresAt < dc.updatedAt then v.outEvent = some eMKTo ∧ v.payload = p
     else if dc.quorum.any (·.status == 11) = true then v.outEvent = some eMKErrInt ∧ v.payload = p
     else if mkMismatchCond dc = true then v.outEvent = some eMKErrInt
     else if cntDkg dc 10 < dc.quorum.length then v.outEvent = none ∧ v.payload = p
     else v.outEvent = some eMKDone ∧
          v.payload = { p with dkg := some { dc with quorum := dc.quorum.map (fun q => { q with status := 10 }) } }) := by
  unfold dkg_actionValidateDkgProposalAwaitMasterKey
  simp only [hd, cntDkg]
  by_cases h1 : dc.expiresAt < dc.updatedAt
  · simp [h1, aOk]
  · simp only [h1, ↓reduceIte]
    by_cases h2 : dc.quorum.any (·.status == 11) = true
    · simp [h2, aOk]
    · simp only [h2, Bool.false_eq_true, ↓reduceIte]
      by_cases h3 : mkMismatchCond dc = true
      · simp [h3, aOk]
      · simp only [h3, Bool.false_eq_true, ↓reduceIte]
        by_cases h4 : ((List.filter (fun x => x.status == 10) dc.quorum).length : Int) < (dc.quorum.length : Int)
        · have h4' : (dc.quorum.length : Int) - ((List.filter (fun x => x.status == 10) dc.quorum).length : Int) > 0 := by omega
          simp [h4, h4', aOk]
        · have h4' : ¬ (dc.quorum.length : Int) - ((List.filter (fun x => x.status == 10) dc.quorum).length : Int) > 0 := by omega
          simp [h4, h4', aOk]

end Dc4bcVerif.Model

namespace Dc4bcVerif.Model
open Dc4bcVerif.Gen

theorem keyMismatchL_length (l : List DkgPart) (h : keyMismatchL l = true) : l.length > 1 := by
  cases l with
  | nil => simp [keyMismatchL] at h
  | cons k rest =>
    cases rest with
    | nil => simp [keyMismatchL] at h
    | cons _ _ => simp

/-- what an accepted master-key announcement is and does -/
theorem mk_received_spec (p : Payload) (a : Arg) :
    let o := dkg_actionMasterKeyConfirmationReceived eMKOk p a
    (o.res = .err → o.payload = p) ∧
    (o.res = .ok → ∃ pid key ts poly dc part, a = .masterKey pid key ts poly ∧ p.dkg = some dc ∧
      getAt dc.quorum pid = some part ∧ part.status = 9 ∧
      ((dc.pubPolyBz ≠ [] ∧ dc.pubPolyBz ≠ poly ∧ o.outEvent = some eMKErrInt) ∨
       ((dc.pubPolyBz = [] ∨ dc.pubPolyBz = poly) ∧ o.outEvent = none ∧ o.data = none ∧
        o.payload = { p with dkg := some { dc with
          quorum := setAt dc.quorum pid { part with masterKey := key, status := 10, updatedAt := ts },
          updatedAt := ts, pubPolyBz := poly } }))) := by
  unfold dkg_actionMasterKeyConfirmationReceived
  cases a
  case masterKey pid key ts poly =>
    simp only
    by_cases hv : (decide (pid < 0) || key.isEmpty || isZeroTime ts) = true
    · simp [hv, aErr]
    · simp only [hv, Bool.false_eq_true, ↓reduceIte]
      cases hd : p.dkg with
      | none => simp [aPanic]
      | some dc =>
        simp only
        cases hg : getAt dc.quorum pid with
        | none => simp [aErr]
        | some part =>
          simp only
          by_cases hst : part.status = 9
          · have hne : (part.status != 9) = false := by simp [hst]
            simp only [hne, Bool.false_eq_true, ↓reduceIte]
            by_cases hpoly : (!dc.pubPolyBz.isEmpty && dc.pubPolyBz != poly) = true
            · simp only [hpoly, ↓reduceIte, aOk]
              refine ⟨by simp, fun _ => ⟨pid, key, ts, poly, dc, part, rfl, rfl, hg, hst, Or.inl ?_⟩⟩
              simp only [Bool.and_eq_true, Bool.not_eq_true', List.isEmpty_eq_false_iff, bne_iff_ne, ne_eq] at hpoly
              exact ⟨hpoly.1, hpoly.2, trivial⟩
            · simp only [hpoly, Bool.false_eq_true, ↓reduceIte, aOk]
              refine ⟨by simp, fun _ => ⟨pid, key, ts, poly, dc, part, rfl, rfl, hg, hst, Or.inr ⟨?_, trivial, trivial, rfl⟩⟩⟩
              simp only [Bool.and_eq_true, Bool.not_eq_true', bne_iff_ne, ne_eq, not_and, Decidable.not_not] at hpoly
              by_cases he : dc.pubPolyBz = []
              · left; exact he
              · right; exact hpoly (by simpa using he)
          · have hne : (part.status != 9) = true := by simp [hst]
            simp [hne, aErr]
  all_goals simp [aErr]

/-- invariant of the master-key phase -/
structure MKInv (p : Payload) (dc : DkgConf) : Prop where
  hdkg : p.dkg = some dc
  hall : allIn dc 9 10
  hopen : cntDkg dc 10 < dc.quorum.length
  hkeys : keysAgree dc

theorem runAction_mk_ok : runAction .dkg_actionMasterKeyConfirmationReceived = dkg_actionMasterKeyConfirmationReceived := rfl
theorem runAction_mk_val : runAction .dkg_actionValidateDkgProposalAwaitMasterKey = dkg_actionValidateDkgProposalAwaitMasterKey := rfl

/-- the tail of an accepted announcement whose polynomial is consistent: the validator decides -/
def mkAfter (o : AOut) (a : Arg) : Out :=
  let v := dkg_actionValidateDkgProposalAwaitMasterKey eMKVal o.payload a
  match v.res with
  | .ok =>
    match setState dkgMachine sMKAwait (v.outEvent.getD eMKVal) with
    | some s2 => ⟨some (some s2, pickData v.data o.data), .ok, s2, v.payload⟩
    | none => ⟨some (some sMKAwait, pickData v.data o.data), .err, sMKAwait, v.payload⟩
  | r => ⟨some (some sMKAwait, pickData v.data o.data), r, sMKAwait, v.payload⟩

theorem mk_after (tr : Tr) (cur : St) (p : Payload) (o : AOut) (a : Arg)
    (hs : setState dkgMachine cur (o.outEvent.getD tr.event) = some sMKAwait) :
    doTrAfter dkgMachine runAction tr (noBefore cur p) o a = mkAfter o a := by
  rw [doTrAfter_auto (s1 := sMKAwait) (au := ⟨eMKVal, sMKAwait, true, true, 2⟩)
      (vid := .dkg_actionValidateDkgProposalAwaitMasterKey) hs mk_auto mk_cb_val]
  simp only [runAction_mk_val, mkAfter]
  rfl

theorem mk_do_ok (p : Payload) (a : Arg) :
    doEvent dkgMachine runAction sMKAwait p eMKOk a =
      let o := dkg_actionMasterKeyConfirmationReceived eMKOk p a
      if o.res != .ok then ⟨some (none, o.data), o.res, sMKAwait, o.payload⟩
      else doTrAfter dkgMachine runAction ⟨eMKOk, sMKAwait, false, false, 0⟩ (noBefore sMKAwait p) o a := by
  rw [doEvent_std mk_lookup_ok rfl (no_before_auto .dkg sMKAwait) mk_cb_ok]
  simp only [runAction_mk_ok]
  rfl

theorem mk_no_err (dc : DkgConf) (h : allIn dc 9 10) : dc.quorum.any (·.status == 11) = false := by
  rw [Bool.eq_false_iff]
  intro hany
  rw [List.any_eq_true] at hany
  obtain ⟨q, hq, hst⟩ := hany
  rcases h q hq with h' | h' <;> simp [h'] at hst

theorem mkAfter_cases (o : AOut) (a : Arg) (dc : DkgConf) (hd : o.payload.dkg = some dc)
    (hne : dc.quorum.any (·.status == 11) = false) :
    let out := mkAfter o a
    out.res = .ok ∧
    (if dc.expiresAt < dc.updatedAt then out.state = sMKCancTo
     else if mkMismatchCond dc = true then out.state = sMKCancErr
     else if cntDkg dc 10 < dc.quorum.length then out.state = sMKAwait ∧ out.payload = o.payload
     else out.state = sMKCollected ∧
          out.payload = { o.payload with dkg := some { dc with quorum := dc.quorum.map (fun q => { q with status := 10 }) } }) := by
  have hv := mk_validate_spec o.payload dc hd eMKVal a
  simp only at hv
  obtain ⟨hres, _, hcase⟩ := hv
  unfold mkAfter
  simp only [hres]
  by_cases h1 : dc.expiresAt < dc.updatedAt
  · simp only [h1, ↓reduceIte] at hcase ⊢
    simp only [hcase.1, Option.getD_some, mk_set_to, and_self]
  · simp only [h1, ↓reduceIte, hne, Bool.false_eq_true] at hcase ⊢
    by_cases h2 : mkMismatchCond dc = true
    · simp only [h2, ↓reduceIte] at hcase ⊢
      simp only [hcase, Option.getD_some, mk_set_errint, and_self]
    · simp only [h2, Bool.false_eq_true, ↓reduceIte] at hcase ⊢
      by_cases h3 : cntDkg dc 10 < dc.quorum.length
      · simp only [h3, ↓reduceIte] at hcase ⊢
        simp only [hcase.1, Option.getD_none, mk_set_val, hcase.2, and_self]
      · simp only [h3, ↓reduceIte] at hcase ⊢
        simp only [hcase.1, Option.getD_some, mk_set_done, hcase.2, and_self]

end Dc4bcVerif.Model

namespace Dc4bcVerif.Model
open Dc4bcVerif.Gen

theorem mkMismatchCond_iff (dc : DkgConf) : mkMismatchCond dc = true ↔ ¬ keysAgree dc := by
  unfold mkMismatchCond
  rw [← keyMismatch_false_iff]
  constructor
  · intro h; simp only [Bool.and_eq_true] at h; simp [h.2]
  · intro h
    have hm : keyMismatchL (dc.quorum.filter (·.status == 10)) = true := by simpa using h
    have := keyMismatchL_length _ hm
    simp [hm, this]

/-- **the master-key phase, one step.** An accepted announcement comes from a participant still
awaited. A polynomial differing from the one already announced, a key differing from a key already
confirmed, or a late timestamp cancel the round; the round becomes `master_key_collected` exactly
when this was the last participant missing and all `n` announced keys are equal — and then the
retained polynomial is the one this (and every earlier non-empty) announcement carried. -/
theorem mk_received_outcome (p : Payload) (a : Arg) (dc : DkgConf) (hinv : MKInv p dc)
    (hok : (doEvent dkgMachine runAction sMKAwait p eMKOk a).res = .ok) :
    let out := doEvent dkgMachine runAction sMKAwait p eMKOk a
    ∃ pid key ts poly part, a = .masterKey pid key ts poly ∧ getAt dc.quorum pid = some part ∧ part.status = 9 ∧
    ((dc.pubPolyBz ≠ [] ∧ dc.pubPolyBz ≠ poly ∧ out.state = sMKCancErr) ∨
     ((dc.pubPolyBz = [] ∨ dc.pubPolyBz = poly) ∧
      ((dc.expiresAt < ts ∧ out.state = sMKCancTo) ∨
       (¬ dc.expiresAt < ts ∧ (∃ q ∈ dc.quorum, q.status = 10 ∧ q.masterKey ≠ key) ∧ out.state = sMKCancErr) ∨
       (¬ dc.expiresAt < ts ∧ (∀ q ∈ dc.quorum, q.status = 10 → q.masterKey = key) ∧
        ((cntDkg dc 10 + 1 = dc.quorum.length ∧ out.state = sMKCollected ∧
            ∃ dc', out.payload.dkg = some dc' ∧ dc'.pubPolyBz = poly ∧ dc'.quorum.length = dc.quorum.length ∧
              ∀ q ∈ dc'.quorum, q.status = 10 ∧ q.masterKey = key) ∨
         (cntDkg dc 10 + 1 < dc.quorum.length ∧ out.state = sMKAwait ∧
            ∃ dc', MKInv out.payload dc' ∧ dc'.pubPolyBz = poly ∧ cntDkg dc' 10 = cntDkg dc 10 + 1 ∧
              dc'.quorum.length = dc.quorum.length)))))) := by
  have hd := hinv.hdkg
  rw [mk_do_ok] at hok ⊢
  simp only at hok ⊢
  by_cases h : ((dkg_actionMasterKeyConfirmationReceived eMKOk p a).res != .ok) = true
  · simp only [h, ↓reduceIte] at hok
    simp [hok] at h
  · simp only [h, Bool.false_eq_true, ↓reduceIte] at hok ⊢
    have hok' : (dkg_actionMasterKeyConfirmationReceived eMKOk p a).res = .ok := by simpa using h
    obtain ⟨pid, key, ts, poly, dc0, part, ha, hd', hg, hst, hcase⟩ := (mk_received_spec p a).2 hok'
    rw [hd] at hd'; cases hd'
    generalize ho : dkg_actionMasterKeyConfirmationReceived eMKOk p a = o at *
    refine ⟨pid, key, ts, poly, part, ha, hg, hst, ?_⟩
    rcases hcase with ⟨hp1, hp2, hout⟩ | ⟨hpoly, hout, hdata, hp⟩
    · left
      refine ⟨hp1, hp2, ?_⟩
      rw [doTrAfter_plain (s1 := sMKCancErr) (by rw [hout]; exact mk_set_errint) mk_auto_cancerr]
    · right
      refine ⟨hpoly, ?_⟩
      rw [mk_after _ _ _ _ _ (by rw [hout]; exact mk_set_ok)] at hok ⊢
      let part' : DkgPart := { part with masterKey := key, status := 10, updatedAt := ts }
      let dc' : DkgConf := { dc with quorum := setAt dc.quorum pid part', updatedAt := ts, pubPolyBz := poly }
      have hdc' : o.payload.dkg = some dc' := by rw [hp]
      have hc := cntDkg_setAt dc pid part part' 10 hg ts
      simp only [hst, part'] at hc
      have hc' : cntDkg dc' 10 = cntDkg dc 10 + 1 := by
        have : cntDkg dc' 10 = cntDkg { dc with quorum := setAt dc.quorum pid part', updatedAt := ts } 10 := rfl
        rw [this]; simpa using hc
      have hlen : dc'.quorum.length = dc.quorum.length := by simp only [dc']; exact setAt_length _ _ _
      have hall' : allIn dc' 9 10 := by
        intro q hq
        rcases mem_setAt hq with hq | hq
        · exact hinv.hall q hq
        · right; rw [hq]
      -- agreement of keys after the update
      have hagree : keysAgree dc' ↔ ∀ q ∈ dc.quorum, q.status = 10 → q.masterKey = key := by
        constructor
        · intro hk q hq hs
          have hne : q ≠ part := by intro e; rw [e, hst] at hs; cases hs
          have hq' : q ∈ dc'.quorum := mem_setAt_of_ne hg hq hne
          have hp' : part' ∈ dc'.quorum := mem_setAt_self hg
          exact hk q hq' part' hp' hs rfl
        · intro hk q hq q' hq' hs hs'
          have e1 : q.masterKey = key := by
            rcases mem_setAt hq with h1 | h1
            · exact hk q h1 hs
            · rw [h1]
          have e2 : q'.masterKey = key := by
            rcases mem_setAt hq' with h1 | h1
            · exact hk q' h1 hs'
            · rw [h1]
          rw [e1, e2]
      have hcases := (mkAfter_cases o a dc' hdc' (mk_no_err dc' hall')).2
      simp only [hc', hlen] at hcases
      by_cases he : dc.expiresAt < ts
      · left
        have he' : dc'.expiresAt < dc'.updatedAt := he
        simp only [he', ↓reduceIte] at hcases
        exact ⟨he, hcases⟩
      · right
        have he' : ¬ dc'.expiresAt < dc'.updatedAt := he
        simp only [he', ↓reduceIte] at hcases
        by_cases hk : ∀ q ∈ dc.quorum, q.status = 10 → q.masterKey = key
        · right
          have hm : ¬ mkMismatchCond dc' = true := by rw [mkMismatchCond_iff]; exact fun hn => hn (hagree.mpr hk)
          simp only [hm, ↓reduceIte] at hcases
          refine ⟨he, hk, ?_⟩
          have hopen := hinv.hopen
          by_cases h3 : cntDkg dc 10 + 1 < (dc.quorum.length : Int)
          · right
            simp only [h3, ↓reduceIte] at hcases
            refine ⟨h3, hcases.1, dc', ?_, rfl, hc', hlen⟩
            rw [hcases.2]
            exact ⟨hdc', hall', by rw [hc', hlen]; exact h3, hagree.mpr hk⟩
          · left
            simp only [h3, ↓reduceIte] at hcases
            refine ⟨by omega, hcases.1, _, by rw [hcases.2], rfl, by simp [hlen], ?_⟩
            -- everybody has confirmed (count = n) and keys agree with `key`
            have hfull : ((dc'.quorum.filter (·.status == 10)).length : Int) = dc'.quorum.length := by
              have : cntDkg dc' 10 = dc'.quorum.length := by rw [hc', hlen]; omega
              exact this
            have hall10 : ∀ q ∈ dc'.quorum, q.status = 10 := by
              have := (filter_length_eq_length (fun q : DkgPart => q.status == 10) dc'.quorum).mp (by exact_mod_cast hfull)
              intro q hq; simpa using this q hq
            intro q hq
            simp only [List.mem_map] at hq
            obtain ⟨q0, hq0, hq0e⟩ := hq
            rw [← hq0e]
            refine ⟨rfl, ?_⟩
            rcases mem_setAt hq0 with h1 | h1
            · have hs0 : q0.status = 10 := hall10 q0 hq0
              exact hk q0 h1 hs0
            · rw [h1]
        · left
          have hm : mkMismatchCond dc' = true := by rw [mkMismatchCond_iff]; exact fun hn => hk (hagree.mp hn)
          simp only [hm, ↓reduceIte] at hcases
          refine ⟨he, ?_, hcases⟩
          exact Classical.byContradiction (fun hn => hk (fun q hq hs =>
            Classical.byContradiction (fun hne => hn ⟨q, hq, hs, hne⟩)))

end Dc4bcVerif.Model
