/-
  Generic facts about the engine model (`Model/Fsm.lean`), independent of what the callbacks do:
  whatever a callback returns, the machine's state only moves along rows of the table.
-/
import Dc4bcVerif.Model.Fsm

set_option linter.unusedSimpArgs false

namespace Dc4bcVerif.Model
open Dc4bcVerif.Gen

variable {P R A : Type}

/-- one table edge -/
def Edge (m : MachineDesc) (s s' : St) : Prop := ∃ e tr, lookup m s e = some tr ∧ tr.dst = s'

/-- at most `k` table edges -/
inductive Hops (m : MachineDesc) : Nat → St → St → Prop where
  | refl (k : Nat) (s : St) : Hops m k s s
  | step {k : Nat} {s s' s'' : St} : Edge m s s' → Hops m k s' s'' → Hops m (k + 1) s s''

theorem Hops.mono {m : MachineDesc} {k : Nat} {s s' : St} (h : Hops m k s s') : Hops m (k + 1) s s' := by
  induction h with
  | refl k s => exact .refl _ _
  | step e _ ih => exact .step e ih

theorem setState_edge {m : MachineDesc} {s s' : St} {e : Ev} (h : setState m s e = some s') : Edge m s s' := by
  unfold setState at h
  cases hl : lookup m s e with
  | none => simp [hl] at h
  | some tr => simp [hl] at h; exact ⟨e, tr, hl, h⟩

theorem processAuto_hops (m : MachineDesc) (act : ActionId → Ev → P → A → ActOut P R)
    (cur : St) (p : P) (mode : Nat) (a : A) :
    Hops m 1 cur (processAuto m act cur p mode a).state := by
  unfold processAuto
  split
  · exact .refl _ _
  · rename_i au _
    dsimp only
    split
    · exact .refl _ _
    · exact .refl _ _
    · split
      · rename_i s' hs
        exact .step (setState_edge hs) (.refl _ _)
      · exact .refl _ _

theorem doTrAfter_hops (m : MachineDesc) (act : ActionId → Ev → P → A → ActOut P R)
    (tr : Tr) (b : AutoOut P R) (o : ActOut P R) (a : A) :
    Hops m 2 b.state (doTrAfter m act tr b o a).state := by
  unfold doTrAfter
  dsimp only
  split
  · exact .refl _ _
  · rename_i s1 hs1
    exact .step (setState_edge hs1) (processAuto_hops m act s1 _ 2 a)

theorem Hops.trans1 {m : MachineDesc} {k : Nat} {s s' s'' : St} (h1 : Hops m 1 s s') (h2 : Hops m k s' s'') :
    Hops m (k + 1) s s'' := by
  cases h1 with
  | refl => exact h2.mono
  | step e h0 =>
    cases h0 with
    | refl => exact .step e h2

theorem doTr_hops (m : MachineDesc) (act : ActionId → Ev → P → A → ActOut P R)
    (cur : St) (p : P) (tr : Tr) (a : A) :
    Hops m 3 cur (doTr m act cur p tr a).state := by
  have hb := processAuto_hops m act cur p 1 a
  unfold doTr
  dsimp only
  split
  · exact hb.mono.mono
  · split
    · exact hb.mono.mono
    · exact hb.trans1 (doTrAfter_hops m act tr _ _ a)

/-- `Do` moves the state along at most three table edges (before-auto, main, after-auto). -/
theorem doEvent_hops (m : MachineDesc) (act : ActionId → Ev → P → A → ActOut P R)
    (cur : St) (p : P) (e : Ev) (a : A) :
    Hops m 3 cur (doEvent m act cur p e a).state := by
  unfold doEvent
  split
  · exact .refl _ _
  · split
    · exact .refl _ _
    · exact doTr_hops m act cur p _ a

/-- decidable closedness of a set of states under the edges of a table -/
def closedUnder (m : MachineDesc) (S : St → Bool) : Bool :=
  St.all.all (fun s => !S s || Ev.all.all (fun e =>
    match lookup m s e with
    | some tr => S tr.dst
    | none => true))

theorem closedUnder_edge {m : MachineDesc} {S : St → Bool} (h : closedUnder m S = true)
    {s s' : St} (hs : S s = true) (he : Edge m s s') : S s' = true := by
  obtain ⟨e, tr, hl, hd⟩ := he
  unfold closedUnder at h
  rw [List.all_eq_true] at h
  have h1 := h s (St.mem_all s)
  simp only [hs, Bool.not_true, Bool.false_or] at h1
  rw [List.all_eq_true] at h1
  have h2 := h1 e (Ev.mem_all e)
  simp only [hl] at h2
  rw [← hd]; exact h2

theorem closedUnder_hops {m : MachineDesc} {S : St → Bool} (h : closedUnder m S = true)
    {k : Nat} {s s' : St} (hh : Hops m k s s') (hs : S s = true) : S s' = true := by
  induction hh with
  | refl => exact hs
  | step e _ ih => exact ih (closedUnder_edge h hs e)

/-- a route error (no transition / internal event) changes nothing -/
theorem doTr_resp_some (m : MachineDesc) (act : ActionId → Ev → P → A → ActOut P R)
    (cur : St) (p : P) (tr : Tr) (a : A) : (doTr m act cur p tr a).resp ≠ none := by
  unfold doTr
  dsimp only
  split
  · simp
  · split
    · simp
    · unfold doTrAfter
      dsimp only
      split <;> simp

theorem doEvent_route_noop (m : MachineDesc) (act : ActionId → Ev → P → A → ActOut P R)
    (cur : St) (p : P) (e : Ev) (a : A) (h : (doEvent m act cur p e a).resp = none) :
    (doEvent m act cur p e a).state = cur ∧ (doEvent m act cur p e a).payload = p := by
  unfold doEvent at *
  cases hl : lookup m cur e with
  | none => simp
  | some tr =>
    simp only [hl] at h ⊢
    by_cases hi : tr.isInternal = true
    · simp [hi]
    · simp only [hi] at h
      exact absurd h (doTr_resp_some m act cur p tr a)

theorem doTrAfter_ok_state (m : MachineDesc) (act : ActionId → Ev → P → A → ActOut P R)
    (tr : Tr) (b : AutoOut P R) (o : ActOut P R) (a : A)
    (h : (doTrAfter m act tr b o a).res = .ok) :
    ∃ d, (doTrAfter m act tr b o a).resp = some (some (doTrAfter m act tr b o a).state, d) := by
  revert h
  unfold doTrAfter
  dsimp only
  split
  · simp
  · intro _; exact ⟨_, rfl⟩

theorem doTr_ok_state (m : MachineDesc) (act : ActionId → Ev → P → A → ActOut P R)
    (cur : St) (p : P) (tr : Tr) (a : A) (h : (doTr m act cur p tr a).res = .ok) :
    ∃ d, (doTr m act cur p tr a).resp = some (some (doTr m act cur p tr a).state, d) := by
  revert h
  unfold doTr
  dsimp only
  split
  · rename_i hb
    simp only [Bool.and_eq_true, bne_iff_ne, ne_eq] at hb
    intro h; exact absurd h hb.2
  · split
    · rename_i ho
      simp only [bne_iff_ne, ne_eq] at ho
      intro h; exact absurd h ho
    · intro h; exact doTrAfter_ok_state m act tr _ _ a h

/-- after a successful `Do` that produced a response, the response state is the machine's state -/
theorem doEvent_ok_state (m : MachineDesc) (act : ActionId → Ev → P → A → ActOut P R)
    (cur : St) (p : P) (e : Ev) (a : A)
    (h : (doEvent m act cur p e a).res = .ok) :
    ∃ d, (doEvent m act cur p e a).resp = some (some (doEvent m act cur p e a).state, d) := by
  revert h
  unfold doEvent
  cases hl : lookup m cur e with
  | none => simp
  | some tr =>
    dsimp only
    by_cases hi : tr.isInternal = true
    · simp [hi]
    · simp only [hi]
      intro h; exact doTr_ok_state m act cur p tr a h

end Dc4bcVerif.Model

namespace Dc4bcVerif.Model
open Dc4bcVerif.Gen
variable {P R A : Type}

theorem lookup_event {m : MachineDesc} {s : St} {e : Ev} {tr : Tr} (h : lookup m s e = some tr) : tr.event = e := by
  unfold lookup at h
  rw [Option.map_eq_some_iff] at h
  obtain ⟨d, hf, hd⟩ := h
  have := List.find?_some hf
  simp only [Bool.and_eq_true, beq_iff_eq] at this
  rw [← hd]; exact this.1

/-- the "blank" result of a before-auto step when the state has no before-auto event -/
def noBefore (cur : St) (p : P) : AutoOut P R := ⟨false, none, none, .ok, cur, p⟩

theorem processAuto_none {m : MachineDesc} {act : ActionId → Ev → P → A → ActOut P R} {cur : St} {p : P}
    {mode : Nat} {a : A} (h : autoLookup m cur mode = none) :
    processAuto m act cur p mode a = ⟨false, none, none, .ok, cur, p⟩ := by
  unfold processAuto; simp [h]

/-- `Do` for a public event with a callback, in a state without before-auto event: run the
callback; on error nothing else happens; otherwise `SetState` + after-auto. -/
theorem doEvent_std {m : MachineDesc} {act : ActionId → Ev → P → A → ActOut P R} {cur : St} {p : P}
    {e : Ev} {a : A} {tr : Tr} {aid : ActionId}
    (hl : lookup m cur e = some tr) (hni : tr.isInternal = false)
    (hb : autoLookup m cur 1 = none) (hcb : callbackOf m e = some aid) :
    doEvent m act cur p e a =
      if (act aid e p a).res != .ok then
        ⟨some (none, (act aid e p a).data), (act aid e p a).res, cur, (act aid e p a).payload⟩
      else doTrAfter m act tr (noBefore cur p) (act aid e p a) a := by
  have hev := lookup_event hl
  unfold doEvent
  simp only [hl, hni, Bool.false_eq_true, ↓reduceIte]
  unfold doTr
  simp only [processAuto_none hb, Bool.false_and, Bool.false_eq_true, ↓reduceIte]
  unfold mainCallback
  simp only [hev, hcb, noBefore]

/-- a route error: the event has no transition from the state, or only an internal one -/
theorem doEvent_route {m : MachineDesc} {act : ActionId → Ev → P → A → ActOut P R} {cur : St} {p : P}
    {e : Ev} {a : A} (h : (lookup m cur e).all (·.isInternal) = true) :
    doEvent m act cur p e a = ⟨none, .err, cur, p⟩ := by
  unfold doEvent
  cases hl : lookup m cur e with
  | none => rfl
  | some tr => simp [hl] at h; simp [h]

/-- `doTrAfter` when the callback's out-event leads to `s1` and `s1` has an after-auto event
`au` with callback `vid` -/
theorem doTrAfter_auto {m : MachineDesc} {act : ActionId → Ev → P → A → ActOut P R} {tr : Tr} {cur : St} {p : P}
    {o : ActOut P R} {a : A} {s1 : St} {au : Tr} {vid : ActionId}
    (hs : setState m cur (o.outEvent.getD tr.event) = some s1)
    (hau : autoLookup m s1 2 = some au) (hcb : callbackOf m au.event = some vid) :
    doTrAfter m act tr (noBefore cur p) o a =
      let v := act vid au.event o.payload a
      match v.res with
      | .ok =>
        match setState m s1 (v.outEvent.getD au.event) with
        | some s2 => ⟨some (some s2, pickData v.data o.data), .ok, s2, v.payload⟩
        | none => ⟨some (some s1, pickData v.data o.data), .err, s1, v.payload⟩
      | r => ⟨some (some s1, pickData v.data o.data), r, s1, v.payload⟩ := by
  unfold doTrAfter
  simp only [noBefore, hs]
  unfold processAuto
  simp only [hau, hcb]
  cases hv : (act vid au.event o.payload a).res with
  | panic => simp [hv]
  | err => simp [hv]
  | ok =>
    simp only [hv]
    cases hs2 : setState m s1 ((act vid au.event o.payload a).outEvent.getD au.event) with
    | none => simp [hs2]
    | some s2 => simp [hs2]

/-- `doTrAfter` when the target state has no after-auto event -/
theorem doTrAfter_plain {m : MachineDesc} {act : ActionId → Ev → P → A → ActOut P R} {tr : Tr} {cur : St} {p : P}
    {o : ActOut P R} {a : A} {s1 : St}
    (hs : setState m cur (o.outEvent.getD tr.event) = some s1)
    (hau : autoLookup m s1 2 = none) :
    doTrAfter m act tr (noBefore cur p) o a = ⟨some (some s1, o.data), .ok, s1, o.payload⟩ := by
  unfold doTrAfter
  simp only [noBefore, hs, processAuto_none hau]
  simp

end Dc4bcVerif.Model

namespace Dc4bcVerif.Model
open Dc4bcVerif.Gen
variable {P R A : Type}

/-- finer shape of one `Do` in a state without before-auto event: either nothing moved, or one
main edge `cur → s1`, optionally followed by one edge out of `s1` taken by `s1`'s after-auto event -/
theorem doEvent_shape (m : MachineDesc) (act : ActionId → Ev → P → A → ActOut P R)
    (cur : St) (p : P) (e : Ev) (a : A) (hb : autoLookup m cur 1 = none) :
    (doEvent m act cur p e a).state = cur ∨
    ∃ s1, Edge m cur s1 ∧ ((doEvent m act cur p e a).state = s1 ∨
      ((autoLookup m s1 2).isSome = true ∧ Edge m s1 (doEvent m act cur p e a).state)) := by
  unfold doEvent
  cases hl : lookup m cur e with
  | none => left; rfl
  | some tr =>
    dsimp only
    by_cases hi : tr.isInternal = true
    · left; simp [hi]
    · simp only [hi]
      unfold doTr
      simp only [processAuto_none hb, Bool.false_and, Bool.false_eq_true, ↓reduceIte]
      split
      · left; rfl
      · unfold doTrAfter
        dsimp only
        split
        · left; rfl
        · rename_i s1 hs1
          right
          refine ⟨s1, setState_edge hs1, ?_⟩
          unfold processAuto
          cases hau : autoLookup m s1 2 with
          | none => left; rfl
          | some au =>
            dsimp only
            split
            · left; rfl
            · left; rfl
            · split
              · rename_i s2 hs2
                right; exact ⟨rfl, setState_edge hs2⟩
              · left; rfl

end Dc4bcVerif.Model

namespace Dc4bcVerif.Model
open Dc4bcVerif.Gen

/-- computable successor list of a state in a table -/
def succs (m : MachineDesc) (s : St) : List St :=
  Ev.all.filterMap (fun e => (lookup m s e).map (·.dst))

theorem edge_mem_succs {m : MachineDesc} {s s' : St} (h : Edge m s s') : s' ∈ succs m s := by
  obtain ⟨e, tr, hl, hd⟩ := h
  unfold succs
  rw [List.mem_filterMap]
  exact ⟨e, Ev.mem_all e, by simp [hl, hd]⟩

/-- decidable: from `s`, one `Do` (main edge, then possibly the after-auto edge of the state
reached) cannot end in a state satisfying `bad` -/
def cannotReach (m : MachineDesc) (s : St) (bad : St → Bool) : Bool :=
  (succs m s).all (fun s1 => !bad s1 && (!(autoLookup m s1 2).isSome || (succs m s1).all (fun s2 => !bad s2)))

theorem cannotReach_sound {P R A : Type} {m : MachineDesc} {act : ActionId → Ev → P → A → ActOut P R}
    {cur : St} {bad : St → Bool} (hb : autoLookup m cur 1 = none) (hc : cannotReach m cur bad = true)
    (hcur : bad cur = false) (p : P) (e : Ev) (a : A) : bad (doEvent m act cur p e a).state = false := by
  rcases doEvent_shape m act cur p e a hb with h | ⟨s1, he1, h⟩
  · rw [h]; exact hcur
  · unfold cannotReach at hc
    rw [List.all_eq_true] at hc
    have h1 := hc s1 (edge_mem_succs he1)
    simp only [Bool.and_eq_true, Bool.not_eq_true', Bool.or_eq_true] at h1
    rcases h with h | ⟨hau, he2⟩
    · rw [h]; exact h1.1
    · rcases h1.2 with h2 | h2
      · rw [hau] at h2; cases h2
      · rw [List.all_eq_true] at h2
        have := h2 _ (edge_mem_succs he2)
        simpa using this

end Dc4bcVerif.Model

namespace Dc4bcVerif.Model
open Dc4bcVerif.Gen
variable {P R A X : Type}

theorem callbackOf_mem {m : MachineDesc} {e : Ev} {aid : ActionId} (h : callbackOf m e = some aid) :
    aid ∈ m.callbacks.map (·.2) := by
  unfold callbackOf at h
  rw [Option.map_eq_some_iff] at h
  obtain ⟨c, hf, hc⟩ := h
  rw [List.mem_map]
  exact ⟨c, List.mem_of_find?_eq_some hf, hc⟩

theorem processAuto_preserves (proj : P → X) (m : MachineDesc) (act : ActionId → Ev → P → A → ActOut P R)
    (hact : ∀ aid ∈ m.callbacks.map (·.2), ∀ e p a, proj (act aid e p a).payload = proj p)
    (cur : St) (p : P) (mode : Nat) (a : A) : proj (processAuto m act cur p mode a).payload = proj p := by
  unfold processAuto
  cases hau : autoLookup m cur mode with
  | none => rfl
  | some au =>
    dsimp only
    cases hcb : callbackOf m au.event with
    | none =>
      dsimp only
      cases hs : setState m cur ((none : Option Ev).getD au.event) <;> simp [hs]
    | some aid =>
      have hp := hact aid (callbackOf_mem hcb) au.event p a
      dsimp only
      cases hr : (act aid au.event p a).res with
      | panic => simpa [hr] using hp
      | err => simpa [hr] using hp
      | ok =>
        simp only [hr]
        cases hs : setState m cur ((act aid au.event p a).outEvent.getD au.event) <;> simpa [hs] using hp

theorem mainCallback_preserves (proj : P → X) (m : MachineDesc) (act : ActionId → Ev → P → A → ActOut P R)
    (hact : ∀ aid ∈ m.callbacks.map (·.2), ∀ e p a, proj (act aid e p a).payload = proj p)
    (tr : Tr) (b : AutoOut P R) (a : A) : proj (mainCallback m act tr b a).payload = proj b.payload := by
  unfold mainCallback
  cases hcb : callbackOf m tr.event with
  | none => rfl
  | some aid => exact hact aid (callbackOf_mem hcb) _ _ _

theorem doTrAfter_preserves (proj : P → X) (m : MachineDesc) (act : ActionId → Ev → P → A → ActOut P R)
    (hact : ∀ aid ∈ m.callbacks.map (·.2), ∀ e p a, proj (act aid e p a).payload = proj p)
    (tr : Tr) (b : AutoOut P R) (o : ActOut P R) (a : A) : proj (doTrAfter m act tr b o a).payload = proj o.payload := by
  unfold doTrAfter
  dsimp only
  cases hs : setState m b.state (o.outEvent.getD tr.event) with
  | none => rfl
  | some s1 => exact processAuto_preserves proj m act hact s1 o.payload 2 a

/-- a projection of the payload that no callback of the machine changes is not changed by `Do` -/
theorem doEvent_preserves (proj : P → X) (m : MachineDesc) (act : ActionId → Ev → P → A → ActOut P R)
    (hact : ∀ aid ∈ m.callbacks.map (·.2), ∀ e p a, proj (act aid e p a).payload = proj p)
    (cur : St) (p : P) (e : Ev) (a : A) : proj (doEvent m act cur p e a).payload = proj p := by
  unfold doEvent
  cases hl : lookup m cur e with
  | none => rfl
  | some tr =>
    dsimp only
    by_cases hi : tr.isInternal = true
    · simp [hi]
    · simp only [hi]
      unfold doTr
      dsimp only
      have hb := processAuto_preserves proj m act hact cur p 1 a
      have hmain := mainCallback_preserves proj m act hact tr (processAuto m act cur p 1 a) a
      by_cases h1 : ((processAuto m act cur p 1 a).executed && (processAuto m act cur p 1 a).res != Res.ok) = true
      · simp only [h1, ↓reduceIte]; exact hb
      · simp only [h1, Bool.false_eq_true, ↓reduceIte]
        by_cases h2 : ((mainCallback m act tr (processAuto m act cur p 1 a) a).res != Res.ok) = true
        · simp only [h2, ↓reduceIte]; rw [hmain]; exact hb
        · simp only [h2, Bool.false_eq_true, ↓reduceIte]
          rw [doTrAfter_preserves proj m act hact, hmain]; exact hb

-- ───────────── monotone predicates of the payload ─────────────

theorem processAuto_mono (Q : P → Prop) (m : MachineDesc) (act : ActionId → Ev → P → A → ActOut P R)
    (hact : ∀ aid ∈ m.callbacks.map (·.2), ∀ e p a, Q p → Q (act aid e p a).payload)
    (cur : St) (p : P) (mode : Nat) (a : A) (hq : Q p) : Q (processAuto m act cur p mode a).payload := by
  unfold processAuto
  cases hau : autoLookup m cur mode with
  | none => exact hq
  | some au =>
    dsimp only
    cases hcb : callbackOf m au.event with
    | none =>
      dsimp only
      cases hs : setState m cur ((none : Option Ev).getD au.event) <;> simpa [hs] using hq
    | some aid =>
      have hp := hact aid (callbackOf_mem hcb) au.event p a hq
      dsimp only
      cases hr : (act aid au.event p a).res with
      | panic => simpa [hr] using hp
      | err => simpa [hr] using hp
      | ok =>
        simp only [hr]
        cases hs : setState m cur ((act aid au.event p a).outEvent.getD au.event) <;> simpa [hs] using hp

theorem mainCallback_mono (Q : P → Prop) (m : MachineDesc) (act : ActionId → Ev → P → A → ActOut P R)
    (hact : ∀ aid ∈ m.callbacks.map (·.2), ∀ e p a, Q p → Q (act aid e p a).payload)
    (tr : Tr) (b : AutoOut P R) (a : A) (hq : Q b.payload) : Q (mainCallback m act tr b a).payload := by
  unfold mainCallback
  cases hcb : callbackOf m tr.event with
  | none => exact hq
  | some aid => exact hact aid (callbackOf_mem hcb) _ _ _ hq

theorem doTrAfter_mono (Q : P → Prop) (m : MachineDesc) (act : ActionId → Ev → P → A → ActOut P R)
    (hact : ∀ aid ∈ m.callbacks.map (·.2), ∀ e p a, Q p → Q (act aid e p a).payload)
    (tr : Tr) (b : AutoOut P R) (o : ActOut P R) (a : A) (hq : Q o.payload) : Q (doTrAfter m act tr b o a).payload := by
  unfold doTrAfter
  dsimp only
  cases hs : setState m b.state (o.outEvent.getD tr.event) with
  | none => exact hq
  | some s1 => exact processAuto_mono Q m act hact s1 o.payload 2 a hq

/-- a predicate of the payload that every callback of the machine preserves is preserved by `Do` -/
theorem doEvent_mono (Q : P → Prop) (m : MachineDesc) (act : ActionId → Ev → P → A → ActOut P R)
    (hact : ∀ aid ∈ m.callbacks.map (·.2), ∀ e p a, Q p → Q (act aid e p a).payload)
    (cur : St) (p : P) (e : Ev) (a : A) (hq : Q p) : Q (doEvent m act cur p e a).payload := by
  unfold doEvent
  cases hl : lookup m cur e with
  | none => exact hq
  | some tr =>
    dsimp only
    by_cases hi : tr.isInternal = true
    · simpa [hi] using hq
    · simp only [hi]
      unfold doTr
      dsimp only
      have hb := processAuto_mono Q m act hact cur p 1 a hq
      have hmain := mainCallback_mono Q m act hact tr (processAuto m act cur p 1 a) a hb
      by_cases h1 : ((processAuto m act cur p 1 a).executed && (processAuto m act cur p 1 a).res != Res.ok) = true
      · simp only [h1, ↓reduceIte]; exact hb
      · simp only [h1, Bool.false_eq_true, ↓reduceIte]
        by_cases h2 : ((mainCallback m act tr (processAuto m act cur p 1 a) a).res != Res.ok) = true
        · simp only [h2, ↓reduceIte]; exact hmain
        · simp only [h2, Bool.false_eq_true, ↓reduceIte]
          exact doTrAfter_mono Q m act hact tr _ _ a hmain

-- ───────────── a safety predicate under which no callback panics ─────────────

theorem processAuto_safe (Safe : P → Prop) (m : MachineDesc) (act : ActionId → Ev → P → A → ActOut P R)
    (h1 : ∀ aid ∈ m.callbacks.map (·.2), ∀ e p a, Safe p → (act aid e p a).res ≠ .panic)
    (h2 : ∀ aid ∈ m.callbacks.map (·.2), ∀ e p a, Safe p → Safe (act aid e p a).payload)
    (cur : St) (p : P) (mode : Nat) (a : A) (hq : Safe p) :
    (processAuto m act cur p mode a).res ≠ .panic ∧ Safe (processAuto m act cur p mode a).payload := by
  unfold processAuto
  cases hau : autoLookup m cur mode with
  | none => exact ⟨by simp, hq⟩
  | some au =>
    dsimp only
    cases hcb : callbackOf m au.event with
    | none =>
      dsimp only
      cases hs : setState m cur ((none : Option Ev).getD au.event) <;> simp [hs, hq]
    | some aid =>
      have hp := h2 aid (callbackOf_mem hcb) au.event p a hq
      have hn := h1 aid (callbackOf_mem hcb) au.event p a hq
      dsimp only
      cases hr : (act aid au.event p a).res with
      | panic => exact absurd hr hn
      | err => simp only [hr]; exact ⟨by simp, hp⟩
      | ok =>
        simp only [hr]
        cases hs : setState m cur ((act aid au.event p a).outEvent.getD au.event) <;> simp [hs, hp]

/-- if no callback of the machine panics on a safe payload and every callback keeps payloads safe, `Do` does not panic -/
theorem doEvent_no_panic (Safe : P → Prop) (m : MachineDesc) (act : ActionId → Ev → P → A → ActOut P R)
    (h1 : ∀ aid ∈ m.callbacks.map (·.2), ∀ e p a, Safe p → (act aid e p a).res ≠ .panic)
    (h2 : ∀ aid ∈ m.callbacks.map (·.2), ∀ e p a, Safe p → Safe (act aid e p a).payload)
    (cur : St) (p : P) (e : Ev) (a : A) (hq : Safe p) : (doEvent m act cur p e a).res ≠ .panic := by
  unfold doEvent
  cases hl : lookup m cur e with
  | none => simp
  | some tr =>
    dsimp only
    by_cases hi : tr.isInternal = true
    · simp [hi]
    · simp only [hi]
      unfold doTr
      dsimp only
      obtain ⟨hb1, hb2⟩ := processAuto_safe Safe m act h1 h2 cur p 1 a hq
      by_cases hc1 : ((processAuto m act cur p 1 a).executed && (processAuto m act cur p 1 a).res != Res.ok) = true
      · simp only [hc1, ↓reduceIte]; exact hb1
      · simp only [hc1, Bool.false_eq_true, ↓reduceIte]
        -- the main callback
        have hm1 : (mainCallback m act tr (processAuto m act cur p 1 a) a).res ≠ .panic := by
          unfold mainCallback
          cases hcb : callbackOf m tr.event with
          | none => simp
          | some aid => exact h1 aid (callbackOf_mem hcb) _ _ _ hb2
        have hm2 : Safe (mainCallback m act tr (processAuto m act cur p 1 a) a).payload := by
          unfold mainCallback
          cases hcb : callbackOf m tr.event with
          | none => exact hb2
          | some aid => exact h2 aid (callbackOf_mem hcb) _ _ _ hb2
        by_cases hc2 : ((mainCallback m act tr (processAuto m act cur p 1 a) a).res != Res.ok) = true
        · simp only [hc2, ↓reduceIte]; exact hm1
        · simp only [hc2, Bool.false_eq_true, ↓reduceIte]
          unfold doTrAfter
          dsimp only
          cases hs : setState m (processAuto m act cur p 1 a).state
              ((mainCallback m act tr (processAuto m act cur p 1 a) a).outEvent.getD tr.event) with
          | none => simp
          | some s1 => exact (processAuto_safe Safe m act h1 h2 s1 _ 2 a hm2).1

end Dc4bcVerif.Model
