/-
  The commits, deals and responses phases of the key-generation machine: table facts, `Do` as an
  equation, the phase invariant and the outcome of an accepted contribution / error report.
  WRITTEN BY /verif/lib/gen_dkgphase.py from one template (the three phases share one callback
  shape in the model, so the proofs are the same text); checked into git like any proof file.
-/
import Dc4bcVerif.Lemmas.DkgCommon

namespace Dc4bcVerif.Model
open Dc4bcVerif.Gen

-- ═════════════ phase: Commits ═════════════
section Commits

abbrev sCommitsAwait : St := .s_state_dkg_commits_await_confirmations
abbrev sCommitsNext : St := .s_state_dkg_deals_await_confirmations
abbrev sCommitsCancErr : St := .s_state_dkg_commits_await_canceled_by_error
abbrev sCommitsCancTo : St := .s_state_dkg_commits_await_canceled_by_timeout
abbrev eCommitsOk : Ev := .e_event_dkg_commit_confirm_received
abbrev eCommitsErr : Ev := .e_event_dkg_commit_confirm_canceled_by_error
abbrev eCommitsVal : Ev := .e_event_dkg_commits_validate_internal

theorem commits_lookup_ok : lookup dkgMachine sCommitsAwait eCommitsOk = some ⟨eCommitsOk, sCommitsAwait, false, false, 0⟩ := by decide
theorem commits_lookup_err : lookup dkgMachine sCommitsAwait eCommitsErr = some ⟨eCommitsErr, sCommitsCancErr, false, false, 0⟩ := by decide
theorem commits_cb_ok : callbackOf dkgMachine eCommitsOk = some .dkg_actionCommitConfirmationReceived := by decide
theorem commits_cb_err : callbackOf dkgMachine eCommitsErr = some .dkg_actionConfirmationError := by decide
theorem commits_cb_val : callbackOf dkgMachine eCommitsVal = some .dkg_actionValidateDkgProposalAwaitCommits := by decide
theorem commits_auto : autoLookup dkgMachine sCommitsAwait 2 = some ⟨eCommitsVal, sCommitsAwait, true, true, 2⟩ := by decide
theorem commits_auto_cancerr : autoLookup dkgMachine sCommitsCancErr 2 = none := by decide
theorem commits_set_ok : setState dkgMachine sCommitsAwait eCommitsOk = some sCommitsAwait := by decide
theorem commits_set_err : setState dkgMachine sCommitsAwait eCommitsErr = some sCommitsCancErr := by decide
theorem commits_set_val : setState dkgMachine sCommitsAwait eCommitsVal = some sCommitsAwait := by decide
theorem commits_set_done : setState dkgMachine sCommitsAwait .e_event_dkg_commits_confirmed_internal = some sCommitsNext := by decide
theorem commits_set_to : setState dkgMachine sCommitsAwait .e_event_dkg_commits_confirm_canceled_by_timeout_internal = some sCommitsCancTo := by decide

/-- in this phase every event other than the two public ones is a route error -/
theorem commits_other (e : Ev) (h1 : e ≠ eCommitsOk) (h2 : e ≠ eCommitsErr) :
    (lookup dkgMachine sCommitsAwait e).all (·.isInternal) = true := by
  revert h1 h2; cases e <;> decide

theorem runAction_commits_ok : runAction .dkg_actionCommitConfirmationReceived = dkg_actionCommitConfirmationReceived := rfl
theorem runAction_commits_val : runAction .dkg_actionValidateDkgProposalAwaitCommits = dkg_actionValidateDkgProposalAwaitCommits := rfl

/-- the tail of an accepted contribution: the phase's auto-validator decides -/
def commitsAfter (o : AOut) (a : Arg) : Out :=
  let v := dkg_actionValidateDkgProposalAwaitCommits eCommitsVal o.payload a
  match v.res with
  | .ok =>
    match setState dkgMachine sCommitsAwait (v.outEvent.getD eCommitsVal) with
    | some s2 => ⟨some (some s2, pickData v.data o.data), .ok, s2, v.payload⟩
    | none => ⟨some (some sCommitsAwait, pickData v.data o.data), .err, sCommitsAwait, v.payload⟩
  | r => ⟨some (some sCommitsAwait, pickData v.data o.data), r, sCommitsAwait, v.payload⟩

theorem commits_after (tr : Tr) (cur : St) (p : Payload) (o : AOut) (a : Arg)
    (hs : setState dkgMachine cur (o.outEvent.getD tr.event) = some sCommitsAwait) :
    doTrAfter dkgMachine runAction tr (noBefore cur p) o a = commitsAfter o a := by
  rw [doTrAfter_auto (s1 := sCommitsAwait) (au := ⟨eCommitsVal, sCommitsAwait, true, true, 2⟩)
      (vid := .dkg_actionValidateDkgProposalAwaitCommits) hs commits_auto commits_cb_val]
  simp only [runAction_commits_val, commitsAfter]
  rfl

theorem commits_received_spec (p : Payload) (a : Arg) :
    let o := dkg_actionCommitConfirmationReceived eCommitsOk p a
    o.outEvent = none ∧ o.data = none ∧ (o.res = .err → o.payload = p) ∧
    (o.res = .ok → ∃ pid data ts dc part, a = .commit pid data ts ∧ p.dkg = some dc ∧
      getAt dc.quorum pid = some part ∧ part.status = 0 ∧ ¬ isZeroTime ts = true ∧
      o.payload = { p with dkg := some { dc with
        quorum := setAt dc.quorum pid { ({ part with commit := data } : DkgPart) with status := 1, updatedAt := ts },
        updatedAt := ts } }) := by
  unfold dkg_actionCommitConfirmationReceived
  cases a <;> simp [aErr]
  rename_i pid data ts
  have h := dkgReceived_spec p pid ts data.isEmpty 0 1 (fun q => { q with commit := data })
  simp only at h
  refine ⟨h.1, h.2.1, h.2.2.1, ?_⟩
  intro hok
  obtain ⟨dc, part, hd, hg, hst, _, hz, hp⟩ := h.2.2.2.1 hok
  exact ⟨pid, data, ts, ⟨rfl, rfl, rfl⟩, dc, hd, part, hg, hst, by simpa using hz, hp⟩

/-- one `Do` of the phase's contribution event, as an equation -/
theorem commits_do_ok (p : Payload) (a : Arg) :
    doEvent dkgMachine runAction sCommitsAwait p eCommitsOk a =
      let o := dkg_actionCommitConfirmationReceived eCommitsOk p a
      if o.res != .ok then ⟨some (none, o.data), o.res, sCommitsAwait, o.payload⟩
      else commitsAfter o a := by
  rw [doEvent_std commits_lookup_ok rfl (no_before_auto .dkg sCommitsAwait) commits_cb_ok]
  simp only [runAction_commits_ok]
  by_cases hok : ((dkg_actionCommitConfirmationReceived eCommitsOk p a).res != .ok) = true
  · simp only [hok, ↓reduceIte]
  · simp only [hok, Bool.false_eq_true, ↓reduceIte]
    apply commits_after
    rw [(commits_received_spec p a).1]; exact commits_set_ok

/-- invariant of the phase: everybody is either still awaited or has delivered, and somebody is still awaited -/
structure CommitsInv (p : Payload) (dc : DkgConf) : Prop where
  hdkg : p.dkg = some dc
  hall : allIn dc 0 1
  hopen : cntDkg dc 1 < dc.quorum.length

theorem commits_no_err (dc : DkgConf) (h : allIn dc 0 1) : dc.quorum.any (·.status == 2) = false := by
  rw [Bool.eq_false_iff]
  intro hany
  rw [List.any_eq_true] at hany
  obtain ⟨q, hq, hst⟩ := hany
  rcases h q hq with h' | h' <;> simp [h'] at hst

/-- what the validator decides after an accepted contribution (no participant is in the phase's error status) -/
theorem commitsAfter_cases (o : AOut) (a : Arg) (dc : DkgConf) (hd : o.payload.dkg = some dc)
    (hne : dc.quorum.any (·.status == 2) = false) :
    let out := commitsAfter o a
    out.res = .ok ∧
    (if dc.expiresAt < dc.updatedAt then out.state = sCommitsCancTo ∧ out.payload = o.payload
     else if cntDkg dc 1 < dc.quorum.length then out.state = sCommitsAwait ∧ out.payload = o.payload
     else out.state = sCommitsNext ∧
          out.payload = { o.payload with dkg := some { dc with quorum := dc.quorum.map (fun q => { q with status := 3 }) } }) := by
  have hv := dkgValidate_spec o.payload dc hd 2 1 3 .e_event_dkg_commits_confirm_canceled_by_timeout_internal .e_event_dkg_commits_confirm_canceled_by_error_internal .e_event_dkg_commits_confirmed_internal (fun q => .dkgCommits ((orderedIdx q).map (fun (i, x) => (i, x.username, x.commit))))
  simp only at hv
  obtain ⟨hres, hcase⟩ := hv
  have hvfn : dkg_actionValidateDkgProposalAwaitCommits eCommitsVal o.payload a = dkgValidate o.payload 2 1 3 .e_event_dkg_commits_confirm_canceled_by_timeout_internal .e_event_dkg_commits_confirm_canceled_by_error_internal .e_event_dkg_commits_confirmed_internal (fun q => .dkgCommits ((orderedIdx q).map (fun (i, x) => (i, x.username, x.commit)))) := rfl
  unfold commitsAfter
  simp only [hvfn, hres]
  by_cases h1 : dc.expiresAt < dc.updatedAt
  · simp only [h1, ↓reduceIte] at hcase ⊢
    simp only [hcase.1, Option.getD_some, commits_set_to, hcase.2, and_self]
  · simp only [h1, ↓reduceIte, hne, Bool.false_eq_true] at hcase ⊢
    by_cases h3 : cntDkg dc 1 < dc.quorum.length
    · simp only [h3, ↓reduceIte] at hcase ⊢
      simp only [hcase.1, Option.getD_none, commits_set_val, hcase.2.1, and_self]
    · simp only [h3, ↓reduceIte] at hcase ⊢
      simp only [hcase.1, Option.getD_some, commits_set_done, hcase.2.1, and_self]

/-- **unanimity, one phase.** In this phase an accepted contribution comes from a participant that
was still awaited (so nobody contributes twice); the round moves to the next phase exactly when
that was the last participant missing, every other one having delivered; a contribution stamped
after the deadline cancels the round; otherwise the round keeps waiting. -/
theorem commits_received_outcome (p : Payload) (a : Arg) (dc : DkgConf) (hinv : CommitsInv p dc)
    (hok : (doEvent dkgMachine runAction sCommitsAwait p eCommitsOk a).res = .ok) :
    let out := doEvent dkgMachine runAction sCommitsAwait p eCommitsOk a
    ∃ pid data ts part, a = .commit pid data ts ∧ getAt dc.quorum pid = some part ∧ part.status = 0 ∧
    ((dc.expiresAt < ts ∧ out.state = sCommitsCancTo) ∨
     (¬ dc.expiresAt < ts ∧ cntDkg dc 1 + 1 = dc.quorum.length ∧ out.state = sCommitsNext ∧
        ∃ dc', out.payload.dkg = some dc' ∧ dc'.quorum.length = dc.quorum.length ∧ (∀ q ∈ dc'.quorum, q.status = 3)) ∨
     (¬ dc.expiresAt < ts ∧ cntDkg dc 1 + 1 < dc.quorum.length ∧ out.state = sCommitsAwait ∧
        ∃ dc', CommitsInv out.payload dc' ∧ cntDkg dc' 1 = cntDkg dc 1 + 1 ∧ dc'.quorum.length = dc.quorum.length)) := by
  have hd := hinv.hdkg
  rw [commits_do_ok] at hok ⊢
  simp only at hok ⊢
  by_cases h : ((dkg_actionCommitConfirmationReceived eCommitsOk p a).res != .ok) = true
  · simp only [h, ↓reduceIte] at hok
    simp [hok] at h
  · simp only [h, Bool.false_eq_true, ↓reduceIte] at hok ⊢
    have hok' : (dkg_actionCommitConfirmationReceived eCommitsOk p a).res = .ok := by simpa using h
    obtain ⟨pid, data, ts, dc0, part, ha, hd', hg, hst, hz, hp⟩ := (commits_received_spec p a).2.2.2 hok'
    rw [hd] at hd'; cases hd'
    generalize ho : dkg_actionCommitConfirmationReceived eCommitsOk p a = o at *
    let part' : DkgPart := { ({ part with commit := data } : DkgPart) with status := 1, updatedAt := ts }
    let dc' : DkgConf := { dc with quorum := setAt dc.quorum pid part', updatedAt := ts }
    have hdc' : o.payload.dkg = some dc' := by rw [hp]
    have hc := cntDkg_setAt dc pid part part' 1 hg ts
    simp only [hst, part'] at hc
    have hc' : cntDkg dc' 1 = cntDkg dc 1 + 1 := by
      simp only [dc', part']; simpa using hc
    have hlen : dc'.quorum.length = dc.quorum.length := by simp only [dc']; exact setAt_length _ _ _
    have hall' : allIn dc' 0 1 := by
      intro q hq
      rcases mem_setAt hq with hq | hq
      · exact hinv.hall q hq
      · right; rw [hq]
    have hcases := (commitsAfter_cases o a dc' hdc' (commits_no_err dc' hall')).2
    simp only [hc', hlen] at hcases
    refine ⟨pid, data, ts, part, ha, hg, hst, ?_⟩
    have hexp : (dc'.expiresAt < dc'.updatedAt) ↔ (dc.expiresAt < ts) := Iff.rfl
    by_cases he : dc.expiresAt < ts
    · left
      have he' : dc'.expiresAt < dc'.updatedAt := he
      simp only [he', ↓reduceIte] at hcases
      exact ⟨he, hcases.1⟩
    · right
      have he' : ¬ dc'.expiresAt < dc'.updatedAt := he
      simp only [he', ↓reduceIte] at hcases
      have hopen := hinv.hopen
      by_cases h3 : cntDkg dc 1 + 1 < (dc.quorum.length : Int)
      · right
        simp only [h3, ↓reduceIte] at hcases
        refine ⟨he, h3, hcases.1, dc', ?_, hc', hlen⟩
        rw [hcases.2]
        exact ⟨hdc', hall', by rw [hc', hlen]; exact h3⟩
      · left
        simp only [h3, ↓reduceIte] at hcases
        refine ⟨he, by omega, hcases.1, _, by rw [hcases.2], by simp [hlen], ?_⟩
        intro q hq
        simp only [List.mem_map] at hq
        obtain ⟨q0, _, hq0⟩ := hq
        rw [← hq0]

/-- **an error report cancels.** An accepted error report moves the round to the phase's
`canceled_by_error` state (from which `C05.cancel_absorbing` shows there is no way back). -/
theorem commits_error_outcome (p : Payload) (a : Arg)
    (hok : (doEvent dkgMachine runAction sCommitsAwait p eCommitsErr a).res = .ok) :
    (doEvent dkgMachine runAction sCommitsAwait p eCommitsErr a).state = sCommitsCancErr := by
  rw [doEvent_std commits_lookup_err rfl (no_before_auto .dkg sCommitsAwait) commits_cb_err] at hok ⊢
  by_cases h : ((runAction .dkg_actionConfirmationError eCommitsErr p a).res != .ok) = true
  · simp only [h, ↓reduceIte] at hok
    simp [hok] at h
  · simp only [h, Bool.false_eq_true, ↓reduceIte] at hok ⊢
    have hout : (runAction .dkg_actionConfirmationError eCommitsErr p a).outEvent = none := by
      show (dkg_actionConfirmationError eCommitsErr p a).outEvent = none
      unfold dkg_actionConfirmationError
      cases a <;> simp [aErr]
      split
      · simp
      · cases p.dkg with
        | none => simp [aPanic]
        | some dc =>
          simp only
          cases getAt dc.quorum _ with
          | none => simp
          | some part => simp only; split <;> simp [aErr, aOk]
    rw [doTrAfter_plain (s1 := sCommitsCancErr) (by rw [hout]; exact commits_set_err) commits_auto_cancerr]

end Commits

-- ═════════════ phase: Deals ═════════════
section Deals

abbrev sDealsAwait : St := .s_state_dkg_deals_await_confirmations
abbrev sDealsNext : St := .s_state_dkg_responses_await_confirmations
abbrev sDealsCancErr : St := .s_state_dkg_deals_await_canceled_by_error
abbrev sDealsCancTo : St := .s_state_dkg_deals_await_canceled_by_timeout
abbrev eDealsOk : Ev := .e_event_dkg_deal_confirm_received
abbrev eDealsErr : Ev := .e_event_dkg_deal_confirm_canceled_by_error
abbrev eDealsVal : Ev := .e_event_dkg_deals_validate_internal

theorem deals_lookup_ok : lookup dkgMachine sDealsAwait eDealsOk = some ⟨eDealsOk, sDealsAwait, false, false, 0⟩ := by decide
theorem deals_lookup_err : lookup dkgMachine sDealsAwait eDealsErr = some ⟨eDealsErr, sDealsCancErr, false, false, 0⟩ := by decide
theorem deals_cb_ok : callbackOf dkgMachine eDealsOk = some .dkg_actionDealConfirmationReceived := by decide
theorem deals_cb_err : callbackOf dkgMachine eDealsErr = some .dkg_actionConfirmationError := by decide
theorem deals_cb_val : callbackOf dkgMachine eDealsVal = some .dkg_actionValidateDkgProposalAwaitDeals := by decide
theorem deals_auto : autoLookup dkgMachine sDealsAwait 2 = some ⟨eDealsVal, sDealsAwait, true, true, 2⟩ := by decide
theorem deals_auto_cancerr : autoLookup dkgMachine sDealsCancErr 2 = none := by decide
theorem deals_set_ok : setState dkgMachine sDealsAwait eDealsOk = some sDealsAwait := by decide
theorem deals_set_err : setState dkgMachine sDealsAwait eDealsErr = some sDealsCancErr := by decide
theorem deals_set_val : setState dkgMachine sDealsAwait eDealsVal = some sDealsAwait := by decide
theorem deals_set_done : setState dkgMachine sDealsAwait .e_event_dkg_deals_confirmed_internal = some sDealsNext := by decide
theorem deals_set_to : setState dkgMachine sDealsAwait .e_event_dkg_deals_confirm_canceled_by_timeout_internal = some sDealsCancTo := by decide

/-- in this phase every event other than the two public ones is a route error -/
theorem deals_other (e : Ev) (h1 : e ≠ eDealsOk) (h2 : e ≠ eDealsErr) :
    (lookup dkgMachine sDealsAwait e).all (·.isInternal) = true := by
  revert h1 h2; cases e <;> decide

theorem runAction_deals_ok : runAction .dkg_actionDealConfirmationReceived = dkg_actionDealConfirmationReceived := rfl
theorem runAction_deals_val : runAction .dkg_actionValidateDkgProposalAwaitDeals = dkg_actionValidateDkgProposalAwaitDeals := rfl

/-- the tail of an accepted contribution: the phase's auto-validator decides -/
def dealsAfter (o : AOut) (a : Arg) : Out :=
  let v := dkg_actionValidateDkgProposalAwaitDeals eDealsVal o.payload a
  match v.res with
  | .ok =>
    match setState dkgMachine sDealsAwait (v.outEvent.getD eDealsVal) with
    | some s2 => ⟨some (some s2, pickData v.data o.data), .ok, s2, v.payload⟩
    | none => ⟨some (some sDealsAwait, pickData v.data o.data), .err, sDealsAwait, v.payload⟩
  | r => ⟨some (some sDealsAwait, pickData v.data o.data), r, sDealsAwait, v.payload⟩

theorem deals_after (tr : Tr) (cur : St) (p : Payload) (o : AOut) (a : Arg)
    (hs : setState dkgMachine cur (o.outEvent.getD tr.event) = some sDealsAwait) :
    doTrAfter dkgMachine runAction tr (noBefore cur p) o a = dealsAfter o a := by
  rw [doTrAfter_auto (s1 := sDealsAwait) (au := ⟨eDealsVal, sDealsAwait, true, true, 2⟩)
      (vid := .dkg_actionValidateDkgProposalAwaitDeals) hs deals_auto deals_cb_val]
  simp only [runAction_deals_val, dealsAfter]
  rfl

theorem deals_received_spec (p : Payload) (a : Arg) :
    let o := dkg_actionDealConfirmationReceived eDealsOk p a
    o.outEvent = none ∧ o.data = none ∧ (o.res = .err → o.payload = p) ∧
    (o.res = .ok → ∃ pid data ts dc part, a = .deal pid data ts ∧ p.dkg = some dc ∧
      getAt dc.quorum pid = some part ∧ part.status = 3 ∧ ¬ isZeroTime ts = true ∧
      o.payload = { p with dkg := some { dc with
        quorum := setAt dc.quorum pid { ({ part with deal := data } : DkgPart) with status := 4, updatedAt := ts },
        updatedAt := ts } }) := by
  unfold dkg_actionDealConfirmationReceived
  cases a <;> simp [aErr]
  rename_i pid data ts
  have h := dkgReceived_spec p pid ts data.isEmpty 3 4 (fun q => { q with deal := data })
  simp only at h
  refine ⟨h.1, h.2.1, h.2.2.1, ?_⟩
  intro hok
  obtain ⟨dc, part, hd, hg, hst, _, hz, hp⟩ := h.2.2.2.1 hok
  exact ⟨pid, data, ts, ⟨rfl, rfl, rfl⟩, dc, hd, part, hg, hst, by simpa using hz, hp⟩

/-- one `Do` of the phase's contribution event, as an equation -/
theorem deals_do_ok (p : Payload) (a : Arg) :
    doEvent dkgMachine runAction sDealsAwait p eDealsOk a =
      let o := dkg_actionDealConfirmationReceived eDealsOk p a
      if o.res != .ok then ⟨some (none, o.data), o.res, sDealsAwait, o.payload⟩
      else dealsAfter o a := by
  rw [doEvent_std deals_lookup_ok rfl (no_before_auto .dkg sDealsAwait) deals_cb_ok]
  simp only [runAction_deals_ok]
  by_cases hok : ((dkg_actionDealConfirmationReceived eDealsOk p a).res != .ok) = true
  · simp only [hok, ↓reduceIte]
  · simp only [hok, Bool.false_eq_true, ↓reduceIte]
    apply deals_after
    rw [(deals_received_spec p a).1]; exact deals_set_ok

/-- invariant of the phase: everybody is either still awaited or has delivered, and somebody is still awaited -/
structure DealsInv (p : Payload) (dc : DkgConf) : Prop where
  hdkg : p.dkg = some dc
  hall : allIn dc 3 4
  hopen : cntDkg dc 4 < dc.quorum.length

theorem deals_no_err (dc : DkgConf) (h : allIn dc 3 4) : dc.quorum.any (·.status == 5) = false := by
  rw [Bool.eq_false_iff]
  intro hany
  rw [List.any_eq_true] at hany
  obtain ⟨q, hq, hst⟩ := hany
  rcases h q hq with h' | h' <;> simp [h'] at hst

/-- what the validator decides after an accepted contribution (no participant is in the phase's error status) -/
theorem dealsAfter_cases (o : AOut) (a : Arg) (dc : DkgConf) (hd : o.payload.dkg = some dc)
    (hne : dc.quorum.any (·.status == 5) = false) :
    let out := dealsAfter o a
    out.res = .ok ∧
    (if dc.expiresAt < dc.updatedAt then out.state = sDealsCancTo ∧ out.payload = o.payload
     else if cntDkg dc 4 < dc.quorum.length then out.state = sDealsAwait ∧ out.payload = o.payload
     else out.state = sDealsNext ∧
          out.payload = { o.payload with dkg := some { dc with quorum := dc.quorum.map (fun q => { q with status := 6 }) } }) := by
  have hv := dkgValidate_spec o.payload dc hd 5 4 6 .e_event_dkg_deals_confirm_canceled_by_timeout_internal .e_event_dkg_deals_confirm_canceled_by_error_internal .e_event_dkg_deals_confirmed_internal (fun q => .dkgDeals (((orderedIdx q).filter (fun (_, x) => !x.deal.isEmpty)).map (fun (i, x) => (i, x.username, x.deal))))
  simp only at hv
  obtain ⟨hres, hcase⟩ := hv
  have hvfn : dkg_actionValidateDkgProposalAwaitDeals eDealsVal o.payload a = dkgValidate o.payload 5 4 6 .e_event_dkg_deals_confirm_canceled_by_timeout_internal .e_event_dkg_deals_confirm_canceled_by_error_internal .e_event_dkg_deals_confirmed_internal (fun q => .dkgDeals (((orderedIdx q).filter (fun (_, x) => !x.deal.isEmpty)).map (fun (i, x) => (i, x.username, x.deal)))) := rfl
  unfold dealsAfter
  simp only [hvfn, hres]
  by_cases h1 : dc.expiresAt < dc.updatedAt
  · simp only [h1, ↓reduceIte] at hcase ⊢
    simp only [hcase.1, Option.getD_some, deals_set_to, hcase.2, and_self]
  · simp only [h1, ↓reduceIte, hne, Bool.false_eq_true] at hcase ⊢
    by_cases h3 : cntDkg dc 4 < dc.quorum.length
    · simp only [h3, ↓reduceIte] at hcase ⊢
      simp only [hcase.1, Option.getD_none, deals_set_val, hcase.2.1, and_self]
    · simp only [h3, ↓reduceIte] at hcase ⊢
      simp only [hcase.1, Option.getD_some, deals_set_done, hcase.2.1, and_self]

/-- **unanimity, one phase.** In this phase an accepted contribution comes from a participant that
was still awaited (so nobody contributes twice); the round moves to the next phase exactly when
that was the last participant missing, every other one having delivered; a contribution stamped
after the deadline cancels the round; otherwise the round keeps waiting. -/
theorem deals_received_outcome (p : Payload) (a : Arg) (dc : DkgConf) (hinv : DealsInv p dc)
    (hok : (doEvent dkgMachine runAction sDealsAwait p eDealsOk a).res = .ok) :
    let out := doEvent dkgMachine runAction sDealsAwait p eDealsOk a
    ∃ pid data ts part, a = .deal pid data ts ∧ getAt dc.quorum pid = some part ∧ part.status = 3 ∧
    ((dc.expiresAt < ts ∧ out.state = sDealsCancTo) ∨
     (¬ dc.expiresAt < ts ∧ cntDkg dc 4 + 1 = dc.quorum.length ∧ out.state = sDealsNext ∧
        ∃ dc', out.payload.dkg = some dc' ∧ dc'.quorum.length = dc.quorum.length ∧ (∀ q ∈ dc'.quorum, q.status = 6)) ∨
     (¬ dc.expiresAt < ts ∧ cntDkg dc 4 + 1 < dc.quorum.length ∧ out.state = sDealsAwait ∧
        ∃ dc', DealsInv out.payload dc' ∧ cntDkg dc' 4 = cntDkg dc 4 + 1 ∧ dc'.quorum.length = dc.quorum.length)) := by
  have hd := hinv.hdkg
  rw [deals_do_ok] at hok ⊢
  simp only at hok ⊢
  by_cases h : ((dkg_actionDealConfirmationReceived eDealsOk p a).res != .ok) = true
  · simp only [h, ↓reduceIte] at hok
    simp [hok] at h
  · simp only [h, Bool.false_eq_true, ↓reduceIte] at hok ⊢
    have hok' : (dkg_actionDealConfirmationReceived eDealsOk p a).res = .ok := by simpa using h
    obtain ⟨pid, data, ts, dc0, part, ha, hd', hg, hst, hz, hp⟩ := (deals_received_spec p a).2.2.2 hok'
    rw [hd] at hd'; cases hd'
    generalize ho : dkg_actionDealConfirmationReceived eDealsOk p a = o at *
    let part' : DkgPart := { ({ part with deal := data } : DkgPart) with status := 4, updatedAt := ts }
    let dc' : DkgConf := { dc with quorum := setAt dc.quorum pid part', updatedAt := ts }
    have hdc' : o.payload.dkg = some dc' := by rw [hp]
    have hc := cntDkg_setAt dc pid part part' 4 hg ts
    simp only [hst, part'] at hc
    have hc' : cntDkg dc' 4 = cntDkg dc 4 + 1 := by
      simp only [dc', part']; simpa using hc
    have hlen : dc'.quorum.length = dc.quorum.length := by simp only [dc']; exact setAt_length _ _ _
    have hall' : allIn dc' 3 4 := by
      intro q hq
      rcases mem_setAt hq with hq | hq
      · exact hinv.hall q hq
      · right; rw [hq]
    have hcases := (dealsAfter_cases o a dc' hdc' (deals_no_err dc' hall')).2
    simp only [hc', hlen] at hcases
    refine ⟨pid, data, ts, part, ha, hg, hst, ?_⟩
    have hexp : (dc'.expiresAt < dc'.updatedAt) ↔ (dc.expiresAt < ts) := Iff.rfl
    by_cases he : dc.expiresAt < ts
    · left
      have he' : dc'.expiresAt < dc'.updatedAt := he
      simp only [he', ↓reduceIte] at hcases
      exact ⟨he, hcases.1⟩
    · right
      have he' : ¬ dc'.expiresAt < dc'.updatedAt := he
      simp only [he', ↓reduceIte] at hcases
      have hopen := hinv.hopen
      by_cases h3 : cntDkg dc 4 + 1 < (dc.quorum.length : Int)
      · right
        simp only [h3, ↓reduceIte] at hcases
        refine ⟨he, h3, hcases.1, dc', ?_, hc', hlen⟩
        rw [hcases.2]
        exact ⟨hdc', hall', by rw [hc', hlen]; exact h3⟩
      · left
        simp only [h3, ↓reduceIte] at hcases
        refine ⟨he, by omega, hcases.1, _, by rw [hcases.2], by simp [hlen], ?_⟩
        intro q hq
        simp only [List.mem_map] at hq
        obtain ⟨q0, _, hq0⟩ := hq
        rw [← hq0]

/-- **an error report cancels.** An accepted error report moves the round to the phase's
`canceled_by_error` state (from which `C05.cancel_absorbing` shows there is no way back). -/
theorem deals_error_outcome (p : Payload) (a : Arg)
    (hok : (doEvent dkgMachine runAction sDealsAwait p eDealsErr a).res = .ok) :
    (doEvent dkgMachine runAction sDealsAwait p eDealsErr a).state = sDealsCancErr := by
  rw [doEvent_std deals_lookup_err rfl (no_before_auto .dkg sDealsAwait) deals_cb_err] at hok ⊢
  by_cases h : ((runAction .dkg_actionConfirmationError eDealsErr p a).res != .ok) = true
  · simp only [h, ↓reduceIte] at hok
    simp [hok] at h
  · simp only [h, Bool.false_eq_true, ↓reduceIte] at hok ⊢
    have hout : (runAction .dkg_actionConfirmationError eDealsErr p a).outEvent = none := by
      show (dkg_actionConfirmationError eDealsErr p a).outEvent = none
      unfold dkg_actionConfirmationError
      cases a <;> simp [aErr]
      split
      · simp
      · cases p.dkg with
        | none => simp [aPanic]
        | some dc =>
          simp only
          cases getAt dc.quorum _ with
          | none => simp
          | some part => simp only; split <;> simp [aErr, aOk]
    rw [doTrAfter_plain (s1 := sDealsCancErr) (by rw [hout]; exact deals_set_err) deals_auto_cancerr]

end Deals

-- ═════════════ phase: Responses ═════════════
section Responses

abbrev sResponsesAwait : St := .s_state_dkg_responses_await_confirmations
abbrev sResponsesNext : St := .s_state_dkg_master_key_await_confirmations
abbrev sResponsesCancErr : St := .s_state_dkg_responses_await_canceled_by_error
abbrev sResponsesCancTo : St := .s_state_dkg_responses_sending_canceled_by_timeout
abbrev eResponsesOk : Ev := .e_event_dkg_response_confirm_received
abbrev eResponsesErr : Ev := .e_event_dkg_response_confirm_canceled_by_error
abbrev eResponsesVal : Ev := .e_event_dkg_responses_validate_internal

theorem responses_lookup_ok : lookup dkgMachine sResponsesAwait eResponsesOk = some ⟨eResponsesOk, sResponsesAwait, false, false, 0⟩ := by decide
theorem responses_lookup_err : lookup dkgMachine sResponsesAwait eResponsesErr = some ⟨eResponsesErr, sResponsesCancErr, false, false, 0⟩ := by decide
theorem responses_cb_ok : callbackOf dkgMachine eResponsesOk = some .dkg_actionResponseConfirmationReceived := by decide
theorem responses_cb_err : callbackOf dkgMachine eResponsesErr = some .dkg_actionConfirmationError := by decide
theorem responses_cb_val : callbackOf dkgMachine eResponsesVal = some .dkg_actionValidateDkgProposalAwaitResponses := by decide
theorem responses_auto : autoLookup dkgMachine sResponsesAwait 2 = some ⟨eResponsesVal, sResponsesAwait, true, true, 2⟩ := by decide
theorem responses_auto_cancerr : autoLookup dkgMachine sResponsesCancErr 2 = none := by decide
theorem responses_set_ok : setState dkgMachine sResponsesAwait eResponsesOk = some sResponsesAwait := by decide
theorem responses_set_err : setState dkgMachine sResponsesAwait eResponsesErr = some sResponsesCancErr := by decide
theorem responses_set_val : setState dkgMachine sResponsesAwait eResponsesVal = some sResponsesAwait := by decide
theorem responses_set_done : setState dkgMachine sResponsesAwait .e_event_dkg_responses_confirmed_internal = some sResponsesNext := by decide
theorem responses_set_to : setState dkgMachine sResponsesAwait .e_event_dkg_response_confirm_canceled_by_timeout_internal = some sResponsesCancTo := by decide

/-- in this phase every event other than the two public ones is a route error -/
theorem responses_other (e : Ev) (h1 : e ≠ eResponsesOk) (h2 : e ≠ eResponsesErr) :
    (lookup dkgMachine sResponsesAwait e).all (·.isInternal) = true := by
  revert h1 h2; cases e <;> decide

theorem runAction_responses_ok : runAction .dkg_actionResponseConfirmationReceived = dkg_actionResponseConfirmationReceived := rfl
theorem runAction_responses_val : runAction .dkg_actionValidateDkgProposalAwaitResponses = dkg_actionValidateDkgProposalAwaitResponses := rfl

/-- the tail of an accepted contribution: the phase's auto-validator decides -/
def responsesAfter (o : AOut) (a : Arg) : Out :=
  let v := dkg_actionValidateDkgProposalAwaitResponses eResponsesVal o.payload a
  match v.res with
  | .ok =>
    match setState dkgMachine sResponsesAwait (v.outEvent.getD eResponsesVal) with
    | some s2 => ⟨some (some s2, pickData v.data o.data), .ok, s2, v.payload⟩
    | none => ⟨some (some sResponsesAwait, pickData v.data o.data), .err, sResponsesAwait, v.payload⟩
  | r => ⟨some (some sResponsesAwait, pickData v.data o.data), r, sResponsesAwait, v.payload⟩

theorem responses_after (tr : Tr) (cur : St) (p : Payload) (o : AOut) (a : Arg)
    (hs : setState dkgMachine cur (o.outEvent.getD tr.event) = some sResponsesAwait) :
    doTrAfter dkgMachine runAction tr (noBefore cur p) o a = responsesAfter o a := by
  rw [doTrAfter_auto (s1 := sResponsesAwait) (au := ⟨eResponsesVal, sResponsesAwait, true, true, 2⟩)
      (vid := .dkg_actionValidateDkgProposalAwaitResponses) hs responses_auto responses_cb_val]
  simp only [runAction_responses_val, responsesAfter]
  rfl

theorem responses_received_spec (p : Payload) (a : Arg) :
    let o := dkg_actionResponseConfirmationReceived eResponsesOk p a
    o.outEvent = none ∧ o.data = none ∧ (o.res = .err → o.payload = p) ∧
    (o.res = .ok → ∃ pid data ts dc part, a = .response pid data ts ∧ p.dkg = some dc ∧
      getAt dc.quorum pid = some part ∧ part.status = 6 ∧ ¬ isZeroTime ts = true ∧
      o.payload = { p with dkg := some { dc with
        quorum := setAt dc.quorum pid { ({ part with response := data } : DkgPart) with status := 7, updatedAt := ts },
        updatedAt := ts } }) := by
  unfold dkg_actionResponseConfirmationReceived
  cases a <;> simp [aErr]
  rename_i pid data ts
  have h := dkgReceived_spec p pid ts data.isEmpty 6 7 (fun q => { q with response := data })
  simp only at h
  refine ⟨h.1, h.2.1, h.2.2.1, ?_⟩
  intro hok
  obtain ⟨dc, part, hd, hg, hst, _, hz, hp⟩ := h.2.2.2.1 hok
  exact ⟨pid, data, ts, ⟨rfl, rfl, rfl⟩, dc, hd, part, hg, hst, by simpa using hz, hp⟩

/-- one `Do` of the phase's contribution event, as an equation -/
theorem responses_do_ok (p : Payload) (a : Arg) :
    doEvent dkgMachine runAction sResponsesAwait p eResponsesOk a =
      let o := dkg_actionResponseConfirmationReceived eResponsesOk p a
      if o.res != .ok then ⟨some (none, o.data), o.res, sResponsesAwait, o.payload⟩
      else responsesAfter o a := by
  rw [doEvent_std responses_lookup_ok rfl (no_before_auto .dkg sResponsesAwait) responses_cb_ok]
  simp only [runAction_responses_ok]
  by_cases hok : ((dkg_actionResponseConfirmationReceived eResponsesOk p a).res != .ok) = true
  · simp only [hok, ↓reduceIte]
  · simp only [hok, Bool.false_eq_true, ↓reduceIte]
    apply responses_after
    rw [(responses_received_spec p a).1]; exact responses_set_ok

/-- invariant of the phase: everybody is either still awaited or has delivered, and somebody is still awaited -/
structure ResponsesInv (p : Payload) (dc : DkgConf) : Prop where
  hdkg : p.dkg = some dc
  hall : allIn dc 6 7
  hopen : cntDkg dc 7 < dc.quorum.length

theorem responses_no_err (dc : DkgConf) (h : allIn dc 6 7) : dc.quorum.any (·.status == 8) = false := by
  rw [Bool.eq_false_iff]
  intro hany
  rw [List.any_eq_true] at hany
  obtain ⟨q, hq, hst⟩ := hany
  rcases h q hq with h' | h' <;> simp [h'] at hst

/-- what the validator decides after an accepted contribution (no participant is in the phase's error status) -/
theorem responsesAfter_cases (o : AOut) (a : Arg) (dc : DkgConf) (hd : o.payload.dkg = some dc)
    (hne : dc.quorum.any (·.status == 8) = false) :
    let out := responsesAfter o a
    out.res = .ok ∧
    (if dc.expiresAt < dc.updatedAt then out.state = sResponsesCancTo ∧ out.payload = o.payload
     else if cntDkg dc 7 < dc.quorum.length then out.state = sResponsesAwait ∧ out.payload = o.payload
     else out.state = sResponsesNext ∧
          out.payload = { o.payload with dkg := some { dc with quorum := dc.quorum.map (fun q => { q with status := 9 }) } }) := by
  have hv := dkgValidate_spec o.payload dc hd 8 7 9 .e_event_dkg_response_confirm_canceled_by_timeout_internal .e_event_dkg_response_confirm_canceled_by_error_internal .e_event_dkg_responses_confirmed_internal (fun q => .dkgResponses ((orderedIdx q).map (fun (i, x) => (i, x.username, x.response))))
  simp only at hv
  obtain ⟨hres, hcase⟩ := hv
  have hvfn : dkg_actionValidateDkgProposalAwaitResponses eResponsesVal o.payload a = dkgValidate o.payload 8 7 9 .e_event_dkg_response_confirm_canceled_by_timeout_internal .e_event_dkg_response_confirm_canceled_by_error_internal .e_event_dkg_responses_confirmed_internal (fun q => .dkgResponses ((orderedIdx q).map (fun (i, x) => (i, x.username, x.response)))) := rfl
  unfold responsesAfter
  simp only [hvfn, hres]
  by_cases h1 : dc.expiresAt < dc.updatedAt
  · simp only [h1, ↓reduceIte] at hcase ⊢
    simp only [hcase.1, Option.getD_some, responses_set_to, hcase.2, and_self]
  · simp only [h1, ↓reduceIte, hne, Bool.false_eq_true] at hcase ⊢
    by_cases h3 : cntDkg dc 7 < dc.quorum.length
    · simp only [h3, ↓reduceIte] at hcase ⊢
      simp only [hcase.1, Option.getD_none, responses_set_val, hcase.2.1, and_self]
    · simp only [h3, ↓reduceIte] at hcase ⊢
      simp only [hcase.1, Option.getD_some, responses_set_done, hcase.2.1, and_self]

/-- **unanimity, one phase.** In this phase an accepted contribution comes from a participant that
was still awaited (so nobody contributes twice); the round moves to the next phase exactly when
that was the last participant missing, every other one having delivered; a contribution stamped
after the deadline cancels the round; otherwise the round keeps waiting. -/
theorem responses_received_outcome (p : Payload) (a : Arg) (dc : DkgConf) (hinv : ResponsesInv p dc)
    (hok : (doEvent dkgMachine runAction sResponsesAwait p eResponsesOk a).res = .ok) :
    let out := doEvent dkgMachine runAction sResponsesAwait p eResponsesOk a
    ∃ pid data ts part, a = .response pid data ts ∧ getAt dc.quorum pid = some part ∧ part.status = 6 ∧
    ((dc.expiresAt < ts ∧ out.state = sResponsesCancTo) ∨
     (¬ dc.expiresAt < ts ∧ cntDkg dc 7 + 1 = dc.quorum.length ∧ out.state = sResponsesNext ∧
        ∃ dc', out.payload.dkg = some dc' ∧ dc'.quorum.length = dc.quorum.length ∧ (∀ q ∈ dc'.quorum, q.status = 9)) ∨
     (¬ dc.expiresAt < ts ∧ cntDkg dc 7 + 1 < dc.quorum.length ∧ out.state = sResponsesAwait ∧
        ∃ dc', ResponsesInv out.payload dc' ∧ cntDkg dc' 7 = cntDkg dc 7 + 1 ∧ dc'.quorum.length = dc.quorum.length)) := by
  have hd := hinv.hdkg
  rw [responses_do_ok] at hok ⊢
  simp only at hok ⊢
  by_cases h : ((dkg_actionResponseConfirmationReceived eResponsesOk p a).res != .ok) = true
  · simp only [h, ↓reduceIte] at hok
    simp [hok] at h
  · simp only [h, Bool.false_eq_true, ↓reduceIte] at hok ⊢
    have hok' : (dkg_actionResponseConfirmationReceived eResponsesOk p a).res = .ok := by simpa using h
    obtain ⟨pid, data, ts, dc0, part, ha, hd', hg, hst, hz, hp⟩ := (responses_received_spec p a).2.2.2 hok'
    rw [hd] at hd'; cases hd'
    generalize ho : dkg_actionResponseConfirmationReceived eResponsesOk p a = o at *
    let part' : DkgPart := { ({ part with response := data } : DkgPart) with status := 7, updatedAt := ts }
    let dc' : DkgConf := { dc with quorum := setAt dc.quorum pid part', updatedAt := ts }
    have hdc' : o.payload.dkg = some dc' := by rw [hp]
    have hc := cntDkg_setAt dc pid part part' 7 hg ts
    simp only [hst, part'] at hc
    have hc' : cntDkg dc' 7 = cntDkg dc 7 + 1 := by
      simp only [dc', part']; simpa using hc
    have hlen : dc'.quorum.length = dc.quorum.length := by simp only [dc']; exact setAt_length _ _ _
    have hall' : allIn dc' 6 7 := by
      intro q hq
      rcases mem_setAt hq with hq | hq
      · exact hinv.hall q hq
      · right; rw [hq]
    have hcases := (responsesAfter_cases o a dc' hdc' (responses_no_err dc' hall')).2
    simp only [hc', hlen] at hcases
    refine ⟨pid, data, ts, part, ha, hg, hst, ?_⟩
    have hexp : (dc'.expiresAt < dc'.updatedAt) ↔ (dc.expiresAt < ts) := Iff.rfl
    by_cases he : dc.expiresAt < ts
    · left
      have he' : dc'.expiresAt < dc'.updatedAt := he
      simp only [he', ↓reduceIte] at hcases
      exact ⟨he, hcases.1⟩
    · right
      have he' : ¬ dc'.expiresAt < dc'.updatedAt := he
      simp only [he', ↓reduceIte] at hcases
      have hopen := hinv.hopen
      by_cases h3 : cntDkg dc 7 + 1 < (dc.quorum.length : Int)
      · right
        simp only [h3, ↓reduceIte] at hcases
        refine ⟨he, h3, hcases.1, dc', ?_, hc', hlen⟩
        rw [hcases.2]
        exact ⟨hdc', hall', by rw [hc', hlen]; exact h3⟩
      · left
        simp only [h3, ↓reduceIte] at hcases
        refine ⟨he, by omega, hcases.1, _, by rw [hcases.2], by simp [hlen], ?_⟩
        intro q hq
        simp only [List.mem_map] at hq
        obtain ⟨q0, _, hq0⟩ := hq
        rw [← hq0]

/-- **an error report cancels.** An accepted error report moves the round to the phase's
`canceled_by_error` state (from which `C05.cancel_absorbing` shows there is no way back). -/
theorem responses_error_outcome (p : Payload) (a : Arg)
    (hok : (doEvent dkgMachine runAction sResponsesAwait p eResponsesErr a).res = .ok) :
    (doEvent dkgMachine runAction sResponsesAwait p eResponsesErr a).state = sResponsesCancErr := by
  rw [doEvent_std responses_lookup_err rfl (no_before_auto .dkg sResponsesAwait) responses_cb_err] at hok ⊢
  by_cases h : ((runAction .dkg_actionConfirmationError eResponsesErr p a).res != .ok) = true
  · simp only [h, ↓reduceIte] at hok
    simp [hok] at h
  · simp only [h, Bool.false_eq_true, ↓reduceIte] at hok ⊢
    have hout : (runAction .dkg_actionConfirmationError eResponsesErr p a).outEvent = none := by
      show (dkg_actionConfirmationError eResponsesErr p a).outEvent = none
      unfold dkg_actionConfirmationError
      cases a <;> simp [aErr]
      split
      · simp
      · cases p.dkg with
        | none => simp [aPanic]
        | some dc =>
          simp only
          cases getAt dc.quorum _ with
          | none => simp
          | some part => simp only; split <;> simp [aErr, aOk]
    rw [doTrAfter_plain (s1 := sResponsesCancErr) (by rw [hout]; exact responses_set_err) responses_auto_cancerr]

end Responses

end Dc4bcVerif.Model
