import Dc4bcVerif.Model.Tasks

namespace Dc4bcVerif.Model.Tasks

/-- decidable well-formedness of a run table: every run is non-empty and starts at or after
the end of the previous one -/
def runsOk : Nat → List (Nat × Nat) → Bool
  | _, [] => true
  | lo, (s, n) :: t => decide (lo ≤ s) && decide (0 < n) && runsOk (s + n) t

theorem expand_length (rs : List (Nat × Nat)) : (expandRuns rs).length = (rs.map (·.2)).sum := by
  induction rs with
  | nil => rfl
  | cons r t ih => obtain ⟨s, n⟩ := r; simp [expandRuns, ih]

theorem expand_sorted (lo : Nat) (rs : List (Nat × Nat)) (h : runsOk lo rs = true) :
    (expandRuns rs).Pairwise (· < ·) ∧ ∀ x ∈ expandRuns rs, lo ≤ x := by
  induction rs generalizing lo with
  | nil => exact ⟨List.Pairwise.nil, by intro x hx; cases hx⟩
  | cons r t ih =>
    obtain ⟨s, n⟩ := r
    simp only [runsOk, Bool.and_eq_true, decide_eq_true_eq] at h
    obtain ⟨⟨hlo, _⟩, ht⟩ := h
    obtain ⟨ih1, ih2⟩ := ih (s + n) ht
    constructor
    · simp only [expandRuns]
      rw [List.pairwise_append]
      refine ⟨List.pairwise_lt_range', ih1, ?_⟩
      intro a ha b hb
      have := ih2 b hb
      rw [List.mem_range'_1] at ha
      omega
    · intro x hx
      simp only [expandRuns, List.mem_append] at hx
      rcases hx with hx | hx
      · rw [List.mem_range'_1] at hx; omega
      · have := ih2 x hx; omega

theorem expand_bound (hi : Nat) (rs : List (Nat × Nat)) (h : rs.all (fun r => decide (r.1 + r.2 ≤ hi)) = true) :
    ∀ x ∈ expandRuns rs, x < hi := by
  induction rs with
  | nil => intro x hx; cases hx
  | cons r t ih =>
    obtain ⟨s, n⟩ := r
    simp only [List.all_cons, Bool.and_eq_true, decide_eq_true_eq] at h
    intro x hx
    simp only [expandRuns, List.mem_append] at hx
    rcases hx with hx | hx
    · rw [List.mem_range'_1] at hx; omega
    · exact ih h.2 x hx

end Dc4bcVerif.Model.Tasks
