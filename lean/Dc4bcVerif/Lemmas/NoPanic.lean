/-
  No callback dereferences a missing payload part when the parts its machine works on are present.
  Per machine: a safety predicate on payloads that (1) rules out `Res.panic` for every callback of the
  machine and (2) is kept by every callback. With `doEvent_no_panic` (FsmEngine): `Do` never panics on a
  safe payload. The three entry states (`__idle`, invitations collected, master keys collected), where the
  part is only about to be created, are treated by expanding their single accepted event.
-/
import Dc4bcVerif.Lemmas.RoundStep

namespace Dc4bcVerif.Model
open Dc4bcVerif.Gen

/-- unfold the branches of a callback, twice (the second round catches `if`s that only appear after simplification) -/
macro "branches" : tactic =>
  `(tactic| ((repeat' split) <;> simp_all [aErr, aOk, aPanic] <;> (try ((repeat' split) <;> simp_all [aErr, aOk, aPanic] <;> (try ((repeat' split) <;> simp_all [aErr, aOk, aPanic]))))))

def SafeSig (p : Payload) : Prop := p.sig.isSome = true
def SafeDkg (p : Payload) : Prop := p.dkg.isSome = true
def SafeSign (p : Payload) : Prop := p.sig.isSome = true ∧ p.dkg.isSome = true ∧ p.sign.isSome = true

theorem sig_cb_cases (aid : ActionId) (h : aid ∈ sigMachine.callbacks.map (·.2)) :
    aid = .sig_actionInitSignatureProposal ∨ aid = .sig_actionProposalResponseByParticipant ∨
    aid = .sig_actionValidateSignatureProposal := by
  revert h; cases aid <;> decide

theorem sig_safe : ∀ aid ∈ sigMachine.callbacks.map (·.2), ∀ (e : Ev) (p : Payload) (a : Arg), SafeSig p →
    (runAction aid e p a).res ≠ .panic ∧ SafeSig (runAction aid e p a).payload := by
  intro aid hmem e p a hs
  unfold SafeSig at *
  rcases sig_cb_cases aid hmem with h | h | h <;> subst h <;> simp only [runAction]
  · unfold sig_actionInitSignatureProposal
    (repeat' split) <;> simp_all [aErr, aOk, aPanic]
  · unfold sig_actionProposalResponseByParticipant
    (repeat' split) <;> simp_all [aErr, aOk, aPanic]
  · unfold sig_actionValidateSignatureProposal
    cases hsg : p.sig with
    | none => simp [hsg] at hs
    | some sc =>
      simp only
      (repeat' split) <;> simp_all [aErr, aOk, aPanic]

theorem sign_cb_cases (aid : ActionId) (h : aid ∈ signMachine.callbacks.map (·.2)) :
    aid = .sign_actionInitSigningProposal ∨ aid = .sign_actionStartSigningProposal ∨
    aid = .sign_actionPartialSignConfirmationReceived ∨
    aid = .sign_actionValidateSigningPartialSignsAwaitConfirmations ∨
    aid = .sign_actionConfirmationError ∨ aid = .sign_actionSigningRestart := by
  revert h; cases aid <;> decide

theorem sign_safe : ∀ aid ∈ signMachine.callbacks.map (·.2), ∀ (e : Ev) (p : Payload) (a : Arg), SafeSign p →
    (runAction aid e p a).res ≠ .panic ∧ SafeSign (runAction aid e p a).payload := by
  intro aid hmem e p a hs
  unfold SafeSign at *
  rcases sign_cb_cases aid hmem with h | h | h | h | h | h <;> subst h <;> simp only [runAction]
  · unfold sign_actionInitSigningProposal
    (repeat' split) <;> simp_all [aErr, aOk, aPanic]
  · unfold sign_actionStartSigningProposal
    cases hsg : p.sign with
    | none => simp [hsg] at hs
    | some sc =>
      cases hd : p.dkg with
      | none => simp [hd] at hs
      | some dc => (repeat' split) <;> simp_all [aErr, aOk, aPanic]
  · unfold sign_actionPartialSignConfirmationReceived
    (repeat' split) <;> simp_all [aErr, aOk, aPanic]
  · unfold sign_actionValidateSigningPartialSignsAwaitConfirmations
    cases hsg : p.sign with
    | none => simp [hsg] at hs
    | some sc =>
      simp only
      (repeat' split) <;> simp_all [aErr, aOk, aPanic]
  · unfold sign_actionConfirmationError
    (repeat' split) <;> simp_all [aErr, aOk, aPanic]
  · simp_all [sign_actionSigningRestart, aOk]

theorem dkg_cb_cases (aid : ActionId) (h : aid ∈ dkgMachine.callbacks.map (·.2)) :
    aid = .dkg_actionInitDKGProposal ∨ aid = .dkg_actionCommitConfirmationReceived ∨ aid = .dkg_actionDealConfirmationReceived ∨
    aid = .dkg_actionResponseConfirmationReceived ∨ aid = .dkg_actionMasterKeyConfirmationReceived ∨
    aid = .dkg_actionConfirmationError ∨ aid = .dkg_actionValidateDkgProposalAwaitCommits ∨
    aid = .dkg_actionValidateDkgProposalAwaitDeals ∨ aid = .dkg_actionValidateDkgProposalAwaitResponses ∨
    aid = .dkg_actionValidateDkgProposalAwaitMasterKey := by
  revert h; cases aid <;> decide

theorem dkg_safe : ∀ aid ∈ dkgMachine.callbacks.map (·.2), ∀ (e : Ev) (p : Payload) (a : Arg), SafeDkg p →
    (runAction aid e p a).res ≠ .panic ∧ SafeDkg (runAction aid e p a).payload := by
  intro aid hmem e p a hs
  unfold SafeDkg at *
  rcases dkg_cb_cases aid hmem with h | h | h | h | h | h | h | h | h | h <;> subst h <;> simp only [runAction]
  · unfold dkg_actionInitDKGProposal
    simp [hs, aOk]
  · unfold dkg_actionCommitConfirmationReceived dkgReceived
    branches
  · unfold dkg_actionDealConfirmationReceived dkgReceived
    branches
  · unfold dkg_actionResponseConfirmationReceived dkgReceived
    branches
  · unfold dkg_actionMasterKeyConfirmationReceived
    branches
  · unfold dkg_actionConfirmationError
    branches
  · unfold dkg_actionValidateDkgProposalAwaitCommits dkgValidate
    branches
  · unfold dkg_actionValidateDkgProposalAwaitDeals dkgValidate
    branches
  · unfold dkg_actionValidateDkgProposalAwaitResponses dkgValidate
    branches
  · unfold dkg_actionValidateDkgProposalAwaitMasterKey
    branches

end Dc4bcVerif.Model
