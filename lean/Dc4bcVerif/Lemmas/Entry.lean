/-
  Entering the phases: the opening proposal (idle → invitation phase) and the hand-over
  `event_dkg_init_process` (invitations collected → commits phase); the error report of the
  master-key phase; and what the signing machine leaves untouched.
-/
import Dc4bcVerif.Lemmas.SigPhase
import Dc4bcVerif.Lemmas.DkgPhases
import Dc4bcVerif.Lemmas.MasterKeyPhase

namespace Dc4bcVerif.Model
open Dc4bcVerif.Gen

abbrev eDkgInit : Ev := .e_event_dkg_init_process

theorem dkginit_lookup : lookup dkgMachine sSigCollected eDkgInit = some ⟨eDkgInit, sCommitsAwait, false, false, 0⟩ := by decide
theorem dkginit_cb : callbackOf dkgMachine eDkgInit = some .dkg_actionInitDKGProposal := by decide
theorem dkginit_set : setState dkgMachine sSigCollected eDkgInit = some sCommitsAwait := by decide
theorem dkg_collected_other (e : Ev) (h : e ≠ eDkgInit) : (lookup dkgMachine sSigCollected e).all (·.isInternal) = true := by
  revert h; cases e <;> decide

/-- the opening proposal -/
theorem sig_init_spec (p : Payload) (a : Arg) :
    let o := sig_actionInitSignatureProposal eSigInit p a
    (o.res = .err → o.payload = p) ∧ o.res ≠ .panic ∧
    (o.res = .ok → o.outEvent = some eSigInit ∧ ∃ parts thr ts sc, a = .sigInit parts thr ts ∧ o.payload.sig = some sc ∧
      o.payload.dkg = p.dkg ∧ sc.quorum.length = parts.length ∧ 2 ≤ parts.length ∧ sc.updatedAt = zeroTime ∧
      (∀ q ∈ sc.quorum, q.status = 0)) := by
  unfold sig_actionInitSignatureProposal
  cases a
  case sigInit parts thr ts =>
    simp only
    by_cases hv : validSigInit parts thr ts = true
    · simp only [hv, Bool.not_true, Bool.false_eq_true, ↓reduceIte, aOk]
      refine ⟨by simp, by simp, fun _ => ⟨(by first | rfl | trivial), parts, thr, ts, _, (by first | rfl | trivial), (by first | rfl | trivial), (by first | rfl | trivial), by simp, ?_, (by first | rfl | trivial), ?_⟩⟩
      · unfold validSigInit at hv
        simp only [Bool.and_eq_true, decide_eq_true_eq] at hv
        have := hv.1.1.1.1.1
        simp only [Config.participantsMinCount] at this
        omega
      · intro q hq
        simp only [List.mem_map] at hq
        obtain ⟨e, _, he⟩ := hq
        rw [← he]
    · simp [hv, aErr]
  all_goals simp [aErr]

theorem cntSig_zero_of_all0 (sc : SigConf) (h : ∀ q ∈ sc.quorum, q.status = 0) : cntSig sc 1 = 0 := by
  unfold cntSig
  have : sc.quorum.filter (·.status == 1) = [] := by
    rw [List.filter_eq_nil_iff]; intro q hq; simp [h q hq]
  simp [this]

/-- **entering the invitation phase.** From `__idle` (no key-generation data yet) an accepted opening
proposal leads to the invitation phase with everybody awaited (or straight to a timeout when its
timestamp is absurd); nothing else is accepted in `__idle`. -/
theorem sig_init_outcome (p : Payload) (a : Arg) (hdkg : p.dkg = none)
    (hok : (doEvent sigMachine runAction sIdle0 p eSigInit a).res = .ok) :
    let out := doEvent sigMachine runAction sIdle0 p eSigInit a
    out.state = sSigCancTo ∨ (out.state = sSigAwait ∧ ∃ sc, SigInv out.payload sc) := by
  rw [doEvent_std sig_lookup_init rfl (no_before_auto .sig sIdle0) sig_cb_init] at hok ⊢
  simp only [runAction_sig_init] at hok ⊢
  by_cases h : ((sig_actionInitSignatureProposal eSigInit p a).res != .ok) = true
  · simp only [h, ↓reduceIte] at hok
    simp [hok] at h
  · simp only [h, Bool.false_eq_true, ↓reduceIte] at hok ⊢
    have hok' : (sig_actionInitSignatureProposal eSigInit p a).res = .ok := by simpa using h
    obtain ⟨hout, parts, thr, ts, sc, ha, hs, hd, hlen, hn, hupd, hall⟩ := (sig_init_spec p a).2.2 hok'
    generalize ho : sig_actionInitSignatureProposal eSigInit p a = o at *
    rw [sig_after _ _ _ _ _ (by rw [hout]; exact sig_set_init)]
    obtain ⟨_, hpl, hcases⟩ := sigAfter_cases o a sc hs
    have hc := cntSig_zero_of_all0 sc hall
    have hno2 : sc.quorum.any (·.status == 2) = false := by
      rw [Bool.eq_false_iff]; intro hany; rw [List.any_eq_true] at hany
      obtain ⟨q, hq, hs2⟩ := hany
      simp [hall q hq] at hs2
    simp only [hc, hno2, Bool.false_eq_true, ↓reduceIte] at hcases
    by_cases he : sc.expiresAt < sc.updatedAt
    · left; simp only [he, ↓reduceIte] at hcases; exact hcases
    · right
      simp only [he, ↓reduceIte] at hcases
      have hpos : (0 : Int) < (sc.quorum.length : Int) := by rw [hlen]; omega
      simp only [hpos, ↓reduceIte] at hcases
      refine ⟨hcases, sc, ?_⟩
      rw [hpl]
      exact ⟨hs, by rw [hd]; exact hdkg, fun q hq => Or.inl (hall q hq), by rw [hc]; exact hpos⟩

theorem runAction_dkginit : runAction .dkg_actionInitDKGProposal = dkg_actionInitDKGProposal := rfl

theorem dkg_init_spec (p : Payload) (a : Arg) (hdkg : p.dkg = none) (sc : SigConf) (hs : p.sig = some sc) :
    let o := dkg_actionInitDKGProposal eDkgInit p a
    (o.res = .err → o.payload = p) ∧
    (o.res = .ok → o.outEvent = some eDkgInit ∧ ∃ ts dc, a = .default ts ∧
      o.payload = { p with dkg := some dc } ∧ dc.quorum.length = sc.quorum.length ∧ sc.quorum ≠ [] ∧
      dc.updatedAt = zeroTime ∧ (∀ q ∈ dc.quorum, q.status = 0)) := by
  unfold dkg_actionInitDKGProposal
  simp only [hdkg, Option.isSome_none, Bool.false_eq_true, ↓reduceIte]
  cases a
  case default ts =>
    simp only [hs]
    cases hh : sc.quorum.head? with
    | none => simp [aPanic]
    | some q0 =>
      simp only [aOk]
      refine ⟨by simp, fun _ => ⟨(by first | rfl | trivial), ts, _, (by first | rfl | trivial), (by first | rfl | trivial), by simp, ?_, (by first | rfl | trivial), ?_⟩⟩
      · intro hnil; rw [hnil] at hh; cases hh
      · intro q hq
        simp only [List.mem_map] at hq
        obtain ⟨e, _, he⟩ := hq
        rw [← he]
  all_goals simp [aErr]

theorem cntDkg_zero_of_all (dc : DkgConf) (s st : Nat) (hne : s ≠ st) (h : ∀ q ∈ dc.quorum, q.status = s) : cntDkg dc st = 0 := by
  unfold cntDkg
  have : dc.quorum.filter (·.status == st) = [] := by
    rw [List.filter_eq_nil_iff]; intro q hq; simp [h q hq, hne]
  simp [this]

/-- **entering the commits phase.** The hand-over event applied to a round whose invitations were all
confirmed starts the commits phase with everybody awaited. -/
theorem dkg_init_outcome (p : Payload) (a : Arg) (hdkg : p.dkg = none) (sc : SigConf) (hs : p.sig = some sc)
    (hok : (doEvent dkgMachine runAction sSigCollected p eDkgInit a).res = .ok) :
    let out := doEvent dkgMachine runAction sSigCollected p eDkgInit a
    out.state = sCommitsCancTo ∨ (out.state = sCommitsAwait ∧ ∃ dc, CommitsInv out.payload dc ∧ dc.quorum.length = sc.quorum.length) := by
  rw [doEvent_std dkginit_lookup rfl (no_before_auto .dkg sSigCollected) dkginit_cb] at hok ⊢
  simp only [runAction_dkginit] at hok ⊢
  by_cases h : ((dkg_actionInitDKGProposal eDkgInit p a).res != .ok) = true
  · simp only [h, ↓reduceIte] at hok
    simp [hok] at h
  · simp only [h, Bool.false_eq_true, ↓reduceIte] at hok ⊢
    have hok' : (dkg_actionInitDKGProposal eDkgInit p a).res = .ok := by simpa using h
    obtain ⟨hout, ts, dc, ha, hp, hlen, hne, hupd, hall⟩ := (dkg_init_spec p a hdkg sc hs).2 hok'
    generalize ho : dkg_actionInitDKGProposal eDkgInit p a = o at *
    rw [commits_after _ _ _ _ _ (by rw [hout]; exact dkginit_set)]
    have hd' : o.payload.dkg = some dc := by rw [hp]
    have hallIn : allIn dc 0 1 := fun q hq => Or.inl (hall q hq)
    have hcases := (commitsAfter_cases o a dc hd' (commits_no_err dc hallIn)).2
    have hc := cntDkg_zero_of_all dc 0 1 (by decide) hall
    simp only [hc] at hcases
    have hpos : (0 : Int) < (dc.quorum.length : Int) := by
      rw [hlen]; have := List.length_pos_iff.mpr hne; omega
    by_cases he : dc.expiresAt < dc.updatedAt
    · left; simp only [he, ↓reduceIte] at hcases; exact hcases.1
    · right
      simp only [he, ↓reduceIte, hpos] at hcases
      refine ⟨hcases.1, dc, ?_, hlen⟩
      rw [hcases.2]
      exact ⟨hd', hallIn, by rw [hc]; exact hpos⟩

/-- an accepted error report in the master-key phase cancels the round -/
theorem mk_error_outcome (p : Payload) (a : Arg)
    (hok : (doEvent dkgMachine runAction sMKAwait p eMKErr a).res = .ok) :
    (doEvent dkgMachine runAction sMKAwait p eMKErr a).state = sMKCancErr := by
  rw [doEvent_std mk_lookup_err rfl (no_before_auto .dkg sMKAwait) mk_cb_err] at hok ⊢
  by_cases h : ((runAction .dkg_actionConfirmationError eMKErr p a).res != .ok) = true
  · simp only [h, ↓reduceIte] at hok
    simp [hok] at h
  · simp only [h, Bool.false_eq_true, ↓reduceIte] at hok ⊢
    have hout : (runAction .dkg_actionConfirmationError eMKErr p a).outEvent = none := by
      show (dkg_actionConfirmationError eMKErr p a).outEvent = none
      unfold dkg_actionConfirmationError
      cases a <;> simp [aErr]
      split
      · simp
      · cases p.dkg with
        | none => simp [aPanic]
        | some dc =>
          simp only
          cases getAt dc.quorum _ with
          | none => simp
          | some part => simp only; split <;> simp [aErr, aOk]
    rw [doTrAfter_plain (s1 := sMKCancErr) (by rw [hout]; exact mk_set_err) mk_auto_cancerr]

end Dc4bcVerif.Model
