/-
  One step in the commits / deals / responses phases preserves the round invariant.
  WRITTEN BY /verif/lib/gen_roundstep.py from one template; checked into git like any proof file.
-/
import Dc4bcVerif.Lemmas.RoundInv

namespace Dc4bcVerif.Model
open Dc4bcVerif.Gen

theorem commits_step_inv (p : Payload) (e : Ev) (a : Arg) (dc : DkgConf) (hinv : CommitsInv p dc)
    (hok : (doEvent dkgMachine runAction sCommitsAwait p e a).res = .ok) :
    phaseInv (doEvent dkgMachine runAction sCommitsAwait p e a).state (doEvent dkgMachine runAction sCommitsAwait p e a).payload := by
  by_cases h1 : e = eCommitsOk
  · subst h1
    obtain ⟨pid, data, ts, part, _, _, _, hcase⟩ := commits_received_outcome p a dc hinv hok
    rcases hcase with ⟨_, hst⟩ | ⟨_, hcnt, hst, dc', hd', hlen', hall'⟩ | ⟨_, _, hst, dc', hinv', _, _⟩
    · rw [hst]; trivial
    · rw [hst]
      have hpos : (0 : Int) < (dc'.quorum.length : Int) := by
        have := cntDkg_nonneg dc 1; rw [hlen']; omega
      exact ⟨dc', hd', fun q hq => Or.inl (hall' q hq), by rw [cntDkg_zero_of_all dc' 3 4 (by decide) hall']; exact hpos⟩
    · rw [hst]; exact ⟨dc', hinv'⟩
  · by_cases h2 : e = eCommitsErr
    · subst h2
      rw [commits_error_outcome p a hok]; trivial
    · rw [doEvent_route (commits_other e h1 h2)] at hok; cases hok

theorem deals_step_inv (p : Payload) (e : Ev) (a : Arg) (dc : DkgConf) (hinv : DealsInv p dc)
    (hok : (doEvent dkgMachine runAction sDealsAwait p e a).res = .ok) :
    phaseInv (doEvent dkgMachine runAction sDealsAwait p e a).state (doEvent dkgMachine runAction sDealsAwait p e a).payload := by
  by_cases h1 : e = eDealsOk
  · subst h1
    obtain ⟨pid, data, ts, part, _, _, _, hcase⟩ := deals_received_outcome p a dc hinv hok
    rcases hcase with ⟨_, hst⟩ | ⟨_, hcnt, hst, dc', hd', hlen', hall'⟩ | ⟨_, _, hst, dc', hinv', _, _⟩
    · rw [hst]; trivial
    · rw [hst]
      have hpos : (0 : Int) < (dc'.quorum.length : Int) := by
        have := cntDkg_nonneg dc 4; rw [hlen']; omega
      exact ⟨dc', hd', fun q hq => Or.inl (hall' q hq), by rw [cntDkg_zero_of_all dc' 6 7 (by decide) hall']; exact hpos⟩
    · rw [hst]; exact ⟨dc', hinv'⟩
  · by_cases h2 : e = eDealsErr
    · subst h2
      rw [deals_error_outcome p a hok]; trivial
    · rw [doEvent_route (deals_other e h1 h2)] at hok; cases hok

theorem responses_step_inv (p : Payload) (e : Ev) (a : Arg) (dc : DkgConf) (hinv : ResponsesInv p dc)
    (hok : (doEvent dkgMachine runAction sResponsesAwait p e a).res = .ok) :
    phaseInv (doEvent dkgMachine runAction sResponsesAwait p e a).state (doEvent dkgMachine runAction sResponsesAwait p e a).payload := by
  by_cases h1 : e = eResponsesOk
  · subst h1
    obtain ⟨pid, data, ts, part, _, _, _, hcase⟩ := responses_received_outcome p a dc hinv hok
    rcases hcase with ⟨_, hst⟩ | ⟨_, hcnt, hst, dc', hd', hlen', hall'⟩ | ⟨_, _, hst, dc', hinv', _, _⟩
    · rw [hst]; trivial
    · rw [hst]
      have hpos : (0 : Int) < (dc'.quorum.length : Int) := by
        have := cntDkg_nonneg dc 7; rw [hlen']; omega
      refine ⟨dc', hd', fun q hq => Or.inl (hall' q hq), by rw [cntDkg_zero_of_all dc' 9 10 (by decide) hall']; exact hpos, ?_⟩
      intro q hq q' _ hs _
      rw [hall' q hq] at hs; cases hs
    · rw [hst]; exact ⟨dc', hinv'⟩
  · by_cases h2 : e = eResponsesErr
    · subst h2
      rw [responses_error_outcome p a hok]; trivial
    · rw [doEvent_route (responses_other e h1 h2)] at hok; cases hok

end Dc4bcVerif.Model
