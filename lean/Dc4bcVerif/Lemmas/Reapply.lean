/-
  Engine lemma for re-application: an event that `Do` accepted is refused when it is applied a second time
  to the result — either by the table (the state reached, after the main edge and the after-auto edge, has no
  public row for the event) or by the callback (a predicate `Q` on the payload that the first application
  establishes, the after-auto callback preserves, and under which the callback refuses).
  Generic in the callbacks; `Props/C13Fsm.lean` instantiates it for the three machines.
-/
import Dc4bcVerif.Lemmas.FsmEngine

set_option linter.unusedSimpArgs false

namespace Dc4bcVerif.Model
open Dc4bcVerif.Gen
variable {P R A : Type}

/-- the table refuses `e` in `s` -/
def refusesAt (m : MachineDesc) (e : Ev) (s : St) : Bool := (lookup m s e).all (·.isInternal)

/-- `e` is refused by the table in `s1` and in every state one edge further -/
def deadAt (m : MachineDesc) (e : Ev) (s1 : St) : Bool :=
  refusesAt m e s1 && (succs m s1).all (refusesAt m e)

/-- the after-auto callbacks that can run in a `Do` of `e`: those of the states one edge away from a source of `e` -/
def autoAfter (m : MachineDesc) (e : Ev) : List (Ev × Option ActionId) :=
  (St.all.filter (fun c => (lookup m c e).isSome)).flatMap (fun c =>
    (succs m c).filterMap (fun s1 => (autoLookup m s1 2).map (fun au => (au.event, callbackOf m au.event))))

theorem mem_autoAfter {m : MachineDesc} {e : Ev} {cur s1 : St} {tr au : Tr}
    (hl : lookup m cur e = some tr) (he : Edge m cur s1) (hau : autoLookup m s1 2 = some au) :
    (au.event, callbackOf m au.event) ∈ autoAfter m e := by
  unfold autoAfter
  rw [List.mem_flatMap]
  refine ⟨cur, ?_, ?_⟩
  · rw [List.mem_filter]; exact ⟨St.mem_all cur, by simp [hl]⟩
  · rw [List.mem_filterMap]
    exact ⟨s1, edge_mem_succs he, by simp [hau]⟩

/-- what one accepted `Do` leaves behind: the payload satisfies `Q`, or the state is one in which the table refuses `e` -/
theorem doEvent_ok_leaves (m : MachineDesc) (act : ActionId → Ev → P → A → ActOut P R) (e : Ev) (a : A)
    (hb : ∀ s, autoLookup m s 1 = none) (aid : ActionId) (hcb : callbackOf m e = some aid) (Q : P → Prop)
    (hq3 : ∀ p, (act aid e p a).res = .ok → Q (act aid e p a).payload ∨
      ∀ cur s1, (lookup m cur e).isSome = true → setState m cur ((act aid e p a).outEvent.getD e) = some s1 → deadAt m e s1 = true)
    (hq1 : ∀ ev vid, (ev, some vid) ∈ autoAfter m e → ∀ p, Q p → Q (act vid ev p a).payload)
    (cur : St) (p : P) (hok : (doEvent m act cur p e a).res = .ok) :
    Q (doEvent m act cur p e a).payload ∨ refusesAt m e (doEvent m act cur p e a).state = true := by
  unfold doEvent at hok ⊢
  cases hl : lookup m cur e with
  | none => simp [hl] at hok
  | some tr =>
    have hev := lookup_event hl
    simp only [hl] at hok ⊢
    by_cases hi : tr.isInternal = true
    · simp [hi] at hok
    · simp only [hi, Bool.false_eq_true, ↓reduceIte] at hok ⊢
      unfold doTr at hok ⊢
      simp only [processAuto_none (hb cur), Bool.false_and, Bool.false_eq_true, ↓reduceIte] at hok ⊢
      unfold mainCallback at hok ⊢
      simp only [hev, hcb] at hok ⊢
      by_cases ho : (act aid e p a).res = .ok
      · simp only [ho, bne_self_eq_false, Bool.false_eq_true, ↓reduceIte] at hok ⊢
        unfold doTrAfter at hok ⊢
        dsimp only at hok ⊢
        cases hs1 : setState m cur ((act aid e p a).outEvent.getD e) with
        | none => simp [hev, hs1] at hok
        | some s1 =>
          simp only [hev, hs1] at hok ⊢
          have hedge : Edge m cur s1 := setState_edge hs1
          unfold processAuto at hok ⊢
          cases hau : autoLookup m s1 2 with
          | none =>
            simp only [hau]
            rcases hq3 p ho with hq | hd
            · left; exact hq
            · right
              have := hd cur s1 (by simp [hl]) hs1
              unfold deadAt at this
              simp only [Bool.and_eq_true] at this
              exact this.1
          | some au =>
            simp only [hau] at hok ⊢
            have hmem := mem_autoAfter hl hedge hau
            cases hcv : callbackOf m au.event with
            | none =>
              simp only [hcv] at hok ⊢
              simp only [Option.getD_none] at hok ⊢
              cases hs2 : setState m s1 au.event with
              | none => simp [hs2] at hok
              | some s2 =>
                simp only [hs2]
                rcases hq3 p ho with hq | hd
                · left; exact hq
                · right
                  have := hd cur s1 (by simp [hl]) hs1
                  unfold deadAt at this
                  simp only [Bool.and_eq_true, List.all_eq_true] at this
                  exact this.2 s2 (edge_mem_succs (setState_edge hs2))
            | some vid =>
              simp only [hcv] at hok ⊢
              rw [hcv] at hmem
              cases hvr : (act vid au.event (act aid e p a).payload a).res with
              | panic => simp [hvr] at hok
              | err => simp [hvr] at hok
              | ok =>
                simp only [hvr] at hok ⊢
                cases hs2 : setState m s1 ((act vid au.event (act aid e p a).payload a).outEvent.getD au.event) with
                | none => simp [hs2] at hok
                | some s2 =>
                  simp only [hs2]
                  rcases hq3 p ho with hq | hd
                  · left; exact hq1 _ _ hmem _ hq
                  · right
                    have := hd cur s1 (by simp [hl]) hs1
                    unfold deadAt at this
                    simp only [Bool.and_eq_true, List.all_eq_true] at this
                    exact this.2 s2 (edge_mem_succs (setState_edge hs2))
      · have : ((act aid e p a).res != .ok) = true := by simpa using ho
        simp only [this, ↓reduceIte] at hok
        exact absurd hok ho

/-- a `Do` of `e` ends in an error (not in a panic, and nothing is accepted) when the table refuses `e` in the
state, or the callback returns an error on the payload -/
theorem doEvent_refused (m : MachineDesc) (act : ActionId → Ev → P → A → ActOut P R) (e : Ev) (a : A)
    (hb : ∀ s, autoLookup m s 1 = none) (aid : ActionId) (hcb : callbackOf m e = some aid)
    (cur : St) (p : P) (h : (act aid e p a).res = .err ∨ refusesAt m e cur = true) :
    (doEvent m act cur p e a).res = .err := by
  rcases h with h | h
  · unfold doEvent
    cases hl : lookup m cur e with
    | none => simp
    | some tr =>
      have hev := lookup_event hl
      dsimp only
      by_cases hi : tr.isInternal = true
      · simp [hi]
      · simp only [hi, Bool.false_eq_true, ↓reduceIte]
        unfold doTr
        simp only [processAuto_none (hb cur), Bool.false_and, Bool.false_eq_true, ↓reduceIte]
        unfold mainCallback
        simp only [hev, hcb]
        have : ((act aid e p a).res != .ok) = true := by simp [h]
        simp only [this, ↓reduceIte]
        exact h
  · unfold refusesAt at h
    rw [doEvent_route h]

/-- the engine lemma: an accepted `Do` of `e`, applied a second time to its result, ends in an error -/
theorem doEvent_reapply (m : MachineDesc) (act : ActionId → Ev → P → A → ActOut P R) (e : Ev) (a : A)
    (hb : ∀ s, autoLookup m s 1 = none) (aid : ActionId) (hcb : callbackOf m e = some aid) (Q : P → Prop)
    (hq2 : ∀ p, Q p → (act aid e p a).res = .err)
    (hq3 : ∀ p, (act aid e p a).res = .ok → Q (act aid e p a).payload ∨
      ∀ cur s1, (lookup m cur e).isSome = true → setState m cur ((act aid e p a).outEvent.getD e) = some s1 → deadAt m e s1 = true)
    (hq1 : ∀ ev vid, (ev, some vid) ∈ autoAfter m e → ∀ p, Q p → Q (act vid ev p a).payload)
    (cur : St) (p : P) (hok : (doEvent m act cur p e a).res = .ok) :
    (doEvent m act (doEvent m act cur p e a).state (doEvent m act cur p e a).payload e a).res = .err := by
  apply doEvent_refused m act e a hb aid hcb
  rcases doEvent_ok_leaves m act e a hb aid hcb Q hq3 hq1 cur p hok with h | h
  · left; exact hq2 _ h
  · right; exact h

/-- the table alone: every state one edge from a source of `e` refuses `e`, and so does every state one edge further -/
theorem doEvent_reapply_table (m : MachineDesc) (act : ActionId → Ev → P → A → ActOut P R) (e : Ev) (a : A)
    (hb : ∀ s, autoLookup m s 1 = none) (aid : ActionId) (hcb : callbackOf m e = some aid)
    (hdead : ∀ c, (lookup m c e).isSome = true → (succs m c).all (deadAt m e) = true)
    (cur : St) (p : P) (hok : (doEvent m act cur p e a).res = .ok) :
    (doEvent m act (doEvent m act cur p e a).state (doEvent m act cur p e a).payload e a).res = .err := by
  refine doEvent_reapply m act e a hb aid hcb (fun _ => False) (fun _ h => h.elim) ?_ (fun _ _ _ _ h => h) cur p hok
  intro p _
  right
  intro c s1 hc hs
  have := hdead c hc
  rw [List.all_eq_true] at this
  exact this s1 (edge_mem_succs (setState_edge hs))

/-- the states one accepted `Do` can end in: one edge, or two -/
def reach1 (m : MachineDesc) (cur : St) : List St := succs m cur ++ (succs m cur).flatMap (succs m)

theorem processAuto_ok_reach (m : MachineDesc) (act : ActionId → Ev → P → A → ActOut P R) (s1 : St) (p : P) (a : A)
    (hok : (processAuto m act s1 p 2 a).res = .ok) :
    (processAuto m act s1 p 2 a).state = s1 ∨ (processAuto m act s1 p 2 a).state ∈ succs m s1 := by
  unfold processAuto at hok ⊢
  cases hau : autoLookup m s1 2 with
  | none => left; rfl
  | some au =>
    simp only [hau] at hok ⊢
    have key : ∀ o : ActOut P R,
        (match o.res with
          | .panic => (⟨true, none, o.data, .panic, s1, o.payload⟩ : AutoOut P R)
          | .err => ⟨true, none, o.data, .err, s1, o.payload⟩
          | .ok =>
            match setState m s1 (o.outEvent.getD au.event) with
            | some s' => ⟨true, o.outEvent, o.data, .ok, s', o.payload⟩
            | none => ⟨true, o.outEvent, o.data, .err, s1, o.payload⟩).res = .ok →
        (match o.res with
          | .panic => (⟨true, none, o.data, .panic, s1, o.payload⟩ : AutoOut P R)
          | .err => ⟨true, none, o.data, .err, s1, o.payload⟩
          | .ok =>
            match setState m s1 (o.outEvent.getD au.event) with
            | some s' => ⟨true, o.outEvent, o.data, .ok, s', o.payload⟩
            | none => ⟨true, o.outEvent, o.data, .err, s1, o.payload⟩).state ∈ succs m s1 := by
      intro o h
      cases hr : o.res with
      | panic => simp [hr] at h
      | err => simp [hr] at h
      | ok =>
        simp only [hr] at h ⊢
        cases hs2 : setState m s1 (o.outEvent.getD au.event) with
        | none => simp [hs2] at h
        | some s2 => simp only [hs2]; exact edge_mem_succs (setState_edge hs2)
    right
    exact key _ hok

theorem doEvent_ok_reach (m : MachineDesc) (act : ActionId → Ev → P → A → ActOut P R) (cur : St) (p : P) (e : Ev) (a : A)
    (hb : ∀ s, autoLookup m s 1 = none) (hok : (doEvent m act cur p e a).res = .ok) :
    (lookup m cur e).isSome = true ∧ (doEvent m act cur p e a).state ∈ reach1 m cur := by
  unfold doEvent at hok ⊢
  cases hl : lookup m cur e with
  | none => simp [hl] at hok
  | some tr =>
    refine ⟨rfl, ?_⟩
    simp only [hl] at hok ⊢
    by_cases hi : tr.isInternal = true
    · simp [hi] at hok
    · simp only [hi, Bool.false_eq_true, ↓reduceIte] at hok ⊢
      unfold doTr at hok ⊢
      simp only [processAuto_none (hb cur), Bool.false_and, Bool.false_eq_true, ↓reduceIte] at hok ⊢
      generalize mainCallback m act tr ⟨false, none, none, .ok, cur, p⟩ a = o at hok ⊢
      by_cases hne : (o.res != .ok) = true
      · simp only [hne, ↓reduceIte] at hok
        simp only [bne_iff_ne, ne_eq] at hne
        exact absurd hok hne
      · simp only [hne, Bool.false_eq_true, ↓reduceIte] at hok ⊢
        unfold doTrAfter at hok ⊢
        dsimp only at hok ⊢
        cases hs1 : setState m cur (o.outEvent.getD tr.event) with
        | none => simp [hs1] at hok
        | some s1 =>
          simp only [hs1] at hok ⊢
          have he1 : s1 ∈ succs m cur := edge_mem_succs (setState_edge hs1)
          unfold reach1
          rcases processAuto_ok_reach m act s1 o.payload a hok with h | h
          · rw [h]; exact List.mem_append_left _ he1
          · apply List.mem_append_right
            rw [List.mem_flatMap]
            exact ⟨s1, he1, h⟩

end Dc4bcVerif.Model
