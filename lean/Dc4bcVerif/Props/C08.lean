/-
  C08 — a round's state is a deterministic function of the board log.
-/
import Dc4bcVerif.Model.NodeOps
import Dc4bcVerif.Lemmas.NodeLocal

namespace Dc4bcVerif.Props.C08
open Dc4bcVerif.Gen Dc4bcVerif.Model Dc4bcVerif.Model.Node Dc4bcVerif.Lemmas.NodeLocal

/-- the node as a consumer of a log: a fold of `processMessageTop` (with the wall-clock reading made an
explicit input of every step) -/
def consume (payloadOf : Tasks.Msg → Bytes) (st : NodeSt) (log : List (NMsg × Time)) : NodeSt :=
  log.foldl (fun s mt => (processMessageTop s mt.1 mt.2 payloadOf).st) st

/-- **batching_irrelevant**: however consumption is split into polls / restarts, the state after a log
is the state after its parts in sequence -/
theorem batching_irrelevant (payloadOf : Tasks.Msg → Bytes) (st : NodeSt) (l1 l2 : List (NMsg × Time)) :
    consume payloadOf st (l1 ++ l2) = consume payloadOf (consume payloadOf st l1) l2 := by
  unfold consume; exact List.foldl_append

/-- **replay_eq_live / nodes_agree**: two nodes (or one node and its replayed self) that start from the
same state and consume the same messages are in the same state -/
theorem replay_eq_live (payloadOf : Tasks.Msg → Bytes) (st st' : NodeSt) (log : List (NMsg × Time)) (h : st = st') :
    consume payloadOf st log = consume payloadOf st' log := by rw [h]

theorem lookupS_assocSet_ne {β : Type} (l : List (String × β)) (k k' : String) (v : β) (h : k' ≠ k) :
    lookupS (assocSet l k v) k' = lookupS l k' := by
  induction l with
  | nil =>
    have : (k == k') = false := by simp [Ne.symm h]
    simp [assocSet, lookupS, List.find?, this]
  | cons x t ih =>
    obtain ⟨kx, vx⟩ := x
    unfold assocSet
    by_cases hx : kx = k
    · have : (kx == k) = true := by simp [hx]
      simp only [this, ↓reduceIte]
      have h1 : (k == k') = false := by simp [Ne.symm h]
      have h2 : (kx == k') = false := by rw [hx]; exact h1
      simp [lookupS, List.find?, h1, h2]
    · have hx' : (kx == k) = false := by simp [hx]
      simp only [hx', Bool.false_eq_true, ↓reduceIte]
      unfold lookupS at ih ⊢
      by_cases h2 : (kx == k') = true
      · simp [List.find?, h2]
      · simp only [List.find?, h2]
        exact ih

theorem saveFSM_other (st : NodeSt) (round r : String) (d : DumpV) (h : r ≠ round) :
    lookupS (saveFSM st round d).rounds r = lookupS st.rounds r := by
  unfold saveFSM; exact lookupS_assocSet_ne _ _ _ _ h

theorem saveFSM_sigs (st : NodeSt) (round : String) (d : DumpV) : (saveFSM st round d).sigs = st.sigs := rfl
theorem saveFSM_ops (st : NodeSt) (round : String) (d : DumpV) : (saveFSM st round d).ops = st.ops := rfl

/-- what a step may touch: only the dump of round `round` -/
def SameElsewhere (round : String) (a b : NodeSt) : Prop :=
  (∀ r, r ≠ round → lookupS b.rounds r = lookupS a.rounds r) ∧
  (∀ r, r ≠ round → lookupS b.sigs r = lookupS a.sigs r) ∧
  b.skipVerify = a.skipVerify

theorem SameElsewhere.refl (round : String) (a : NodeSt) : SameElsewhere round a a := ⟨fun _ _ => rfl, fun _ _ => rfl, rfl⟩

theorem SameElsewhere.trans {round : String} {a b c : NodeSt} (h1 : SameElsewhere round a b) (h2 : SameElsewhere round b c) :
    SameElsewhere round a c :=
  ⟨fun r hr => (h2.1 r hr).trans (h1.1 r hr), fun r hr => (h2.2.1 r hr).trans (h1.2.1 r hr), h2.2.2.trans h1.2.2⟩

theorem same_saveFSM (st : NodeSt) (round : String) (d : DumpV) : SameElsewhere round st (saveFSM st round d) :=
  ⟨fun r hr => saveFSM_other st round r d hr, fun _ _ => rfl, rfl⟩

theorem same_saveSignatures (st st' : NodeSt) (round : String) (l : List RSig)
    (hall : ∀ x ∈ l, x.round = round) (h : saveSignatures st l = some st') : SameElsewhere round st st' := by
  unfold saveSignatures at h
  cases l with
  | nil => cases h
  | cons first rest =>
    simp only [Option.some.injEq] at h
    subst h
    have hf : first.round = round := hall first (List.mem_cons_self ..)
    refine ⟨fun _ _ => rfl, fun r hr => ?_, rfl⟩
    simp only
    rw [hf]
    exact lookupS_assocSet_ne _ _ _ _ hr

theorem same_restart (st st' : NodeSt) (inst inst' : Instance) (round : String) (now : Time)
    (h : restartSigning st inst round now = some (st', inst')) : SameElsewhere round st st' := by
  unfold restartSigning at h
  cases hd : doOrReject inst .e_event_signing_restart (.default now) with
  | none => simp [hd] at h
  | some r =>
    obtain ⟨i', o⟩ := r
    simp [hd] at h
    rw [← h.1]
    exact SameElsewhere.refl _ _

/-- the node state a preliminary step ends with -/
def preSt : Pre → NodeSt
  | .swallow s => s
  | .fail s => s
  | .cont s _ => s

theorem same_step1 (st : NodeSt) (inst : Instance) (m : NMsg) (now : Time) (st1 : NodeSt) (inst1 : Instance)
    (h : step1 st inst m now = some (st1, inst1)) : SameElsewhere m.round st st1 := by
  unfold step1 at h
  split at h
  · exact same_restart st st1 inst inst1 m.round now h
  · simp only [Option.some.injEq, Prod.mk.injEq] at h; rw [← h.1]; exact SameElsewhere.refl _ _

theorem same_step2 (st : NodeSt) (inst : Instance) (m : NMsg) (now : Time) (st1 : NodeSt) (inst1 : Instance)
    (h : step2 st inst m now = some (st1, inst1)) : SameElsewhere m.round st st1 := by
  unfold step2 at h
  split at h
  · exact same_restart st st1 inst inst1 m.round now h
  · simp only [Option.some.injEq, Prod.mk.injEq] at h; rw [← h.1]; exact SameElsewhere.refl _ _

theorem same_preSteps (st : NodeSt) (inst : Instance) (m : NMsg) (now : Time) :
    SameElsewhere m.round st (preSt (preSteps st inst m now)) := by
  unfold preSteps
  split
  · exact SameElsewhere.refl _ _
  · cases h1 : step1 st inst m now with
    | none => exact SameElsewhere.refl _ _
    | some pr1 =>
      obtain ⟨st1, inst1⟩ := pr1
      have hse1 := same_step1 st inst m now st1 inst1 h1
      dsimp only
      split
      · exact hse1
      · cases h2 : step2 st1 inst1 m now with
        | none => exact hse1
        | some pr2 =>
          obtain ⟨st2, inst2⟩ := pr2
          exact hse1.trans (same_step2 st1 inst1 m now st2 inst2 h2)

theorem same_placeholders (st2 st3 : NodeSt) (m : NMsg) (payloadOf : Tasks.Msg → Bytes)
    (h : placeholders st2 m payloadOf = some st3) : SameElsewhere m.round st2 st3 := by
  unfold placeholders at h
  split at h
  · cases hp : m.proposal with
    | none => simp [hp] at h
    | some bt =>
      obtain ⟨batch, tasks⟩ := bt
      simp only [hp] at h
      cases ht : Tasks.tasksToMessages tasks with
      | error e => simp [ht] at h
      | ok msgs =>
        simp only [ht] at h
        exact same_saveSignatures st2 st3 m.round _ (by
          intro x hx
          simp only [proposalEntries, List.mem_map] at hx
          obtain ⟨y, _, hy⟩ := hx
          rw [← hy]) h
  · simp only [Option.some.injEq] at h; rw [← h]; exact SameElsewhere.refl _ _

theorem same_finish (st2 : NodeSt) (i5 : Instance) (rs5 : Option St) (rd5 : Option RespData) (m : NMsg) (now : Time)
    (payloadOf : Tasks.Msg → Bytes) : SameElsewhere m.round st2 (finish st2 i5 rs5 rd5 m now payloadOf).st := by
  unfold finish
  dsimp only
  cases reconstructStep (rs5 == some .s_state_signing_partial_signs_collected) m with
  | none => exact SameElsewhere.refl _ _
  | some sent =>
    dsimp only
    cases restartAfterCollect (rs5 == some .s_state_signing_partial_signs_collected) i5 now with
    | none => exact SameElsewhere.refl _ _
    | some i6 =>
      dsimp only
      cases hp : placeholders st2 m payloadOf with
      | none => exact SameElsewhere.refl _ _
      | some st3 => exact (same_placeholders st2 st3 m payloadOf hp).trans (same_saveFSM st3 m.round _)

theorem same_afterDo (st2 : NodeSt) (i3 : Instance) (o3 : Out) (m : NMsg) (now : Time) (payloadOf : Tasks.Msg → Bytes) :
    SameElsewhere m.round st2 (afterDo st2 i3 o3 m now payloadOf).st := by
  unfold afterDo
  repeat' split
  all_goals (first | exact SameElsewhere.refl _ _ | exact same_finish _ _ _ _ _ _ _)

theorem same_applyEvent (st2 : NodeSt) (inst2 : Instance) (ev : Ev) (arg : Arg) (m : NMsg) (now : Time)
    (payloadOf : Tasks.Msg → Bytes) : SameElsewhere m.round st2 (applyEvent st2 inst2 ev arg m now payloadOf).st := by
  unfold applyEvent
  split
  · exact SameElsewhere.refl _ _
  · split
    · exact SameElsewhere.refl _ _
    · exact same_afterDo _ _ _ _ _ _

theorem same_dispatch (st2 : NodeSt) (inst2 : Instance) (m : NMsg) (now : Time) (payloadOf : Tasks.Msg → Bytes) :
    SameElsewhere m.round st2 (dispatch st2 inst2 m now payloadOf).st := by
  unfold dispatch
  split
  · exact SameElsewhere.refl _ _
  · dsimp only
    split
    · exact SameElsewhere.refl _ _
    · split
      · exact SameElsewhere.refl _ _
      · exact same_applyEvent _ _ _ _ _ _ _

theorem same_getInstance (st st1 : NodeSt) (round : String) (inst : Instance) (h : getInstance st round = some (st1, inst)) :
    SameElsewhere round st st1 := by
  unfold getInstance at h
  cases hl : lookupS st.rounds round with
  | some v =>
    obtain ⟨ds, p⟩ := v
    simp only [hl] at h
    cases hr : Instance.restore ds p with
    | none => simp [hr] at h
    | some i => simp [hr] at h; rw [← h.1]; exact SameElsewhere.refl _ _
  | none =>
    simp only [hl] at h
    split at h
    · cases h
    · simp at h; rw [← h.1]; exact SameElsewhere.refl _ _

/-- **round_noninterference.** Handling a message of round `R` leaves the dump and the signature store
of every other round exactly as they were — whatever the message is (genuine, rejected, duplicated,
junk). Hence the state a node holds for a round depends only on the sub-sequence of messages
carrying that round's identifier. (Re-initialisation messages are outside this model; see C20.) -/
theorem round_noninterference (st : NodeSt) (m : NMsg) (now : Time) (payloadOf : Tasks.Msg → Bytes) :
    SameElsewhere m.round st (processMessage st m now payloadOf).st := by
  unfold processMessage
  cases hg : getInstance st m.round with
  | none => exact SameElsewhere.refl _ _
  | some pr =>
    obtain ⟨st1, inst⟩ := pr
    have h1 := same_getInstance st st1 m.round inst hg
    dsimp only
    split
    · exact h1
    · exact h1
    · split
      · cases hs : m.sigs with
        | none => exact h1
        | some l =>
          dsimp only
          cases hsv : saveSignatures st1 (l.map (fun x => { x with username := m.sender, round := m.round })) with
          | none => exact h1
          | some st2 =>
            exact h1.trans (same_saveSignatures st1 st2 m.round _ (by
              intro x hx
              simp only [List.mem_map] at hx
              obtain ⟨y, _, hy⟩ := hx
              rw [← hy]) hsv)
      · split
        · split <;> exact h1
        · unfold handleEvent
          have hp := same_preSteps st1 inst m now
          cases hpre : preSteps st1 inst m now with
          | swallow st' => rw [hpre] at hp; exact h1.trans hp
          | fail st' => rw [hpre] at hp; exact h1.trans hp
          | cont st' inst' => rw [hpre] at hp; exact (h1.trans hp).trans (same_dispatch st' inst' m now payloadOf)

/-- the same for the whole of `ProcessMessage` (the operation pool is not part of a round's state) -/
theorem round_noninterference_top (st : NodeSt) (m : NMsg) (now : Time) (payloadOf : Tasks.Msg → Bytes) :
    SameElsewhere m.round st (processMessageTop st m now payloadOf).st := by
  have h := round_noninterference st m now payloadOf
  unfold processMessageTop
  dsimp only
  split
  · rename_i op _ _
    unfold putOperationOnce
    cases hp : putOperation (processMessage st m now payloadOf).st op with
    | none => exact h
    | some st' =>
      unfold putOperation at hp
      split at hp
      · cases hp
      · simp only [Option.some.injEq] at hp; rw [← hp]; exact h
  · exact h

/-- a message of another round leaves the node's view of `R` as it was -/
theorem view_other_round (R : String) (st : NodeSt) (m : NMsg) (now : Time) (payloadOf : Tasks.Msg → Bytes) (hne : R ≠ m.round) :
    ViewEq R (processMessageTop st m now payloadOf).st st := by
  have h := round_noninterference_top st m now payloadOf
  exact ⟨h.1 R hne, h.2.1 R hne, h.2.2⟩

/-- the sub-sequence of the log that carries round `R`'s identifier -/
def roundLog (R : String) (log : List (NMsg × Time)) : List (NMsg × Time) := log.filter (fun mt => mt.1.round == R)

/-- **round_state_function_of_round_log.** Two nodes whose views of round `R` agree (dump of `R`,
signature store of `R`, verification switch) — whatever else they hold — and of which one consumes a
log and the other only the messages of that log that carry `R`'s identifier, end with the same view of
`R`. For every log: genuine, rejected, duplicated, junk messages, any number of other rounds interleaved. -/
theorem round_state_function_of_round_log (payloadOf : Tasks.Msg → Bytes) (R : String) (log : List (NMsg × Time)) :
    ∀ a b : NodeSt, ViewEq R a b → ViewEq R (consume payloadOf a log) (consume payloadOf b (roundLog R log)) := by
  induction log with
  | nil => intro a b h; exact h
  | cons mt rest ih =>
    intro a b h
    unfold roundLog consume
    by_cases hr : mt.1.round = R
    · have hb : (mt.1.round == R) = true := by simp [hr]
      simp only [List.filter_cons, hb, ↓reduceIte, List.foldl_cons]
      have hv : ViewEq R (processMessageTop a mt.1 mt.2 payloadOf).st (processMessageTop b mt.1 mt.2 payloadOf).st := by
        have := view_top mt.1 (hr ▸ h) mt.2 payloadOf
        rw [hr] at this
        exact this
      exact ih _ _ hv
    · have hb : (mt.1.round == R) = false := by simp [hr]
      simp only [List.filter_cons, hb, Bool.false_eq_true, ↓reduceIte, List.foldl_cons]
      exact ih _ _ ((view_other_round R a mt.1 mt.2 payloadOf (fun h' => hr h'.symm)).trans h)

/-- in particular: the state a node holds for `R` after a log is the state it holds after the
sub-sequence of `R`'s messages, and two nodes that consumed logs with the same sub-sequence for `R` agree on `R` -/
theorem round_view_of_sublog (payloadOf : Tasks.Msg → Bytes) (R : String) (st : NodeSt) (log : List (NMsg × Time)) :
    ViewEq R (consume payloadOf st log) (consume payloadOf st (roundLog R log)) :=
  round_state_function_of_round_log payloadOf R log st st (ViewEq.refl R st)

theorem nodes_agree_on_round (payloadOf : Tasks.Msg → Bytes) (R : String) (a b : NodeSt) (h : ViewEq R a b)
    (log1 log2 : List (NMsg × Time)) (hsub : roundLog R log1 = roundLog R log2) :
    ViewEq R (consume payloadOf a log1) (consume payloadOf b log2) := by
  have h1 := round_state_function_of_round_log payloadOf R log1 a b h
  have h2 := round_state_function_of_round_log payloadOf R log2 b b (ViewEq.refl R b)
  rw [hsub] at h1
  exact h1.trans h2.symm

/-- `ResetFSMState`: a new empty state database (same identity, same switches) -/
theorem reset_replay_eq_fresh (payloadOf : Tasks.Msg → Bytes) (st : NodeSt) (log : List (NMsg × Time)) :
    consume payloadOf (resetState st) log =
      consume payloadOf { self := st.self, selfKey := st.selfKey, skipVerify := st.skipVerify } log := rfl

/-- a reset forgets everything: the state after reset + replay does not depend on what the node held before -/
theorem reset_forgets (payloadOf : Tasks.Msg → Bytes) (st st' : NodeSt) (log : List (NMsg × Time))
    (hs : st.self = st'.self) (hk : st.selfKey = st'.selfKey) (hv : st.skipVerify = st'.skipVerify) :
    consume payloadOf (resetState st) log = consume payloadOf (resetState st') log := by
  unfold resetState; rw [hs, hk, hv]

/-- non-vacuity: a log with two rounds interleaved, the second of which is junk for the first -/
example : roundLog "A" [(({ round := "A", event := "x", sender := "s", recipient := "", arg := none, validKeys := [] } : NMsg), (0 : Time)),
    ({ round := "B", event := "y", sender := "s", recipient := "", arg := none, validKeys := [] }, 1)] =
    [({ round := "A", event := "x", sender := "s", recipient := "", arg := none, validKeys := [] }, 0)] := by
  simp [roundLog]

end Dc4bcVerif.Props.C08
