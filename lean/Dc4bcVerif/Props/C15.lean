/-
  C15 — only unaltered answers to operations the node issued reach the board, once.
  Model: `Node.executeOperation`, `Node.approveParticipation`, the operation pool with tombstones.
-/
import Dc4bcVerif.Model.NodeOps

namespace Dc4bcVerif.Props.C15
open Dc4bcVerif.Gen Dc4bcVerif.Model Dc4bcVerif.Model.Node

theorem execGuard_some (st : NodeSt) (sub : SubOp) (stored : NOp) (h : execGuard st sub = some stored) :
    sub.event ≠ "" ∧ sub.idOf = some stored ∧ stored ∈ visibleOps st ∧ sub.typeSame = true ∧ sub.payloadSame = true := by
  unfold execGuard at h
  by_cases he : sub.event = ""
  · simp [he] at h
  · have he' : (sub.event == "") = false := by simp [he]
    simp only [he', Bool.false_eq_true, ↓reduceIte] at h
    cases hid : sub.idOf with
    | none => simp [hid] at h
    | some s0 =>
      simp only [hid] at h
      split at h
      · rename_i hc
        simp only [Option.some.injEq] at h
        subst h
        simp only [Bool.and_eq_true, List.contains_eq_mem, decide_eq_true_eq] at hc
        exact ⟨he, rfl, hc.1.1, hc.1.2, hc.2⟩
      · cases h

theorem execReinit_posts_nothing (st : NodeSt) (sub : SubOp) (stored : NOp) : (execReinit st sub stored).posted = [] := by
  unfold execReinit
  repeat' split
  all_goals (first | rfl | (dsimp only; split <;> rfl))

/-- **posts_only_pending_equal.** Whatever is submitted, the node posts something only if the
submission has an event (is a result, not a request), carries the ID of an operation that is
pending in its own pool, and the `Type` and `Payload` bytes equal the stored ones. -/
theorem posts_only_pending_equal (st : NodeSt) (sub : SubOp) (h : (executeOperation st sub).posted ≠ []) :
    sub.event ≠ "" ∧ ∃ stored, sub.idOf = some stored ∧ stored ∈ visibleOps st ∧
      sub.typeSame = true ∧ sub.payloadSame = true := by
  unfold executeOperation at h
  cases hg : execGuard st sub with
  | none => simp [hg] at h
  | some stored =>
    obtain ⟨h1, h2, h3, h4, h5⟩ := execGuard_some st sub stored hg
    exact ⟨h1, stored, h2, h3, h4, h5⟩

/-- **posted_exactly_result.** What is posted is the list of result messages of the submission — same
events, rounds, recipients and data, in order — each attributed to the node and signed with its key. -/
theorem posted_exactly_result (st : NodeSt) (sub : SubOp) (h : (executeOperation st sub).posted ≠ []) :
    (executeOperation st sub).posted = sub.resultMsgs.map (fun m => { m with sender := st.self, signedBySelf := true }) := by
  unfold executeOperation at h ⊢
  cases hg : execGuard st sub with
  | none => simp [hg] at h
  | some stored =>
    simp only [hg] at h ⊢
    by_cases hproc : (sub.event != "operation_processed_successfully") = true
    · simp only [hproc, ↓reduceIte] at h ⊢
      unfold execPost
      cases deleteOperation st stored <;> rfl
    · simp only [hproc, Bool.false_eq_true, ↓reduceIte] at h
      exact absurd (execReinit_posts_nothing st sub stored) h

theorem visible_after_delete (st st' : NodeSt) (op : NOp) (h : deleteOperation st op = some st') :
    op ∉ visibleOps st' ∧ op ∈ st'.deleted := by
  unfold deleteOperation at h
  split at h
  · cases h
  · simp only [Option.some.injEq] at h
    subst h
    constructor
    · unfold visibleOps
      simp
    · simp

/-- **retired_once**, first half: an accepted answer retires the operation — it is no longer pending
and carries a tombstone -/
theorem retired_after_ok (st : NodeSt) (sub : SubOp)
    (hev : sub.event ≠ "operation_processed_successfully")
    (hok : (executeOperation st sub).out = .ok) :
    ∃ stored, sub.idOf = some stored ∧
      stored ∉ visibleOps (executeOperation st sub).st ∧ stored ∈ (executeOperation st sub).st.deleted := by
  unfold executeOperation at hok ⊢
  cases hg : execGuard st sub with
  | none => simp [hg] at hok
  | some stored =>
    have hproc : (sub.event != "operation_processed_successfully") = true := by simp [hev]
    simp only [hg, hproc, ↓reduceIte] at hok ⊢
    refine ⟨stored, (execGuard_some st sub stored hg).2.1, ?_⟩
    unfold execPost at hok ⊢
    cases hd : deleteOperation st stored with
    | none => simp [hd] at hok
    | some st' => simp only; exact visible_after_delete st st' stored hd

/-- **retired_once**, second half: an operation with a tombstone is invisible, so submitting it again
(the same result, a duplicate, a reordered copy) is rejected, posts nothing and changes nothing -/
theorem tombstoned_rejected (st : NodeSt) (sub : SubOp) (stored : NOp) (hid : sub.idOf = some stored)
    (hdel : stored ∈ st.deleted) :
    (executeOperation st sub).out = .reject ∧ (executeOperation st sub).posted = [] ∧ (executeOperation st sub).st = st := by
  have hg : execGuard st sub = none := by
    cases hgg : execGuard st sub with
    | none => rfl
    | some s0 =>
      obtain ⟨_, h2, h3, _, _⟩ := execGuard_some st sub s0 hgg
      rw [hid] at h2; cases h2
      unfold visibleOps at h3
      simp [hdel] at h3
  unfold executeOperation
  simp [hg]

theorem deleted_mono_delete (st st' : NodeSt) (op o : NOp) (h : o ∈ st.deleted) (hd : deleteOperation st op = some st') :
    o ∈ st'.deleted := by
  unfold deleteOperation at hd
  split at hd
  · cases hd
  · simp only [Option.some.injEq] at hd; subst hd; simp [h]

/-- tombstones are never removed: by answering operations … -/
theorem deleted_mono_exec (st : NodeSt) (sub : SubOp) (op : NOp) (h : op ∈ st.deleted) :
    op ∈ (executeOperation st sub).st.deleted := by
  unfold executeOperation
  cases execGuard st sub with
  | none => exact h
  | some stored =>
    simp only
    split
    · unfold execPost
      cases hd : deleteOperation st stored with
      | none => exact h
      | some st' => exact deleted_mono_delete st st' stored op h hd
    · unfold execReinit
      cases lookupS st.rounds sub.round with
      | none => exact h
      | some v =>
        obtain ⟨ds, p⟩ := v
        simp only
        cases Instance.restore ds p with
        | none => exact h
        | some _ =>
          simp only
          cases p.dkg with
          | none => exact h
          | some dc =>
            simp only
            cases hd : deleteOperation _ stored with
            | none => simpa [saveFSM] using h
            | some st' => exact deleted_mono_delete _ st' stored op (by simpa [saveFSM] using h) hd

/-- … nor by putting operations -/
theorem deleted_mono_put (st st' : NodeSt) (op o : NOp) (h : o ∈ st.deleted) (hp : putOperation st op = some st') :
    o ∈ st'.deleted := by
  unfold putOperation at hp
  split at hp
  · cases hp
  · simp at hp; subst hp; exact h

/-- **no_resurrection**: an operation with a tombstone is never offered again, whatever is put later -/
theorem tombstoned_invisible (st : NodeSt) (op : NOp) (h : op ∈ st.deleted) : op ∉ visibleOps st := by
  unfold visibleOps
  simp [h]

end Dc4bcVerif.Props.C15
