/-
  C14 — `save_offset` against a poll tick (fix 62396d7).

  A tick reads the offset ONCE, then applies the messages that follow it and saves, after each, that message's
  offset + 1. An offset saved through the API in the middle of a tick is overwritten by the tick's next save
  (`saveoffset_inside_tick_is_lost`: explicit schedule whose result is that of neither serial order). With the tick
  and `SaveOffset` excluding each other (`SrcFacts.tick_and_saveoffset_exclude`: both hold `tickMu` from their first
  statement to their return) the tick is one step, and the only schedules are the two serial orders
  (`locked_tick_is_serial`).
-/
import Dc4bcVerif.Model.Sched

namespace Dc4bcVerif.Props.C14Tick
open Dc4bcVerif.Model.Sched

/-- the steps of a tick that read offset `o` at its start and finds `n` messages -/
def tickSteps (o : Nat) : Nat → List RStep
  | 0 => []
  | n + 1 => .apply o :: .save (o + 1) :: tickSteps (o + 1) n

/-- a whole tick on state `s` bringing `n` messages: it reads the offset now -/
def tick (n : Nat) (s : RState) : RState := rrun s (tickSteps s.offset n)

/-- the API request -/
def saveOffset (k : Nat) (s : RState) : RState := rstep s (.save k)

theorem tick_offset (n : Nat) (s : RState) : (tick n s).offset = s.offset + n := by
  unfold tick
  generalize ho : s.offset = o
  have key : ∀ (m o : Nat) (t : RState), t.offset = o → (rrun t (tickSteps o m)).offset = o + m := by
    intro m
    induction m with
    | zero => intro o t ht; simpa [tickSteps, rrun] using ht
    | succ m ih =>
      intro o t _
      have := ih (o + 1) (rstep (rstep t (.apply o)) (.save (o + 1))) (by simp [rstep])
      simp only [tickSteps, rrun, List.foldl_cons] at this ⊢
      rw [this]; omega
  exact key n o s ho

/-- the two serial orders: the operator's offset first (the tick then starts from it), or the tick first -/
def apiThenTick (k n : Nat) (s : RState) : RState := tick n (saveOffset k s)
def tickThenApi (k n : Nat) (s : RState) : RState := saveOffset k (tick n s)

theorem apiThenTick_offset (k n : Nat) (s : RState) : (apiThenTick k n s).offset = k + n := by
  unfold apiThenTick; rw [tick_offset]; simp [saveOffset, rstep]

theorem tickThenApi_offset (k n : Nat) (s : RState) : (tickThenApi k n s).offset = k := by
  simp [tickThenApi, saveOffset, rstep]

/-- **the defect of the pinned tree**: the operator rewinds to 3 while a tick that started at offset 5 is between its two
messages. The tick's second save puts 7 back: not 5 (rewind, then a tick of two from 3), not 3 (tick, then rewind). -/
theorem saveoffset_inside_tick_is_lost :
    let s0 : RState := { applied := [], offset := 5 }
    let sched : List RStep := [.apply 5, .save 6, .save 3, .apply 6, .save 7]
    Interleaves (tickSteps 5 2) [.save 3] sched ∧
    (rrun s0 sched).offset = 7 ∧
    (rrun s0 sched).offset ≠ (apiThenTick 3 2 s0).offset ∧
    (rrun s0 sched).offset ≠ (tickThenApi 3 2 s0).offset := by
  refine ⟨?_, by decide, by decide, by decide⟩
  exact .left (.left (.right (.left (.left .nil))))

/-- … and in general: an offset saved strictly inside a tick of n ≥ 1 remaining messages does not survive it -/
theorem saved_inside_is_overwritten (k o n : Nat) (s : RState) :
    (rrun (rstep s (.save k)) (tickSteps o (n + 1))).offset = o + n + 1 := by
  have key : ∀ (m o : Nat) (t : RState), (rrun t (tickSteps o (m + 1))).offset = o + m + 1 := by
    intro m
    induction m with
    | zero => intro o t; simp [tickSteps, rrun, rstep]
    | succ m ih =>
      intro o t
      have := ih (o + 1) (rstep (rstep t (.apply o)) (.save (o + 1)))
      simp only [tickSteps, rrun, List.foldl_cons] at this ⊢
      rw [this]; omega
  exact key n o _

/-- **with the lock** (the tick is one step, the request is one step): every schedule is one of the two serial orders -/
theorem locked_tick_is_serial (k n : Nat) (s : RState) (sched : List (RState → RState))
    (h : Interleaves [tick n] [saveOffset k] sched) :
    runSteps sched s = tickThenApi k n s ∨ runSteps sched s = apiThenTick k n s := by
  cases h with
  | left h1 =>
    cases h1 with
    | right h2 => cases h2; left; rfl
  | right h1 =>
    cases h1 with
    | left h2 => cases h2; right; rfl

/-- non-vacuity: both schedules exist -/
example : Interleaves [tick 2] [saveOffset 3] [tick 2, saveOffset 3] := .left (.right .nil)
example : Interleaves [tick 2] [saveOffset 3] [saveOffset 3, tick 2] := .right (.left .nil)

end Dc4bcVerif.Props.C14Tick
