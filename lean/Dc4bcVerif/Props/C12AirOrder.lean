/-
  Go ranges over the map `d.deals` in `dkg.ProcessDeals`; `Model/AirDkg.lean` takes the order as an argument. Here:
  **the deals step does not depend on that order** — as far as anybody can tell from its answer and, when it is answered
  with responses, from the machine afterwards.

  * `processDeals_perm`: if the deals are examined successfully in one order, they are examined successfully in every
    permutation of it, the instance afterwards is THE SAME (literally), and the dealers answered are the same up to order.
  * `responses_order_irrelevant`: hence `responsesOp` with two orders that are permutations of each other: both refuse, or
    both answer with responses, the same machine afterwards, the same dealers up to order.
  (After a REFUSED step the instance does depend on the order - which deals were examined before the refusal; see the
  header of Props/C12Air.lean. The master-key step's range over `indexToData` is not treated here.)
-/
import Dc4bcVerif.Model.AirDkg
import Dc4bcVerif.Props.C11Air

set_option linter.unusedSectionVars false
set_option linter.unusedSimpArgs false

namespace Dc4bcVerif.Props.C12AirOrder
open Dc4bcVerif.Model.Shamir Dc4bcVerif.Model.AirDkg Dc4bcVerif.Props.C11Air

variable {F : Type} [Add F] [Mul F] [Sub F] [Div F] [Zero F] [One F] [DecidableEq F] [NatCast F]
variable {K : Type} [DecidableEq K]

/-- what `ProcessDeal` does to the one verifier it touches -/
def verStep (n pid : Nat) (v : Verifier F) (od : OuterDeal F) : Verifier F × Option Bool :=
  match processEncryptedDeal n pid v od.inner with
  | (v', none) => (v', none)
  | (v', some status) => (unsafeSet od.idx true v', some status)

/-- `dkgProcessDeal` touches the verifier of the deal's dealer and nothing else -/
theorem dkgProcessDeal_eq (i : Inst F K) (od : OuterDeal F) :
    dkgProcessDeal i od =
      if od.idx < i.keys.length ∧ od.sigOk = true then
        match i.vers[od.idx]? with
        | none => (i, none)
        | some v => ({ i with vers := i.vers.set od.idx (verStep i.keys.length i.pid v od).1 }, (verStep i.keys.length i.pid v od).2)
      else (i, none) := by
  unfold dkgProcessDeal verStep
  simp only
  by_cases h1 : od.idx < i.keys.length
  · by_cases h2 : od.sigOk = true
    · simp only [h1, h2, decide_true, Bool.not_true, Bool.false_eq_true, ↓reduceIte, and_self]
      cases i.vers[od.idx]? with
      | none => rfl
      | some v =>
        simp only
        generalize processEncryptedDeal i.keys.length i.pid v od.inner = r
        obtain ⟨v', st⟩ := r
        cases st <;> rfl
    · have h2' : od.sigOk = false := by simpa using h2
      simp [h1, h2']
  · simp [h1]

/-- one step of the loop, for a deal that is not the own one: `none` = refused -/
def step1 (i : Inst F K) (od : OuterDeal F) : Option (Inst F K) :=
  match dkgProcessDeal i od with
  | (_, none) => none
  | (i', some status) => if !status || !dealCommitsOk i' od then none else some i'

theorem dealCommitsOk_frame {i j : Inst F K} (h : SameFrame i j) (od : OuterDeal F) : dealCommitsOk j od = dealCommitsOk i od := by
  unfold dealCommitsOk
  rw [h.2.1, h.2.2.1]

theorem step1_frame {i i' : Inst F K} {od : OuterDeal F} (h : step1 i od = some i') : SameFrame i i' := by
  unfold step1 at h
  have hf := dkgProcessDeal_frame i od
  generalize dkgProcessDeal i od = r at h hf
  obtain ⟨j, st⟩ := r
  cases st with
  | none => simp at h
  | some s =>
    simp only at h hf
    split at h
    · simp at h
    · simp only [Option.some.injEq] at h
      subst h; exact hf

/-- a successful step writes exactly one verifier, as a function of that verifier -/
theorem step1_some {i i' : Inst F K} {od : OuterDeal F} (h : step1 i od = some i') :
    od.idx < i.keys.length ∧ ∃ v, i.vers[od.idx]? = some v ∧ (verStep i.keys.length i.pid v od).2 = some true ∧
      i' = { i with vers := i.vers.set od.idx (verStep i.keys.length i.pid v od).1 } ∧ dealCommitsOk i od = true := by
  have hfr := step1_frame h
  unfold step1 at h
  rw [dkgProcessDeal_eq] at h
  by_cases hg : od.idx < i.keys.length ∧ od.sigOk = true
  · simp only [hg, and_self, ↓reduceIte] at h
    cases hv : i.vers[od.idx]? with
    | none => simp [hv] at h
    | some v =>
      simp only [hv] at h
      cases hr : (verStep i.keys.length i.pid v od).2 with
      | none => simp [hr] at h
      | some s =>
        simp only [hr] at h
        split at h
        · simp at h
        · rename_i hc
          simp only [Option.some.injEq] at h
          have hs : s = true ∧ dealCommitsOk { i with vers := i.vers.set od.idx (verStep i.keys.length i.pid v od).1 } od = true := by
            cases s <;> cases hd : dealCommitsOk { i with vers := i.vers.set od.idx (verStep i.keys.length i.pid v od).1 } od <;> simp [hd] at hc ⊢
          have e := dealCommitsOk_frame (i := i) (j := { i with vers := i.vers.set od.idx (verStep i.keys.length i.pid v od).1 }) ⟨rfl, rfl, rfl, rfl⟩ od
          refine ⟨hg.1, v, rfl, by rw [hr, hs.1], h.symm, ?_⟩
          rw [← e]
          exact hs.2
  · simp [hg] at h

/-- and conversely -/
theorem step1_of {i : Inst F K} {od : OuterDeal F} {v : Verifier F} (h1 : od.idx < i.keys.length) (hs : od.sigOk = true)
    (hv : i.vers[od.idx]? = some v) (hr : (verStep i.keys.length i.pid v od).2 = some true) (hc : dealCommitsOk i od = true) :
    step1 i od = some { i with vers := i.vers.set od.idx (verStep i.keys.length i.pid v od).1 } := by
  unfold step1
  rw [dkgProcessDeal_eq]
  simp only [h1, hs, and_self, ↓reduceIte, hv, hr]
  have e := dealCommitsOk_frame (i := i) (j := { i with vers := i.vers.set od.idx (verStep i.keys.length i.pid v od).1 }) ⟨rfl, rfl, rfl, rfl⟩ od
  have : dealCommitsOk { i with vers := i.vers.set od.idx (verStep i.keys.length i.pid v od).1 } od = true := by
    rw [e]; exact hc
  simp [this]

theorem step1_sigOk {i i' : Inst F K} {od : OuterDeal F} (h : step1 i od = some i') : od.sigOk = true := by
  unfold step1 at h
  rw [dkgProcessDeal_eq] at h
  by_cases hg : od.idx < i.keys.length ∧ od.sigOk = true
  · exact hg.2
  · simp [hg] at h

/-- a deal examined once is refused the second time (`errDealAlreadyProcessed`) -/
theorem verStep_twice (n pid : Nat) (v : Verifier F) (od od2 : OuterDeal F) (h : (verStep n pid v od).2 = some true) :
    (verStep n pid (verStep n pid v od).1 od2).2 ≠ some true := by
  -- after a successful step the verifier holds a deal; `verifyDeal … true` then answers `already`
  have hdeal : (verStep n pid v od).1.deal.isSome = true := by
    unfold verStep at h ⊢
    generalize od.inner = inner at h ⊢
    generalize hp : processEncryptedDeal n pid v inner = r at h ⊢
    obtain ⟨v', st⟩ := r
    cases st with
    | none => simp at h
    | some s =>
      simp only
      have hv' : v'.deal.isSome = true := by
        unfold processEncryptedDeal at hp
        split at hp
        · simp at hp
        · rename_i d
          split at hp
          · simp at hp
          · simp only at hp
            generalize hvd : verifyDeal n v d true = q at hp
            obtain ⟨v1, vd⟩ := q
            simp only at hp
            split at hp
            · simp at hp
            · split at hp
              · simp at hp
              · simp only [Prod.mk.injEq, Option.some.injEq] at hp
                obtain ⟨hv1, _⟩ := hp
                subst hv1
                simp only
                -- `verifyDeal` leaves a deal behind
                unfold verifyDeal at hvd
                split at hvd
                · rename_i hal
                  simp only [Prod.mk.injEq] at hvd
                  obtain ⟨rfl, _⟩ := hvd
                  simp only [Bool.and_true] at hal
                  exact hal
                · have : (if v.deal.isNone then ({ v with deal := some d } : Verifier F) else v).deal.isSome = true := by
                    cases hd : v.deal <;> simp [hd]
                  generalize (if v.deal.isNone then ({ v with deal := some d } : Verifier F) else v) = w at hvd this
                  simp only at hvd
                  repeat (first | (simp only [Prod.mk.injEq] at hvd; obtain ⟨rfl, _⟩ := hvd; exact this) | split at hvd)
      unfold unsafeSet
      split <;> simpa using hv'
  intro h2
  generalize (verStep n pid v od).1 = w at h2 hdeal
  unfold verStep at h2
  generalize od2.inner = inner2 at h2
  generalize hp2 : processEncryptedDeal n pid w inner2 = r at h2
  obtain ⟨v', st⟩ := r
  cases st with
  | none => simp at h2
  | some s =>
    unfold processEncryptedDeal at hp2
    split at hp2
    · simp at hp2
    · rename_i d
      split at hp2
      · simp at hp2
      · simp only at hp2
        have hal : verifyDeal n w d true = (w, Verdict.already) := by
          unfold verifyDeal; simp [hdeal]
        rw [hal] at hp2
        simp at hp2

/-! ### two steps on different verifiers commute -/

theorem getElem_opt_set_ne {α : Type} (l : List α) (a b : Nat) (x : α) (h : a ≠ b) : (l.set a x)[b]? = l[b]? := by
  simp [List.getElem?_set, h]

theorem step1_comm {i i1 i2 : Inst F K} {a b : OuterDeal F} (h1 : step1 i a = some i1) (h2 : step1 i1 b = some i2) :
    ∃ j1, step1 i b = some j1 ∧ step1 j1 a = some i2 := by
  obtain ⟨ha1, va, hva, hra, hi1, hca⟩ := step1_some h1
  have hf1 := step1_frame h1
  obtain ⟨hb1, vb, hvb, hrb, hi2, hcb⟩ := step1_some h2
  have hsa := step1_sigOk h1
  have hsb := step1_sigOk h2
  -- the two deals name different dealers: otherwise the second would have been "already processed"
  have hne : a.idx ≠ b.idx := by
    intro he
    have hk : i1.keys.length = i.keys.length := by rw [hf1.2.1]
    have hp : i1.pid = i.pid := hf1.1
    have hlt : a.idx < i.vers.length := by
      have := (List.getElem?_eq_some_iff.mp hva).1
      exact this
    rw [hi1] at hvb
    simp only at hvb
    rw [← he, List.getElem?_set_self hlt] at hvb
    simp only [Option.some.injEq] at hvb
    subst hvb
    rw [hk, hp] at hrb
    exact verStep_twice _ _ va a b hra hrb
  have hk : i1.keys.length = i.keys.length := by rw [hf1.2.1]
  have hp : i1.pid = i.pid := hf1.1
  -- b's verifier in `i` is the one it had in `i1`
  have hvb0 : i.vers[b.idx]? = some vb := by
    rw [hi1] at hvb
    simp only at hvb
    rw [getElem_opt_set_ne _ _ _ _ hne] at hvb
    exact hvb
  have hcb0 : dealCommitsOk i b = true := by
    rw [← dealCommitsOk_frame hf1 b]; exact hcb
  rw [hk, hp] at hrb hi2
  rw [hk] at hb1
  let j1 : Inst F K := { i with vers := i.vers.set b.idx (verStep i.keys.length i.pid vb b).1 }
  have hj1 : step1 i b = some j1 := step1_of hb1 hsb hvb0 hrb hcb0
  refine ⟨j1, hj1, ?_⟩
  have hva1 : j1.vers[a.idx]? = some va := by
    show (i.vers.set b.idx _)[a.idx]? = some va
    rw [getElem_opt_set_ne _ _ _ _ (Ne.symm hne)]; exact hva
  have hca1 : dealCommitsOk j1 a = true := by
    rw [dealCommitsOk_frame (i := i) (j := j1) ⟨rfl, rfl, rfl, rfl⟩ a]; exact hca
  have := step1_of (i := j1) (od := a) (v := va) ha1 hsa hva1 hra hca1
  rw [this, hi2, hi1]
  simp only [j1, Option.some.injEq, Inst.mk.injEq, and_true, true_and]
  exact List.set_comm _ _ (Ne.symm hne)

/-! ### the loop -/

/-- the deal a name stands for in the loop, if it is examined at all -/
def effective (i : Inst F K) (name : String) : Option (OuterDeal F) :=
  match lookup name i.deals with
  | none => none
  | some od => if od.idx = i.pid then none else some od

/-- the loop without the list of dealers answered -/
def loop (i : Inst F K) : List String → Option (Inst F K)
  | [] => some i
  | name :: rest =>
    match effective i name with
    | none => loop i rest
    | some od => match step1 i od with
      | none => none
      | some i' => loop i' rest

/-- the dealers answered, in the order of the range -/
def answered (i : Inst F K) (ord : List String) : List Nat := (ord.filterMap (effective i)).map (·.idx)

theorem effective_frame {i j : Inst F K} (h : SameFrame i j) (name : String) : effective j name = effective i name := by
  unfold effective
  rw [h.2.2.2, h.1]

theorem answered_frame {i j : Inst F K} (h : SameFrame i j) (ord : List String) : answered j ord = answered i ord := by
  unfold answered
  congr 2
  funext name
  exact effective_frame h name

/-- `processDeals` is the loop plus the list of dealers -/
theorem processDeals_eq_loop (ord : List String) : ∀ (i : Inst F K) (acc : List Nat),
    (match loop i ord with
     | some i' => processDeals i ord acc = (i', some (acc ++ answered i ord))
     | none => (processDeals i ord acc).2 = none) := by
  induction ord with
  | nil => intro i acc; simp [loop, processDeals, answered]
  | cons name rest ih =>
    intro i acc
    unfold loop processDeals
    unfold effective
    cases hl : lookup name i.deals with
    | none =>
      simp only
      have := ih i acc
      have ha : answered i (name :: rest) = answered i rest := by
        simp [answered, effective, hl]
      rw [ha]; exact this
    | some od =>
      simp only
      by_cases hown : od.idx = i.pid
      · simp only [hown, ↓reduceIte]
        have := ih i acc
        have ha : answered i (name :: rest) = answered i rest := by
          simp [answered, effective, hl, hown]
        rw [ha]; exact this
      · simp only [hown, ↓reduceIte]
        unfold step1
        generalize hp : dkgProcessDeal i od = r
        obtain ⟨i1, st⟩ := r
        cases st with
        | none => simp
        | some status =>
          simp only
          by_cases hc : (!status || !dealCommitsOk i1 od) = true
          · simp [hc]
          · simp only [hc, Bool.false_eq_true, ↓reduceIte]
            have hf : SameFrame i i1 := by have := dkgProcessDeal_frame i od; rw [hp] at this; exact this
            have := ih i1 (acc ++ [od.idx])
            have ha : answered i (name :: rest) = od.idx :: answered i1 rest := by
              rw [answered_frame hf rest]
              simp [answered, effective, hl, hown]
            rw [ha]
            cases hlr : loop i1 rest with
            | none => simp only [hlr] at this ⊢; exact this
            | some i2 =>
              simp only [hlr] at this ⊢
              rw [this]; simp

theorem loop_frame (ord : List String) : ∀ (i i' : Inst F K), loop i ord = some i' → SameFrame i i' := by
  induction ord with
  | nil => intro i i' h; simp [loop] at h; subst h; exact SameFrame.refl i
  | cons name rest ih =>
    intro i i' h
    unfold loop at h
    cases he : effective i name with
    | none => simp only [he] at h; exact ih i i' h
    | some od =>
      simp only [he] at h
      cases hs : step1 i od with
      | none => simp [hs] at h
      | some i1 =>
        simp only [hs] at h
        exact (step1_frame hs).trans (ih i1 i' h)

/-- **the loop does not depend on the order** -/
theorem loop_perm {l1 l2 : List String} (hp : l1.Perm l2) : ∀ (i i' : Inst F K), loop i l1 = some i' → loop i l2 = some i' := by
  induction hp with
  | nil => intro i i' h; exact h
  | cons x _ ih =>
    intro i i' h
    unfold loop at h ⊢
    cases he : effective i x with
    | none => simp only [he] at h ⊢; exact ih i i' h
    | some od =>
      simp only [he] at h ⊢
      cases hs : step1 i od with
      | none => simp [hs] at h
      | some i1 => simp only [hs] at h ⊢; exact ih i1 i' h
  | swap x y l =>
    intro i i' h
    -- h : loop i (y :: x :: l) = some i'
    unfold loop at h ⊢
    cases hey : effective i y with
    | none =>
      simp only [hey] at h ⊢
      unfold loop at h ⊢
      cases hex : effective i x with
      | none => simp only [hex, hey] at h ⊢; exact h
      | some ox =>
        simp only [hex] at h ⊢
        cases hsx : step1 i ox with
        | none => simp [hsx] at h
        | some ix =>
          simp only [hsx] at h ⊢
          rw [effective_frame (step1_frame hsx) y, hey]
          exact h
    | some oy =>
      simp only [hey] at h
      cases hsy : step1 i oy with
      | none => simp [hsy] at h
      | some iy =>
        simp only [hsy] at h
        unfold loop at h
        rw [effective_frame (step1_frame hsy) x] at h
        cases hex : effective i x with
        | none =>
          simp only [hex] at h ⊢
          unfold loop
          simp only [hey, hsy]
          exact h
        | some ox =>
          simp only [hex] at h ⊢
          cases hsx : step1 iy ox with
          | none => simp [hsx] at h
          | some iyx =>
            simp only [hsx] at h
            obtain ⟨j1, hj1, hj2⟩ := step1_comm hsy hsx
            simp only [hj1]
            unfold loop
            rw [effective_frame (step1_frame hj1) y, hey]
            simp only [hj2]
            exact h
  | trans _ _ ih1 ih2 => intro i i' h; exact ih2 i i' (ih1 i i' h)

theorem answered_perm {l1 l2 : List String} (hp : l1.Perm l2) (i : Inst F K) : (answered i l1).Perm (answered i l2) := by
  unfold answered
  exact (hp.filterMap _).map _

/-- **processDeals_perm.** -/
theorem processDeals_perm {l1 l2 : List String} (hp : l1.Perm l2) (i i' : Inst F K) (ds : List Nat)
    (h : processDeals i l1 [] = (i', some ds)) :
    ∃ ds', processDeals i l2 [] = (i', some ds') ∧ ds'.Perm ds := by
  have e1 := processDeals_eq_loop l1 i []
  cases hl : loop i l1 with
  | none => simp only [hl] at e1; rw [h] at e1; simp at e1
  | some j =>
    simp only [hl] at e1
    rw [h] at e1
    simp only [Prod.mk.injEq, Option.some.injEq, List.nil_append] at e1
    obtain ⟨hj, hds⟩ := e1
    subst hj
    have hl2 := loop_perm hp i i' hl
    have e2 := processDeals_eq_loop l2 i []
    simp only [hl2] at e2
    refine ⟨answered i l2, by simpa using e2, ?_⟩
    rw [hds]
    exact (answered_perm hp i).symm

/-- **responses_order_irrelevant.** Two ranges over the same stored deals: the step is refused in both or answered in both,
with the same machine afterwards and the same dealers up to order. -/
theorem responses_order_irrelevant (m : Machine F K) (round : String) (entries : List (Int × String × Option (OuterDeal F)))
    {l1 l2 : List String} (hp : l1.Perm l2) (m' : Machine F K) (pid : Nat) (ds : List Nat)
    (h : responsesOp m round entries l1 = (m', Res.responses pid ds)) :
    ∃ ds', responsesOp m round entries l2 = (m', Res.responses pid ds') ∧ ds'.Perm ds := by
  unfold responsesOp at h ⊢
  cases hl : lookup round m.insts with
  | none => simp [hl] at h
  | some i =>
    simp only [hl] at h ⊢
    generalize storeDeals i entries = q at h ⊢
    obtain ⟨i1, ok⟩ := q
    simp only at h ⊢
    cases ok with
    | false => simp at h
    | true =>
      simp only [Bool.not_true, Bool.false_eq_true, ↓reduceIte] at h ⊢
      cases hpd : processDeals i1 l1 [] with
      | mk i2 r =>
        simp only [hpd] at h
        cases r with
        | none => simp at h
        | some dealers =>
          simp only [Prod.mk.injEq, Res.responses.injEq] at h
          obtain ⟨hm, hpid, hds⟩ := h
          obtain ⟨ds', h2, hperm⟩ := processDeals_perm hp i1 i2 dealers hpd
          refine ⟨ds', ?_, by rw [← hds]; exact hperm⟩
          rw [h2]
          simp only [Prod.mk.injEq, Res.responses.injEq, and_true]
          exact ⟨hm, hpid⟩

end Dc4bcVerif.Props.C12AirOrder
