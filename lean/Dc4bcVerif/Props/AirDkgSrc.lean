/-
  The statement order of the airgapped machine's key-generation handlers, read off `/repo`'s source on every run
  (`Gen/AirDkgOrder.lean`), against the order `Model/AirDkg.lean` gives them. Kernel-evaluated (`decide`).

  * `commits_order`: the instance is built (`dkg.Init`, keys, `InitDKGInstance`), its commitments read, and only then is
    it filed under the round id - a refused commits step leaves no instance (`commitsOp` writes `insts` in its last line).
  * `deals_order`: the broadcast commitments are filed before the own deals are produced.
  * `responses_order`: a deal is decrypted, its dealer index compared with its sender (fix 9d113d5), filed, and only then
    are the deals examined; the answer is written after that.
  * `master_key_order`: responses filed, examined, the key computed, **the key ring saved before the announcement is
    appended to the result** (`masterKeyOp` writes `rings` in the same step that answers `masterKey`; seed C02i moved the
    save behind the announcement: a failed save then left the announcement in the result).
  * `process_deals_order`: per stored deal the own index is skipped, the vss layer asked, then the broadcast commitments
    compared (`processDeals`: `dkgProcessDeal` before `dealCommitsOk`).
-/
import Dc4bcVerif.Gen.AirDkgOrder

namespace Dc4bcVerif.Props.AirDkgSrc
open Dc4bcVerif.Gen.AirDkgOrder

/-- position of the first occurrence -/
def pos (l : List String) (x : String) : Option Nat :=
  match l.findIdx? (· == x) with
  | some i => some i
  | none => none

/-- `a` occurs, `b` occurs, and the first `a` stands before the first `b` -/
def before (l : List String) (a b : String) : Bool :=
  match pos l a, pos l b with
  | some i, some j => decide (i < j)
  | _, _ => false

theorem commits_order :
    before commitsHandler "dkg.Init" "dkgInstance.StorePubKey" = true ∧
    before commitsHandler "dkgInstance.StorePubKey" "dkgInstance.InitDKGInstance" = true ∧
    before commitsHandler "dkgInstance.InitDKGInstance" "dkgInstance.GetCommits" = true ∧
    before commitsHandler "dkgInstance.GetCommits" "file-instance" = true ∧
    before commitsHandler "file-instance" "createMessage" = true := by decide

theorem deals_order :
    before dealsHandler "dkgInstance.StoreCommits" "dkgInstance.GetDeals" = true ∧
    before dealsHandler "dkgInstance.GetDeals" "am.encryptDataForParticipant" = true ∧
    before dealsHandler "am.encryptDataForParticipant" "createMessage" = true := by decide

theorem responses_order :
    before responsesHandler "am.decryptDataFromParticipant" "deal-index-check" = true ∧
    before responsesHandler "deal-index-check" "dkgInstance.StoreDeal" = true ∧
    before responsesHandler "dkgInstance.StoreDeal" "dkgInstance.ProcessDeals" = true ∧
    before responsesHandler "dkgInstance.ProcessDeals" "createMessage" = true := by decide

theorem master_key_order :
    before masterKeyHandler "dkgInstance.StoreResponses" "dkgInstance.ProcessResponses" = true ∧
    before masterKeyHandler "dkgInstance.ProcessResponses" "dkgInstance.GetDistributedPublicKey" = true ∧
    before masterKeyHandler "dkgInstance.GetDistributedPublicKey" "dkgInstance.GetBLSKeyring" = true ∧
    before masterKeyHandler "dkgInstance.GetBLSKeyring" "am.saveBLSKeyring" = true ∧
    before masterKeyHandler "am.saveBLSKeyring" "createMessage" = true := by decide

/-- the announcement is the ONLY message of the master-key step and nothing is appended before the key ring is saved -/
theorem one_announcement_after_the_save : (masterKeyHandler.filter (· == "createMessage")).length = 1 := by decide

theorem process_deals_order :
    processDealsSkipsOwn = true ∧
    before processDeals "deal-index-check" "d.instance.ProcessDeal" = true ∧
    before processDeals "d.instance.ProcessDeal" "d.processDealCommits" = true := by decide

/-- the stored deals are examined in a fixed order (fix 6d0dc23): the Schnorr nonces of the responses come from the round's
seeded stream, so the same deals handled again - a replay, a machine made from the same mnemonic - are signed response by
response with the same nonces; a map range would pair a nonce with ANOTHER response (two signatures with one nonce give the
long-term key away: airdiff `C04 nonce_reuse`). The model's answers never depended on the order (Props/C12AirOrder.lean); the
signatures are below the model. -/
theorem process_deals_in_a_fixed_order : processDealsFixedOrder = true := by decide

end Dc4bcVerif.Props.AirDkgSrc
