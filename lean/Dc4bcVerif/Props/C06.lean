/-
  C06 — reconstruction starts at exactly `t` distinct contributions to the current batch.

  All statements are about the model of the signing machine (generated table + hand-written
  callbacks, tied to the code by `fsmdiff`) and hold for every quorum size, every threshold,
  every payload and every argument value; the run theorem holds for every finite event sequence.
  Go `int` arithmetic is modelled in `Int` exactly as written in the validator:
  `failed > n - t`, `unconfirmed > n - t`.
-/
import Dc4bcVerif.Lemmas.SignPhase
import Dc4bcVerif.Props.C19

namespace Dc4bcVerif.Props.C06
open Dc4bcVerif.Gen Dc4bcVerif.Model

/-- the deadline test of the validator (`ExpiresAt.Before(UpdatedAt)` on the signing payload) -/
def expired (sc : SignConf) : Prop := sc.expiresAt < sc.updatedAt

/-- invariant of `state_signing_await_partial_signs`: fewer than `t` confirmed, at most `n - t` failed -/
structure AwaitInv (p : Payload) (sc : SignConf) : Prop where
  hsign : p.sign = some sc
  failed_le : cntSt sc 2 ≤ (sc.quorum.length : Int) - p.threshold
  confirmed_lt : cntSt sc 1 < p.threshold

/-- what the validator decides once an event was accepted, by its branch conditions -/
theorem signAfter_cases (o : AOut) (a : Arg) (sc : SignConf) (hs : o.payload.sign = some sc) :
    let out := signAfterValidate o a
    let n : Int := sc.quorum.length
    out.res = .ok ∧
    (if sc.expiresAt < sc.updatedAt then out.state = sCANCTO ∧ out.payload = o.payload
     else if cntSt sc 2 > n - o.payload.threshold then out.state = sCANCERR ∧ out.payload = o.payload
     else if n - cntSt sc 1 > n - o.payload.threshold then out.state = sAWAIT ∧ out.payload = o.payload
     else out.state = sCOLLECTED ∧ out.payload = { o.payload with sign := some (markProcess sc) }) := by
  have hv := sign_validate_spec o.payload sc hs eVALIDATE a
  simp only at hv
  obtain ⟨hres, hcase⟩ := hv
  unfold signAfterValidate
  simp only [hres]
  by_cases h1 : sc.expiresAt < sc.updatedAt
  · simp only [h1, ↓reduceIte] at hcase ⊢
    simp only [hcase.1, Option.getD_some, sign_set_cancto, hcase.2, and_self]
  · simp only [h1, ↓reduceIte] at hcase ⊢
    by_cases h2 : cntSt sc 2 > (sc.quorum.length : Int) - o.payload.threshold
    · simp only [h2, ↓reduceIte] at hcase ⊢
      simp only [hcase.1, Option.getD_some, sign_set_cancerr, hcase.2, and_self]
    · simp only [h2, ↓reduceIte] at hcase ⊢
      by_cases h3 : (sc.quorum.length : Int) - cntSt sc 1 > (sc.quorum.length : Int) - o.payload.threshold
      · simp only [h3, ↓reduceIte] at hcase ⊢
        simp only [hcase.1, Option.getD_none, sign_set_validate, hcase.2.1, and_self]
      · simp only [h3, ↓reduceIte] at hcase ⊢
        simp only [hcase.1, Option.getD_some, sign_set_confirmed, hcase.2.1, and_self]

/-- **batch_bound / no_double_count / known participant.** A partial-signature message is
accepted in `await` only if it names the *current* batch and comes from a quorum member whose
contribution is still awaited (status `SigningAwaitPartialSigns`); otherwise nothing changes. -/
theorem received_accepted_only_if (p : Payload) (a : Arg) (sc : SignConf) (hs : p.sign = some sc)
    (hok : (doEvent signMachine runAction sAWAIT p eRECEIVED a).res = .ok) :
    ∃ pid signs ts part, a = .partialSigns sc.batchId pid signs ts ∧
      getAt sc.quorum pid = some part ∧ part.status = 0 := by
  rw [sign_do_received] at hok
  simp only at hok
  by_cases h : ((sign_actionPartialSignConfirmationReceived eRECEIVED p a).res != .ok) = true
  · simp only [h, ↓reduceIte] at hok
    simp [hok] at h
  · have hok' : (sign_actionPartialSignConfirmationReceived eRECEIVED p a).res = .ok := by simpa using h
    obtain ⟨b, pid, signs, ts, sc', part, sg, ps, ha, hs', _, hb, hg, hst, _⟩ :=
      (sign_received_spec p eRECEIVED a).2.2.2 hok'
    rw [hs] at hs'; cases hs'
    exact ⟨pid, signs, ts, part, by rw [ha, hb], hg, hst⟩

theorem received_rejected_noop (p : Payload) (a : Arg)
    (herr : (doEvent signMachine runAction sAWAIT p eRECEIVED a).res = .err) :
    (doEvent signMachine runAction sAWAIT p eRECEIVED a).state = sAWAIT ∧
    (doEvent signMachine runAction sAWAIT p eRECEIVED a).payload = p := by
  rw [sign_do_received] at herr ⊢
  simp only at herr ⊢
  by_cases h : ((sign_actionPartialSignConfirmationReceived eRECEIVED p a).res != .ok) = true
  · simp only [h, ↓reduceIte] at herr ⊢
    exact ⟨trivial, (sign_received_spec p eRECEIVED a).2.2.1 herr⟩
  · exfalso
    simp only [h, Bool.false_eq_true, ↓reduceIte] at herr
    have hok' : (sign_actionPartialSignConfirmationReceived eRECEIVED p a).res = .ok := by simpa using h
    obtain ⟨b, pid, signs, ts, sc', part, sg, ps, ha, hs', _, hb, hg, hst, hp⟩ :=
      (sign_received_spec p eRECEIVED a).2.2.2 hok'
    have := (signAfter_cases (sign_actionPartialSignConfirmationReceived eRECEIVED p a) a _ (by rw [hp])).1
    rw [herr] at this; cases this

/-- **collected_iff_t.** In `await` (invariant: fewer than `t` confirmed, at most `n-t` failed) an
accepted contribution moves the round to `partial_signs_collected` exactly when it is the `t`-th
one; otherwise the round keeps waiting with the invariant re-established. (Deadline expiry is
the only other outcome.) -/
theorem received_outcome (p : Payload) (a : Arg) (sc : SignConf) (hinv : AwaitInv p sc)
    (hok : (doEvent signMachine runAction sAWAIT p eRECEIVED a).res = .ok) :
    let out := doEvent signMachine runAction sAWAIT p eRECEIVED a
    (expired sc ∧ out.state = sCANCTO) ∨
    (¬ expired sc ∧ cntSt sc 1 + 1 = p.threshold ∧ out.state = sCOLLECTED) ∨
    (¬ expired sc ∧ cntSt sc 1 + 1 < p.threshold ∧ out.state = sAWAIT ∧
      ∃ sc', AwaitInv out.payload sc' ∧ cntSt sc' 1 = cntSt sc 1 + 1 ∧ cntSt sc' 2 = cntSt sc 2 ∧
        sc'.batchId = sc.batchId) := by
  have hs := hinv.hsign
  rw [sign_do_received] at hok ⊢
  simp only at hok ⊢
  by_cases h : ((sign_actionPartialSignConfirmationReceived eRECEIVED p a).res != .ok) = true
  · simp only [h, ↓reduceIte] at hok
    simp [hok] at h
  · simp only [h, Bool.false_eq_true, ↓reduceIte] at hok ⊢
    have hok' : (sign_actionPartialSignConfirmationReceived eRECEIVED p a).res = .ok := by simpa using h
    obtain ⟨b, pid, signs, ts, sc0, part, sg, ps, ha, hs', hsg, hb, hg, hst, hp⟩ :=
      (sign_received_spec p eRECEIVED a).2.2.2 hok'
    rw [hs] at hs'; cases hs'
    generalize ho : sign_actionPartialSignConfirmationReceived eRECEIVED p a = o at *
    -- the updated signing payload
    let part' : SignPart := { part with partialSigns := ps, status := 1, updatedAt := ts }
    let sc' : SignConf := { sc with quorum := setAt sc.quorum pid part' }
    have hsc' : o.payload.sign = some sc' := by rw [hp]
    have hthr : o.payload.threshold = p.threshold := by rw [hp]
    have hc1 := cntSt_setAt sc pid part part' 1 hg
    have hc2 := cntSt_setAt sc pid part part' 2 hg
    simp only [hst, part'] at hc1 hc2
    have hc1' : cntSt sc' 1 = cntSt sc 1 + 1 := by
      simp only [sc', part']; simpa using hc1
    have hc2' : cntSt sc' 2 = cntSt sc 2 := by
      simp only [sc', part']; simpa using hc2
    have hlen : sc'.quorum.length = sc.quorum.length := by simp only [sc']; exact setAt_length _ _ _
    have hcases := (signAfter_cases o a sc' hsc').2
    simp only [hthr, hlen, hc1', hc2'] at hcases
    have hexp : (sc'.expiresAt < sc'.updatedAt) ↔ expired sc := Iff.rfl
    have hf := hinv.failed_le
    have hcl := hinv.confirmed_lt
    by_cases he : expired sc
    · left
      have he' : sc'.expiresAt < sc'.updatedAt := he
      simp only [he', ↓reduceIte] at hcases
      exact ⟨he, hcases.1⟩
    · right
      have he' : ¬ sc'.expiresAt < sc'.updatedAt := he
      simp only [he', ↓reduceIte] at hcases
      have hnf : ¬ cntSt sc 2 > (sc.quorum.length : Int) - p.threshold := by omega
      simp only [hnf, ↓reduceIte] at hcases
      by_cases h3 : (sc.quorum.length : Int) - (cntSt sc 1 + 1) > (sc.quorum.length : Int) - p.threshold
      · right
        simp only [h3, ↓reduceIte] at hcases
        refine ⟨he, by omega, hcases.1, sc', ?_, hc1', hc2', rfl⟩
        rw [hcases.2]
        exact ⟨hsc', by rw [hlen, hc2', hthr]; exact hf, by rw [hc1', hthr]; omega⟩
      · left
        simp only [h3, ↓reduceIte] at hcases
        exact ⟨he, by omega, hcases.1⟩

/-- **cancel_iff.** An accepted failure report cancels the batch exactly when it makes the number of
failed participants exceed `n - t`; otherwise the round keeps waiting. -/
theorem signerr_outcome (p : Payload) (a : Arg) (sc : SignConf) (hinv : AwaitInv p sc)
    (hok : (doEvent signMachine runAction sAWAIT p eSIGNERR a).res = .ok) :
    let out := doEvent signMachine runAction sAWAIT p eSIGNERR a
    let n : Int := sc.quorum.length
    (expired sc ∧ out.state = sCANCTO) ∨
    (¬ expired sc ∧ cntSt sc 2 + 1 > n - p.threshold ∧ out.state = sCANCERR) ∨
    (¬ expired sc ∧ cntSt sc 2 + 1 ≤ n - p.threshold ∧ out.state = sAWAIT ∧
      ∃ sc', AwaitInv out.payload sc' ∧ cntSt sc' 1 = cntSt sc 1 ∧ cntSt sc' 2 = cntSt sc 2 + 1 ∧
        sc'.batchId = sc.batchId) := by
  have hs := hinv.hsign
  rw [sign_do_signerr] at hok ⊢
  simp only at hok ⊢
  by_cases h : ((sign_actionConfirmationError eSIGNERR p a).res != .ok) = true
  · simp only [h, ↓reduceIte] at hok
    simp [hok] at h
  · simp only [h, Bool.false_eq_true, ↓reduceIte] at hok ⊢
    have hok' : (sign_actionConfirmationError eSIGNERR p a).res = .ok := by simpa using h
    obtain ⟨pid, err, ts, sc0, part, sg, ha, hs', hsg, hg, hst, hp⟩ := (sign_signerr_spec p a).2.2.2 hok'
    rw [hs] at hs'; cases hs'
    generalize ho : sign_actionConfirmationError eSIGNERR p a = o at *
    let part' : SignPart := { part with status := 2, error := err, updatedAt := ts }
    let sc' : SignConf := { sc with quorum := setAt sc.quorum pid part' }
    have hsc' : o.payload.sign = some sc' := by rw [hp]
    have hthr : o.payload.threshold = p.threshold := by rw [hp]
    have hc1 := cntSt_setAt sc pid part part' 1 hg
    have hc2 := cntSt_setAt sc pid part part' 2 hg
    simp only [hst, part'] at hc1 hc2
    have hc1' : cntSt sc' 1 = cntSt sc 1 := by
      simp only [sc', part']; simpa using hc1
    have hc2' : cntSt sc' 2 = cntSt sc 2 + 1 := by
      simp only [sc', part']; simpa using hc2
    have hlen : sc'.quorum.length = sc.quorum.length := by simp only [sc']; exact setAt_length _ _ _
    have hcases := (signAfter_cases o a sc' hsc').2
    simp only [hthr, hlen, hc1', hc2'] at hcases
    have hf := hinv.failed_le
    have hcl := hinv.confirmed_lt
    by_cases he : expired sc
    · left
      have he' : sc'.expiresAt < sc'.updatedAt := he
      simp only [he', ↓reduceIte] at hcases
      exact ⟨he, hcases.1⟩
    · right
      have he' : ¬ sc'.expiresAt < sc'.updatedAt := he
      simp only [he', ↓reduceIte] at hcases
      by_cases h2 : cntSt sc 2 + 1 > (sc.quorum.length : Int) - p.threshold
      · left
        simp only [h2, ↓reduceIte] at hcases
        exact ⟨he, h2, hcases.1⟩
      · right
        simp only [h2, ↓reduceIte] at hcases
        have h3 : (sc.quorum.length : Int) - cntSt sc 1 > (sc.quorum.length : Int) - p.threshold := by omega
        simp only [h3, ↓reduceIte] at hcases
        refine ⟨he, by omega, hcases.1, sc', ?_, hc1', hc2', rfl⟩
        rw [hcases.2]
        exact ⟨hsc', by rw [hlen, hc2', hthr]; omega, by rw [hc1', hthr]; exact hcl⟩

/-- whenever the validator leaves (or puts) the round in `await`, the invariant holds — it is
re-established by the validator's own branch conditions -/
theorem signAfter_await_inv (o : AOut) (a : Arg) (sc : SignConf) (hs : o.payload.sign = some sc)
    (hst : (signAfterValidate o a).state = sAWAIT) : AwaitInv (signAfterValidate o a).payload sc := by
  have hcases := (signAfter_cases o a sc hs).2
  simp only at hcases
  by_cases h1 : sc.expiresAt < sc.updatedAt
  · simp only [h1, ↓reduceIte] at hcases; rw [hcases.1] at hst; cases hst
  · simp only [h1, ↓reduceIte] at hcases
    by_cases h2 : cntSt sc 2 > (sc.quorum.length : Int) - o.payload.threshold
    · simp only [h2, ↓reduceIte] at hcases; rw [hcases.1] at hst; cases hst
    · simp only [h2, ↓reduceIte] at hcases
      by_cases h3 : (sc.quorum.length : Int) - cntSt sc 1 > (sc.quorum.length : Int) - o.payload.threshold
      · simp only [h3, ↓reduceIte] at hcases
        rw [hcases.2]
        exact ⟨hs, by omega, by omega⟩
      · simp only [h3, ↓reduceIte] at hcases; rw [hcases.1] at hst; cases hst

/-- the invariant carried along every run: the instance's machine is the one the pool picks for
its state, and in `await` fewer than `t` have confirmed and at most `n - t` have failed -/
def SignInv (i : Instance) : Prop :=
  poolState i.state = some i.machine ∧ (i.state = sAWAIT → ∃ sc, AwaitInv i.payload sc)

theorem pool_await : poolState sAWAIT = some .sign := by decide
theorem pool_idle : poolState sIDLE = some .sign := by decide

theorem await_unreachable_elsewhere (mid : MachineId) (s : St) (h1 : s ≠ sIDLE) (h2 : s ≠ sAWAIT) :
    cannotReach (machineOf mid) s (fun x => x == sAWAIT) = true := by
  revert h1 h2; cases mid <;> cases s <;> decide

theorem signInv_step (i : Instance) (ea : Ev × Arg) (h : SignInv i) : SignInv (persistStep i ea) := by
  obtain ⟨e, a⟩ := ea
  by_cases hok : (i.doEv e a).2.res = .ok
  · obtain ⟨m, hm, hshape⟩ := C19.persistStep_ok_shape i (e, a) hok
    rw [hshape]
    refine ⟨hm, ?_⟩
    simp only
    intro hst
    have hdo : (i.doEv e a).1.state = (doEvent (machineOf i.machine) runAction i.state i.payload e a).state := rfl
    have hpl : (i.doEv e a).1.payload = (doEvent (machineOf i.machine) runAction i.state i.payload e a).payload := rfl
    have hres : (i.doEv e a).2.res = (doEvent (machineOf i.machine) runAction i.state i.payload e a).res := rfl
    rw [hres] at hok
    rw [hdo] at hst
    rw [hpl]
    by_cases hA : i.state = sAWAIT
    · have hmach : i.machine = .sign := by
        have := h.1; rw [hA, pool_await] at this; exact (Option.some.inj this).symm
      obtain ⟨sc, hinv⟩ := h.2 hA
      rw [hmach, hA] at hok hst ⊢
      change (doEvent signMachine runAction sAWAIT i.payload e a).res = .ok at hok
      change (doEvent signMachine runAction sAWAIT i.payload e a).state = sAWAIT at hst
      change ∃ sc, AwaitInv (doEvent signMachine runAction sAWAIT i.payload e a).payload sc
      by_cases h1 : e = eRECEIVED
      · subst h1
        rcases received_outcome i.payload a sc hinv hok with ⟨_, h'⟩ | ⟨_, _, h'⟩ | ⟨_, _, _, sc', hinv', _⟩
        · rw [h'] at hst; cases hst
        · rw [h'] at hst; cases hst
        · exact ⟨sc', hinv'⟩
      · by_cases h2 : e = eSIGNERR
        · subst h2
          rcases signerr_outcome i.payload a sc hinv hok with ⟨_, h'⟩ | ⟨_, _, h'⟩ | ⟨_, _, _, sc', hinv', _⟩
          · rw [h'] at hst; cases hst
          · rw [h'] at hst; cases hst
          · exact ⟨sc', hinv'⟩
        · rw [doEvent_route (sign_await_other e h1 h2)] at hok; cases hok
    · by_cases hI : i.state = sIDLE
      · have hmach : i.machine = .sign := by
          have := h.1; rw [hI, pool_idle] at this; exact (Option.some.inj this).symm
        rw [hmach, hI] at hok hst ⊢
        change (doEvent signMachine runAction sIDLE i.payload e a).res = .ok at hok
        change (doEvent signMachine runAction sIDLE i.payload e a).state = sAWAIT at hst
        change ∃ sc, AwaitInv (doEvent signMachine runAction sIDLE i.payload e a).payload sc
        by_cases h1 : e = eSTART
        · subst h1
          rw [sign_do_start] at hok hst ⊢
          simp only at hok hst ⊢
          by_cases hr : ((sign_actionStartSigningProposal eSTART i.payload a).res != .ok) = true
          · simp only [hr, ↓reduceIte] at hok
            simp [hok] at hr
          · simp only [hr, Bool.false_eq_true, ↓reduceIte] at hok hst ⊢
            have hok' : (sign_actionStartSigningProposal eSTART i.payload a).res = .ok := by simpa using hr
            obtain ⟨_, b, pid, ts, tasks, sc, dc, _, _, _, _, hp⟩ := (sign_start_spec i.payload a).2 hok'
            exact ⟨_, signAfter_await_inv _ a (startedSign sc dc b pid ts tasks) (by rw [hp]) hst⟩
        · rw [doEvent_route (sign_idle_other e h1)] at hok; cases hok
      · exfalso
        have := cannotReach_sound (act := runAction) (no_before_auto i.machine i.state)
          (await_unreachable_elsewhere i.machine i.state hI hA) (by simpa using hA) i.payload e a
        simp [hst] at this
  · rw [C19.persistStep_not_ok i (e, a) hok]; exact h

/-- **Run theorem.** Along every finite sequence of events (any events, any arguments, accepted or
rejected) applied to a freshly created round, whenever the round waits for partial signatures,
fewer than `t` participants are counted as confirmed and at most `n - t` as failed. Together with
`received_outcome` / `signerr_outcome`: reconstruction starts on the step that brings the count
to exactly `t`, and cancellation on the step that brings the failures above `n - t`. -/
theorem await_invariant (id : String) (evs : List (Ev × Arg)) : SignInv (run (Instance.create id) evs) := by
  apply run_induction signInv_step
  exact ⟨C19.create_consistent id, by intro h; cases h⟩

/-- **returns_to_idle**, table part: the three states a batch can end in all lead back to `idle`
through `event_signing_restart`, nothing else leaves them, and `idle` accepts the next proposal. -/
theorem restart_edges :
    setState signMachine sCOLLECTED eRESTART = some sIDLE ∧
    setState signMachine sCANCERR eRESTART = some sIDLE ∧
    setState signMachine sCANCTO eRESTART = some sIDLE ∧
    setState signMachine sIDLE eSTART = some sAWAIT := by decide

theorem restart_goes_idle (s : St) (hs : s = sCOLLECTED ∨ s = sCANCERR ∨ s = sCANCTO) (p : Payload) (a : Arg) :
    (doEvent signMachine runAction s p eRESTART a).state = sIDLE ∧
    (doEvent signMachine runAction s p eRESTART a).res = .ok ∧
    (doEvent signMachine runAction s p eRESTART a).payload = p := by
  have hcb : callbackOf signMachine eRESTART = some .sign_actionSigningRestart := by decide
  have hau : autoLookup signMachine sIDLE 2 = none := by decide
  rcases hs with h | h | h <;> subst h
  · have hl : lookup signMachine sCOLLECTED eRESTART = some ⟨eRESTART, sIDLE, false, false, 0⟩ := by decide
    rw [doEvent_std hl rfl (no_before_auto .sign _) hcb]
    simp only [runAction, sign_actionSigningRestart, aOk]
    rw [doTrAfter_plain (s1 := sIDLE) (by show setState signMachine _ eRESTART = some sIDLE; decide) hau]; exact ⟨rfl, rfl, rfl⟩
  · have hl : lookup signMachine sCANCERR eRESTART = some ⟨eRESTART, sIDLE, false, false, 0⟩ := by decide
    rw [doEvent_std hl rfl (no_before_auto .sign _) hcb]
    simp only [runAction, sign_actionSigningRestart, aOk]
    rw [doTrAfter_plain (s1 := sIDLE) (by show setState signMachine _ eRESTART = some sIDLE; decide) hau]; exact ⟨rfl, rfl, rfl⟩
  · have hl : lookup signMachine sCANCTO eRESTART = some ⟨eRESTART, sIDLE, false, false, 0⟩ := by decide
    rw [doEvent_std hl rfl (no_before_auto .sign _) hcb]
    simp only [runAction, sign_actionSigningRestart, aOk]
    rw [doTrAfter_plain (s1 := sIDLE) (by show setState signMachine _ eRESTART = some sIDLE; decide) hau]; exact ⟨rfl, rfl, rfl⟩

/-- non-vacuity: n = 3, t = 2, one confirmed, nobody failed satisfies the invariant -/
def exampleConf : SignConf :=
  { createdAt := 0, expiresAt := 10,
    quorum := [{ username := "a", status := 1, updatedAt := 0 }, { username := "b", status := 0, updatedAt := 0 },
               { username := "c", status := 0, updatedAt := 0 }] }

example : AwaitInv { dkgId := "r", threshold := 2, sign := some exampleConf } exampleConf :=
  ⟨rfl, by decide, by decide⟩

end Dc4bcVerif.Props.C06
