/-
  C13, the assumption discharged at the level of the round machines: an event that a round accepted is REFUSED when
  it is applied to the result a second time (`fsm_reapply`, `instance_reapply`). This is what makes handling a
  board message again after a crash harmless: the second handling is a rejection, and a rejection writes nothing
  (C18).

  For every public event of the three generated tables, and every payload whatsoever (no reachability assumption):
  * most events are refused by the table in every state that one `Do` can reach from one of their sources
    (`deadEvent`, decided on the generated tables);
  * the twelve others (confirmations, error reports, partial signatures — their row is a self-loop) are refused by
    their callback: the first application moves the participant's status away from the awaited one, the after-auto
    validator never moves it back, and the callback accepts only the awaited status.
  The time-out branch of an invitation answer leaves the payload alone and is covered by the table (the round is
  then cancelled); that the answer is not accepted again otherwise needs the deadline constant to be non-negative,
  read off fsm/config by the translator.
-/
import Dc4bcVerif.Lemmas.Reapply
import Dc4bcVerif.Lemmas.SignPhase
import Dc4bcVerif.Lemmas.SigPhase
import Dc4bcVerif.Lemmas.DkgPhases
import Dc4bcVerif.Lemmas.MasterKeyPhase
import Dc4bcVerif.Lemmas.NoPanic
import Dc4bcVerif.Model.Instance
import Dc4bcVerif.Model.Run

set_option linter.unusedSimpArgs false
set_option linter.unusedVariables false

namespace Dc4bcVerif.Props.C13Fsm
open Dc4bcVerif.Model Dc4bcVerif.Gen

/-! ### list helpers -/

theorem getAt_setAt_self {α : Type} (l : List α) (id : Int) (old v : α) (h : getAt l id = some old) :
    getAt (setAt l id v) id = some v := by
  obtain ⟨h0, hi⟩ := getAt_some h
  unfold getAt setAt
  have : ¬ id < 0 := by omega
  simp only [this, ↓reduceIte]
  have hlt : id.toNat < l.length := by
    rcases Nat.lt_or_ge id.toNat l.length with h' | h'
    · exact h'
    · rw [List.getElem?_eq_none h'] at hi; cases hi
  simp [List.getElem?_set, hlt]

theorem getAt_map {α β : Type} (f : α → β) (l : List α) (id : Int) : getAt (l.map f) id = (getAt l id).map f := by
  unfold getAt
  split
  · rfl
  · simp

/-- every state `ev` can lead to (from anywhere) is dead for `e` -/
def deadVia (m : MachineDesc) (e ev : Ev) : Bool := St.all.all (fun c => (setState m c ev).all (deadAt m e))

theorem deadVia_sound {m : MachineDesc} {e ev : Ev} (h : deadVia m e ev = true) (cur s1 : St)
    (hs : setState m cur ev = some s1) : deadAt m e s1 = true := by
  unfold deadVia at h
  rw [List.all_eq_true] at h
  have := h cur (St.mem_all cur)
  rw [hs] at this
  simpa using this

/-- the table refuses `e` after every `Do` that starts in one of its sources -/
def deadEvent (m : MachineDesc) (e : Ev) : Bool :=
  St.all.all (fun c => !(lookup m c e).isSome || (succs m c).all (deadAt m e))

theorem deadEvent_sound {m : MachineDesc} {e : Ev} (h : deadEvent m e = true) (c : St) (hc : (lookup m c e).isSome = true) :
    (succs m c).all (deadAt m e) = true := by
  unfold deadEvent at h
  rw [List.all_eq_true] at h
  have := h c (St.mem_all c)
  simpa [hc] using this

theorem no_before (m : MachineId) : ∀ s, autoLookup (machineOf m) s 1 = none := fun s => no_before_auto m s

theorem autoAfter_cb {m : MachineDesc} {e ev : Ev} {vid : ActionId} (h : (ev, some vid) ∈ autoAfter m e) :
    callbackOf m ev = some vid := by
  unfold autoAfter at h
  rw [List.mem_flatMap] at h
  obtain ⟨c, _, h⟩ := h
  rw [List.mem_filterMap] at h
  obtain ⟨s1, _, h⟩ := h
  cases hau : autoLookup m s1 2 with
  | none => simp [hau] at h
  | some au =>
    simp only [hau, Option.map_some, Option.some.injEq, Prod.mk.injEq] at h
    rw [← h.1]; exact h.2

/-- the engine lemma with the refusal split in two: `Q` rules out acceptance, `Safe` (kept by every callback of the
machine) rules out a panic -/
theorem reapply_with_safe (mid : MachineId) (e : Ev) (a : Arg) (aid : ActionId) (hcb : callbackOf (machineOf mid) e = some aid)
    (Q Safe : Payload → Prop)
    (hsafe : ∀ aid' ∈ (machineOf mid).callbacks.map (·.2), ∀ (e' : Ev) (p : Payload) (a' : Arg), Safe p →
      (aid' = aid → (runAction aid' e' p a').res ≠ .panic) ∧ Safe (runAction aid' e' p a').payload)
    (hq2 : ∀ p, Q p → (runAction aid e p a).res ≠ .ok)
    (hq3 : ∀ p, (runAction aid e p a).res = .ok → Safe p ∧ (Q (runAction aid e p a).payload ∨
      ∀ cur s1, (lookup (machineOf mid) cur e).isSome = true →
        setState (machineOf mid) cur ((runAction aid e p a).outEvent.getD e) = some s1 → deadAt (machineOf mid) e s1 = true))
    (hq1 : ∀ ev vid, (ev, some vid) ∈ autoAfter (machineOf mid) e → ∀ p, Q p → Q (runAction vid ev p a).payload)
    (cur : St) (p : Payload) (hok : (doEvent (machineOf mid) runAction cur p e a).res = .ok) :
    (doEvent (machineOf mid) runAction (doEvent (machineOf mid) runAction cur p e a).state
      (doEvent (machineOf mid) runAction cur p e a).payload e a).res = .err := by
  refine doEvent_reapply (machineOf mid) runAction e a (no_before mid) aid hcb (fun p => Q p ∧ Safe p) ?_ ?_ ?_ cur p hok
  · intro p ⟨hq, hs⟩
    have h1 := hq2 p hq
    have h2 := (hsafe aid (callbackOf_mem hcb) e p a hs).1 rfl
    cases hr : (runAction aid e p a).res with
    | ok => exact absurd hr h1
    | panic => exact absurd hr h2
    | err => rfl
  · intro p hr
    obtain ⟨hs, h⟩ := hq3 p hr
    rcases h with h | h
    · left; exact ⟨h, (hsafe aid (callbackOf_mem hcb) e p a hs).2⟩
    · right; exact h
  · intro ev vid hmem p ⟨hq, hs⟩
    exact ⟨hq1 ev vid hmem p hq, (hsafe vid (callbackOf_mem (autoAfter_cb hmem)) ev p a hs).2⟩

abbrev Reapply (m : MachineDesc) (e : Ev) : Prop :=
  ∀ (a : Arg) (cur : St) (p : Payload), (doEvent m runAction cur p e a).res = .ok →
    (doEvent m runAction (doEvent m runAction cur p e a).state (doEvent m runAction cur p e a).payload e a).res = .err

/-- the callback refuses this argument outright -/
theorem never_ok (m : MachineDesc) (mid : MachineId) (hm : machineOf mid = m) (e : Ev) (aid : ActionId) (hcb : callbackOf m e = some aid) (a : Arg)
    (h : ∀ p, (runAction aid e p a).res = .err) (cur : St) (p : Payload) (hok : (doEvent m runAction cur p e a).res = .ok) : False := by
  subst hm
  have := doEvent_refused _ runAction e a (no_before mid) aid hcb cur p (Or.inl (h p))
  rw [this] at hok; cases hok

/-! ### the invitation machine -/

/-- participant `pid` has answered, and its answer is not older than the deadline allows at time `ts` -/
def QSig (pid : Int) (ts : Time) (p : Payload) : Prop :=
  ∀ sc, p.sig = some sc → ∀ part, getAt sc.quorum pid = some part →
    part.status ≠ 0 ∧ ¬ (part.updatedAt + Config.signatureProposalConfirmationDeadline < ts)

theorem not_late (x d : Int) (h : 0 ≤ d) : ¬ (x + d < x) := by omega

theorem deadline_nonneg : (0 : Int) ≤ Config.signatureProposalConfirmationDeadline := by decide

theorem sig_resp_reapply (e : Ev) (he : e = .e_event_sig_proposal_confirm_by_participant ∨ e = .e_event_sig_proposal_decline_by_participant)
    (a : Arg) (cur : St) (p : Payload) (hok : (doEvent sigMachine runAction cur p e a).res = .ok) :
    (doEvent sigMachine runAction (doEvent sigMachine runAction cur p e a).state (doEvent sigMachine runAction cur p e a).payload e a).res = .err := by
  have hcb : callbackOf sigMachine e = some .sig_actionProposalResponseByParticipant := by
    rcases he with rfl | rfl <;> decide
  cases a with
  | sigPart pid ts =>
    refine reapply_with_safe .sig e _ _ hcb (QSig pid ts) SafeSig (fun x hx e' p a' hs => ⟨fun _ => (sig_safe x hx e' p a' hs).1, (sig_safe x hx e' p a' hs).2⟩) ?_ ?_ ?_ cur p hok
    · -- refused under Q
      intro p hq hr
      rw [runAction_sig_resp] at hr
      obtain ⟨pid', ts', sc, part, ha, hs, hg, h⟩ := (sig_resp_spec p e (.sigPart pid ts)).2.2 hr
      injection ha with h1 h2
      subst h1; subst h2
      obtain ⟨hq1, hq2⟩ := hq sc hs part hg
      rcases h with ⟨hto, _⟩ | ⟨_, hst, _⟩
      · exact hq2 hto
      · exact hq1 hst
    · -- established, or the round is cancelled by time-out
      intro p hr
      rw [runAction_sig_resp] at hr ⊢
      obtain ⟨pid', ts', sc, part, ha, hs, hg, h⟩ := (sig_resp_spec p e (.sigPart pid ts)).2.2 hr
      injection ha with h1 h2
      subst h1; subst h2
      refine ⟨by simp [SafeSig, hs], ?_⟩
      rcases h with ⟨_, hout, _⟩ | ⟨_, _, _, st, hst, hpl⟩
      · right
        rw [hout]
        intro c s1 _ hs1
        have hd : deadVia sigMachine e .e_event_sig_proposal_canceled_timeout = true := by
          rcases he with rfl | rfl <;> decide
        exact deadVia_sound hd c s1 hs1
      · left
        rw [hpl]
        intro sc' hsc' part' hg'
        simp only [Option.some.injEq] at hsc'
        subst hsc'
        simp only at hg'
        rw [getAt_setAt_self _ _ _ _ hg] at hg'
        simp only [Option.some.injEq] at hg'
        subst hg'
        constructor
        · rcases hst with ⟨_, rfl⟩ | ⟨_, rfl, _⟩ <;> simp
        · exact not_late _ _ deadline_nonneg
    · -- the validator leaves the payload alone
      intro ev vid hmem p hq
      have hv : vid = .sig_actionValidateSignatureProposal := by
        have : ∀ x ∈ autoAfter sigMachine e, x.2 = some .sig_actionValidateSignatureProposal := by
          rcases he with rfl | rfl <;> decide
        have := this _ hmem
        simpa using this
      subst hv
      show QSig pid ts (sig_actionValidateSignatureProposal ev p (.sigPart pid ts)).payload
      unfold sig_actionValidateSignatureProposal
      split
      · exact hq
      · dsimp only
        split
        · exact hq
        · split
          · exact hq
          · split
            · exact hq
            · exact hq
  | _ =>
    -- any other argument: the callback refuses it the first time already
    exact (never_ok sigMachine .sig rfl e .sig_actionProposalResponseByParticipant hcb _
      (fun p => by simp [runAction, sig_actionProposalResponseByParticipant, aErr]) cur p hok).elim

/-! ### the key-generation machine -/

/-- participant `pid` is not in status `awaitSt` -/
def QDkg (awaitSt : Nat) (pid : Int) (p : Payload) : Prop :=
  ∀ dc, p.dkg = some dc → ∀ part, getAt dc.quorum pid = some part → part.status ≠ awaitSt

theorem QDkg_map (awaitSt : Nat) (pid : Int) (p : Payload) (dc : DkgConf) (f : DkgPart → DkgPart) (st : Nat)
    (hf : ∀ q, (f q).status = st) (hne : st ≠ awaitSt) (dc' : DkgConf) (hq : dc'.quorum = dc.quorum.map f) :
    QDkg awaitSt pid { p with dkg := some dc' } := by
  intro dc2 h2 part hg
  simp only [Option.some.injEq] at h2
  subst h2
  rw [hq, getAt_map] at hg
  cases hg0 : getAt dc.quorum pid with
  | none => simp [hg0] at hg
  | some q0 =>
    simp only [hg0, Option.map_some, Option.some.injEq] at hg
    subst hg
    rw [hf]; exact hne

theorem dkgValidate_keeps (awaitSt : Nat) (pid : Int) (p : Payload) (errSt okSt nextAwait : Nat) (t1 t2 t3 : Ev)
    (mk : List DkgPart → RespData) (hne : nextAwait ≠ awaitSt) (hq : QDkg awaitSt pid p) :
    QDkg awaitSt pid (dkgValidate p errSt okSt nextAwait t1 t2 t3 mk).payload := by
  unfold dkgValidate
  cases hd : p.dkg with
  | none => simpa [aPanic] using hq
  | some dc =>
    dsimp only
    split
    · exact hq
    · split
      · exact hq
      · split
        · exact hq
        · exact QDkg_map awaitSt pid p dc _ nextAwait (fun _ => rfl) hne _ rfl

theorem mkValidate_keeps (awaitSt : Nat) (pid : Int) (p : Payload) (e : Ev) (a : Arg) (h10 : 10 ≠ awaitSt) (h11 : 11 ≠ awaitSt)
    (hq : QDkg awaitSt pid p) : QDkg awaitSt pid (dkg_actionValidateDkgProposalAwaitMasterKey e p a).payload := by
  unfold dkg_actionValidateDkgProposalAwaitMasterKey
  cases hd : p.dkg with
  | none => simpa [aPanic] using hq
  | some dc =>
    dsimp only
    split
    · exact hq
    · split
      · exact hq
      · split
        · exact QDkg_map awaitSt pid p dc _ 11 (fun _ => rfl) h11 _ rfl
        · split
          · exact hq
          · exact QDkg_map awaitSt pid p dc _ 10 (fun _ => rfl) h10 _ rfl

/-- the after-auto validators that can follow a key-generation event keep `QDkg awaitSt`, for the awaited status of
the event's own phase -/
def phaseAwait (e : Ev) : Option Nat :=
  if e = .e_event_dkg_commit_confirm_received ∨ e = .e_event_dkg_commit_confirm_canceled_by_error then some 0
  else if e = .e_event_dkg_deal_confirm_received ∨ e = .e_event_dkg_deal_confirm_canceled_by_error then some 3
  else if e = .e_event_dkg_response_confirm_received ∨ e = .e_event_dkg_response_confirm_canceled_by_error then some 6
  else if e = .e_event_dkg_master_key_confirm_received ∨ e = .e_event_dkg_master_key_confirm_canceled_by_error then some 9
  else none

/-- which validators may follow `e`, as a check on the generated table -/
def validatorsOk (e : Ev) (allowed : List ActionId) : Bool :=
  (autoAfter dkgMachine e).all (fun x => match x.2 with | some v => allowed.contains v | none => false)

theorem dkg_validators_keep (e : Ev) (awaitSt : Nat) (pid : Int) (a : Arg)
    (hcase :
      (awaitSt = 0 ∧ validatorsOk e [.dkg_actionValidateDkgProposalAwaitCommits, .dkg_actionValidateDkgProposalAwaitDeals] = true) ∨
      (awaitSt = 3 ∧ validatorsOk e [.dkg_actionValidateDkgProposalAwaitDeals, .dkg_actionValidateDkgProposalAwaitResponses] = true) ∨
      (awaitSt = 6 ∧ validatorsOk e [.dkg_actionValidateDkgProposalAwaitResponses, .dkg_actionValidateDkgProposalAwaitMasterKey] = true) ∨
      (awaitSt = 9 ∧ validatorsOk e [.dkg_actionValidateDkgProposalAwaitMasterKey] = true)) :
    ∀ ev vid, (ev, some vid) ∈ autoAfter dkgMachine e → ∀ p, QDkg awaitSt pid p → QDkg awaitSt pid (runAction vid ev p a).payload := by
  intro ev vid hmem p hq
  have hall : ∀ allowed, validatorsOk e allowed = true → vid ∈ allowed := by
    intro allowed h
    unfold validatorsOk at h
    rw [List.all_eq_true] at h
    have := h _ hmem
    simpa using this
  rcases hcase with ⟨rfl, h⟩ | ⟨rfl, h⟩ | ⟨rfl, h⟩ | ⟨rfl, h⟩
  · have := hall _ h
    simp only [List.mem_cons, List.not_mem_nil, or_false] at this
    rcases this with rfl | rfl
    · exact dkgValidate_keeps 0 pid p _ _ 3 _ _ _ _ (by decide) hq
    · exact dkgValidate_keeps 0 pid p _ _ 6 _ _ _ _ (by decide) hq
  · have := hall _ h
    simp only [List.mem_cons, List.not_mem_nil, or_false] at this
    rcases this with rfl | rfl
    · exact dkgValidate_keeps 3 pid p _ _ 6 _ _ _ _ (by decide) hq
    · exact dkgValidate_keeps 3 pid p _ _ 9 _ _ _ _ (by decide) hq
  · have := hall _ h
    simp only [List.mem_cons, List.not_mem_nil, or_false] at this
    rcases this with rfl | rfl
    · exact dkgValidate_keeps 6 pid p _ _ 9 _ _ _ _ (by decide) hq
    · exact mkValidate_keeps 6 pid p ev a (by decide) (by decide) hq
  · have := hall _ h
    simp only [List.mem_cons, List.not_mem_nil, or_false] at this
    subst this
    exact mkValidate_keeps 9 pid p ev a (by decide) (by decide) hq

/-- a confirmation of the commits / deals / responses phases -/
theorem dkg_received_reapply (e : Ev) (aid : ActionId) (hcb : callbackOf dkgMachine e = some aid) (a : Arg)
    (pid : Int) (ts : Time) (dataEmpty : Bool) (awaitSt newSt : Nat) (upd : DkgPart → DkgPart)
    (hact : ∀ p, runAction aid e p a = dkgReceived p pid ts dataEmpty awaitSt newSt upd) (hne : newSt ≠ awaitSt)
    (hval : ∀ ev vid, (ev, some vid) ∈ autoAfter dkgMachine e → ∀ p, QDkg awaitSt pid p → QDkg awaitSt pid (runAction vid ev p a).payload)
    (cur : St) (p : Payload) (hok : (doEvent dkgMachine runAction cur p e a).res = .ok) :
    (doEvent dkgMachine runAction (doEvent dkgMachine runAction cur p e a).state (doEvent dkgMachine runAction cur p e a).payload e a).res = .err := by
  refine reapply_with_safe .dkg e a aid hcb (QDkg awaitSt pid) SafeDkg (fun x hx e' p a' hs => ⟨fun _ => (dkg_safe x hx e' p a' hs).1, (dkg_safe x hx e' p a' hs).2⟩) ?_ ?_ hval cur p hok
  · intro p hq hr
    rw [hact] at hr
    obtain ⟨dc, part, hd, hg, hst, _⟩ := (dkgReceived_spec p pid ts dataEmpty awaitSt newSt upd).2.2.2.1 hr
    exact hq dc hd part hg hst
  · intro p hr
    rw [hact] at hr ⊢
    obtain ⟨dc, part, hd, hg, hst, _, _, hpl⟩ := (dkgReceived_spec p pid ts dataEmpty awaitSt newSt upd).2.2.2.1 hr
    refine ⟨by simp [SafeDkg, hd], ?_⟩
    left
    rw [hpl]
    intro dc' h' part' hg'
    simp only [Option.some.injEq] at h'
    subst h'
    simp only at hg'
    rw [getAt_setAt_self _ _ _ _ hg] at hg'
    simp only [Option.some.injEq] at hg'
    subst hg'
    exact hne

theorem commit_reapply : Reapply dkgMachine .e_event_dkg_commit_confirm_received := by
  intro a cur p hok
  cases a with
  | commit pid data ts =>
    exact dkg_received_reapply _ .dkg_actionCommitConfirmationReceived (by decide) _ pid ts data.isEmpty 0 1 _ (fun _ => rfl) (by decide)
      (dkg_validators_keep _ 0 pid _ (Or.inl ⟨rfl, by decide⟩)) cur p hok
  | _ => exact (never_ok dkgMachine .dkg rfl _ .dkg_actionCommitConfirmationReceived (by decide) _ (fun p => by simp [runAction, dkg_actionCommitConfirmationReceived, aErr]) cur p hok).elim

theorem deal_reapply : Reapply dkgMachine .e_event_dkg_deal_confirm_received := by
  intro a cur p hok
  cases a with
  | deal pid data ts =>
    exact dkg_received_reapply _ .dkg_actionDealConfirmationReceived (by decide) _ pid ts data.isEmpty 3 4 _ (fun _ => rfl) (by decide)
      (dkg_validators_keep _ 3 pid _ (Or.inr (Or.inl ⟨rfl, by decide⟩))) cur p hok
  | _ => exact (never_ok dkgMachine .dkg rfl _ .dkg_actionDealConfirmationReceived (by decide) _ (fun p => by simp [runAction, dkg_actionDealConfirmationReceived, aErr]) cur p hok).elim

theorem response_reapply : Reapply dkgMachine .e_event_dkg_response_confirm_received := by
  intro a cur p hok
  cases a with
  | response pid data ts =>
    exact dkg_received_reapply _ .dkg_actionResponseConfirmationReceived (by decide) _ pid ts data.isEmpty 6 7 _ (fun _ => rfl) (by decide)
      (dkg_validators_keep _ 6 pid _ (Or.inr (Or.inr (Or.inl ⟨rfl, by decide⟩)))) cur p hok
  | _ => exact (never_ok dkgMachine .dkg rfl _ .dkg_actionResponseConfirmationReceived (by decide) _ (fun p => by simp [runAction, dkg_actionResponseConfirmationReceived, aErr]) cur p hok).elim

/-- what an accepted error report of the key generation is and does -/
theorem confErr_spec (e : Ev) (p : Payload) (a : Arg) (awaitSt : Nat) (hph : phaseAwait e = some awaitSt) :
    (dkg_actionConfirmationError e p a).res = .ok →
    ∃ pid err ts dc part errSt, a = .dkgErr pid err ts ∧ p.dkg = some dc ∧ getAt dc.quorum pid = some part ∧ part.status = awaitSt ∧
      errSt ≠ awaitSt ∧ (dkg_actionConfirmationError e p a).outEvent = none ∧
      (dkg_actionConfirmationError e p a).payload = { p with dkg := some { dc with
        quorum := setAt dc.quorum pid { part with status := errSt, error := err, updatedAt := ts }, updatedAt := ts } } := by
  intro hr
  unfold dkg_actionConfirmationError at hr ⊢
  cases a with
  | dkgErr pid err ts =>
    dsimp only at hr ⊢
    split at hr
    · simp [aErr] at hr
    · rename_i hbad
      simp only [hbad, Bool.false_eq_true, ↓reduceIte]
      cases hd : p.dkg with
      | none => simp [hd, aPanic] at hr
      | some dc =>
        simp only [hd] at hr ⊢
        cases hg : getAt dc.quorum pid with
        | none => simp [hg, aErr] at hr
        | some part =>
          simp only [hg] at hr ⊢
          unfold phaseAwait at hph
          by_cases h0 : e = .e_event_dkg_commit_confirm_canceled_by_error
          · subst h0
            simp only [beq_self_eq_true, ↓reduceIte] at hr ⊢
            simp at hph; subst hph
            by_cases hst : part.status = 0
            · simp only [hst, bne_self_eq_false, Bool.false_eq_true, ↓reduceIte, aOk] at hr ⊢
              exact ⟨pid, err, ts, dc, part, 2, rfl, rfl, hg, hst, by decide, trivial, rfl⟩
            · have : (part.status != 0) = true := by simpa using hst
              simp [this, aErr] at hr
          · by_cases h1 : e = .e_event_dkg_deal_confirm_canceled_by_error
            · subst h1
              simp only [beq_self_eq_true, ↓reduceIte, reduceCtorEq, beq_iff_eq] at hr ⊢
              simp at hph; subst hph
              by_cases hst : part.status = 3
              · simp only [hst, bne_self_eq_false, Bool.false_eq_true, ↓reduceIte, aOk] at hr ⊢
                exact ⟨pid, err, ts, dc, part, 5, rfl, rfl, hg, hst, by decide, trivial, rfl⟩
              · have : (part.status != 3) = true := by simpa using hst
                simp [this, aErr] at hr
            · by_cases h2 : e = .e_event_dkg_response_confirm_canceled_by_error
              · subst h2
                simp only [beq_self_eq_true, ↓reduceIte, reduceCtorEq, beq_iff_eq] at hr ⊢
                simp at hph; subst hph
                by_cases hst : part.status = 6
                · simp only [hst, bne_self_eq_false, Bool.false_eq_true, ↓reduceIte, aOk] at hr ⊢
                  exact ⟨pid, err, ts, dc, part, 8, rfl, rfl, hg, hst, by decide, trivial, rfl⟩
                · have : (part.status != 6) = true := by simpa using hst
                  simp [this, aErr] at hr
              · by_cases h3 : e = .e_event_dkg_master_key_confirm_canceled_by_error
                · subst h3
                  simp only [beq_self_eq_true, ↓reduceIte, reduceCtorEq, beq_iff_eq] at hr ⊢
                  simp at hph; subst hph
                  by_cases hst : part.status = 9
                  · simp only [hst, bne_self_eq_false, Bool.false_eq_true, ↓reduceIte, aOk] at hr ⊢
                    exact ⟨pid, err, ts, dc, part, 11, rfl, rfl, hg, hst, by decide, trivial, rfl⟩
                  · have : (part.status != 9) = true := by simpa using hst
                    simp [this, aErr] at hr
                · have e0 : (e == Ev.e_event_dkg_commit_confirm_canceled_by_error) = false := by simpa using h0
                  have e1 : (e == Ev.e_event_dkg_deal_confirm_canceled_by_error) = false := by simpa using h1
                  have e2 : (e == Ev.e_event_dkg_response_confirm_canceled_by_error) = false := by simpa using h2
                  have e3 : (e == Ev.e_event_dkg_master_key_confirm_canceled_by_error) = false := by simpa using h3
                  simp [e0, e1, e2, e3, aErr] at hr
  | _ => simp [aErr] at hr

theorem dkg_error_reapply (e : Ev) (awaitSt : Nat) (hph : phaseAwait e = some awaitSt)
    (hcb : callbackOf dkgMachine e = some .dkg_actionConfirmationError)
    (hval : ∀ pid a, ∀ ev vid, (ev, some vid) ∈ autoAfter dkgMachine e → ∀ p, QDkg awaitSt pid p → QDkg awaitSt pid (runAction vid ev p a).payload) :
    Reapply dkgMachine e := by
  intro a cur p hok
  cases a with
  | dkgErr pid err ts =>
    refine reapply_with_safe .dkg e _ _ hcb (QDkg awaitSt pid) SafeDkg (fun x hx e' p a' hs => ⟨fun _ => (dkg_safe x hx e' p a' hs).1, (dkg_safe x hx e' p a' hs).2⟩) ?_ ?_ (hval pid _) cur p hok
    · intro p hq hr
      obtain ⟨pid', err', ts', dc, part, errSt, ha, hd, hg, hst, _⟩ := confErr_spec e p _ awaitSt hph hr
      injection ha with h1 h2 h3
      subst h1
      exact hq dc hd part hg hst
    · intro p hr
      obtain ⟨pid', err', ts', dc, part, errSt, ha, hd, hg, hst, hne, _, hpl⟩ := confErr_spec e p _ awaitSt hph hr
      injection ha with h1 h2 h3
      subst h1
      refine ⟨by simp [SafeDkg, hd], ?_⟩
      left
      show QDkg awaitSt pid (dkg_actionConfirmationError e p _).payload
      rw [hpl]
      intro dc' h' part' hg'
      simp only [Option.some.injEq] at h'
      subst h'
      simp only at hg'
      rw [getAt_setAt_self _ _ _ _ hg] at hg'
      simp only [Option.some.injEq] at hg'
      subst hg'
      exact hne
  | _ =>
    exact (never_ok dkgMachine .dkg rfl e .dkg_actionConfirmationError hcb _
      (fun p => by simp [runAction, dkg_actionConfirmationError, aErr]) cur p hok).elim

theorem commit_error_reapply : Reapply dkgMachine .e_event_dkg_commit_confirm_canceled_by_error :=
  dkg_error_reapply _ 0 (by decide) (by decide) (fun pid a => dkg_validators_keep _ 0 pid a (Or.inl ⟨rfl, by decide⟩))
theorem deal_error_reapply : Reapply dkgMachine .e_event_dkg_deal_confirm_canceled_by_error :=
  dkg_error_reapply _ 3 (by decide) (by decide) (fun pid a => dkg_validators_keep _ 3 pid a (Or.inr (Or.inl ⟨rfl, by decide⟩)))
theorem response_error_reapply : Reapply dkgMachine .e_event_dkg_response_confirm_canceled_by_error :=
  dkg_error_reapply _ 6 (by decide) (by decide) (fun pid a => dkg_validators_keep _ 6 pid a (Or.inr (Or.inr (Or.inl ⟨rfl, by decide⟩))))
theorem mk_error_reapply : Reapply dkgMachine .e_event_dkg_master_key_confirm_canceled_by_error :=
  dkg_error_reapply _ 9 (by decide) (by decide) (fun pid a => dkg_validators_keep _ 9 pid a (Or.inr (Or.inr (Or.inr ⟨rfl, by decide⟩))))

theorem mk_reapply : Reapply dkgMachine .e_event_dkg_master_key_confirm_received := by
  intro a cur p hok
  cases a with
  | masterKey pid key ts poly =>
    refine reapply_with_safe .dkg _ _ .dkg_actionMasterKeyConfirmationReceived (by decide) (QDkg 9 pid) SafeDkg (fun x hx e' p a' hs => ⟨fun _ => (dkg_safe x hx e' p a' hs).1, (dkg_safe x hx e' p a' hs).2⟩) ?_ ?_
      (dkg_validators_keep _ 9 pid _ (Or.inr (Or.inr (Or.inr ⟨rfl, by decide⟩)))) cur p hok
    · intro p hq hr
      obtain ⟨pid', key', ts', poly', dc, part, ha, hd, hg, hst, _⟩ := (mk_received_spec p _).2 hr
      injection ha with h1 h2 h3 h4
      subst h1
      exact hq dc hd part hg hst
    · intro p hr
      obtain ⟨pid', key', ts', poly', dc, part, ha, hd, hg, hst, h⟩ := (mk_received_spec p _).2 hr
      injection ha with h1 h2 h3 h4
      subst h1; subst h2; subst h3; subst h4
      refine ⟨by simp [SafeDkg, hd], ?_⟩
      rcases h with ⟨_, _, hout⟩ | ⟨_, _, _, hpl⟩
      · right
        show ∀ c s1, _ → setState dkgMachine c ((dkg_actionMasterKeyConfirmationReceived _ p _).outEvent.getD _) = some s1 → _
        rw [hout]
        intro c s1 _ hs1
        exact deadVia_sound (by decide) c s1 hs1
      · left
        show QDkg 9 pid (dkg_actionMasterKeyConfirmationReceived _ p _).payload
        rw [hpl]
        intro dc' h' part' hg'
        simp only [Option.some.injEq] at h'
        subst h'
        simp only at hg'
        rw [getAt_setAt_self _ _ _ _ hg] at hg'
        simp only [Option.some.injEq] at hg'
        subst hg'
        show (10 : Nat) ≠ 9
        decide
  | _ =>
    exact (never_ok dkgMachine .dkg rfl _ .dkg_actionMasterKeyConfirmationReceived (by decide) _
      (fun p => by simp [runAction, dkg_actionMasterKeyConfirmationReceived, aErr]) cur p hok).elim

/-! ### the signing machine -/

/-- participant `pid` of the current batch has answered -/
def QSign (pid : Int) (p : Payload) : Prop :=
  ∀ sc, p.sign = some sc → ∀ part, getAt sc.quorum pid = some part → part.status ≠ 0

theorem signValidate_keeps (pid : Int) (p : Payload) (e : Ev) (a : Arg) (hq : QSign pid p) :
    QSign pid (sign_actionValidateSigningPartialSignsAwaitConfirmations e p a).payload := by
  unfold sign_actionValidateSigningPartialSignsAwaitConfirmations
  cases hs : p.sign with
  | none => simpa [aPanic] using hq
  | some sc =>
    dsimp only
    split
    · exact hq
    · split
      · exact hq
      · split
        · exact hq
        · intro sc' h' part hg
          simp only [aOk, Option.some.injEq] at h'
          subst h'
          simp only at hg
          rw [getAt_map] at hg
          cases hg0 : getAt sc.quorum pid with
          | none => simp [hg0] at hg
          | some q0 =>
            simp only [hg0, Option.map_some, Option.some.injEq] at hg
            subst hg
            show (3 : Nat) ≠ 0
            decide

/-- the parts the answers to a batch work on -/
def SafeS (p : Payload) : Prop := p.sig.isSome = true ∧ p.sign.isSome = true

/-- with the invitation part and the signing part present, no callback of the signing machine panics except the
one that starts a batch (which also reads the key-generation part); `SafeS` is kept by all of them -/
theorem signS_safe : ∀ aid ∈ signMachine.callbacks.map (·.2), ∀ (e : Ev) (p : Payload) (a : Arg), SafeS p →
    (aid ≠ .sign_actionStartSigningProposal → (runAction aid e p a).res ≠ .panic) ∧ SafeS (runAction aid e p a).payload := by
  intro aid hmem e p a hs
  unfold SafeS at *
  rcases sign_cb_cases aid hmem with h | h | h | h | h | h <;> subst h <;> simp only [runAction]
  · unfold sign_actionInitSigningProposal
    (repeat' split) <;> simp_all [aErr, aOk, aPanic]
  · unfold sign_actionStartSigningProposal
    (repeat' split) <;> simp_all [aErr, aOk, aPanic]
  · unfold sign_actionPartialSignConfirmationReceived
    branches
  · unfold sign_actionValidateSigningPartialSignsAwaitConfirmations
    branches
  · unfold sign_actionConfirmationError
    branches
  · unfold sign_actionSigningRestart
    simp_all [aOk]

theorem sign_validators (e : Ev) (h : (autoAfter signMachine e).all (fun x => x.2 == some .sign_actionValidateSigningPartialSignsAwaitConfirmations) = true)
    (pid : Int) (a : Arg) :
    ∀ ev vid, (ev, some vid) ∈ autoAfter signMachine e → ∀ p, QSign pid p → QSign pid (runAction vid ev p a).payload := by
  intro ev vid hmem p hq
  rw [List.all_eq_true] at h
  have := h _ hmem
  simp only [beq_iff_eq, Option.some.injEq] at this
  subst this
  exact signValidate_keeps pid p ev a hq

theorem partial_sign_reapply : Reapply signMachine .e_event_signing_partial_sign_received := by
  intro a cur p hok
  cases a with
  | partialSigns b pid signs ts =>
    refine reapply_with_safe .sign _ _ .sign_actionPartialSignConfirmationReceived (by decide) (QSign pid) SafeS (fun x hx e' p a' hs => ⟨fun h => (signS_safe x hx e' p a' hs).1 (by rw [h]; decide), (signS_safe x hx e' p a' hs).2⟩) ?_ ?_
      (sign_validators _ (by decide) pid _) cur p hok
    · intro p hq hr
      obtain ⟨b', pid', signs', ts', sc, part, sg, ps, ha, hs, _, _, hg, hst, _⟩ := (sign_received_spec p _ _).2.2.2 hr
      injection ha with h1 h2 h3 h4
      subst h2
      exact hq sc hs part hg hst
    · intro p hr
      obtain ⟨b', pid', signs', ts', sc, part, sg, ps, ha, hs, hsg, _, hg, hst, hpl⟩ := (sign_received_spec p _ _).2.2.2 hr
      injection ha with h1 h2 h3 h4
      subst h2
      refine ⟨by simp [SafeS, hs, hsg], ?_⟩
      left
      show QSign pid (sign_actionPartialSignConfirmationReceived _ p _).payload
      rw [hpl]
      intro sc' h' part' hg'
      simp only [Option.some.injEq] at h'
      subst h'
      simp only at hg'
      rw [getAt_setAt_self _ _ _ _ hg] at hg'
      simp only [Option.some.injEq] at hg'
      subst hg'
      show (1 : Nat) ≠ 0
      decide
  | _ =>
    exact (never_ok signMachine .sign rfl _ .sign_actionPartialSignConfirmationReceived (by decide) _
      (fun p => by simp [runAction, sign_actionPartialSignConfirmationReceived, aErr]) cur p hok).elim

theorem sign_error_reapply : Reapply signMachine .e_event_signing_partial_sign_error_received := by
  intro a cur p hok
  cases a with
  | signErr pid err ts =>
    refine reapply_with_safe .sign _ _ .sign_actionConfirmationError (by decide) (QSign pid) SafeS (fun x hx e' p a' hs => ⟨fun h => (signS_safe x hx e' p a' hs).1 (by rw [h]; decide), (signS_safe x hx e' p a' hs).2⟩) ?_ ?_
      (sign_validators _ (by decide) pid _) cur p hok
    · intro p hq hr
      obtain ⟨pid', err', ts', sc, part, sg, ha, hs, _, hg, hst, _⟩ := (sign_signerr_spec p _).2.2.2 hr
      injection ha with h1 h2 h3
      subst h1
      exact hq sc hs part hg hst
    · intro p hr
      obtain ⟨pid', err', ts', sc, part, sg, ha, hs, hsg, hg, hst, hpl⟩ := (sign_signerr_spec p _).2.2.2 hr
      injection ha with h1 h2 h3
      subst h1
      refine ⟨by simp [SafeS, hs, hsg], ?_⟩
      left
      show QSign pid (sign_actionConfirmationError _ p _).payload
      rw [hpl]
      intro sc' h' part' hg'
      simp only [Option.some.injEq] at h'
      subst h'
      simp only at hg'
      rw [getAt_setAt_self _ _ _ _ hg] at hg'
      simp only [Option.some.injEq] at hg'
      subst hg'
      show (2 : Nat) ≠ 0
      decide
  | _ =>
    exact (never_ok signMachine .sign rfl _ .sign_actionConfirmationError (by decide) _
      (fun p => by simp [runAction, sign_actionConfirmationError, aErr]) cur p hok).elim

/-! ### all events of all machines -/

/-- an event the table refuses after every `Do` that accepted it -/
theorem dead_reapply (mid : MachineId) (e : Ev) (aid : ActionId) (hcb : callbackOf (machineOf mid) e = some aid)
    (hd : deadEvent (machineOf mid) e = true) : Reapply (machineOf mid) e := by
  intro a cur p hok
  exact doEvent_reapply_table (machineOf mid) runAction e a (no_before mid) aid hcb (deadEvent_sound hd) cur p hok

/-- an event that is not a public row of the machine at all is never accepted -/
theorem absent_never_ok (m : MachineDesc) (e : Ev) (h : St.all.all (fun s => refusesAt m e s) = true)
    (a : Arg) (cur : St) (p : Payload) : (doEvent m runAction cur p e a).res = .err := by
  rw [List.all_eq_true] at h
  have := h cur (St.mem_all cur)
  unfold refusesAt at this
  rw [doEvent_route this]

/-- classification of every event of a machine, decided on the generated tables: not a public row at all; or dead after
one `Do`; or one of the twelve self-loop events treated above -/
def special : List Ev := [
  .e_event_sig_proposal_confirm_by_participant, .e_event_sig_proposal_decline_by_participant,
  .e_event_dkg_commit_confirm_received, .e_event_dkg_commit_confirm_canceled_by_error,
  .e_event_dkg_deal_confirm_received, .e_event_dkg_deal_confirm_canceled_by_error,
  .e_event_dkg_response_confirm_received, .e_event_dkg_response_confirm_canceled_by_error,
  .e_event_dkg_master_key_confirm_received, .e_event_dkg_master_key_confirm_canceled_by_error,
  .e_event_signing_partial_sign_received, .e_event_signing_partial_sign_error_received]

def classified (mid : MachineId) (e : Ev) : Bool :=
  St.all.all (fun s => refusesAt (machineOf mid) e s) ||
  ((callbackOf (machineOf mid) e).isSome && deadEvent (machineOf mid) e) ||
  special.contains e

theorem all_classified : ∀ mid ∈ [MachineId.sig, .dkg, .sign], ∀ e ∈ Ev.all, classified mid e = true := by decide

theorem machine_cases (mid : MachineId) : mid ∈ [MachineId.sig, .dkg, .sign] := by cases mid <;> decide

/-- **Every event, every machine, every payload:** what `Do` accepted it refuses the second time. -/
theorem fsm_reapply (mid : MachineId) (e : Ev) : Reapply (machineOf mid) e := by
  have hc := all_classified mid (machine_cases mid) e (Ev.mem_all e)
  unfold classified at hc
  simp only [Bool.or_eq_true, Bool.and_eq_true] at hc
  rcases hc with (h | ⟨hcb, hd⟩) | hs
  · intro a cur p hok
    exact absurd hok (by rw [absent_never_ok _ e h a cur p]; simp)
  · cases hcb' : callbackOf (machineOf mid) e with
    | none => simp [hcb'] at hcb
    | some aid => exact dead_reapply mid e aid hcb' hd
  · have absent : St.all.all (fun s => refusesAt (machineOf mid) e s) = true → Reapply (machineOf mid) e :=
      fun h a cur p hok => absurd hok (by rw [absent_never_ok _ e h a cur p]; simp)
    unfold special at hs
    simp only [List.contains_eq_mem, List.mem_cons, List.not_mem_nil, or_false, decide_eq_true_eq] at hs
    rcases hs with rfl | rfl | rfl | rfl | rfl | rfl | rfl | rfl | rfl | rfl | rfl | rfl
    · cases mid
      · exact fun a cur p hok => sig_resp_reapply _ (Or.inl rfl) a cur p hok
      · exact absent (by decide)
      · exact absent (by decide)
    · cases mid
      · exact fun a cur p hok => sig_resp_reapply _ (Or.inr rfl) a cur p hok
      · exact absent (by decide)
      · exact absent (by decide)
    · cases mid
      · exact absent (by decide)
      · exact commit_reapply
      · exact absent (by decide)
    · cases mid
      · exact absent (by decide)
      · exact commit_error_reapply
      · exact absent (by decide)
    · cases mid
      · exact absent (by decide)
      · exact deal_reapply
      · exact absent (by decide)
    · cases mid
      · exact absent (by decide)
      · exact deal_error_reapply
      · exact absent (by decide)
    · cases mid
      · exact absent (by decide)
      · exact response_reapply
      · exact absent (by decide)
    · cases mid
      · exact absent (by decide)
      · exact response_error_reapply
      · exact absent (by decide)
    · cases mid
      · exact absent (by decide)
      · exact mk_reapply
      · exact absent (by decide)
    · cases mid
      · exact absent (by decide)
      · exact mk_error_reapply
      · exact absent (by decide)
    · cases mid
      · exact absent (by decide)
      · exact absent (by decide)
      · exact partial_sign_reapply
    · cases mid
      · exact absent (by decide)
      · exact absent (by decide)
      · exact sign_error_reapply

/-- the events of the three machines are disjoint: an event with a row in one machine has none in another -/
theorem events_disjoint : ∀ e ∈ Ev.all, ∀ m1 ∈ [MachineId.sig, .dkg, .sign], ∀ m2 ∈ [MachineId.sig, .dkg, .sign], m1 ≠ m2 →
    St.all.any (fun s => (lookup (machineOf m1) s e).isSome) = true → St.all.all (fun s => refusesAt (machineOf m2) e s) = true := by
  decide

/-- **The same for a stored round**, as the node handles it: the round is dumped after the event, loaded again from
the dump (which may select another of the three machines — the hand-over states belong to two), and given the same
event with the same argument: it refuses. -/
theorem instance_reapply (i : Instance) (e : Ev) (a : Arg) (hok : (i.doEv e a).2.res = .ok)
    (r : Instance) (hr : Instance.restore (i.doEv e a).1.dumpState (i.doEv e a).1.payload = some r) :
    (r.doEv e a).2.res = .err := by
  -- the dump state of an accepted event is the state reached
  unfold Instance.restore at hr
  cases hds : (i.doEv e a).1.dumpState with
  | none => simp [hds] at hr
  | some s =>
    simp only [hds] at hr
    cases hps : poolState s with
    | none => simp [hps] at hr
    | some m' =>
      simp only [hps, Option.map_some, Option.some.injEq] at hr
      subst hr
      -- what the first `Do` returned
      have hdo : (i.doEv e a).2 = doEvent (machineOf i.machine) runAction i.state i.payload e a := rfl
      rw [hdo] at hok
      obtain ⟨d, hresp⟩ := doEvent_ok_state (machineOf i.machine) runAction i.state i.payload e a hok
      have hs : s = (doEvent (machineOf i.machine) runAction i.state i.payload e a).state := by
        have : (i.doEv e a).1.dumpState = some (doEvent (machineOf i.machine) runAction i.state i.payload e a).state := by
          unfold Instance.doEv
          simp only
          rw [hresp]
        rw [hds] at this
        exact Option.some.inj this
      have hpl : (i.doEv e a).1.payload = (doEvent (machineOf i.machine) runAction i.state i.payload e a).payload := rfl
      show (doEvent (machineOf m') runAction s (i.doEv e a).1.payload e a).res = .err
      rw [hpl, hs]
      by_cases hm : m' = i.machine
      · subst hm
        exact fsm_reapply _ e a i.state i.payload hok
      · -- another machine: it has no row for an event of this one
        have hsrc : St.all.any (fun s => (lookup (machineOf i.machine) s e).isSome) = true := by
          rw [List.any_eq_true]
          refine ⟨i.state, St.mem_all _, ?_⟩
          cases hl : lookup (machineOf i.machine) i.state e with
          | none => unfold doEvent at hok; simp [hl] at hok
          | some tr => rfl
        have := events_disjoint e (Ev.mem_all e) i.machine (machine_cases _) m' (machine_cases _) (fun h => hm h.symm) hsrc
        exact absent_never_ok _ e this a _ _

/-- non-vacuity: in a round with two invited participants the first confirmation is accepted (so the premise of
`instance_reapply` is met by a reachable round), the round can be loaded again from its dump, and — as the theorem
says — the same confirmation is then refused -/
def twoInvited : Instance := run (Instance.create "r")
  [(eSigInit, .sigInit [⟨"alice", [1,2,3,4,5,6,7,8,9,10], [1,2,3,4,5,6,7,8,9,10]⟩, ⟨"bobby", [1,2,3,4,5,6,7,8,9,10], [1,2,3,4,5,6,7,8,9,10]⟩] 2 1000)]

example : (twoInvited.doEv eSigConfirm (.sigPart 0 1001)).2.res = .ok := by decide +kernel
example : (Instance.restore (twoInvited.doEv eSigConfirm (.sigPart 0 1001)).1.dumpState
    (twoInvited.doEv eSigConfirm (.sigPart 0 1001)).1.payload).isSome = true := by decide +kernel
example : ∀ r, Instance.restore (twoInvited.doEv eSigConfirm (.sigPart 0 1001)).1.dumpState
    (twoInvited.doEv eSigConfirm (.sigPart 0 1001)).1.payload = some r → (r.doEv eSigConfirm (.sigPart 0 1001)).2.res = .err :=
  fun r hr => instance_reapply twoInvited eSigConfirm (.sigPart 0 1001) (by decide +kernel) r hr

end Dc4bcVerif.Props.C13Fsm
