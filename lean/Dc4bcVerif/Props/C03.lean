/-
  C03 — what gets signed is exactly what was proposed.

  Model: `Tasks.tasksToMessages` mirrors `requests.TasksToMessages` / `ReconstructBakedMessage`
  (the single expansion used by the airgapped signer, by reconstruction and by the signature
  store). The three consumers are modelled as the code has them: all three walk the expanded list
  in order and key what they keep by message id, the last entry for an id winning
  (`PartialSigns[MessageID] = …` in the FSM, `messages[m.MessageID] = m` in
  `reconstructThresholdSignature`, `AddReconstructedSignature` replacing the entry of the same user).
-/
import Dc4bcVerif.Model.Tasks
import Dc4bcVerif.Props.C17

namespace Dc4bcVerif.Props.C03
open Dc4bcVerif.Model Dc4bcVerif.Model.Tasks

/-- the expansion of an explicit task is exactly that payload, id and file name, byte for byte -/
theorem explicit_payload_exact (t : Task) (p : Bytes) (h : t.payload = some p) :
    tasksToMessages [t] = .ok [{ messageId := t.messageId, file := t.file, payload := some p }] := by
  simp [tasksToMessages, taskMsgs, h]

/-- **order_preserved**: the expansion is a list homomorphism — the messages of a batch are the
messages of its tasks, in task order (so every participant, running the same function on the
same proposal bytes, obtains the same ordered list) -/
theorem expansion_append (a b : List Task) (ma mb : List Msg)
    (ha : tasksToMessages a = .ok ma) (hb : tasksToMessages b = .ok mb) :
    tasksToMessages (a ++ b) = .ok (ma ++ mb) := by
  induction a generalizing ma with
  | nil => simp [tasksToMessages] at ha; subst ha; simpa using hb
  | cons t rest ih =>
    simp only [List.cons_append, tasksToMessages] at ha ⊢
    cases hh : taskMsgs t with
    | error e => simp [hh] at ha
    | ok m1 =>
      cases hr : tasksToMessages rest with
      | error e => simp [hh, hr] at ha
      | ok mr =>
        simp only [hh, hr, Except.ok.injEq] at ha
        rw [ih mr hr]
        simp [← ha]

/-- a failing lookup anywhere aborts the whole expansion: nothing is signed for a proposal that
reaches outside the list (no partial batch) -/
theorem expansion_fails_atomically (t : Task) (rest : List Task) (e : LookupRes)
    (h : taskMsgs t = .error e) : tasksToMessages (t :: rest) = .error e := by
  simp [tasksToMessages, h]

/-- messages produced for a range: one per position `start … start+k-1`, in order, each carrying
the validator index found at that position; `C17.code_eq_spec` says what its payload is -/
theorem range_messages (k : Nat) (start : Int) (ms : List Msg) (h : rangeMsgs k start = .ok ms) :
    ms.length = k ∧ ∀ j (hj : j < ms.length), ∃ v, reconstructBaked (start + j) = .ok v ∧
      ms[j] = { messageId := toString v, file := "bakedrange" ++ toString (start + j), payload := none, baked := some v } := by
  induction k generalizing start ms with
  | zero => simp [rangeMsgs] at h; subst h; exact ⟨rfl, by intro j hj; cases hj⟩
  | succ k ih =>
    simp only [rangeMsgs] at h
    cases hb : reconstructBaked start with
    | ok v =>
      simp only [hb] at h
      cases hr : rangeMsgs k (start + 1) with
      | error e => simp [hr] at h
      | ok rest =>
        simp only [hr] at h
        cases h
        obtain ⟨hl, hall⟩ := ih (start + 1) rest hr
        refine ⟨by simp [hl], ?_⟩
        intro j hj
        cases j with
        | zero => exact ⟨v, by simpa using hb, by simp⟩
        | succ j' =>
          have hj' : j' < rest.length := by simpa using hj
          obtain ⟨v', hv', hm⟩ := hall j' hj'
          refine ⟨v', ?_, ?_⟩
          · have : start + ((j' + 1 : Nat) : Int) = start + 1 + (j' : Int) := by omega
            rw [this]; exact hv'
          · have : start + ((j' + 1 : Nat) : Int) = start + 1 + (j' : Int) := by omega
            simp only [List.getElem_cons_succ, this]; exact hm
    | errRange => simp [hb] at h
    | errParse => simp [hb] at h
    | panic => simp [hb] at h

/-- the last message carrying a given id (what a map keyed by id retains after walking the list) -/
def lastWith (id : String) (ms : List Msg) : Option Msg := (ms.filter (fun m => m.messageId == id)).getLast?

/-- airgapped signer: signs every message in order; the FSM then keeps `PartialSigns[id]` -/
def signerKeeps (sign : Msg → Bytes) (ms : List Msg) : List (String × Bytes) :=
  ms.foldl (fun acc m => assocSet acc m.messageId (sign m)) []

/-- reconstruction: `messages[m.MessageID] = m` -/
def reconstructKeeps (ms : List Msg) : List (String × Msg) :=
  ms.foldl (fun acc m => assocSet acc m.messageId m) []

def assocGet {β : Type} (l : List (String × β)) (k : String) : Option β := (l.find? (fun p => p.1 == k)).map (·.2)

theorem assocGet_assocSet {β : Type} (l : List (String × β)) (k k' : String) (v : β) :
    assocGet (assocSet l k v) k' = if k = k' then some v else assocGet l k' := by
  induction l with
  | nil => by_cases h : k = k' <;> simp [assocSet, assocGet, List.find?, h]
  | cons x t ih =>
    obtain ⟨kx, vx⟩ := x
    unfold assocSet
    by_cases hx : kx = k
    · subst hx
      by_cases h : kx = k'
      · simp [assocGet, List.find?, h]
      · have h' : (kx == k') = false := beq_false_of_ne h
        simp [assocGet, List.find?, h, h']
    · have hx' : (kx == k) = false := beq_false_of_ne hx
      simp only [hx', Bool.false_eq_true, ↓reduceIte]
      by_cases h : kx = k'
      · subst h
        have : ¬ k = kx := fun e => hx e.symm
        simp [assocGet, List.find?, this]
      · have h' : (kx == k') = false := beq_false_of_ne h
        have hk : ¬ k = k' ∨ k = k' := by by_cases e : k = k' <;> simp [e]
        unfold assocGet at ih ⊢
        simp only [List.find?, h']
        exact ih

theorem foldl_keeps_last {β : Type} (f : Msg → β) (ms : List Msg) (init : List (String × β)) (id : String) :
    assocGet (ms.foldl (fun acc m => assocSet acc m.messageId (f m)) init) id =
      match lastWith id ms with
      | some m => some (f m)
      | none => assocGet init id := by
  induction ms generalizing init with
  | nil => simp [lastWith]
  | cons m rest ih =>
    simp only [List.foldl_cons]
    rw [ih]
    unfold lastWith
    simp only [List.filter_cons]
    by_cases hm : m.messageId = id
    · simp only [hm, beq_self_eq_true, ↓reduceIte]
      cases hr : (rest.filter (fun m => m.messageId == id)).getLast? with
      | none =>
        have : rest.filter (fun m => m.messageId == id) = [] := by simpa using hr
        simp [this, assocGet_assocSet, hm]
      | some x =>
        have hne : rest.filter (fun m => m.messageId == id) ≠ [] := by intro h; simp [h] at hr
        rw [List.getLast?_cons_of_ne_nil hne] at *
        simp [hr]
    · have : (m.messageId == id) = false := beq_false_of_ne hm
      simp only [this, Bool.false_eq_true, ↓reduceIte]
      cases hr : (rest.filter (fun m => m.messageId == id)).getLast? with
      | none => simp [assocGet_assocSet, hm]
      | some x => rfl

/-- **consumers_agree.** For every message id of the batch, the bytes the signer signed (and the FSM
kept), and the message reconstruction verifies against, are those of one and the same expanded
message: the last one carrying that id. -/
theorem consumers_agree (sign : Msg → Bytes) (ms : List Msg) (id : String) :
    assocGet (signerKeeps sign ms) id = (assocGet (reconstructKeeps ms) id).map sign := by
  unfold signerKeeps reconstructKeeps
  rw [foldl_keeps_last sign ms [] id, foldl_keeps_last (fun m => m) ms [] id]
  cases lastWith id ms <;> simp [assocGet]

/-- non-vacuity: a mixed batch (explicit payload, then positions 0 and 1 of the baked list) -/
example : (match tasksToMessages [⟨"m1", "f", some [1, 2], 0, 0⟩, ⟨"r", "", none, 0, 2⟩] with
    | .ok ms => ms == [⟨"m1", "f", some [1, 2], none⟩, ⟨"52694", "bakedrange0", none, some 52694⟩,
                       ⟨"52695", "bakedrange1", none, some 52695⟩]
    | .error _ => false) = true := by
  decide +kernel

end Dc4bcVerif.Props.C03
