/-
  C20 / C08, node layer — the re-initialisation handler (`reinitDKG`, model `Model/NodeOps.lean reinitDKG`,
  tied by nodediff's `reinit` operations).

  * `reinit_existing_round_noop`: a reinit message for a round the node already holds changes nothing;
  * `reinit_other_rounds_untouched`: whatever the dump contains (messages of other rounds, junk, forged messages), the
    dumps and signature stores of all OTHER rounds are exactly what they were (C08 for the reinit path);
  * `reinit_loop_eq_consume`: for a dump without 0.1.4 patches, replaying it gives the round the view a node gets by
    consuming the same messages from the board one by one — the handler IS the ordinary message handler with the ordinary
    verification; with C08 `round_state_function_of_round_log` that is the view the original nodes had of the round after
    the same prefix of its log (same participants, threshold, statuses, contributions, public polynomial);
  * `reinit_keys`: on success the stored round is that replayed round with the new communication keys written over the
    old ones, saved under `dkg_id`.
-/
import Dc4bcVerif.Props.C08

namespace Dc4bcVerif.Props.C20Node
open Dc4bcVerif.Gen Dc4bcVerif.Model Dc4bcVerif.Model.Node Dc4bcVerif.Lemmas.NodeLocal Dc4bcVerif.Props

theorem reinit_existing_round_noop (st : NodeSt) (req : ReinitReq) (now : Time) (payloadOf : Tasks.Msg → Bytes)
    (hb : blankId req.dkgId = false) (h : (lookupS st.rounds req.dkgId).isSome = true) :
    (reinitDKG st req now payloadOf).st = st ∧ (reinitDKG st req now payloadOf).out = .ok := by
  unfold reinitDKG; simp [h, hb]

/-- whatever the file says, a re-initialisation of a round that exists leaves the node as it was -/
theorem reinit_existing_round_same_state (st : NodeSt) (req : ReinitReq) (now : Time) (payloadOf : Tasks.Msg → Bytes)
    (h : (lookupS st.rounds req.dkgId).isSome = true) : (reinitDKG st req now payloadOf).st = st := by
  unfold reinitDKG; split <;> simp [h]

/-- rounds and signature stores other than `R`'s are the same in `a` and `b` -/
def OthersSame (R : String) (a b : NodeSt) : Prop :=
  (∀ r, r ≠ R → lookupS b.rounds r = lookupS a.rounds r) ∧ (∀ r, r ≠ R → lookupS b.sigs r = lookupS a.sigs r)

theorem OthersSame.refl (R : String) (a : NodeSt) : OthersSame R a a := ⟨fun _ _ => rfl, fun _ _ => rfl⟩
theorem OthersSame.trans {R : String} {a b c : NodeSt} (h1 : OthersSame R a b) (h2 : OthersSame R b c) : OthersSame R a c :=
  ⟨fun r hr => (h2.1 r hr).trans (h1.1 r hr), fun r hr => (h2.2 r hr).trans (h1.2 r hr)⟩

theorem reinitStep_others (R : String) (skip0 : Bool) (now : Time) (payloadOf : Tasks.Msg → Bytes) (acc : NodeSt × List NOp) (im : InnerMsg)
    (hr : im.msg.round = R) : OthersSame R acc.1 (reinitStep skip0 now payloadOf acc im).1 := by
  unfold reinitStep
  have h := C08.round_noninterference { acc.1 with skipVerify := skip0 || im.patch } im.msg now payloadOf
  rw [hr] at h
  exact ⟨fun r hne => h.1 r hne, fun r hne => h.2.1 r hne⟩

theorem fold_others (R : String) (skip0 : Bool) (now : Time) (payloadOf : Tasks.Msg → Bytes) (l : List InnerMsg)
    (hl : ∀ im ∈ l, im.msg.round = R) (acc : NodeSt × List NOp) :
    OthersSame R acc.1 (l.foldl (reinitStep skip0 now payloadOf) acc).1 := by
  induction l generalizing acc with
  | nil => exact OthersSame.refl _ _
  | cons im rest ih =>
    simp only [List.foldl_cons]
    exact (reinitStep_others R skip0 now payloadOf acc im (hl im (List.mem_cons_self ..))).trans
      (ih (fun x hx => hl x (List.mem_cons_of_mem _ hx)) _)

theorem replayed_round (self R : String) (im : InnerMsg) (h : replayed self R im = true) : im.msg.round = R := by
  unfold replayed at h
  simp only [Bool.and_eq_true, beq_iff_eq] at h
  exact h.1

/-- **reinit_other_rounds_untouched.** -/
theorem reinit_other_rounds_untouched (st : NodeSt) (req : ReinitReq) (now : Time) (payloadOf : Tasks.Msg → Bytes) :
    OthersSame req.dkgId st (reinitDKG st req now payloadOf).st := by
  unfold reinitDKG
  split
  · exact OthersSame.refl _ _
  split
  · exact OthersSame.refl _ _
  · have hloop : OthersSame req.dkgId st (reinitLoop st.self req.dkgId st.skipVerify now payloadOf st req.inner).1 := by
      unfold reinitLoop
      exact fold_others req.dkgId _ now payloadOf _ (fun im him => replayed_round st.self req.dkgId im (List.mem_filter.mp him).2) (st, [])
    cases hl : reinitLoop st.self req.dkgId st.skipVerify now payloadOf st req.inner with
    | mk st1 ops =>
      rw [hl] at hloop
      simp only
      cases hp : putOperation st1 ⟨"reinit_dkg", req.dkgId, .reinitOps (ops.map (·.type))⟩ with
      | none => exact hloop
      | some st2 =>
        have h12 : OthersSame req.dkgId st1 st2 := by
          unfold putOperation at hp
          split at hp
          · cases hp
          · simp only [Option.some.injEq] at hp; rw [← hp]; exact OthersSame.refl _ _
        simp only
        cases hg : getInstance st2 req.dkgId with
        | none => exact hloop.trans h12
        | some pr =>
          obtain ⟨st3, inst⟩ := pr
          simp only
          refine (hloop.trans h12).trans ⟨fun r hr => ?_, fun _ _ => rfl⟩
          exact C08.saveFSM_other st2 req.dkgId r _ hr

-- ───────────── the replay is the ordinary consumption of the same messages ─────────────

theorem skip_preserved (st : NodeSt) (m : NMsg) (now : Time) (payloadOf : Tasks.Msg → Bytes) :
    (processMessage st m now payloadOf).st.skipVerify = st.skipVerify :=
  (C08.round_noninterference st m now payloadOf).2.2

theorem top_skip_preserved (st : NodeSt) (m : NMsg) (now : Time) (payloadOf : Tasks.Msg → Bytes) :
    (processMessageTop st m now payloadOf).st.skipVerify = st.skipVerify :=
  (C08.round_noninterference_top st m now payloadOf).2.2

/-- **reinit_loop_eq_consume.** For messages of round `R` none of which is a 0.1.4 patch: replaying them with the
re-initialisation loop, from a state whose view of `R` is that of `b`, ends with the view of `R` that `b` gets by
handling the same messages as ordinary board messages. -/
theorem reinit_loop_eq_consume (R : String) (skip0 : Bool) (now : Time) (payloadOf : Tasks.Msg → Bytes) (l : List InnerMsg)
    (hl : ∀ im ∈ l, im.msg.round = R ∧ im.patch = false) :
    ∀ (a b : NodeSt) (ops : List NOp), ViewEq R a b → a.skipVerify = skip0 →
      ViewEq R (l.foldl (reinitStep skip0 now payloadOf) (a, ops)).1 (C08.consume payloadOf b (l.map (fun im => (im.msg, now)))) := by
  induction l with
  | nil => intro a b ops h _; exact h
  | cons im rest ih =>
    intro a b ops h hskip
    obtain ⟨hr, hp⟩ := hl im (List.mem_cons_self ..)
    simp only [List.foldl_cons, List.map_cons]
    unfold C08.consume
    simp only [List.foldl_cons]
    have hsame : ({ a with skipVerify := skip0 || im.patch } : NodeSt) = a := by
      rw [hp, Bool.or_false, ← hskip]
    have hstep : (reinitStep skip0 now payloadOf (a, ops) im).1 = { (processMessage a im.msg now payloadOf).st with skipVerify := skip0 } := by
      unfold reinitStep
      simp only [hsame]
    -- views after the step
    have hv1 : ViewEq R (processMessage a im.msg now payloadOf).st (processMessage b im.msg now payloadOf).st := by
      have := (view_processMessage im.msg (hr ▸ h) now payloadOf).1
      rw [hr] at this
      exact this
    have hv2 : ViewEq R (processMessage b im.msg now payloadOf).st (processMessageTop b im.msg now payloadOf).st :=
      (top_view R b im.msg now payloadOf).symm
    have hv : ViewEq R (reinitStep skip0 now payloadOf (a, ops) im).1 (processMessageTop b im.msg now payloadOf).st := by
      rw [hstep]
      refine ⟨(hv1.trans hv2).1, (hv1.trans hv2).2.1, ?_⟩
      simp only
      rw [top_skip_preserved, ← h.2.2, hskip]
    have hsk : (reinitStep skip0 now payloadOf (a, ops) im).1.skipVerify = skip0 := by rw [hstep]
    have := ih (fun x hx => hl x (List.mem_cons_of_mem _ hx)) (reinitStep skip0 now payloadOf (a, ops) im).1
      (processMessageTop b im.msg now payloadOf).st (reinitStep skip0 now payloadOf (a, ops) im).2 hv hsk
    unfold C08.consume at this
    exact this

/-- **reinit_keys.** When the re-initialisation succeeds the round stored under `dkg_id` is the replayed round with the
new communication keys written over the registered ones. -/
theorem reinit_keys (st : NodeSt) (req : ReinitReq) (now : Time) (payloadOf : Tasks.Msg → Bytes)
    (hnew : (lookupS st.rounds req.dkgId).isSome = false) (hok : (reinitDKG st req now payloadOf).out = .ok) :
    ∃ st2 inst st3, getInstance st2 req.dkgId = some (st3, inst) ∧
      lookupS (reinitDKG st req now payloadOf).st.rounds req.dkgId =
        some (inst.dumpState, { inst.payload with
          pubKeys := req.participants.foldl (fun acc nk => assocSet acc nk.1 nk.2) inst.payload.pubKeys }) := by
  unfold reinitDKG at hok ⊢
  have hb : blankId req.dkgId = false := by
    cases hbb : blankId req.dkgId with
    | false => rfl
    | true => simp [hbb] at hok
  simp only [hb, hnew, Bool.false_eq_true, ↓reduceIte] at hok ⊢
  cases hl : reinitLoop st.self req.dkgId st.skipVerify now payloadOf st req.inner with
  | mk st1 ops =>
    simp only [hl] at hok ⊢
    cases hp : putOperation st1 ⟨"reinit_dkg", req.dkgId, .reinitOps (ops.map (·.type))⟩ with
    | none => simp [hp] at hok
    | some st2 =>
      simp only [hp] at hok ⊢
      cases hg : getInstance st2 req.dkgId with
      | none => simp [hg] at hok
      | some pr =>
        obtain ⟨st3, inst⟩ := pr
        simp only
        refine ⟨st2, inst, st3, hg, ?_⟩
        simp only [saveFSM]
        exact lookupS_assocSet_eq _ _ _

/-- **signing messages do not matter** (the repair of the former known finding C20-early-signing-proposal). A message of
the signing phase - a signing proposal posted while the key generation had hardly begun, accepted by nobody; the batches of
another round; partial signatures, reconstructed signatures - changes nothing about the replay, wherever it stands in the
file: in particular the key-generation messages AFTER it are replayed. Until fix `c405ec9` the file and the replay were cut
at the first `event_signing_start`. -/
theorem signing_messages_do_not_matter (self R : String) (skip0 : Bool) (now : Time) (payloadOf : Tasks.Msg → Bytes) (st : NodeSt)
    (before after : List InnerMsg) (p : InnerMsg) (hp : signingPhaseEvent p.msg.event = true) :
    reinitLoop self R skip0 now payloadOf st (before ++ p :: after) = reinitLoop self R skip0 now payloadOf st (before ++ after) := by
  unfold reinitLoop beforeSigning
  simp [List.filter_append, List.filter_cons, hp]

/-- what the pinned tree did, for the record: everything after the first signing proposal was dropped -/
def cutAtFirstSigningProposal (inner : List InnerMsg) : List InnerMsg := inner.takeWhile (fun im => im.msg.event != "event_signing_start")

/-- on a log whose signing phase begins after the key generation (every log of an undisturbed ceremony) nothing has changed:
the messages before the first signing proposal are replayed, exactly those, if only signing messages follow it -/
theorem same_as_the_cut_on_ordinary_logs (keygen signing : List InnerMsg)
    (hk : ∀ im ∈ keygen, signingPhaseEvent im.msg.event = false) (hs : ∀ im ∈ signing, signingPhaseEvent im.msg.event = true) :
    beforeSigning (keygen ++ signing) = keygen := by
  unfold beforeSigning
  rw [List.filter_append]
  have h1 : keygen.filter (fun im => !signingPhaseEvent im.msg.event) = keygen := by
    apply List.filter_eq_self.mpr
    intro im him; simp [hk im him]
  have h2 : signing.filter (fun im => !signingPhaseEvent im.msg.event) = [] := by
    apply List.filter_eq_nil_iff.mpr
    intro im him; simp [hs im him]
  rw [h1, h2, List.append_nil]

end Dc4bcVerif.Props.C20Node
