/-
  C09 — no state change without a valid signature by the claimed sender's registered key.

  Model: `Node.processMessage` (M-NODE). ed25519 verification is the oracle field
  `m.validKeys` (the set of keys under which (Data, Signature) verifies), universally quantified
  here: the theorems hold whatever that set is.
-/
import Dc4bcVerif.Model.NodeOps

namespace Dc4bcVerif.Props.C09
open Dc4bcVerif.Gen Dc4bcVerif.Model Dc4bcVerif.Model.Node

/-- what "the signature verifies under the key registered in the round for the named sender" means -/
def signedByRegisteredSender (inst : Instance) (m : NMsg) : Prop :=
  ∃ key, lookupS inst.payload.pubKeys m.sender = some key ∧ key.length = 32 ∧ key ∈ m.validKeys ∧ m.sender ≠ ""

/-- `verifyMessage` succeeds exactly when verification is switched off by the operator / during
re-initialisation, or the signature verifies under the sender's registered key -/
theorem verify_ok_iff (st : NodeSt) (inst : Instance) (m : NMsg) :
    verifyMessage st inst m = .ok ↔ (st.skipVerify = true ∨ signedByRegisteredSender inst m) := by
  unfold verifyMessage signedByRegisteredSender
  by_cases hs : st.skipVerify = true
  · simp [hs]
  · simp only [hs, Bool.false_eq_true, ↓reduceIte, false_or]
    by_cases he : inst.payload.pubKeys.isEmpty = true
    · have hl : lookupS inst.payload.pubKeys m.sender = none := by
        have : inst.payload.pubKeys = [] := by simpa using he
        simp [lookupS, this]
      simp [he, hl]
    · simp only [he, Bool.false_eq_true, ↓reduceIte]
      by_cases hn : m.sender = ""
      · simp [hn]
      · have hn' : (m.sender == "") = false := by simp [hn]
        simp only [hn', Bool.false_eq_true, ↓reduceIte]
        cases hl : lookupS inst.payload.pubKeys m.sender with
        | none => simp
        | some key =>
          simp only
          by_cases hk : key.length = 32
          · have hk' : (key.length != 32) = false := by simp [hk]
            simp only [hk', Bool.false_eq_true, ↓reduceIte]
            by_cases hv : m.validKeys.contains key = true
            · simp only [hv, ↓reduceIte, true_iff]
              exact ⟨key, rfl, hk, by simpa using hv, hn⟩
            · simp only [hv, Bool.false_eq_true, ↓reduceIte, reduceCtorEq, false_iff]
              rintro ⟨k, hk1, _, hk3, _⟩
              cases hk1
              exact hv (by simpa using hk3)
          · have hk' : (key.length != 32) = true := by simp [hk]
            simp only [hk', ↓reduceIte, reduceCtorEq, false_iff]
            rintro ⟨k, hk1, hk2, _, _⟩
            cases hk1
            exact hk hk2

theorem verify_never_panics (st : NodeSt) (inst : Instance) (m : NMsg) : verifyMessage st inst m ≠ .panic := by
  unfold verifyMessage
  repeat' split
  all_goals simp

/-- **unsigned_noop.** Apart from the opening proposal, a message whose signature does not verify
under the key registered for its named sender (altered payload, altered / missing signature,
unknown sender, any other key) is rejected, nothing is posted, no operation is created, and the node
state is literally the value it was: every round (no entry is created for an unknown round id either —
fix "leave no trace of a rejected message"), the operation pool, the tombstones and the signature store. -/
theorem unsigned_noop (st : NodeSt) (m : NMsg) (now : Time) (payloadOf : Tasks.Msg → Bytes)
    (hev : m.event ≠ "event_sig_proposal_init") (hskip : st.skipVerify = false)
    (hbad : ∀ st1 inst, getInstance st m.round = some (st1, inst) → ¬ signedByRegisteredSender inst m) :
    let r := processMessage st m now payloadOf
    r.out = .reject ∧ r.op = none ∧ r.sent = [] ∧ r.st = st := by
  unfold processMessage
  cases hg : getInstance st m.round with
  | none => simp [rejectWith]
  | some pr =>
    obtain ⟨st1, inst⟩ := pr
    have hev' : (m.event == "event_sig_proposal_init") = false := by simp [hev]
    simp only [hev', Bool.false_eq_true, ↓reduceIte]
    have hst1 : st1 = st := by
      unfold getInstance at hg
      cases hl : lookupS st.rounds m.round with
      | some v =>
        obtain ⟨ds, p⟩ := v
        simp only [hl] at hg
        cases hr : Instance.restore ds p with
        | none => simp [hr] at hg
        | some i => simp [hr] at hg; exact hg.1.symm
      | none =>
        simp only [hl] at hg
        split at hg
        · cases hg
        · simp at hg; exact hg.1.symm
    have hsk1 : st1.skipVerify = false := by rw [hst1]; exact hskip
    have hv : verifyMessage st1 inst m = .reject := by
      have h1 := verify_ok_iff st1 inst m
      have h2 := verify_never_panics st1 inst m
      cases hvv : verifyMessage st1 inst m with
      | ok => exact absurd (h1.mp hvv) (by simp [hsk1, hbad st1 inst hg])
      | reject => rfl
      | panic => exact absurd hvv h2
    simp only [hv, rejectWith, true_and]
    exact hst1

/-- **guard_in_source.** In the message handler of /repo (regenerated on every run): the statement that calls `verifyMessage`
comes right after loading the round (`GetFSMInstance` and its error check are the only calls before it), and the only
messages it lets through unverified are those whose event is the opening proposal — the model's `processMessage` has
exactly this shape. (The re-initialisation message is dispatched before the handler, in `ProcessMessage`.) -/
theorem guard_in_source :
    Gen.NodeGlue.verifyGuard = (2, "fsm.Event(message.Event) != event_sig_proposal_init", ["s.fsmService.GetFSMInstance", "fmt.Errorf"]) := by
  decide

/-- non-vacuity: a registered sender, a signature that verifies under somebody else's key only -/
example : ¬ signedByRegisteredSender
    { machine := .sig, state := .s_state_sig_proposal_await_participants_confirmations, dumpState := none,
      payload := { dkgId := "r", pubKeys := [("alice", List.replicate 32 1), ("bobby", List.replicate 32 2)] } }
    { round := "r", event := "event_sig_proposal_confirm_by_participant", sender := "alice", recipient := "",
      arg := none, validKeys := [List.replicate 32 2] } := by
  rintro ⟨k, hk, _, hv, _⟩
  simp [lookupS] at hk
  subst hk
  simp at hv

end Dc4bcVerif.Props.C09
