/-
  C14 — API requests concurrent with polling behave as if executed one at a time.

  * `interleaving_eq_serial`: if every step of one activity commutes with every step of the other, EVERY
    interleaving of the two (any number of pre-emptions) ends in the state of the serial order — for any
    state type and any step functions.
  * `put_del_commute` / `put_put_commute` / `del_del_commute`: the pool operations of the poller (put a new
    operation) and of an API request (retire an answered one) commute, as ATOMIC steps; `pool_interleaving_serial`
    instantiates the first theorem: no newly created operation is lost, no retired one comes back.
  * `repo_rmw_locked`: the repository's read-modify-write methods hold the repository mutex for their whole body
    (generated from the source on every run), which is what makes them the atomic steps above.
  * `unlocked_rmw_loses_put`: the pinned tree's unlocked sequences have an interleaving, with ONE pre-emption, after
    which a newly created operation is gone although both serial orders keep it (the defect behind fix 902b054).
  * `reset_during_tick_skips_log`: KNOWN FINDING, not fixed: a state reset that lands inside a poll tick leaves the
    new database with an advanced offset: the messages before it are never replayed (neither serial order does that).
  Not modelled: goroutine scheduling and memory model (atomic steps are assumed to be what the locks make them),
  the round-state blob written by an API request finishing a re-initialisation while the poller saves another round.
-/
import Dc4bcVerif.Model.Sched
import Dc4bcVerif.Gen.Locks

namespace Dc4bcVerif.Props.C14
open Dc4bcVerif.Model.Sched

-- ───────────── commuting steps: every interleaving is the serial order ─────────────

theorem runSteps_cons {S : Type} (f : S → S) (l : List (S → S)) (s : S) : runSteps (f :: l) s = runSteps l (f s) := rfl

/-- a step that commutes with every step of a sequence can be moved behind the sequence -/
theorem commute_past {S : Type} (g : S → S) (l : List (S → S)) (h : ∀ f ∈ l, ∀ s, f (g s) = g (f s)) (s : S) :
    runSteps l (g s) = g (runSteps l s) := by
  induction l generalizing s with
  | nil => rfl
  | cons f t ih =>
    rw [runSteps_cons, runSteps_cons, h f (List.mem_cons_self ..) s]
    exact ih (fun f' hf' => h f' (List.mem_cons_of_mem _ hf')) (f s)

theorem runSteps_append {S : Type} (l1 l2 : List (S → S)) (s : S) : runSteps (l1 ++ l2) s = runSteps l2 (runSteps l1 s) := by
  unfold runSteps; exact List.foldl_append

/-- **interleaving_eq_serial.** If each step of activity 1 commutes with each step of activity 2, then every
interleaving of the two step sequences — any number of pre-emptions, at any points — ends in exactly the state
reached by running activity 1 to its end and then activity 2 (and, symmetrically, 2 then 1). -/
theorem interleaving_eq_serial {S : Type} (l1 l2 l : List (S → S)) (hint : Interleaves l1 l2 l)
    (hc : ∀ f ∈ l1, ∀ g ∈ l2, ∀ s, f (g s) = g (f s)) (s : S) :
    runSteps l s = runSteps l2 (runSteps l1 s) := by
  induction hint generalizing s with
  | nil => rfl
  | left _ ih =>
    rw [runSteps_cons, runSteps_cons]
    exact ih (fun f hf g hg => hc f (List.mem_cons_of_mem _ hf) g hg) _
  | @right b l1 l2 l _ ih =>
    rw [runSteps_cons, runSteps_cons]
    rw [ih (fun f hf g hg => hc f hf g (List.mem_cons_of_mem _ hg)) (b s)]
    -- move b behind l1
    congr 1
    exact commute_past b l1 (fun f hf s' => hc f hf b (List.mem_cons_self ..) s') s

/-- running two mutually commuting sequences in either order gives the same state -/
theorem serial_swap {S : Type} (l1 l2 : List (S → S)) (hc : ∀ f ∈ l1, ∀ g ∈ l2, ∀ s, f (g s) = g (f s)) (s : S) :
    runSteps l2 (runSteps l1 s) = runSteps l1 (runSteps l2 s) := by
  induction l2 generalizing s with
  | nil => rfl
  | cons g t ih =>
    rw [runSteps_cons, runSteps_cons]
    rw [← commute_past g l1 (fun f hf s' => hc f hf g (List.mem_cons_self ..) s') s]
    exact ih (fun f hf g' hg' => hc f hf g' (List.mem_cons_of_mem _ hg')) (g s)

theorem interleaving_eq_serial' {S : Type} (l1 l2 l : List (S → S)) (hint : Interleaves l1 l2 l)
    (hc : ∀ f ∈ l1, ∀ g ∈ l2, ∀ s, f (g s) = g (f s)) (s : S) :
    runSteps l s = runSteps l1 (runSteps l2 s) := by
  rw [interleaving_eq_serial l1 l2 l hint hc s]
  exact serial_swap l1 l2 hc s

-- ───────────── the pool operations commute ─────────────

variable {O : Type} [DecidableEq O]

/-- **put_del_commute**: creating operation `b` and retiring operation `a ≠ b`, in either order, give the same pool -/
theorem put_del_commute (a b : O) (hab : a ≠ b) (p : Pool O) : put b (del a p) = del a (put b p) := by
  unfold put del
  by_cases ha : a ∈ p.retired
  · by_cases hb : b ∈ p.pending ∨ b ∈ p.retired
    · simp [ha, hb]
    · simp only [ha, ↓reduceIte, hb]
  · by_cases hb : b ∈ p.pending ∨ b ∈ p.retired
    · have hb' : b ∈ p.pending.filter (· ≠ a) ∨ b ∈ p.retired ++ [a] := by
        rcases hb with h | h
        · left; simp [h, Ne.symm hab]
        · right; simp [h]
      simp only [ha, ↓reduceIte, hb, hb']
    · have hb' : ¬ (b ∈ p.pending.filter (· ≠ a) ∨ b ∈ p.retired ++ [a]) := by
        intro h
        rcases h with h | h
        · simp at h; exact hb (Or.inl h.1)
        · simp at h; rcases h with h | h
          · exact hb (Or.inr h)
          · exact hab h.symm
      simp only [ha, ↓reduceIte, hb, hb', List.filter_append]
      congr 1
      simp [Ne.symm hab]

omit [DecidableEq O] in
theorem pool_ext (p q : Pool O) (h1 : p.pending = q.pending) (h2 : p.retired = q.retired) : p = q := by
  cases p; cases q; simp_all

/-- pool invariant: a retired id is not pending -/
def WF (p : Pool O) : Prop := ∀ x, x ∈ p.retired → x ∉ p.pending

theorem put_wf (b : O) (p : Pool O) (h : WF p) : WF (put b p) := by
  unfold put
  by_cases hb : b ∈ p.pending ∨ b ∈ p.retired
  · simp only [hb, ↓reduceIte]; exact h
  · simp only [hb, ↓reduceIte]
    intro x hx
    simp only [List.mem_append, List.mem_singleton, not_or]
    refine ⟨h x hx, ?_⟩
    intro hxb; subst hxb; exact hb (Or.inr hx)

theorem del_wf (a : O) (p : Pool O) (h : WF p) : WF (del a p) := by
  unfold del
  by_cases ha : a ∈ p.retired
  · simp only [ha, ↓reduceIte]; exact h
  · simp only [ha, ↓reduceIte]
    intro x hx
    simp only [List.mem_append, List.mem_singleton] at hx
    simp only [List.mem_filter, decide_eq_true_eq, not_and]
    rcases hx with hx | hx
    · intro hp; exact absurd hp (h x hx)
    · intro _ hne; exact hne hx

/-- **no_lost_no_resurrected.** After the poller has created `b` and the API request has retired `a ≠ b` — in either
order, and hence (by `interleaving_eq_serial`) in any interleaving of atomic steps — `b` is pending (unless it had been
retired before) and `a` is retired and not pending. -/
theorem no_lost_no_resurrected (a b : O) (hab : a ≠ b) (p : Pool O) (hwf : WF p) (hb : b ∉ p.retired) :
    b ∈ (del a (put b p)).pending ∧ a ∈ (del a (put b p)).retired ∧ a ∉ (del a (put b p)).pending := by
  have hput : b ∈ (put b p).pending := by
    unfold put
    by_cases h : b ∈ p.pending ∨ b ∈ p.retired
    · simp only [h, ↓reduceIte]; rcases h with h | h
      · exact h
      · exact absurd h hb
    · simp [h]
  have hwf' := del_wf a _ (put_wf b p hwf)
  have hret : a ∈ (del a (put b p)).retired := by
    unfold del
    by_cases ha : a ∈ (put b p).retired
    · simp only [ha, ↓reduceIte]
    · simp [ha]
  refine ⟨?_, hret, hwf' a hret⟩
  unfold del
  by_cases ha : a ∈ (put b p).retired
  · simp only [ha, ↓reduceIte]; exact hput
  · simp only [ha, ↓reduceIte]
    simp [hput, Ne.symm hab]

/-- **pool_interleaving_serial.** Any interleaving of a poll tick that creates operations `bs` with an API activity that
retires operations `as` (all different from the `bs`), as atomic steps, ends in the pool of the serial order. -/
theorem pool_interleaving_serial (as bs : List O) (hdisj : ∀ a ∈ as, ∀ b ∈ bs, a ≠ b) (l : List (Pool O → Pool O))
    (hint : Interleaves (as.map del) (bs.map put) l) (p : Pool O) :
    runSteps l p = runSteps (bs.map put) (runSteps (as.map del) p) := by
  apply interleaving_eq_serial _ _ _ hint
  intro f hf g hg s
  simp only [List.mem_map] at hf hg
  obtain ⟨a, ha, rfl⟩ := hf
  obtain ⟨b, hb, rfl⟩ := hg
  exact (put_del_commute a b (hdisj a ha b hb) s).symm

-- ───────────── the lock in the source ─────────────

def lockedMethod (name : String) : Bool :=
  match Gen.Locks.repoMethods.find? (fun e => e.1 == name) with
  | some e => e.2.1
  | none => false

/-- **repo_rmw_locked.** `PutOperation`, `DeleteOperation` and `GetOperations` hold the repository mutex for their whole
body, and none of them calls a locking method of the repository while holding it (no self-deadlock). Generated from
client/repositories/operation/operation.go on every run. -/
theorem repo_rmw_locked :
    lockedMethod "PutOperation" = true ∧ lockedMethod "DeleteOperation" = true ∧ lockedMethod "GetOperations" = true ∧
    (Gen.Locks.repoMethods.all (fun e => !e.2.1 || e.2.2.all (fun c =>
        !(Gen.Locks.repoMethods.any (fun e' => e'.2.1 && ("r." ++ e'.1) == c))))) = true := by
  decide

-- ───────────── without the lock: a lost update ─────────────

/-- **unlocked_rmw_loses_put.** The pinned tree's unlocked sequences: the API request retires operation `1` while the
poller creates operation `2`. Schedule with a single pre-emption: the API request runs up to its last read, the poller's
`PutOperation` runs completely, the API request writes back its stale copy. Operation `2` is gone; both serial orders
keep it. -/
theorem unlocked_rmw_loses_put :
    let r0 : Raw Nat := { ops := [1], deleted := [] }
    let api := (delSteps (1 : Nat)).map (fun s => (false, s))
    let poll := (putSteps (2 : Nat)).map (fun s => (true, s))
    let bad := api.take 4 ++ poll ++ api.drop 4
    (urun r0 {} {} bad).visible = [] ∧
    (urun r0 {} {} (api ++ poll)).visible = [2] ∧ (urun r0 {} {} (poll ++ api)).visible = [2] := by
  decide

-- ───────────── KNOWN FINDING: a state reset inside a poll tick ─────────────

/-- **reset_during_tick_skips_log.** The poll tick has read messages 23 and 24 from the board; a state reset lands
between handling the first and saving its offset. The tick goes on: the new, empty database ends with offset 25
and two stray applications; messages 0..22 are never replayed. Neither serial order gives that: reset-then-tick
replays from 0, tick-then-reset leaves an empty database at offset 0. (C14-reset-during-poll, not fixed.) -/
theorem reset_during_tick_skips_log :
    let s0 : RState := { applied := List.range 23, offset := 23 }
    let tick := [RStep.apply 23, .save 24, .apply 24, .save 25]
    rrun s0 ([RStep.apply 23, .reset, .save 24, .apply 24, .save 25]) = { applied := [24], offset := 25 } ∧
    rrun s0 (tick ++ [.reset]) = { applied := [], offset := 0 } ∧
    (rrun s0 ([RStep.reset] ++ [.apply 0, .save 1])).offset = 1 := by
  decide

end Dc4bcVerif.Props.C14
