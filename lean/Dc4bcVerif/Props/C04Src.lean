/-
  C04 — where the secrets go, read off /repo on every run (Gen/SecretUses.lean).

  The symbolic model (`Model/Sym.lean`, `exported`) says what a machine lets out: public keys and commitments (one-way
  images), deals sealed for their addressee, signatures. It was written by hand from the handlers. This file ties it to the
  source from the other end: the translator lists EVERY mention, in packages airgapped and dkg, of what holds the long-term
  private key (`secKey`, `GetSecKey()`) or the BLS share (`Share`, `PriShare()`, `DistKeyShare()`, `GetDistKeyShare()`,
  `GetBLSKeyring()`), each with the innermost call that consumes it (its callee and its text; "write" for an assignment to it, "-" for a
  plain statement).
  * `secret_uses_known`: the list is exactly the one below: the key is generated, loaded, saved (through `encrypt`), handed to
    `dkg.Init` / `NewDistKeyGenerator` (the dealer), to `ecies.Decrypt` and to point multiplication; the share is taken from
    kyber, put into the keyring, gob-encoded by `BLSKeyring.Bytes` (for the encrypted database value) and used by `tbls.Sign`.
  * `consumers_are_these`: every consuming callee is one of nine: curve arithmetic, kyber's dealer constructor, ECIES
    decryption, threshold signing, (un)marshalling for the encrypted database value. None of them formats, logs or wraps an
    error: a secret does not reach an error result, a log line or a message text by being printed.
  A change that sends a secret anywhere else changes the list; secretdiff then searches the real outputs — results of genuine
  AND of faulty operations, board messages, database files — for the secret in every encoding it knows.
-/
import Dc4bcVerif.Gen.SecretUses

namespace Dc4bcVerif.Props.C04Src
open Dc4bcVerif.Gen

theorem secret_uses_known : SecretUses.secretUses = [
  ("airgapped.GenerateKeys", "write", "am.secKey = am.baseSuite.Scalar().Pick(am.baseSuite.RandomStream())"),
  ("airgapped.GenerateKeys", "am.baseSuite.Point().Mul", "am.baseSuite.Point().Mul(am.secKey, nil)"),
  ("airgapped.DropSensitiveData", "write", "am.secKey = nil"),
  ("airgapped.decryptDataFromParticipant", "ecies.Decrypt", "ecies.Decrypt(am.baseSuite, am.secKey, data, am.baseSuite.Hash)"),
  ("airgapped.createPartialSign", "tbls.Sign", "tbls.Sign(am.baseSuite.(pairing.Suite), blsKeyring.Share, msg)"),
  ("airgapped.handleStateDkgCommitsAwaitConfirmations", "dkg.Init", "dkg.Init(suite, am.pubKey, am.secKey)"),
  ("airgapped.handleStateDkgMasterKeyAwaitConfirmations", "-", "blsKeyring, err := dkgInstance.GetBLSKeyring()"),
  ("airgapped.LoadKeysFromDB", "write", "am.secKey = am.baseSuite.Scalar()"),
  ("airgapped.LoadKeysFromDB", "am.secKey.UnmarshalBinary", "am.secKey.UnmarshalBinary(decryptedPrivateKey)"),
  ("airgapped.SaveKeysToDB", "am.secKey.MarshalBinary", "am.secKey.MarshalBinary()"),
  ("dkg.Init", "write", "d.secKey = secKey"),
  ("dkg.GetSecKey", "-", "return d.secKey"),
  ("dkg.InitDKGInstance", "dkg.NewDistKeyGenerator", "dkg.NewDistKeyGenerator(d.suite, d.secKey, publicKeys, d.Threshold, reader)"),
  ("dkg.GetDistKeyShare", "-", "return d.instance.DistKeyShare()"),
  ("dkg.GetDistributedPublicKey", "-", "distKeyShare, err := d.instance.DistKeyShare()"),
  ("dkg.GetBLSKeyring", "-", "distKeyShare, err := d.instance.DistKeyShare()"),
  ("dkg.GetBLSKeyring", "-", "return &BLSKeyring{ PubPoly: masterPubKey, Share: distKeyShare.PriShare(), }, nil"),
  ("dkg.Bytes", "shareEnc.Encode", "shareEnc.Encode(b.Share)"),
  ("dkg.LoadBLSKeyringFromBytes", "-", "priShare, privDec := &share.PriShare{V: suite.(pairing.Suite).G1().Scalar()}, gob.NewDecoder(bytes.NewBuffer(blsKeyringJson.Share))"),
  ("dkg.LoadBLSKeyringFromBytes", "bytes.NewBuffer", "bytes.NewBuffer(blsKeyringJson.Share)")
] := by decide +kernel

/-- what may consume a secret -/
def consumers : List String := ["write", "-", "am.baseSuite.Point().Mul", "ecies.Decrypt", "tbls.Sign", "dkg.Init",
  "am.secKey.UnmarshalBinary", "am.secKey.MarshalBinary", "dkg.NewDistKeyGenerator", "shareEnc.Encode", "bytes.NewBuffer"]

theorem consumers_are_these : SecretUses.secretUses.all (fun x => consumers.contains x.2.1) = true := by decide +kernel

/-- the plain statements among them hand the secret on to a variable or to the caller, nothing else -/
theorem plain_statements_are_these : (SecretUses.secretUses.filter (fun x => x.2.1 == "-")).map (fun x => x.2.2) =
    ["blsKeyring, err := dkgInstance.GetBLSKeyring()", "return d.secKey", "return d.instance.DistKeyShare()",
     "distKeyShare, err := d.instance.DistKeyShare()", "distKeyShare, err := d.instance.DistKeyShare()",
     "return &BLSKeyring{ PubPoly: masterPubKey, Share: distKeyShare.PriShare(), }, nil",
     "priShare, privDec := &share.PriShare{V: suite.(pairing.Suite).G1().Scalar()}, gob.NewDecoder(bytes.NewBuffer(blsKeyringJson.Share))"] := by decide +kernel

/-- not vacuous: the consumer of seed C04h is not among them -/
example : consumers.contains "fmt.Errorf" = false := by decide

end Dc4bcVerif.Props.C04Src
