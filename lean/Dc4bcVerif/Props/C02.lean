/-
  C02 — key generation ends with one group key and mutually consistent shares (algebraic part).

  Pedersen DKG bookkeeping as the code does it (kyber `dkg/pedersen`, dc4bc `dkg/dkg.go`): dealer `i`
  broadcasts commitments `Cᵢ` (a list of `t` group elements) and sends participant `j` a share
  `s_ij`; `j` accepts iff `s_ij • g = evalCommit Cᵢ (j+1)` (`VerifyDeal`) and the commitments inside
  the deal equal the broadcast ones (`processDealCommits`); its final share is `Σᵢ s_ij` and the
  public polynomial is the coefficient-wise sum `Σᵢ Cᵢ`. Nothing is assumed about how a dealer
  produced `Cᵢ` or `s_ij` — only that the checks passed.
-/
import Mathlib.LinearAlgebra.Lagrange
import Dc4bcVerif.Props.C01

set_option linter.unusedSectionVars false

namespace Dc4bcVerif.Props.C02
open Polynomial Dc4bcVerif.Model.Shamir Dc4bcVerif.Props.C01

section
variable {F : Type} [Field F] [DecidableEq F]
variable {G : Type} [AddCommGroup G] [Module F G]

/-- `PubPoly.Eval`: Horner over group elements -/
def evalCommit (C : List G) (x : F) : G := C.foldr (fun c acc => c + x • acc) 0

/-- coefficient-wise sum of two commitment vectors (`PubPoly.Add`) -/
def addCommit : List G → List G → List G
  | a :: as, b :: bs => (a + b) :: addCommit as bs
  | [], bs => bs
  | as, [] => as

def sumCommits (Cs : List (List G)) : List G := Cs.foldr addCommit []

theorem evalCommit_add (A B : List G) (x : F) :
    evalCommit (addCommit A B) x = evalCommit A x + evalCommit B x := by
  induction A generalizing B with
  | nil => simp [addCommit, evalCommit]
  | cons a as ih =>
    cases B with
    | nil => simp [addCommit, evalCommit]
    | cons b bs =>
      have := ih bs
      simp only [evalCommit] at this ⊢
      simp only [addCommit, List.foldr_cons, this, smul_add]
      abel

theorem evalCommit_sum (Cs : List (List G)) (x : F) :
    evalCommit (sumCommits Cs) x = (Cs.map (fun C => evalCommit C x)).sum := by
  induction Cs with
  | nil => simp [sumCommits, evalCommit]
  | cons C Cs ih =>
    simp only [sumCommits, List.foldr_cons, List.map_cons, List.sum_cons] at ih ⊢
    rw [evalCommit_add, ih]

/-- **share_on_pubpoly.** If every deal sent to participant `j` passed the verification equation
against its dealer's broadcast commitments, then `j`'s final share lies on the sum of the
commitment vectors — the public polynomial every participant computes and announces. -/
theorem share_on_pubpoly (g : G) (x : F) (deals : List (F × List G))
    (hverified : ∀ d ∈ deals, d.1 • g = evalCommit d.2 x) :
    (deals.map (·.1)).sum • g = evalCommit (sumCommits (deals.map (·.2))) x := by
  rw [evalCommit_sum, List.sum_smul]
  simp only [List.map_map]
  congr 1
  apply List.map_congr_left
  intro d hd
  exact hverified d hd

/-- honest dealers: the commitments of a coefficient list evaluate to the committed evaluation -/
theorem evalCommit_commit (cs : List F) (g : G) (x : F) :
    evalCommit (cs.map (fun c => c • g)) x = evalPoly cs x • g := by
  induction cs with
  | nil => simp [evalCommit, evalPoly]
  | cons c cs ih =>
    simp only [evalCommit, evalPoly, List.map_cons, List.foldr_cons] at ih ⊢
    rw [ih, add_smul, mul_smul]

theorem addCommit_comm (A B : List G) : addCommit A B = addCommit B A := by
  induction A generalizing B with
  | nil => cases B <;> simp [addCommit]
  | cons a as ih => cases B with
    | nil => simp [addCommit]
    | cons b bs => simp [addCommit, add_comm, ih bs]

theorem addCommit_assoc (A B C : List G) : addCommit (addCommit A B) C = addCommit A (addCommit B C) := by
  induction A generalizing B C with
  | nil => cases B <;> cases C <;> simp [addCommit]
  | cons a as ih =>
    cases B with
    | nil => cases C <;> simp [addCommit]
    | cons b bs =>
      cases C with
      | nil => simp [addCommit]
      | cons c cs => simp [addCommit, add_assoc, ih bs cs]

/-- **pubpoly_order_indep**: the public polynomial does not depend on the order in which the
dealers' commitments were delivered -/
theorem pubpoly_order_indep (Cs Cs' : List (List G)) (h : Cs.Perm Cs') : sumCommits Cs = sumCommits Cs' := by
  unfold sumCommits
  induction h with
  | nil => rfl
  | cons x _ ih => simp only [List.foldr_cons, ih]
  | swap x y l =>
    simp only [List.foldr_cons]
    rw [← addCommit_assoc, ← addCommit_assoc, addCommit_comm y x]
  | trans _ _ ih1 ih2 => exact ih1.trans ih2

theorem addCommit_length (A B : List G) : (addCommit A B).length = max A.length B.length := by
  induction A generalizing B with
  | nil => cases B <;> simp [addCommit]
  | cons a as ih => cases B with
    | nil => simp [addCommit]
    | cons b bs => simp [addCommit, ih bs]

/-- **degree**: with `t` commitments per dealer the public polynomial has exactly `t` commitments -/
theorem sumCommits_length (t : ℕ) (Cs : List (List G)) (hne : Cs ≠ []) (hlen : ∀ C ∈ Cs, C.length = t) :
    (sumCommits Cs).length = t := by
  induction Cs with
  | nil => exact absurd rfl hne
  | cons C Cs ih =>
    simp only [sumCommits, List.foldr_cons]
    rw [addCommit_length, hlen C (List.mem_cons_self ..)]
    by_cases hCs : Cs = []
    · subst hCs; simp
    · have := ih hCs (fun C' hC' => hlen C' (List.mem_cons_of_mem _ hC'))
      simp only [sumCommits] at this
      rw [this]; simp

/-- the group key (constant term of the public polynomial) is the sum of the dealers' constant commitments -/
theorem group_key (Cs : List (List G)) : evalCommit (sumCommits Cs) (0 : F) = (Cs.map (fun C => evalCommit C (0 : F))).sum :=
  evalCommit_sum Cs 0

/-- **t_minus_one_insufficient.** For any `t−1` pairwise distinct non-zero nodes, any values seen at
them and ANY candidate secret `s` there is a polynomial of degree `< t` through those values with
`f(0) = s`: `t−1` shares are consistent with every secret, so no function of them is the secret. -/
theorem t_minus_one_insufficient (xs : List F) (hnd : xs.Nodup) (h0 : (0 : F) ∉ xs) (ys : F → F) (s : F) :
    ∃ f : F[X], f.degree < ((xs.length + 1 : ℕ) : WithBot ℕ) ∧ f.eval 0 = s ∧ ∀ x ∈ xs, f.eval x = ys x := by
  let S : Finset F := insert 0 xs.toFinset
  let r : F → F := fun x => if x = 0 then s else ys x
  have hinj : Set.InjOn (id : F → F) (S : Set F) := fun _ _ _ _ h => h
  have hcard : S.card = xs.length + 1 := by
    rw [Finset.card_insert_of_notMem (by simpa using h0), List.toFinset_card_of_nodup hnd]
  refine ⟨Lagrange.interpolate S id r, ?_, ?_, ?_⟩
  · have := Lagrange.degree_interpolate_lt (s := S) (v := id) r hinj
    rwa [hcard] at this
  · have := Lagrange.eval_interpolate_at_node (s := S) (v := id) (i := 0) r hinj (by simp [S])
    simpa [r] using this
  · intro x hx
    have hxS : x ∈ S := by simp [S, hx]
    have := Lagrange.eval_interpolate_at_node (s := S) (v := id) (i := x) r hinj hxS
    have hx0 : x ≠ 0 := fun h => h0 (h ▸ hx)
    simpa [r, hx0] using this

end

end Dc4bcVerif.Props.C02
