/-
  C20 — re-initialising from a log dump reproduces the original key material and state.

  * the confirmation hash: `order_matches_source` (the model hashes the fields the source hashes, in its order;
    regenerated on every run), `edit_*` (EVERY single-field edit of a reinit file — header, any field of any
    participant, any field of any message, whichever round the message belongs to — changes the hashed byte string),
    `not_injective_across_fields` (the concatenation has no separators: two files that differ in TWO adjacent fields
    can hash alike; outside the property's single-field quantifier, recorded as an observation);
  * same state: a node is a function of the messages it is fed (C08 `replay_eq_live`, `round_state_function_of_round_log`);
    the re-initialisation feeds the messages of the dump that carry the round's identifier through the same handler
    with the same verification (fix "verify replayed messages during re-initialisation"), so it reaches the state
    the original nodes reached on that sub-log;
  * same shares: the airgapped machine replays the same operations from the same mnemonic (C12 `same_seed_same_machine`).
  Not proved: SHA-1 collision resistance, injectivity of `%d` (hypothesis `hdec`), the glue of `reinitDKG` itself
  (round guard, new communication keys) and `handleReinitDKG`, which are exercised on real nodes and machines by reinitdiff.
-/
import Dc4bcVerif.Model.ReinitHash
import Dc4bcVerif.Gen.NodeGlue

namespace Dc4bcVerif.Props.C20
open Dc4bcVerif.Model Dc4bcVerif.Model.ReinitHash

theorem order_matches_source : Gen.NodeGlue.reinitHashOrder = expectedOrder := by decide

theorem mid_ne {α : Type} (p a b s : List α) (h : a ≠ b) : p ++ a ++ s ≠ p ++ b ++ s := by
  intro he
  rw [List.append_assoc, List.append_assoc] at he
  exact h (List.append_cancel_right (List.append_cancel_left he))

variable (dec : Int → Bytes) (hdec : ∀ a b, dec a = dec b → a = b)

-- ───────────── header ─────────────

theorem edit_dkg_id (re : ReDKG) (x : Bytes) (h : x ≠ re.dkgId) : hashInput dec { re with dkgId := x } ≠ hashInput dec re := by
  unfold hashInput
  simp only [List.append_assoc]
  intro he
  exact h (List.append_cancel_right he)

include hdec in
theorem edit_threshold (re : ReDKG) (x : Int) (h : x ≠ re.threshold) : hashInput dec { re with threshold := x } ≠ hashInput dec re := by
  unfold hashInput
  have := mid_ne re.dkgId (dec x) (dec re.threshold) (re.parts.flatMap encP ++ re.msgs.flatMap (encM dec)) (fun he => h (hdec _ _ he))
  simpa only [List.append_assoc] using this

-- ───────────── participants ─────────────

theorem flatMap_mid {α β : Type} (enc : α → List β) (l1 l2 : List α) (a b : α) (pre post : List β) (h : enc a ≠ enc b) :
    pre ++ (l1 ++ [a] ++ l2).flatMap enc ++ post ≠ pre ++ (l1 ++ [b] ++ l2).flatMap enc ++ post := by
  simp only [List.flatMap_append, List.flatMap_cons, List.flatMap_nil, List.append_nil]
  have := mid_ne (pre ++ l1.flatMap enc) (enc a) (enc b) (l2.flatMap enc ++ post) h
  simpa only [List.append_assoc] using this

/-- a participant whose encoding changes changes the hash input, wherever it stands in the list -/
theorem edit_participant (re : ReDKG) (l1 l2 : List Part) (p p' : Part) (hparts : re.parts = l1 ++ [p] ++ l2) (h : encP p' ≠ encP p) :
    hashInput dec { re with parts := l1 ++ [p'] ++ l2 } ≠ hashInput dec re := by
  unfold hashInput
  rw [hparts]
  have := flatMap_mid encP l1 l2 p' p (re.dkgId ++ dec re.threshold) (re.msgs.flatMap (encM dec)) h
  simpa only [List.append_assoc] using this

theorem encP_new_key (p : Part) (x : Bytes) (h : x ≠ p.newKey) : encP { p with newKey := x } ≠ encP p := by
  unfold encP; simp only [List.append_assoc]; intro he; exact h (List.append_cancel_right he)
theorem encP_old_key (p : Part) (x : Bytes) (h : x ≠ p.oldKey) : encP { p with oldKey := x } ≠ encP p := by
  unfold encP
  have := mid_ne p.newKey x p.oldKey (p.dkgKey ++ p.name) h
  simpa only [List.append_assoc] using this
theorem encP_dkg_key (p : Part) (x : Bytes) (h : x ≠ p.dkgKey) : encP { p with dkgKey := x } ≠ encP p := by
  unfold encP
  have := mid_ne (p.newKey ++ p.oldKey) x p.dkgKey p.name h
  simpa only [List.append_assoc] using this
theorem encP_name (p : Part) (x : Bytes) (h : x ≠ p.name) : encP { p with name := x } ≠ encP p := by
  unfold encP
  have := mid_ne (p.newKey ++ p.oldKey ++ p.dkgKey) x p.name [] h
  simpa only [List.append_assoc, List.append_nil] using this

-- ───────────── messages ─────────────

/-- a message whose encoding changes changes the hash input, wherever it stands and whatever round it names -/
theorem edit_message (re : ReDKG) (l1 l2 : List RMsg) (m m' : RMsg) (hmsgs : re.msgs = l1 ++ [m] ++ l2) (h : encM dec m' ≠ encM dec m) :
    hashInput dec { re with msgs := l1 ++ [m'] ++ l2 } ≠ hashInput dec re := by
  unfold hashInput
  rw [hmsgs]
  have := flatMap_mid (encM dec) l1 l2 m' m (re.dkgId ++ dec re.threshold ++ re.parts.flatMap encP) [] h
  simpa only [List.append_assoc, List.append_nil] using this

theorem encM_data (m : RMsg) (x : Bytes) (h : x ≠ m.data) : encM dec { m with data := x } ≠ encM dec m := by
  unfold encM; simp only [List.append_assoc]; intro he; exact h (List.append_cancel_right he)
theorem encM_sig (m : RMsg) (x : Bytes) (h : x ≠ m.sig) : encM dec { m with sig := x } ≠ encM dec m := by
  unfold encM
  have := mid_ne m.data x m.sig (m.recipient ++ m.event ++ m.sender ++ m.round ++ dec m.offset) h
  simpa only [List.append_assoc] using this
theorem encM_recipient (m : RMsg) (x : Bytes) (h : x ≠ m.recipient) : encM dec { m with recipient := x } ≠ encM dec m := by
  unfold encM
  have := mid_ne (m.data ++ m.sig) x m.recipient (m.event ++ m.sender ++ m.round ++ dec m.offset) h
  simpa only [List.append_assoc] using this
theorem encM_event (m : RMsg) (x : Bytes) (h : x ≠ m.event) : encM dec { m with event := x } ≠ encM dec m := by
  unfold encM
  have := mid_ne (m.data ++ m.sig ++ m.recipient) x m.event (m.sender ++ m.round ++ dec m.offset) h
  simpa only [List.append_assoc] using this
theorem encM_sender (m : RMsg) (x : Bytes) (h : x ≠ m.sender) : encM dec { m with sender := x } ≠ encM dec m := by
  unfold encM
  have := mid_ne (m.data ++ m.sig ++ m.recipient ++ m.event) x m.sender (m.round ++ dec m.offset) h
  simpa only [List.append_assoc] using this
theorem encM_round (m : RMsg) (x : Bytes) (h : x ≠ m.round) : encM dec { m with round := x } ≠ encM dec m := by
  unfold encM
  have := mid_ne (m.data ++ m.sig ++ m.recipient ++ m.event ++ m.sender) x m.round (dec m.offset) h
  simpa only [List.append_assoc] using this
include hdec in
theorem encM_offset (m : RMsg) (x : Int) (h : x ≠ m.offset) : encM dec { m with offset := x } ≠ encM dec m := by
  unfold encM
  have := mid_ne (m.data ++ m.sig ++ m.recipient ++ m.event ++ m.sender ++ m.round) (dec x) (dec m.offset) [] (fun he => h (hdec _ _ he))
  simpa only [List.append_assoc, List.append_nil] using this

/-- **not_injective_across_fields** (observation, not a violation of the single-field clause): without separators a
byte can move from a message's `Data` to its `Signature` without changing the hashed string. -/
theorem not_injective_across_fields :
    ∃ a b : ReDKG, a ≠ b ∧ hashInput dec a = hashInput dec b := by
  refine ⟨⟨[], 1, [], [⟨[1, 2], [3], [], [], [], [], 0⟩]⟩, ⟨[], 1, [], [⟨[1], [2, 3], [], [], [], [], 0⟩]⟩, by decide, ?_⟩
  simp [hashInput, encM]

/-- non-vacuity: an edit of the signature of the second message of a two-message file (with a toy `%d`) -/
example : hashInput (fun n => [UInt8.ofNat n.toNat]) ⟨[9], 2, [⟨[1], [2], [3], [4]⟩], [⟨[5], [6], [], [7], [8], [9], 0⟩, ⟨[5], [6, 6], [], [7], [8], [1], 1⟩]⟩ ≠
          hashInput (fun n => [UInt8.ofNat n.toNat]) ⟨[9], 2, [⟨[1], [2], [3], [4]⟩], [⟨[5], [6], [], [7], [8], [9], 0⟩, ⟨[5], [6], [], [7], [8], [1], 1⟩]⟩ := by decide

end Dc4bcVerif.Props.C20
