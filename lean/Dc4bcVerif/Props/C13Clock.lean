/-
  C13 with a clock: every start of the process reads its own clock. The handler takes the clock reading as an
  argument; a retry after a kill happens at a later reading than the attempt that was killed. Two facts about the
  handler are needed (both proved for the node model in this file):
  * `ReapplySafeT`: a message accepted at one reading is, on the resulting state and at ANY other reading, refused or
    accepted without change (`C13Node.node_reapply` is exactly this);
  * `AcceptIndep`: whether a message is accepted, and which operation it asks for, does not depend on the reading
    (the resulting STATE does: a hand-over stamps the new phase with the clock).
  Then for every crash schedule with its clock readings the store is a crash-free run — each message handled at the
  reading of the attempt that wrote its state — possibly with the next message partially applied (`crash_safe_clock`).
-/
import Dc4bcVerif.Props.C13Start

set_option linter.unusedSimpArgs false
set_option linter.unusedVariables false

namespace Dc4bcVerif.Props.C13Clock
open Dc4bcVerif.Model Dc4bcVerif.Model.Crash Dc4bcVerif.Props.C13

variable {S M O : Type} [DecidableEq O]

/-- a handler that reads the clock -/
abbrev HandlerT (S M O : Type) := Time → Handler S M O

/-- one start of the process at clock reading `c.2`, killed after `c.1` writes (`none`: not killed) -/
def attemptT (h : HandlerT S M O) (log : List M) (d : Store S O) (c : Option Nat × Time) : Store S O :=
  attempt newOrder (h c.2) log d c.1

def runT (h : HandlerT S M O) (log : List M) (d : Store S O) (sched : List (Option Nat × Time)) : Store S O :=
  sched.foldl (attemptT h log) d

/-- the crash-free step at reading `t` -/
def nextT (h : HandlerT S M O) (log : List M) (t : Time) (c : Store S O) : Store S O := next (h t) log c

/-- the crash-free run, one reading per message -/
def cleanT (h : HandlerT S M O) (log : List M) (d : Store S O) (ts : List Time) : Store S O :=
  ts.foldl (fun c t => nextT h log t c) d

variable (Sane : Time → Prop)

def ReapplySafeT (h : HandlerT S M O) : Prop :=
  ∀ t1 t2 s m s' o, Sane t1 → Sane t2 → h t1 s m = some (s', o) →
    h t2 s' m = none ∨ ∃ o', h t2 s' m = some (s', o') ∧ (o' = none ∨ o' = o)

def AcceptIndep (h : HandlerT S M O) : Prop :=
  ∀ t1 t2 s m, Sane t1 → Sane t2 → (h t1 s m).map (·.2) = (h t2 s m).map (·.2)

/-- `d` is the crash-free store `c`, possibly with the message at `c`'s offset partially applied at some reading -/
def PartialT (h : HandlerT S M O) (log : List M) (c d : Store S O) : Prop :=
  d = c ∨ ∃ m t s' o, Sane t ∧ log[c.offset]? = some m ∧ h t c.state m = some (s', o) ∧
    d.offset = c.offset ∧ d.ops = putOnce c.ops o ∧ (d.state = c.state ∨ d.state = s')

theorem attemptT_inv (h : HandlerT S M O) (hsafe : ReapplySafeT Sane h) (hind : AcceptIndep Sane h) (log : List M) (c d : Store S O)
    (hp : PartialT Sane h log c d) (k : Option Nat) (t2 : Time) (ht2 : Sane t2) :
    PartialT Sane h log c (attemptT h log d (k, t2)) ∨ ∃ t, Sane t ∧ attemptT h log d (k, t2) = nextT h log t c := by
  have key : ∀ n : Nat,
      PartialT Sane h log c (match log[d.offset]? with | none => d | some m => stepPrefix newOrder (h t2) d m n) ∨
      ∃ t, Sane t ∧ (match log[d.offset]? with | none => d | some m => stepPrefix newOrder (h t2) d m n) = nextT h log t c := by
    intro n
    rcases hp with hdc | ⟨m, t, s', o, hst, hm, hh, hoff, hops, hstate⟩
    · subst hdc
      cases hm : log[d.offset]? with
      | none => left; left; rfl
      | some m =>
        simp only
        unfold stepPrefix
        cases hh : h t2 d.state m with
        | none =>
          simp only
          by_cases hn : n = 0
          · simp only [hn, ↓reduceIte]; left; left; rfl
          · simp only [hn, ↓reduceIte]; right
            refine ⟨t2, ht2, ?_⟩
            unfold nextT next cleanStep; simp only [hm, hh]
        | some r =>
          obtain ⟨s', o⟩ := r
          simp only [newOrder]
          match n with
          | 0 => left; left; simp
          | 1 =>
            left; right
            refine ⟨m, t2, s', o, ht2, hm, hh, ?_, ?_, Or.inl ?_⟩ <;> simp [applyW]
          | 2 =>
            left; right
            refine ⟨m, t2, s', o, ht2, hm, hh, ?_, ?_, Or.inr ?_⟩ <;> simp [applyW]
          | n + 3 =>
            right
            refine ⟨t2, ht2, ?_⟩
            unfold nextT next cleanStep; simp only [hm, hh]
            apply store_ext <;> simp [applyW]
    · rw [hoff, hm]
      simp only
      unfold stepPrefix
      rcases hstate with hs | hs
      · -- operation written, state not: handled again from the old state, at the new reading
        rw [hs]
        have hi := hind t t2 c.state m hst ht2
        rw [hh] at hi
        cases hh2 : h t2 c.state m with
        | none => rw [hh2] at hi; simp at hi
        | some r =>
          obtain ⟨s2, o2⟩ := r
          rw [hh2] at hi
          simp only [Option.map_some, Option.some.injEq] at hi
          subst hi
          simp only [newOrder]
          have hidem : putOnce (putOnce c.ops o) o = putOnce c.ops o := putOnce_idem _ _
          match n with
          | 0 => left; right; exact ⟨m, t2, s2, o, ht2, hm, hh2, hoff, hops, Or.inl hs⟩
          | 1 =>
            left; right
            refine ⟨m, t2, s2, o, ht2, hm, hh2, ?_, ?_, Or.inl ?_⟩ <;> simp [applyW, hoff, hidem, hops, hs]
          | 2 =>
            left; right
            refine ⟨m, t2, s2, o, ht2, hm, hh2, ?_, ?_, Or.inr ?_⟩ <;> simp [applyW, hoff, hidem, hops]
          | n + 3 =>
            right
            refine ⟨t2, ht2, ?_⟩
            unfold nextT next cleanStep; simp only [hm, hh2]
            apply store_ext <;> simp [applyW, hoff, hidem, hops]
      · -- operation and state written at reading `t`, offset not: handled again from the new state
        rw [hs]
        rcases hsafe t t2 c.state m s' o hst ht2 hh with hrej | ⟨o', hacc, ho'⟩
        · rw [hrej]
          simp only
          by_cases hn : n = 0
          · simp only [hn, ↓reduceIte]; left; right; exact ⟨m, t, s', o, hst, hm, hh, hoff, hops, Or.inr hs⟩
          · simp only [hn, ↓reduceIte]; right
            refine ⟨t, hst, ?_⟩
            unfold nextT next cleanStep; simp only [hm, hh]
            apply store_ext <;> simp [hoff, hops, hs]
        · rw [hacc]
          simp only [newOrder]
          have hidem : putOnce (putOnce c.ops o) o' = putOnce c.ops o := by
            rcases ho' with h0 | h0
            · rw [h0]; rfl
            · rw [h0]; exact putOnce_idem _ _
          match n with
          | 0 => left; right; exact ⟨m, t, s', o, hst, hm, hh, hoff, hops, Or.inr hs⟩
          | 1 =>
            left; right
            refine ⟨m, t, s', o, hst, hm, hh, ?_, ?_, Or.inr ?_⟩ <;> simp [applyW, hoff, hidem, hops, hs]
          | 2 =>
            left; right
            refine ⟨m, t, s', o, hst, hm, hh, ?_, ?_, Or.inr ?_⟩ <;> simp [applyW, hoff, hidem, hops]
          | n + 3 =>
            right
            refine ⟨t, hst, ?_⟩
            unfold nextT next cleanStep; simp only [hm, hh]
            apply store_ext <;> simp [applyW, hoff, hidem, hops]
  unfold attemptT attempt
  cases k with
  | none =>
    have := key (newOrder.length + 1)
    cases hl : log[d.offset]? with
    | none => simp only [hl] at this ⊢; exact this
    | some m => simp only [hl] at this ⊢; exact this
  | some n =>
    have := key n
    cases hl : log[d.offset]? with
    | none => simp only [hl] at this ⊢; exact this
    | some m => simp only [hl] at this ⊢; exact this

/-- **crash_safe_clock.** Every crash schedule, every clock reading per start: the store is a crash-free run (each message
handled at the reading of the start that wrote its state), possibly with the next message partially applied. -/
theorem crash_safe_clock (h : HandlerT S M O) (hsafe : ReapplySafeT Sane h) (hind : AcceptIndep Sane h) (log : List M) (d : Store S O)
    (sched : List (Option Nat × Time)) (hs : ∀ c ∈ sched, Sane c.2) :
    ∃ ts, (∀ t ∈ ts, Sane t) ∧ PartialT Sane h log (cleanT h log d ts) (runT h log d sched) := by
  suffices ∀ (sched : List (Option Nat × Time)), (∀ c ∈ sched, Sane c.2) → ∀ (x : Store S O) (ts : List Time), (∀ t ∈ ts, Sane t) →
      PartialT Sane h log (cleanT h log d ts) x →
      ∃ ts', (∀ t ∈ ts', Sane t) ∧ PartialT Sane h log (cleanT h log d ts') (sched.foldl (attemptT h log) x) from
    this sched hs d [] (by simp) (Or.inl rfl)
  intro sched
  induction sched with
  | nil => intro _ x ts hts hx; exact ⟨ts, hts, hx⟩
  | cons k rest ih =>
    intro hall x ts hts hx
    have hk : Sane k.2 := hall k List.mem_cons_self
    have hrest : ∀ c ∈ rest, Sane c.2 := fun c hc => hall c (List.mem_cons_of_mem _ hc)
    rcases attemptT_inv Sane h hsafe hind log _ x hx k.1 k.2 hk with h1 | ⟨t, ht, h1⟩
    · exact ih hrest _ ts hts h1
    · refine ih hrest _ (ts ++ [t]) (by intro u hu; rcases List.mem_append.mp hu with h | h; exact hts u h; simp at h; rw [h]; exact ht) ?_
      left
      show attemptT h log x (k.1, k.2) = _
      rw [h1]
      unfold cleanT
      rw [List.foldl_append]
      rfl

theorem crash_safe_clock_final (h : HandlerT S M O) (hsafe : ReapplySafeT Sane h) (hind : AcceptIndep Sane h) (log : List M) (d : Store S O)
    (sched : List (Option Nat × Time)) (hs : ∀ c ∈ sched, Sane c.2) (hdone : log.length ≤ (runT h log d sched).offset) :
    ∃ ts, (∀ t ∈ ts, Sane t) ∧ runT h log d sched = cleanT h log d ts := by
  obtain ⟨ts, hts, hp⟩ := crash_safe_clock Sane h hsafe hind log d sched hs
  refine ⟨ts, hts, ?_⟩
  rcases hp with hp | ⟨m, _, _, _, _, hm, _, hoff, _, _⟩
  · exact hp
  · exfalso
    rw [hoff] at hdone
    have : log[(cleanT h log d ts).offset]? = none := List.getElem?_eq_none hdone
    rw [this] at hm; cases hm

/-! ### the node's handler: acceptance and operation do not depend on the clock -/

section node
open Dc4bcVerif.Gen Dc4bcVerif.Model.Node Dc4bcVerif.Props.C13Node

/-- a clock that shows a time after the zero time (year 1) -/
def SaneClock (t : Time) : Prop := zeroTime < t

theorem dkgDeadline_nonneg : (0 : Int) ≤ Config.dkgConfirmationDeadline := by decide

/-- what of a `Do`'s result the node looks at after a hand-over -/
def seen (o : Out) : Res × Option St × Option RespData := (o.res, respStateOf o, respDataOf o)

/-- the validator of the commits phase on two payloads whose key-generation parts differ in their stamps only, neither
being past its deadline -/
theorem validateCommits_indep (p1 p2 : Payload) (dc1 dc2 : DkgConf) (a1 a2 : Arg) (h1 : p1.dkg = some dc1) (h2 : p2.dkg = some dc2)
    (hq : dc1.quorum = dc2.quorum) (e1 : ¬ dc1.expiresAt < dc1.updatedAt) (e2 : ¬ dc2.expiresAt < dc2.updatedAt) :
    let v1 := dkg_actionValidateDkgProposalAwaitCommits eCommitsVal p1 a1
    let v2 := dkg_actionValidateDkgProposalAwaitCommits eCommitsVal p2 a2
    v1.res = v2.res ∧ v1.outEvent = v2.outEvent ∧ v1.data = v2.data := by
  unfold dkg_actionValidateDkgProposalAwaitCommits dkgValidate
  simp only [h1, h2, e1, e2, ↓reduceIte, hq]
  split
  · simp [aOk]
  · split
    · simp [aOk]
    · simp [aOk]

theorem commitsAfter_indep (o1 o2 : AOut) (a1 a2 : Arg) (hd : o1.data = o2.data)
    (hv : let v1 := dkg_actionValidateDkgProposalAwaitCommits eCommitsVal o1.payload a1
          let v2 := dkg_actionValidateDkgProposalAwaitCommits eCommitsVal o2.payload a2
          v1.res = v2.res ∧ v1.outEvent = v2.outEvent ∧ v1.data = v2.data) :
    seen (commitsAfter o1 a1) = seen (commitsAfter o2 a2) := by
  obtain ⟨r, e, d⟩ := hv
  unfold commitsAfter seen respStateOf respDataOf
  simp only [r, e, d, hd]
  cases (dkg_actionValidateDkgProposalAwaitCommits eCommitsVal o2.payload a2).res with
  | ok =>
    simp only
    cases setState dkgMachine sCommitsAwait ((dkg_actionValidateDkgProposalAwaitCommits eCommitsVal o2.payload a2).outEvent.getD eCommitsVal) <;> rfl
  | err => rfl
  | panic => rfl

/-- the start of the key generation at two sane clock readings: the same outcome, response state and response data -/
theorem dkginit_indep (p : Payload) (n1 n2 : Time) (s1 : SaneClock n1) (s2 : SaneClock n2) :
    seen (doEvent dkgMachine runAction sSigCollected p eDkgInit (.default n1)) =
    seen (doEvent dkgMachine runAction sSigCollected p eDkgInit (.default n2)) := by
  rw [doEvent_std dkginit_lookup rfl (no_before_auto .dkg sSigCollected) dkginit_cb,
      doEvent_std dkginit_lookup rfl (no_before_auto .dkg sSigCollected) dkginit_cb]
  simp only [runAction_dkginit]
  unfold dkg_actionInitDKGProposal
  by_cases hd : p.dkg.isSome = true
  · -- key generation part already there: the action does nothing, the validator sees the same payload
    simp only [hd, ↓reduceIte, aOk, bne_self_eq_false, Bool.false_eq_true]
    rw [commits_after _ _ _ _ _ (by exact dkginit_set), commits_after _ _ _ _ _ (by exact dkginit_set)]
    apply commitsAfter_indep _ _ _ _ rfl
    simp only
    unfold dkg_actionValidateDkgProposalAwaitCommits dkgValidate
    exact ⟨rfl, rfl, rfl⟩
  · simp only [hd, Bool.false_eq_true, ↓reduceIte]
    cases hs : p.sig with
    | none => simp [aPanic, seen, respStateOf, respDataOf]
    | some sc =>
      simp only
      cases hh : sc.quorum.head? with
      | none => simp [aPanic, seen, respStateOf, respDataOf]
      | some q0 =>
        simp only [aOk, bne_self_eq_false, Bool.false_eq_true, ↓reduceIte]
        rw [commits_after _ _ _ _ _ (by exact dkginit_set), commits_after _ _ _ _ _ (by exact dkginit_set)]
        refine commitsAfter_indep _ _ _ _ ?_ ?_
        · rfl
        have hD := dkgDeadline_nonneg
        refine validateCommits_indep _ _ _ _ _ _ rfl rfl rfl ?_ ?_
        · show ¬ (n1 + Config.dkgConfirmationDeadline < zeroTime)
          unfold SaneClock at s1
          have : ∀ (x d z : Int), 0 ≤ d → z < x → ¬ (x + d < z) := by intros; omega
          exact this _ _ _ hD s1
        · show ¬ (n2 + Config.dkgConfirmationDeadline < zeroTime)
          unfold SaneClock at s2
          have : ∀ (x d z : Int), 0 ≤ d → z < x → ¬ (x + d < z) := by intros; omega
          exact this _ _ _ hD s2

theorem signinit_lookup : lookup signMachine sMKCollected eSignInit' = some ⟨eSignInit', sIDLE, false, false, 0⟩ := by decide
theorem signinit_cb : callbackOf signMachine eSignInit' = some .sign_actionInitSigningProposal := by decide
theorem signinit_set : setState signMachine sMKCollected eSignInit' = some sIDLE := by decide
theorem idle_no_auto : autoLookup signMachine sIDLE 2 = none := by decide

theorem signinit_indep (p : Payload) (n1 n2 : Time) (s1 : SaneClock n1) (s2 : SaneClock n2) :
    seen (doEvent signMachine runAction sMKCollected p eSignInit' (.default n1)) =
    seen (doEvent signMachine runAction sMKCollected p eSignInit' (.default n2)) := by
  have nz : ∀ n, SaneClock n → isZeroTime n = false := by
    intro n h
    unfold isZeroTime SaneClock at *
    have : n ≠ zeroTime := by intro e; rw [e] at h; exact absurd h (by decide)
    simpa using this
  rw [doEvent_std signinit_lookup rfl (no_before_auto .sign sMKCollected) signinit_cb,
      doEvent_std signinit_lookup rfl (no_before_auto .sign sMKCollected) signinit_cb]
  have hact : ∀ n, SaneClock n → runAction .sign_actionInitSigningProposal eSignInit' p (.default n) =
      aOk { p with sign := some { createdAt := n, expiresAt := n + Config.signingConfirmationDeadline } } := by
    intro n h
    show sign_actionInitSigningProposal eSignInit' p (.default n) = _
    unfold sign_actionInitSigningProposal
    simp only [nz n h, Bool.false_eq_true, ↓reduceIte]
  rw [hact n1 s1, hact n2 s2]
  simp only [aOk, bne_self_eq_false, Bool.false_eq_true, ↓reduceIte]
  rw [doTrAfter_plain (s1 := sIDLE) (by exact signinit_set) idle_no_auto, doTrAfter_plain (s1 := sIDLE) (by exact signinit_set) idle_no_auto]
  rfl

/-- a hand-over at two sane clock readings: both fail, or both succeed with the same response state and data -/
theorem handOver_indep (i : Instance) (e : Ev) (he : e = eDkgInit' ∨ e = eSignInit') (n1 n2 : Time) (s1 : SaneClock n1) (s2 : SaneClock n2) :
    (handOver i e n1).map (fun x => (x.2.1, x.2.2)) = (handOver i e n2).map (fun x => (x.2.1, x.2.2)) := by
  unfold handOver
  cases hr : Instance.restore i.dumpState i.payload with
  | none => rfl
  | some r =>
    simp only
    -- the `Do` of the hand-over event on the loaded round
    have hseen : seen (r.doEv e (.default n1)).2 = seen (r.doEv e (.default n2)).2 := by
      show seen (doEvent (machineOf r.machine) runAction r.state r.payload e _) = seen (doEvent (machineOf r.machine) runAction r.state r.payload e _)
      by_cases hl : (lookup (machineOf r.machine) r.state e).isSome = true
      · rcases he with rfl | rfl
        · have hm := (table_owner r.machine (mem_allMids _) r.state (St.mem_all _)).1 hl
          have hst : r.state = sSigCollected := by
            have : ∀ s ∈ St.all, (lookup dkgMachine s eDkgInit').isSome = true → s = sSigCollected := by decide
            rw [hm] at hl; exact this _ (St.mem_all _) hl
          rw [hm, hst]; exact dkginit_indep r.payload n1 n2 s1 s2
        · have hm := (table_owner r.machine (mem_allMids _) r.state (St.mem_all _)).2 hl
          have hst : r.state = sMKCollected := by
            have : ∀ s ∈ St.all, (lookup signMachine s eSignInit').isSome = true → s = sMKCollected := by decide
            rw [hm] at hl; exact this _ (St.mem_all _) hl
          rw [hm, hst]; exact signinit_indep r.payload n1 n2 s1 s2
      · have hnone : lookup (machineOf r.machine) r.state e = none := by
          cases h : lookup (machineOf r.machine) r.state e with
          | none => rfl
          | some x => simp [h] at hl
        unfold doEvent; simp only [hnone]
    unfold seen at hseen
    simp only [Prod.mk.injEq] at hseen
    obtain ⟨hres, hrs, hrd⟩ := hseen
    unfold doOrReject
    simp only [hres]
    by_cases hok : ((r.doEv e (.default n2)).2.res == .ok) = true
    · simp only [hok, ↓reduceIte, Option.map_some, hrs, hrd]
    · simp only [hok, Bool.false_eq_true, ↓reduceIte, Option.map_none]

/-- what of a handling the crash model (and the board) sees: outcome, operation, broadcasts — not the stored stamps -/
def seenPM (r : PMOut) : Outcome × Option NOp × List Sent := (r.out, r.op, r.sent)

/-- `finish` when no batch was collected: the instance only goes into the stored dump -/
theorem finish_nocollect (st2 : NodeSt) (i5 : Instance) (rs5 : Option St) (rd5 : Option RespData) (m : NMsg) (now : Time)
    (payloadOf : Tasks.Msg → Bytes) (hc : (rs5 == some .s_state_signing_partial_signs_collected) = false) :
    seenPM (finish st2 i5 rs5 rd5 m now payloadOf) =
      (match placeholders st2 m payloadOf with
       | none => (Outcome.reject, none, [])
       | some _ => (Outcome.ok, opOf rs5 rd5 m, [])) := by
  unfold finish seenPM reconstructStep restartAfterCollect opOf
  simp only [hc, Bool.false_eq_true, ↓reduceIte]
  cases placeholders st2 m payloadOf with
  | none => rfl
  | some st3 => cases rs5 <;> cases rd5 <;> rfl

theorem handOver_state (i : Instance) (e : Ev) (now : Time) (i' : Instance) (rs : Option St) (rd : Option RespData)
    (h : handOver i e now = some (i', rs, rd)) :
    ∃ r, Instance.restore i.dumpState i.payload = some r ∧ ∃ s, rs = some s ∧ s ∈ reach1 (machineOf r.machine) r.state ∧
      (lookup (machineOf r.machine) r.state e).isSome = true := by
  obtain ⟨rr, hrr, hok, hi', hrs⟩ := handOver_inv i e now i' rs rd h
  obtain ⟨hsome, hreach, _, _, _⟩ := doEv_ok_facts rr e _ hok
  exact ⟨rr, hrr, i'.state, hrs, by rw [hi']; exact hreach, hsome⟩

/-- everything after the event has been applied: the same outcome, operation and broadcasts at any two sane clock readings -/
theorem afterDo_indep (st2 : NodeSt) (i3 : Instance) (o3 : Out) (m : NMsg) (n1 n2 : Time) (payloadOf : Tasks.Msg → Bytes)
    (s1 : SaneClock n1) (s2 : SaneClock n2) :
    seenPM (afterDo st2 i3 o3 m n1 payloadOf) = seenPM (afterDo st2 i3 o3 m n2 payloadOf) := by
  unfold afterDo
  by_cases c1 : (respStateOf o3 == some .s_state_sig_proposal_collected) = true
  · -- handed to the key-generation machine
    have hf : ∀ n, firstHandOver i3 o3 n = handOver i3 eDkgInit' n := by intro n; unfold firstHandOver; simp only [c1, ↓reduceIte]
    have hi := handOver_indep i3 eDkgInit' (Or.inl rfl) n1 n2 s1 s2
    rw [hf n1, hf n2]
    cases h1 : handOver i3 eDkgInit' n1 with
    | none =>
      cases h2 : handOver i3 eDkgInit' n2 with
      | none => rfl
      | some y => rw [h1, h2] at hi; simp at hi
    | some x =>
      cases h2 : handOver i3 eDkgInit' n2 with
      | none => rw [h1, h2] at hi; simp at hi
      | some y =>
        obtain ⟨i4, rs4, rd4⟩ := x
        obtain ⟨j4, qs4, qd4⟩ := y
        rw [h1, h2] at hi
        simp only [Option.map_some, Option.some.injEq, Prod.mk.injEq] at hi
        obtain ⟨e1, e2⟩ := hi
        subst e1; subst e2
        obtain ⟨r, _, s, hrs, hreach, hsome⟩ := handOver_state _ _ _ _ _ _ h1
        have hm := (table_owner r.machine (mem_allMids _) r.state (St.mem_all _)).1 hsome
        have hst : r.state = sSigCollected := by
          have : ∀ s ∈ St.all, (lookup dkgMachine s eDkgInit').isSome = true → s = sSigCollected := by decide
          rw [hm] at hsome; exact this _ (St.mem_all _) hsome
        rw [hm, hst] at hreach
        obtain ⟨_, hnmk, hncoll⟩ := table_after_dkginit s hreach
        have hb2 : (rs4 == some .s_state_dkg_master_key_collected) = false := by rw [hrs]; simp; exact hnmk
        have hb3 : (rs4 == some .s_state_signing_partial_signs_collected) = false := by rw [hrs]; simp; exact hncoll
        simp only
        unfold secondHandOver
        simp only [hb2, Bool.false_eq_true, ↓reduceIte]
        rw [finish_nocollect _ _ _ _ _ _ _ hb3, finish_nocollect _ _ _ _ _ _ _ hb3]
  · have c1' : (respStateOf o3 == some .s_state_sig_proposal_collected) = false := by simpa using c1
    have hf : ∀ n, firstHandOver i3 o3 n = some (i3, respStateOf o3, respDataOf o3) := by
      intro n; unfold firstHandOver; simp only [c1', Bool.false_eq_true, ↓reduceIte]
    rw [hf n1, hf n2]
    simp only
    by_cases c2 : (respStateOf o3 == some .s_state_dkg_master_key_collected) = true
    · -- handed to the signing machine
      have hg : ∀ n, secondHandOver i3 (respStateOf o3) (respDataOf o3) n = handOver i3 eSignInit' n := by
        intro n; unfold secondHandOver; simp only [c2, ↓reduceIte]
      have hi := handOver_indep i3 eSignInit' (Or.inr rfl) n1 n2 s1 s2
      rw [hg n1, hg n2]
      cases h1 : handOver i3 eSignInit' n1 with
      | none =>
        cases h2 : handOver i3 eSignInit' n2 with
        | none => rfl
        | some y => rw [h1, h2] at hi; simp at hi
      | some x =>
        cases h2 : handOver i3 eSignInit' n2 with
        | none => rw [h1, h2] at hi; simp at hi
        | some y =>
          obtain ⟨i5, rs5, rd5⟩ := x
          obtain ⟨j5, qs5, qd5⟩ := y
          rw [h1, h2] at hi
          simp only [Option.map_some, Option.some.injEq, Prod.mk.injEq] at hi
          obtain ⟨e1, e2⟩ := hi
          subst e1; subst e2
          obtain ⟨r, _, s, hrs, hreach, hsome⟩ := handOver_state _ _ _ _ _ _ h1
          have hm := (table_owner r.machine (mem_allMids _) r.state (St.mem_all _)).2 hsome
          have hst : r.state = sMKCollected := by
            have : ∀ s ∈ St.all, (lookup signMachine s eSignInit').isSome = true → s = sMKCollected := by decide
            rw [hm] at hsome; exact this _ (St.mem_all _) hsome
          rw [hm, hst] at hreach
          obtain ⟨_, hncoll⟩ := table_after_signinit s hreach
          have hb3 : (rs5 == some .s_state_signing_partial_signs_collected) = false := by rw [hrs]; simp; exact hncoll
          simp only
          rw [finish_nocollect _ _ _ _ _ _ _ hb3, finish_nocollect _ _ _ _ _ _ _ hb3]
    · have c2' : (respStateOf o3 == some .s_state_dkg_master_key_collected) = false := by simpa using c2
      have hg : ∀ n, secondHandOver i3 (respStateOf o3) (respDataOf o3) n = some (i3, respStateOf o3, respDataOf o3) := by
        intro n; unfold secondHandOver; simp only [c2', Bool.false_eq_true, ↓reduceIte]
      rw [hg n1, hg n2]
      simp only
      -- no hand-over: `finish` reads the clock only for the restart, which does not depend on it
      have : finish st2 i3 (respStateOf o3) (respDataOf o3) m n1 payloadOf = finish st2 i3 (respStateOf o3) (respDataOf o3) m n2 payloadOf := by
        unfold finish
        dsimp only
        rw [restartAfterCollect_indep _ i3 n1 n2]
      rw [this]

/-- **The node's clock does not decide anything the outside sees**: outcome, operation and broadcasts of handling a message
are the same at any two clock readings after the zero time. (The stored round IS stamped with the reading when a phase
is entered; that stamp only feeds the deadline tests of later messages.) -/
theorem node_accept_indep (payloadOf : Tasks.Msg → Bytes) (st : NodeSt) (m : NMsg) (n1 n2 : Time) (s1 : SaneClock n1) (s2 : SaneClock n2) :
    seenPM (processMessage st m n1 payloadOf) = seenPM (processMessage st m n2 payloadOf) := by
  unfold processMessage
  cases getInstance st m.round with
  | none => rfl
  | some pr =>
    obtain ⟨st1, inst⟩ := pr
    dsimp only
    split
    · rfl
    · rfl
    · split
      · rfl
      · split
        · rfl
        · unfold handleEvent
          rw [preSteps_indep st1 inst m n1 n2]
          cases preSteps st1 inst m n2 with
          | swallow s => rfl
          | fail s => rfl
          | cont s inst2 =>
            dsimp only
            unfold dispatch
            cases Ev.all.find? (fun e => e.name == m.event) with
            | none => rfl
            | some ev =>
              dsimp only
              split
              · rfl
              · split
                · rfl
                · unfold applyEvent
                  split
                  · rfl
                  · cases doOrReject inst2 ev (m.arg.getD .other) with
                    | none => rfl
                    | some x =>
                      obtain ⟨i3, o3⟩ := x
                      exact afterDo_indep s i3 o3 m n1 n2 payloadOf s1 s2

/-- the node's handler, reading the clock -/
def nodeHandlerT (payloadOf : Tasks.Msg → Bytes) : HandlerT NodeSt NMsg NOp := fun t => nodeHandler payloadOf t

theorem node_reapplySafeT (payloadOf : Tasks.Msg → Bytes) : ReapplySafeT SaneClock (nodeHandlerT payloadOf) := by
  intro t1 t2 s m s' o _ _ h
  unfold nodeHandlerT nodeHandler at h ⊢
  by_cases hok : (processMessage s m t1 payloadOf).out = .ok
  · simp only [hok, ↓reduceIte, Option.some.injEq, Prod.mk.injEq] at h
    obtain ⟨hs, ho⟩ := h
    have ha := node_reapply payloadOf s m t1 t2 hok
    rw [hs, ho] at ha
    by_cases hok2 : (processMessage s' m t2 payloadOf).out = .ok
    · right
      obtain ⟨hst, hop⟩ := ha.2 hok2
      refine ⟨(processMessage s' m t2 payloadOf).op, ?_, hop⟩
      simp only [hok2, ↓reduceIte, hst]
    · left; simp only [hok2, ↓reduceIte]
  · simp only [hok, ↓reduceIte] at h; cases h

theorem node_acceptIndep (payloadOf : Tasks.Msg → Bytes) : AcceptIndep SaneClock (nodeHandlerT payloadOf) := by
  intro t1 t2 s m h1 h2
  have := node_accept_indep payloadOf s m t1 t2 h1 h2
  unfold seenPM at this
  simp only [Prod.mk.injEq] at this
  obtain ⟨ho, hp, _⟩ := this
  unfold nodeHandlerT nodeHandler
  simp only [ho, hp]
  by_cases hok : (processMessage s m t2 payloadOf).out = .ok
  · simp only [hok, ↓reduceIte, Option.map_some]
  · simp only [hok, ↓reduceIte, Option.map_none]

/-- **C13 for the node model, with a clock.** Every log, every initial store, every crash schedule, every sequence of clock
readings after the zero time: what is on disk is a crash-free run (each message handled once, at the reading of the
start that wrote its round state), possibly with the next message partially applied; and once the log is worked
through it IS such a crash-free run. -/
theorem node_crash_safe_clock (payloadOf : Tasks.Msg → Bytes) (log : List NMsg) (d : Store NodeSt NOp)
    (sched : List (Option Nat × Time)) (hs : ∀ c ∈ sched, SaneClock c.2) :
    ∃ ts, (∀ t ∈ ts, SaneClock t) ∧
      PartialT SaneClock (nodeHandlerT payloadOf) log (cleanT (nodeHandlerT payloadOf) log d ts) (runT (nodeHandlerT payloadOf) log d sched) :=
  crash_safe_clock SaneClock _ (node_reapplySafeT payloadOf) (node_acceptIndep payloadOf) log d sched hs

theorem node_crash_safe_clock_final (payloadOf : Tasks.Msg → Bytes) (log : List NMsg) (d : Store NodeSt NOp)
    (sched : List (Option Nat × Time)) (hs : ∀ c ∈ sched, SaneClock c.2)
    (hdone : log.length ≤ (runT (nodeHandlerT payloadOf) log d sched).offset) :
    ∃ ts, (∀ t ∈ ts, SaneClock t) ∧ runT (nodeHandlerT payloadOf) log d sched = cleanT (nodeHandlerT payloadOf) log d ts :=
  crash_safe_clock_final SaneClock _ (node_reapplySafeT payloadOf) (node_acceptIndep payloadOf) log d sched hs hdone

/-- non-vacuity: a kill after the operation was written, a restart one second later that finishes the message -/
example : (runT (nodeHandlerT (fun _ => [])) [nvMsg] ⟨nvSt, [], 0⟩ [(some 1, 5), (none, 1000000005)]).offset = 1 := by decide +kernel

end node

end Dc4bcVerif.Props.C13Clock
