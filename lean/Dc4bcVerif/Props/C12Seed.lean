/-
  C12 — the source facts behind `MemPure` (Props/C12Process.lean), read off /repo on every run (Gen/SeedFacts.lean).

  The process memory of an airgapped machine that the handlers read is the base seed `am.baseSeed` (a byte slice).
  * `seed_written_only_when_set`: the field is assigned in exactly two places — when the process starts (`loadBaseSeed`:
    what the database holds, or a freshly generated seed that was stored first) and in `SetBaseSeed` (the operator's
    set_seed: stored first, then assigned). No operation handler assigns it or an element of it.
  * `seed_handed_on_to`: the only other mentions: it is copied into a fresh buffer for the round suite's seed
    (`append([]byte(round), baseSeed...)` appends FROM it), it seeds the base suite, and the slice itself is handed to
    `dkg.InitDKGInstance`.
  * `seed_parameter_is_read_only`: `InitDKGInstance` makes no write to (an element of) the slice it is handed, and the only
    thing it does with it is to hand it to `frand.NewCustom` (external: it reads the seed into its own key; trusted).
  A change that wipes, reuses or re-derives the seed in place changes these lists: the proof obligation breaks, and airdiff's
  second-ceremony scenario looks for the history on which a restarted machine then answers differently.
-/
import Dc4bcVerif.Gen.SeedFacts
import Dc4bcVerif.Props.C12Process

namespace Dc4bcVerif.Props.C12Seed
open Dc4bcVerif.Gen

theorem seed_written_only_when_set :
    SeedFacts.seedWrites = [("loadBaseSeed", "am.baseSeed = seed"), ("SetBaseSeed", "am.baseSeed = seed")] := by decide

theorem seed_handed_on_to :
    SeedFacts.seedUses = [("handleStateDkgCommitsAwaitConfirmations", "append([]byte(o.DKGIdentifier), am.baseSeed...)"),
      ("handleStateDkgCommitsAwaitConfirmations", "dkgInstance.InitDKGInstance(am.baseSeed)"),
      ("loadBaseSeed", "bls12381.NewBLS12381Suite(am.baseSeed)"), ("SetBaseSeed", "bls12381.NewBLS12381Suite(am.baseSeed)")] := by decide

theorem seed_parameter_is_read_only :
    SeedFacts.seedParamWrites = [] ∧ SeedFacts.seedParamUses = ["frand.NewCustom(seed, 32, 20)"] := by decide

end Dc4bcVerif.Props.C12Seed
