/-
  C11 — a dealer whose private deal contradicts its public commitments is caught.

  The check of a deal is modelled in `Model/Shamir.lean` (`acceptDeal`, at the level of exponents) and
  abstractly here over any group (`AcceptDeal`). What is proved:
  * an accepted deal is consistent with the dealer's BROADCAST commitments (`accepted_consistent`), so a
    round in which every deal was accepted has every share on the sum of the broadcast vectors (C02);
  * every deviation of the broadcast vector from the one in the deal — any coefficient, the length — is
    refused (`any_coefficient_matters`, `length_matters`), and comparing only the constant term is NOT
    enough (`constant_term_check_insufficient`: the explicit counterexample behind seeded change C11a), and neither is
    checking the share against the broadcast vector (`share_check_insufficient`: seeded change C11c);
  * an error report of any participant cancels the round on the node that processes it, in every phase
    of key generation (C05.error_report_cancels), and a cancelled round never yields an operation, hence
    never a master-key step and never a stored share (`cancelled_never_asks_for_keys`).
  Undecryptable / malformed ciphertexts are library behaviour (ECIES, JSON): covered by the deviating-dealer
  scenarios on real machines only.
-/
import Mathlib.Algebra.Module.Basic
import Dc4bcVerif.Model.Shamir
import Dc4bcVerif.Props.C02
import Dc4bcVerif.Props.C05
import Dc4bcVerif.Gen.NodeGlue

namespace Dc4bcVerif.Props.C11
open Dc4bcVerif.Model Dc4bcVerif.Gen

variable {F : Type} [Field F] {G : Type} [AddCommGroup G] [Module F G]

/-- the addressee's check over an arbitrary group: the commitments inside the deal are the broadcast ones,
and the share verifies against them -/
def AcceptDeal (g : G) (broadcast inDeal : List G) (x share : F) : Prop :=
  broadcast = inDeal ∧ C02.evalCommit inDeal x = share • g

/-- **accepted_consistent.** An accepted deal is consistent with what the dealer published. -/
theorem accepted_consistent (g : G) (broadcast inDeal : List G) (x share : F) (h : AcceptDeal g broadcast inDeal x share) :
    C02.evalCommit broadcast x = share • g := by
  rw [h.1]; exact h.2

/-- every coefficient matters -/
theorem any_coefficient_matters (g : G) (broadcast inDeal : List G) (x share : F) (k : ℕ)
    (hk : broadcast[k]? ≠ inDeal[k]?) : ¬ AcceptDeal g broadcast inDeal x share := by
  intro h; rw [h.1] at hk; exact hk rfl

theorem length_matters (g : G) (broadcast inDeal : List G) (x share : F)
    (hl : broadcast.length ≠ inDeal.length) : ¬ AcceptDeal g broadcast inDeal x share := by
  intro h; rw [h.1] at hl; exact hl rfl

/-- the weakened check of seeded change C11a: same length, same constant term -/
def WeakAccept (g : G) (broadcast inDeal : List G) (x share : F) : Prop :=
  broadcast.length = inDeal.length ∧ broadcast.head? = inDeal.head? ∧ C02.evalCommit inDeal x = share • g

/-- **constant_term_check_insufficient.** Comparing length and constant term only lets through a deal that
contradicts the broadcast commitments: with `g ≠ 0`, broadcast `[0, g]` against a deal on `[0, 0]`. -/
theorem constant_term_check_insufficient (g : G) (hg : g ≠ 0) :
    ∃ (broadcast inDeal : List G) (x share : F),
      WeakAccept g broadcast inDeal x share ∧ C02.evalCommit broadcast x ≠ share • g := by
  refine ⟨[0, g], [0, 0], 1, 0, ⟨rfl, rfl, ?_⟩, ?_⟩
  · simp [C02.evalCommit]
  · simp [C02.evalCommit, hg]

/-- the weakened check of seeded change C11c: same length, and the SHARE verifies against the broadcast commitments
(nothing ties the commitments inside the deal to the broadcast ones except their value at the addressee's point) -/
def ShareOnlyAccept (g : G) (broadcast inDeal : List G) (x share : F) : Prop :=
  broadcast.length = inDeal.length ∧ C02.evalCommit broadcast x = share • g ∧ C02.evalCommit inDeal x = share • g

/-- **share_check_insufficient.** Checking the share against the broadcast commitments (and the deal against itself)
lets through a deal whose commitments are those of ANOTHER polynomial, one that agrees with the broadcast polynomial
at the addressee's point only: broadcast `[g, 0]` (the constant `1`), deal `[0, g]` (the polynomial `x`), at `x = 1`
with share `1`. The addressee would go on with commitments nobody else has. -/
theorem share_check_insufficient (g : G) (hg : g ≠ 0) :
    ∃ (broadcast inDeal : List G) (x share : F),
      ShareOnlyAccept g broadcast inDeal x share ∧ broadcast ≠ inDeal ∧ ¬ AcceptDeal g broadcast inDeal x share := by
  refine ⟨[g, 0], [0, g], 1, 1, ⟨rfl, ?_, ?_⟩, ?_, ?_⟩
  · simp [C02.evalCommit]
  · simp [C02.evalCommit]
  · intro h; simp at h; exact hg h.1
  · intro h; have := h.1; simp at this; exact hg this.1

/-- the executable check used by the driver is the exponent-level instance of `AcceptDeal` -/
theorem acceptDeal_iff [DecidableEq F] (broadcast inDeal : List F) (x share : F) :
    Shamir.acceptDeal broadcast inDeal x share = true ↔ broadcast = inDeal ∧ Shamir.evalPoly inDeal x = share := by
  unfold Shamir.acceptDeal; simp

/-- a deal taken from the dealer's real polynomial is refused as soon as the broadcast vector differs from it -/
theorem deviating_broadcast_refused [DecidableEq F] (broadcast real : List F) (x : F) (h : broadcast ≠ real) :
    Shamir.acceptDeal broadcast real x (Shamir.evalPoly real x) = false := by
  unfold Shamir.acceptDeal; simp [h]

/-- and the honest case is accepted -/
theorem honest_deal_accepted [DecidableEq F] (real : List F) (x : F) :
    Shamir.acceptDeal real real x (Shamir.evalPoly real x) = true := by
  unfold Shamir.acceptDeal; simp

/-- **cancelled_never_asks_for_keys.** No cancelled state is one for which a node creates an operation: once an
error report has cancelled the round, no participant is ever asked for the master-key step, the only step in which
an airgapped machine stores a key share (`handleStateDkgMasterKeyAwaitConfirmations`). Over the generated state
list and the generated operation-state list. -/
theorem cancelled_never_asks_for_keys :
    ∀ s ∈ Gen.St.all, Model.cancelledSt s = true → Gen.NodeGlue.operationStates.contains s.name = false := by
  decide

/-- an accepted error report cancels the round (commits phase shown; the other three phases are the other
conjuncts of `C05.error_report_cancels`) -/
theorem error_report_cancels (p : Payload) (a : Arg)
    (h : (doEvent dkgMachine runAction sCommitsAwait p eCommitsErr a).res = .ok) :
    C05.cancelled (doEvent dkgMachine runAction sCommitsAwait p eCommitsErr a).state = true :=
  (C05.error_report_cancels p a).1 h

end Dc4bcVerif.Props.C11
