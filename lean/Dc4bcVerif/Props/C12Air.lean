/-
  C12 for the CONCRETE key-generation handlers of the airgapped machine (`Model/AirDkg.lean`, tied to the real machine by
  the `airdkg` stream) — `Props/C12.lean` proves the restart theorems for an abstract deterministic handler; here the
  handler is the model of the real one, with its volatile instances and its durable key rings.

  * `exec_split`: what a handler does to the instances, and what it answers, does not depend on the key rings; what it does
    to the key rings is a list of writes (none or one) that does not depend on them either.
  * `replay_is_identity`: stop the machine after ANY sequence of operations (the instances are gone, the key rings stay),
    hand it the same operations again (`ReplayOperationsLog`): the machine is literally the one that was stopped — same
    instances, same key rings (so the same private share) — and (`replay_results`) every replayed operation is answered
    exactly as it was the first time (the same commitments, deals, responses, master key).
  * `carries_on`: hence whatever is handed to it afterwards is answered as by a machine that never stopped.
  * `fatal_is_noop`: an operation refused with a fatal error (no result file; not logged) leaves the machine as it was, so
    the log (which lacks it) rebuilds the same machine as the history (which has it).
  The orders of Go's map ranges are part of an operation here: the replay is assumed to take the same ones. For the deals
  step the order does not matter (Props/C12AirOrder.lean `responses_order_irrelevant`: two ranges that are permutations of
  each other are both refused or both answered, with the same machine afterwards; Props/C11Air.lean
  `unacceptable_deal_refused` holds in every order); after a REFUSED deals step the real state does depend on it (which deals
  were examined before the refusal) — observable only by operations on a round every honest node has already cancelled.
-/
import Dc4bcVerif.Model.AirDkg
import Dc4bcVerif.Lemmas.AirDkgInv
import Dc4bcVerif.Lemmas.Idem

set_option linter.unusedSectionVars false
set_option linter.unusedSimpArgs false

namespace Dc4bcVerif.Props.C12Air
open Dc4bcVerif.Model.Shamir Dc4bcVerif.Model.AirDkg Dc4bcVerif.Lemmas.AirDkgInv

variable {F : Type} [Add F] [Mul F] [Sub F] [Div F] [Zero F] [One F] [DecidableEq F] [NatCast F]
variable {K : Type} [DecidableEq K]

/-- the machine without its key rings -/
def vol (m : Machine F K) : Machine F K := { m with rings := [] }

/-- a list of key-ring writes applied to the durable store -/
def puts (w : List (String × Keyring F)) (l : List (String × Keyring F)) : List (String × Keyring F) :=
  w.foldl (fun l e => put e.1 e.2 l) l

/-- closes the three-part goals of `exec_split` in a leaf of the case analysis -/
macro "leaf3" : tactic => `(tactic| first | exact ⟨rfl, rfl, rfl⟩ | exact ⟨rfl, rfl, trivial⟩ | exact ⟨rfl, trivial, trivial⟩ | simp [puts, put])

/-- **exec_split.** Instances and answer do not depend on the key rings; the key rings get the writes the ring-less machine makes. -/
theorem exec_split (m : Machine F K) (op : Op F K) :
    (exec m op).1 = { me := m.me, insts := (exec (vol m) op).1.insts, rings := puts (exec (vol m) op).1.rings m.rings } ∧
    (exec m op).2 = (exec (vol m) op).2 ∧ (exec (vol m) op).1.me = m.me := by
  obtain ⟨me, insts, rings⟩ := m
  cases op with
  | commits r e p =>
    simp only [exec, vol]
    unfold commitsOp
    simp only
    cases findOwn me e with
    | none => leaf3
    | some pid =>
      simp only
      by_cases h1 : pid < 0
      · simp only [h1, ↓reduceIte]; leaf3
      · simp only [h1, ↓reduceIte]
        by_cases h2 : (lookup r insts).isSome = true
        · simp only [h2, ↓reduceIte]; leaf3
        · simp only [h2, ↓reduceIte]
          cases List.mapM (fun e => Option.map (fun k => (e.pid, e.name, k)) e.key) e with
          | none => leaf3
          | some es =>
            simp only
            cases firstIdx (fun e => decide (e.2 = me)) (List.map (fun e => (e.2.1, e.2.2)) (sortByPid (List.foldl (fun acc e => pkAdd e acc) [] es))) with
            | none => leaf3
            | some idx =>
              simp only
              generalize (List.map (fun e => (e.2.1, e.2.2)) (sortByPid (List.foldl (fun acc e => pkAdd e acc) [] es))) = keys
              generalize (Option.map (fun x => x.thr) e.head?).getD 0 = thr
              generalize (if thr = 0 then (keys.length + 1) / 2 else thr.toNat) = t
              unfold commitsFinish
              simp only
              by_cases c1 : thr < 0
              · rw [if_pos c1, if_pos c1]; leaf3
              · rw [if_neg c1, if_neg c1]
                by_cases c2 : (!validT t keys.length) = true
                · rw [if_pos c2, if_pos c2]; leaf3
                · rw [if_neg c2, if_neg c2]
                  by_cases c3 : hasDup (List.map (fun x => x.2) keys) = true
                  · rw [if_pos c3, if_pos c3]; leaf3
                  · rw [if_neg c3, if_neg c3]
                    by_cases c4 : p.length ≠ t
                    · rw [if_pos c4, if_pos c4]; leaf3
                    · rw [if_neg c4, if_neg c4]; leaf3
  | deals r e =>
    simp only [exec, vol]
    unfold dealsOp
    simp only
    cases lookup r insts with
    | none => leaf3
    | some i =>
      simp only
      generalize storeCommits i e = q
      obtain ⟨i1, ok⟩ := q
      cases ok with
      | false => leaf3
      | true =>
        simp only [Bool.not_true, Bool.false_eq_true, ↓reduceIte]
        generalize genDeals i1 = q2
        obtain ⟨i2, ok2⟩ := q2
        cases ok2 <;> leaf3
  | responses r e o =>
    simp only [exec, vol]
    unfold responsesOp
    simp only
    cases lookup r insts with
    | none => leaf3
    | some i =>
      simp only
      generalize storeDeals i e = q
      obtain ⟨i1, ok⟩ := q
      cases ok with
      | false => leaf3
      | true =>
        simp only [Bool.not_true, Bool.false_eq_true, ↓reduceIte]
        generalize processDeals i1 o [] = q2
        obtain ⟨i2, res⟩ := q2
        cases res <;> leaf3
  | masterKey r e o =>
    simp only [exec, vol]
    unfold masterKeyOp
    simp only
    cases lookup r insts with
    | none => leaf3
    | some i =>
      simp only
      generalize storeResponses i e = q
      obtain ⟨i1, ok⟩ := q
      cases ok with
      | false => leaf3
      | true =>
        simp only [Bool.not_true, Bool.false_eq_true, ↓reduceIte]
        generalize processResponses i1 o = q2
        obtain ⟨i2, res⟩ := q2
        cases res with
        | false => leaf3
        | true =>
          simp only
          cases distKey i2 with
          | none => leaf3
          | some kr =>
            simp only
            by_cases c : kr.pubPoly.isEmpty = true
            · simp only [c, ↓reduceIte]; leaf3
            · simp only [c, ↓reduceIte]; leaf3
  | restart => leaf3

/-- one step of the ring-less machine -/
def step0 (m : Machine F K) (op : Op F K) : Machine F K := vol (exec (vol m) op).1

/-- the key-ring writes of a run, in order -/
def writes (m : Machine F K) : List (Op F K) → List (String × Keyring F)
  | [] => []
  | op :: rest => (exec (vol m) op).1.rings ++ writes (step0 m op) rest

def run0 (m : Machine F K) (ops : List (Op F K)) : Machine F K := ops.foldl step0 (vol m)

/-- the answers of a run -/
def results (m : Machine F K) : List (Op F K) → List (Res F)
  | [] => []
  | op :: rest => (exec m op).2 :: results (exec m op).1 rest

theorem vol_vol (m : Machine F K) : vol (vol m) = vol m := rfl

theorem puts_append (a b : List (String × Keyring F)) (l : List (String × Keyring F)) : puts (a ++ b) l = puts b (puts a l) := by
  unfold puts; rw [List.foldl_append]

theorem vol_exec (m : Machine F K) (op : Op F K) : vol (exec m op).1 = step0 m op := by
  obtain ⟨h1, _, h3⟩ := exec_split m op
  unfold step0 vol
  rw [h1]
  simp only [Machine.mk.injEq, and_true]
  exact ⟨h3.symm, rfl⟩

theorem writes_vol (m : Machine F K) (ops : List (Op F K)) : writes m ops = writes (vol m) ops := by
  cases ops with
  | nil => rfl
  | cons o r => rfl

/-- **run_split.** A run: the ring-less run for the instances, its writes for the key rings. -/
theorem run_split (ops : List (Op F K)) : ∀ (m : Machine F K),
    run m ops = { me := m.me, insts := (run0 m ops).insts, rings := puts (writes m ops) m.rings } ∧ (run0 m ops).me = m.me ∧
    results m ops = results (vol m) ops := by
  induction ops with
  | nil => intro m; exact ⟨rfl, rfl, rfl⟩
  | cons op rest ih =>
    intro m
    obtain ⟨h1, h2, h3⟩ := exec_split m op
    obtain ⟨i1, i2, i3⟩ := ih (exec m op).1
    have hv : vol (exec m op).1 = step0 m op := vol_exec m op
    have hr0 : run0 (exec m op).1 rest = run0 m (op :: rest) := by
      unfold run0; rw [hv]; rfl
    have hw : writes (exec m op).1 rest = writes (step0 m op) rest := by
      rw [writes_vol, hv]
    refine ⟨?_, ?_, ?_⟩
    · show run (exec m op).1 rest = _
      rw [i1, hr0, hw]
      have hme : (exec m op).1.me = m.me := by rw [h1]
      have hrings : (exec m op).1.rings = puts (exec (vol m) op).1.rings m.rings := by rw [h1]
      rw [hme, hrings]
      simp only [writes, puts_append]
    · rw [← hr0, i2, h1]
    · obtain ⟨j1, j2, j3⟩ := ih (exec (vol m) op).1
      have hv2 : vol (exec (vol m) op).1 = step0 m op := rfl
      simp only [results]
      rw [h2, i3, j3, hv, hv2]

/-! ### the writes of a run, applied twice -/

theorem put_eq_touch (k : String) (v : Keyring F) (l : List (String × Keyring F)) :
    put k v l = Dc4bcVerif.Idem.touch Prod.fst l k (fun _ => (k, v)) := by
  induction l with
  | nil => rfl
  | cons x rest ih =>
    obtain ⟨k', v'⟩ := x
    unfold put Dc4bcVerif.Idem.touch
    by_cases h : k' = k
    · simp [h]
    · simp [h, ih]

theorem puts_eq_F (w l : List (String × Keyring F)) :
    puts w l = Dc4bcVerif.Idem.F Prod.fst Prod.fst (fun _ x => x) l w := by
  unfold puts Dc4bcVerif.Idem.F
  induction w generalizing l with
  | nil => rfl
  | cons e rest ih =>
    simp only [List.foldl_cons]
    rw [ih]
    congr 1
    exact put_eq_touch e.1 e.2 l

theorem sf_const (o : Option (String × Keyring F)) (ys : List (String × Keyring F)) :
    Dc4bcVerif.Idem.sf (fun _ x => x) o ys = match ys.getLast? with | some y => some y | none => o := by
  unfold Dc4bcVerif.Idem.sf
  induction ys generalizing o with
  | nil => rfl
  | cons y rest ih =>
    simp only [List.foldl_cons]
    rw [ih]
    cases rest with
    | nil => rfl
    | cons z r =>
      rw [List.getLast?_cons_cons]
      cases h : (z :: r).getLast? with
      | none => simp at h
      | some w => rfl

/-- **writing the same key rings again changes nothing** -/
theorem puts_idem (w l : List (String × Keyring F)) : puts w (puts w l) = puts w l := by
  rw [puts_eq_F, puts_eq_F]
  apply Dc4bcVerif.Idem.F_idem Prod.fst Prod.fst (fun _ x => x) (fun _ _ => rfl) ?_ w.length w (Nat.le_refl _)
  intro k o ys _
  rw [sf_const, sf_const]
  cases ys.getLast? <;> rfl

/-! ### stop, replay -/

def fresh (me : K) : Machine F K := { me := me }

theorem run_me (ops : List (Op F K)) (m : Machine F K) : (run m ops).me = m.me := by
  rw [(run_split ops m).1]

/-- **replay_is_identity.** -/
theorem replay_is_identity (me : K) (ops : List (Op F K)) :
    run (stop (run (fresh me : Machine F K) ops)) ops = run (fresh me) ops := by
  have hv : vol (stop (run (fresh me : Machine F K) ops)) = vol (fresh me) := by
    unfold vol stop fresh
    simp only [Machine.mk.injEq, and_true]
    exact run_me ops _
  obtain ⟨a1, _, _⟩ := run_split ops (fresh me : Machine F K)
  obtain ⟨b1, _, _⟩ := run_split ops (stop (run (fresh me : Machine F K) ops))
  have hr0 : run0 (stop (run (fresh me : Machine F K) ops)) ops = run0 (fresh me) ops := by unfold run0; rw [hv]
  have hw : writes (stop (run (fresh me : Machine F K) ops)) ops = writes (fresh me : Machine F K) ops := by
    rw [writes_vol, hv, ← writes_vol]
  rw [b1, hr0, hw]
  have hme : (stop (run (fresh me : Machine F K) ops)).me = me := by
    show (run (fresh me : Machine F K) ops).me = me
    rw [run_me]; rfl
  have hrings : (stop (run (fresh me : Machine F K) ops)).rings = puts (writes (fresh me : Machine F K) ops) [] := by
    show (run (fresh me : Machine F K) ops).rings = _
    rw [a1]; rfl
  rw [hme, hrings, puts_idem]
  rw [a1]
  rfl

/-- **replay_results.** Every replayed operation is answered as it was the first time. -/
theorem replay_results (me : K) (ops : List (Op F K)) :
    results (stop (run (fresh me : Machine F K) ops)) ops = results (fresh me) ops := by
  have hv : vol (stop (run (fresh me : Machine F K) ops)) = vol (fresh me) := by
    unfold vol stop fresh
    simp only [Machine.mk.injEq, and_true]
    exact run_me ops _
  rw [(run_split ops _).2.2, hv, ← (run_split ops (fresh me)).2.2]

/-- **carries_on.** After stop + replay, whatever follows is answered as by the machine that never stopped, and leaves the same machine. -/
theorem carries_on (me : K) (ops later : List (Op F K)) :
    results (run (stop (run (fresh me : Machine F K) ops)) ops) later = results (run (fresh me) ops) later ∧
    run (run (stop (run (fresh me : Machine F K) ops)) ops) later = run (run (fresh me) ops) later := by
  rw [replay_is_identity]; exact ⟨rfl, rfl⟩

/-- stopping twice, or replaying a replayed machine: still the same -/
theorem carries_on_twice (me : K) (ops : List (Op F K)) :
    run (stop (run (stop (run (fresh me : Machine F K) ops)) ops)) ops = run (fresh me) ops := by
  rw [replay_is_identity, replay_is_identity]

/-- the three ways the commits step ends -/
theorem commitsOp_cases (m : Machine F K) (r : String) (e : List (KeyEntry K)) (p : List F) :
    commitsOp m r e p = (m, Res.err) ∨ commitsOp m r e p = (m, Res.badOracle) ∨
    ∃ inst idx, commitsOp m r e p = ({ m with insts := put r inst m.insts }, Res.commits idx p) := by
  unfold commitsOp
  cases findOwn m.me e with
  | none => exact Or.inl rfl
  | some pid =>
    simp only
    by_cases h1 : pid < 0
    · rw [if_pos h1]; exact Or.inl rfl
    · rw [if_neg h1]
      by_cases h2 : (lookup r m.insts).isSome = true
      · rw [if_pos h2]; exact Or.inl rfl
      · rw [if_neg h2]
        cases List.mapM (fun e => Option.map (fun k => (e.pid, e.name, k)) e.key) e with
        | none => exact Or.inl rfl
        | some es =>
          simp only
          cases firstIdx (fun e => decide (e.2 = m.me)) (List.map (fun e => (e.2.1, e.2.2)) (sortByPid (List.foldl (fun acc e => pkAdd e acc) [] es))) with
          | none => exact Or.inl rfl
          | some idx =>
            simp only
            unfold commitsFinish
            simp only
            repeat (first | exact Or.inl rfl | exact Or.inr (Or.inl rfl) | exact Or.inr (Or.inr ⟨_, _, rfl⟩) | split)

/-- **fatal_is_noop.** A handler error on a round the machine has no instance of (a fatal error: no result file, nothing
logged) leaves the machine exactly as it was. -/
theorem fatal_is_noop (m : Machine F K) (op : Op F K) (round : String)
    (hround : match op with | .commits r _ _ => r = round | .deals r _ => r = round | .responses r _ _ => r = round | .masterKey r _ _ => r = round | .restart => False)
    (h : outcome (exec m op).1 round (exec m op).2 = Outcome.fatal) : (exec m op).1 = m := by
  cases op with
  | restart => exact absurd hround id
  | commits r e p =>
    subst hround
    simp only [exec] at h ⊢
    rcases commitsOp_cases m r e p with hc | hc | ⟨inst, idx, hc⟩
    · rw [hc]
    · rw [hc] at h; simp [outcome] at h
    · rw [hc] at h; simp [outcome] at h
  | deals r e =>
    subst hround
    simp only [exec] at h ⊢
    unfold dealsOp at h ⊢
    split
    · rfl
    · rename_i i hi
      simp only [hi] at h
      exfalso
      revert h
      generalize storeCommits i e = q
      obtain ⟨i1, ok⟩ := q
      simp only
      split
      · simp [outcome, lookup_put_self]
      · generalize genDeals i1 = q2
        obtain ⟨i2, ok2⟩ := q2
        cases ok2 <;> simp [outcome, lookup_put_self]
  | responses r e o =>
    subst hround
    simp only [exec] at h ⊢
    unfold responsesOp at h ⊢
    split
    · rfl
    · rename_i i hi
      simp only [hi] at h
      exfalso
      revert h
      generalize storeDeals i e = q
      obtain ⟨i1, ok⟩ := q
      simp only
      split
      · simp [outcome, lookup_put_self]
      · generalize processDeals i1 o [] = q2
        obtain ⟨i2, res⟩ := q2
        cases res <;> simp [outcome, lookup_put_self]
  | masterKey r e o =>
    subst hround
    simp only [exec] at h ⊢
    unfold masterKeyOp at h ⊢
    split
    · rfl
    · rename_i i hi
      simp only [hi] at h
      exfalso
      revert h
      generalize storeResponses i e = q
      obtain ⟨i1, ok⟩ := q
      simp only
      split
      · simp [outcome, lookup_put_self]
      · generalize processResponses i1 o = q2
        obtain ⟨i2, res⟩ := q2
        cases res with
        | false => simp [outcome, lookup_put_self]
        | true =>
          simp only
          split
          · simp [outcome, lookup_put_self]
          · split <;> simp [outcome, lookup_put_self]

/-! ### signing requests (not logged) -/

/-- a signing request changes nothing on the machine (the hypothesis `UnloggedPure` of `Props/C12.lean`, for the model of
the real handler) -/
theorem sign_changes_nothing (m : Machine F K) (round : String) (payloadOk : Bool) (msgs : Option Nat) :
    (signOp m round payloadOk msgs).1 = m := by
  unfold signOp
  repeat (first | rfl | split)

/-- after stop + replay a signing request is answered as by the machine that never stopped: the same own index, the same
share under the partial signatures -/
theorem signs_alike_after_replay (me : K) (ops : List (Op F K)) (round : String) (payloadOk : Bool) (msgs : Option Nat) :
    signOp (run (stop (run (fresh me : Machine F K) ops)) ops) round payloadOk msgs = signOp (run (fresh me) ops) round payloadOk msgs := by
  rw [replay_is_identity]

/-- a signing request with something to sign is answered only by a machine that holds both the round's instance (volatile:
gone after a stop until the log is replayed) and its key ring -/
theorem sign_needs_instance_and_ring (m : Machine F K) (round : String) (k pid : Nat) (sh : Option F)
    (h : (signOp m round true (some (k + 1))).2 = Res.partials pid sh (k + 1)) :
    (∃ i, lookup round m.insts = some i ∧ i.pid = pid) ∧ (∃ kr, lookup round m.rings = some kr ∧ sh = some kr.share) := by
  unfold signOp at h
  simp only [Bool.not_true, Bool.false_eq_true, ↓reduceIte] at h
  cases hi : lookup round m.insts with
  | none => simp [hi] at h
  | some i =>
    simp only [hi] at h
    cases hr : lookup round m.rings with
    | none => simp [hr] at h
    | some kr =>
      simp only [hr, Res.partials.injEq] at h
      exact ⟨⟨i, rfl, h.1⟩, ⟨kr, rfl, h.2.1.symm⟩⟩

/-- right after a stop, before the replay, nothing can be signed (seed C20i: a machine whose instance is never rebuilt) -/
theorem stopped_machine_cannot_sign (m : Machine F K) (round : String) (k : Nat) :
    (signOp (stop m) round true (some (k + 1))).2 = Res.err := by
  unfold signOp stop
  simp [lookup]

/-- the hypotheses are met: the two-party round of `Model/AirDkg.lean`, stopped after its deals step and replayed -/
example : run (stop (run (fresh 1 : Machine Int Nat) exOps)) exOps = run (fresh 1) exOps := replay_is_identity 1 exOps
example : (run (fresh 1 : Machine Int Nat) exOps).insts ≠ [] := by decide

end Dc4bcVerif.Props.C12Air
