/-
  C20, the airgapped side: `handleReinitDKG` (`Model/AirReinit.lean`) over the handler model of `Model/AirDkg.lean`.

  * `loop_eq_run`              - a payload made of key-generation operations that are all answered (none fatally refused)
                                 is handled exactly like the same operations handed over one by one;
  * `reinit_reproduces_share`  - a machine that was just started (no instance in memory; WHATEVER key rings its database
                                 holds) and has the key of the original machine, given as a re-initialisation the operations
                                 the original machine answered in its ceremony, answers with the original public polynomial,
                                 holds the original key ring (polynomial AND share) for the round and the original instances;
  * `reinit_replayed_after_stop` - the re-initialisation operation is logged: stop + replay gives the same machine and answer;
  * `processed_answer_is_the_stored_polynomial`, `passed_over_entries_do_not_matter`,
    `reinit_touches_only_named_rounds` (instance and key ring of a round no entry names stay as they were).
  The dealer polynomial is an input of the commits step (the seeded stream: same mnemonic and round id, same draw - tied by
  the airdkg stream, where the shadow machine's draw is read through the hook). Go's range order in the deals step is covered
  by `C12AirOrder.responses_order_irrelevant`; the master-key step's `ord` is taken to be the same in both runs.
  Core-only. Axioms: propext, Classical.choice, Quot.sound at most.
-/
import Dc4bcVerif.Model.AirReinit
import Dc4bcVerif.Props.C12Air

namespace Dc4bcVerif.Props.C20Air
set_option linter.unusedSectionVars false
open Dc4bcVerif.Model.Shamir Dc4bcVerif.Model.AirDkg Dc4bcVerif.Lemmas.AirDkgInv Dc4bcVerif.Props.C12Air

variable {F : Type} [Add F] [Mul F] [Sub F] [Div F] [Zero F] [One F] [DecidableEq F] [NatCast F]
variable {K : Type} [DecidableEq K]

/-- every operation of the list names a round and is answered - with a result or an error result -, none is refused fatally -/
def okRun (m : Machine F K) : List (Op F K) → Bool
  | [] => true
  | op :: rest =>
    match op.round? with
    | none => false
    | some round =>
      (match outcome (exec m op).1 round (exec m op).2 with | .fatal => false | _ => true) && okRun (exec m op).1 rest

/-- **loop_eq_run.** -/
theorem loop_eq_run (ops : List (Op F K)) : ∀ m : Machine F K, okRun m ops = true →
    reinitLoop m (ops.map Inner.kg) = (run m ops, true) := by
  induction ops with
  | nil => intro m _; rfl
  | cons op rest ih =>
    intro m h
    unfold okRun at h
    cases hr : op.round? with
    | none => rw [hr] at h; exact absurd h (by simp)
    | some round =>
      rw [hr] at h
      simp only [Bool.and_eq_true] at h
      obtain ⟨h1, h2⟩ := h
      have hrec := ih _ h2
      simp only [List.map_cons, reinitLoop, hr]
      cases ho : outcome (exec m op).1 round (exec m op).2 with
      | fatal => rw [ho] at h1; exact absurd h1 (by simp)
      | result r => exact hrec
      | errorResult p => exact hrec

theorem outcome_insts (m m' : Machine F K) (h : m.insts = m'.insts) (round : String) (r : Res F) :
    outcome m round r = outcome m' round r := by
  unfold outcome; rw [h]

/-- whether a run is answered throughout does not depend on the key rings -/
theorem okRun_vol (ops : List (Op F K)) : ∀ m : Machine F K, okRun m ops = okRun (vol m) ops := by
  induction ops with
  | nil => intro m; rfl
  | cons op rest ih =>
    intro m
    obtain ⟨h1, h2, _⟩ := exec_split m op
    have hins : (exec m op).1.insts = (exec (vol m) op).1.insts := by rw [h1]
    have e1 : okRun (exec m op).1 rest = okRun (step0 m op) rest := by rw [ih, vol_exec]
    have e2 : okRun (exec (vol m) op).1 rest = okRun (step0 m op) rest := by rw [ih]; rfl
    unfold okRun
    cases op.round? with
    | none => rfl
    | some round =>
      simp only
      rw [outcome_insts _ _ hins, h2, e1, e2]

/-! ### reading a key ring after a list of writes -/

theorem lookup_put_eq {V : Type} (k k' : String) (v : V) (l : List (String × V)) :
    lookup k (put k' v l) = if k' = k then some v else lookup k l := by
  by_cases h : k' = k
  · subst h; rw [if_pos rfl]; exact lookup_put_self _ _ _
  · rw [if_neg h]; exact lookup_put_ne k' k v l (fun e => h e.symm)

theorem lookup_puts (k : String) (w : List (String × Keyring F)) : ∀ l : List (String × Keyring F),
    lookup k (puts w l) = w.foldl (fun acc e => if e.1 = k then some e.2 else acc) (lookup k l) := by
  induction w with
  | nil => intro l; rfl
  | cons e rest ih =>
    intro l
    show lookup k (puts rest (put e.1 e.2 l)) = _
    rw [ih, lookup_put_eq]
    rfl

theorem foldl_last {V : Type} (k : String) (w : List (String × V)) : ∀ a : Option V,
    w.foldl (fun acc e => if e.1 = k then some e.2 else acc) a =
      match w.foldl (fun acc e => if e.1 = k then some e.2 else acc) none with
      | some x => some x
      | none => a := by
  induction w with
  | nil => intro a; rfl
  | cons e rest ih =>
    intro a
    simp only [List.foldl_cons]
    by_cases h : e.1 = k
    · simp only [h, ↓reduceIte]
      rw [ih (some e.2)]
      cases List.foldl (fun acc e => if e.1 = k then some e.2 else acc) none rest <;> rfl
    · simp only [h, ↓reduceIte]
      rw [ih a]

/-- a key ring a list of writes leaves in an empty store is left by the same writes in any store -/
theorem lookup_puts_of_empty (k : String) (w l : List (String × Keyring F)) (v : Keyring F)
    (h : lookup k (puts w []) = some v) : lookup k (puts w l) = some v := by
  rw [lookup_puts] at h ⊢
  rw [foldl_last] at h ⊢
  cases hw : List.foldl (fun acc (e : String × Keyring F) => if e.1 = k then some e.2 else acc) none w with
  | none => rw [hw] at h; simp [lookup] at h
  | some x => rw [hw] at h; exact h

/-! ### the re-initialised machine -/

theorem vol_of_started (m : Machine F K) (me : K) (hme : m.me = me) (hstarted : m.insts = []) :
    vol m = vol (fresh me : Machine F K) := by
  obtain ⟨a, b, c⟩ := m
  simp only at hme hstarted
  subst hme; subst hstarted
  rfl

/-- **reinit_reproduces_share.** -/
theorem reinit_reproduces_share (me : K) (ops : List (Op F K)) (R : String) (kr : Keyring F)
    (hok : okRun (fresh me : Machine F K) ops = true)
    (hring : lookup R (run (fresh me : Machine F K) ops).rings = some kr)
    (m' : Machine F K) (hme : m'.me = me) (hstarted : m'.insts = []) :
    (reinitOp m' R (ops.map Inner.kg)).2 = ReinitRes.processed kr.pubPoly ∧
    lookup R (reinitOp m' R (ops.map Inner.kg)).1.rings = some kr ∧
    (reinitOp m' R (ops.map Inner.kg)).1.insts = (run (fresh me : Machine F K) ops).insts := by
  have hv := vol_of_started m' me hme hstarted
  have hok' : okRun m' ops = true := by rw [okRun_vol, hv, ← okRun_vol]; exact hok
  have hloop := loop_eq_run ops m' hok'
  obtain ⟨a1, _, _⟩ := run_split ops (fresh me : Machine F K)
  obtain ⟨b1, _, _⟩ := run_split ops m'
  have hr0 : run0 m' ops = run0 (fresh me : Machine F K) ops := by unfold run0; rw [hv]
  have hw : writes m' ops = writes (fresh me : Machine F K) ops := by rw [writes_vol, hv, ← writes_vol]
  have hrings : lookup R (run m' ops).rings = some kr := by
    rw [b1, hw]
    apply lookup_puts_of_empty
    rw [a1] at hring
    exact hring
  have hinsts : (run m' ops).insts = (run (fresh me : Machine F K) ops).insts := by
    rw [b1, a1, hr0]
  unfold reinitOp
  rw [hloop]
  simp only [hrings, true_and]
  exact hinsts

/-- stop + replay of a run, from any machine that had just been started -/
theorem replay_general (m : Machine F K) (hstarted : m.insts = []) (ops : List (Op F K)) :
    run (stop (run m ops)) ops = run m ops := by
  have hv : vol (stop (run m ops)) = vol m := by
    unfold vol stop
    simp only [Machine.mk.injEq, and_true]
    exact ⟨run_me ops _, hstarted.symm⟩
  obtain ⟨a1, _, _⟩ := run_split ops m
  obtain ⟨b1, _, _⟩ := run_split ops (stop (run m ops))
  have hr0 : run0 (stop (run m ops)) ops = run0 m ops := by unfold run0; rw [hv]
  have hw : writes (stop (run m ops)) ops = writes m ops := by rw [writes_vol, hv, ← writes_vol]
  rw [b1, hr0, hw]
  have hme : (stop (run m ops)).me = m.me := by
    show (run m ops).me = m.me
    rw [run_me]
  have hrings : (stop (run m ops)).rings = puts (writes m ops) m.rings := by
    show (run m ops).rings = _
    rw [a1]
  rw [hme, hrings, puts_idem]
  exact a1.symm

/-- **reinit_replayed_after_stop.** The `reinit_dkg` operation is logged like any other; after a stop the replay hands it
to the machine again: the same machine, the same answer. -/
theorem reinit_replayed_after_stop (m : Machine F K) (hstarted : m.insts = []) (R : String) (ops : List (Op F K))
    (hok : okRun m ops = true) :
    reinitOp (stop (reinitOp m R (ops.map Inner.kg)).1) R (ops.map Inner.kg) = reinitOp m R (ops.map Inner.kg) := by
  have hloop := loop_eq_run ops m hok
  have h1 : (reinitOp m R (ops.map Inner.kg)).1 = run m ops := by
    unfold reinitOp; rw [hloop]; simp only; split <;> rfl
  have hv : vol (stop (run m ops)) = vol m := by
    unfold vol stop
    simp only [Machine.mk.injEq, and_true]
    exact ⟨run_me ops _, hstarted.symm⟩
  have hok2 : okRun (stop (run m ops)) ops = true := by rw [okRun_vol, hv, ← okRun_vol]; exact hok
  have hloop2 := loop_eq_run ops (stop (run m ops)) hok2
  rw [h1]
  unfold reinitOp
  rw [hloop2, hloop, replay_general m hstarted ops]

/-- **processed_answer_is_the_stored_polynomial.** -/
theorem processed_answer_is_the_stored_polynomial (m : Machine F K) (R : String) (inner : List (Inner F K)) (p : List F)
    (h : (reinitOp m R inner).2 = ReinitRes.processed p) :
    ∃ kr, lookup R (reinitOp m R inner).1.rings = some kr ∧ kr.pubPoly = p := by
  unfold reinitOp at h ⊢
  generalize reinitLoop m inner = q at h ⊢
  obtain ⟨m1, ok⟩ := q
  cases ok with
  | false =>
    simp only [reinitFail] at h
    split at h <;> simp at h
  | true =>
    simp only at h ⊢
    cases hl : lookup R m1.rings with
    | none =>
      rw [hl] at h
      simp only [reinitFail] at h
      split at h <;> simp at h
    | some kr =>
      rw [hl] at h
      simp only [ReinitRes.processed.injEq] at h
      exact ⟨kr, hl, h⟩

/-- **passed_over_entries_do_not_matter.** -/
theorem passed_over_entries_do_not_matter (a b : List (Inner F K)) : ∀ m : Machine F K,
    reinitLoop m (a ++ Inner.skip :: b) = reinitLoop m (a ++ b) := by
  induction a with
  | nil => intro m; rfl
  | cons e rest ih =>
    intro m
    cases e with
    | skip => simp only [List.cons_append, reinitLoop]; exact ih m
    | failing r => simp only [List.cons_append, reinitLoop]; split; exact ih m; rfl
    | sign r p n => simp only [List.cons_append, reinitLoop]; split; rfl; exact ih m
    | kg op =>
      simp only [List.cons_append, reinitLoop]
      split
      · exact ih m
      · split
        · rfl
        · exact ih _

/-! ### rounds no entry names -/

/-- a handler touches the instance and the key ring of the round its operation names, of no other -/
theorem exec_frame (m : Machine F K) (op : Op F K) (round : String) (h : op.round? = some round) (r' : String) (hne : r' ≠ round) :
    lookup r' (exec m op).1.insts = lookup r' m.insts ∧ lookup r' (exec m op).1.rings = lookup r' m.rings := by
  cases op with
  | restart => simp [Op.round?] at h
  | commits r e p =>
    simp only [Op.round?, Option.some.injEq] at h; subst h
    simp only [exec]
    rcases commitsOp_cases m r e p with hc | hc | ⟨inst, idx, hc⟩ <;> rw [hc]
    · exact ⟨rfl, rfl⟩
    · exact ⟨rfl, rfl⟩
    · exact ⟨lookup_put_ne _ _ _ _ hne, rfl⟩
  | deals r e =>
    simp only [Op.round?, Option.some.injEq] at h; subst h
    simp only [exec]
    unfold dealsOp
    split
    · exact ⟨rfl, rfl⟩
    · rename_i i hi
      generalize storeCommits i e = q
      obtain ⟨i1, ok⟩ := q
      simp only
      split
      · exact ⟨lookup_put_ne _ _ _ _ hne, rfl⟩
      · generalize genDeals i1 = q2
        obtain ⟨i2, ok2⟩ := q2
        cases ok2 <;> exact ⟨lookup_put_ne _ _ _ _ hne, rfl⟩
  | responses r e o =>
    simp only [Op.round?, Option.some.injEq] at h; subst h
    simp only [exec]
    unfold responsesOp
    split
    · exact ⟨rfl, rfl⟩
    · rename_i i hi
      generalize storeDeals i e = q
      obtain ⟨i1, ok⟩ := q
      simp only
      split
      · exact ⟨lookup_put_ne _ _ _ _ hne, rfl⟩
      · generalize processDeals i1 o [] = q2
        obtain ⟨i2, res⟩ := q2
        cases res <;> exact ⟨lookup_put_ne _ _ _ _ hne, rfl⟩
  | masterKey r e o =>
    simp only [Op.round?, Option.some.injEq] at h; subst h
    simp only [exec]
    unfold masterKeyOp
    split
    · exact ⟨rfl, rfl⟩
    · rename_i i hi
      generalize storeResponses i e = q
      obtain ⟨i1, ok⟩ := q
      simp only
      split
      · exact ⟨lookup_put_ne _ _ _ _ hne, rfl⟩
      · generalize processResponses i1 o = q2
        obtain ⟨i2, res⟩ := q2
        cases res with
        | false => exact ⟨lookup_put_ne _ _ _ _ hne, rfl⟩
        | true =>
          simp only
          split
          · exact ⟨lookup_put_ne _ _ _ _ hne, rfl⟩
          · split
            · exact ⟨lookup_put_ne _ _ _ _ hne, rfl⟩
            · exact ⟨lookup_put_ne _ _ _ _ hne, lookup_put_ne _ _ _ _ hne⟩

/-- **reinit_touches_only_named_rounds.** Whatever the payload holds and however the re-initialisation ends: the instance
and the key ring of a round that no key-generation entry names are what they were. -/
theorem reinit_touches_only_named_rounds (r' : String) (inner : List (Inner F K)) : ∀ m : Machine F K,
    (∀ op, Inner.kg op ∈ inner → op.round? ≠ some r') →
    lookup r' (reinitLoop m inner).1.insts = lookup r' m.insts ∧ lookup r' (reinitLoop m inner).1.rings = lookup r' m.rings := by
  induction inner with
  | nil => intro m _; exact ⟨rfl, rfl⟩
  | cons e rest ih =>
    intro m hn
    have hrest : ∀ op, Inner.kg op ∈ rest → op.round? ≠ some r' := fun op ho => hn op (List.mem_cons_of_mem _ ho)
    cases e with
    | skip => simp only [reinitLoop]; exact ih m hrest
    | failing r => simp only [reinitLoop]; split; exact ih m hrest; exact ⟨rfl, rfl⟩
    | sign r p n => simp only [reinitLoop]; split; exact ⟨rfl, rfl⟩; exact ih m hrest
    | kg op =>
      have hop := hn op (List.mem_cons_self)
      simp only [reinitLoop]
      split
      · exact ih m hrest
      · rename_i round hr
        have hne : r' ≠ round := fun e => hop (by rw [hr, e])
        obtain ⟨f1, f2⟩ := exec_frame m op round hr r' hne
        split
        · exact ⟨f1, f2⟩
        · obtain ⟨g1, g2⟩ := ih (exec m op).1 hrest
          exact ⟨g1.trans f1, g2.trans f2⟩

/-! ### non-vacuity: the two-party round of `Model/AirDkg.lean` -/

def exAll : List (Op Int Nat) := exOps ++ [.masterKey "r" exResps [0, 1]]

example : okRun ({ me := 1 } : Machine Int Nat) exAll = true := by decide
example : (lookup "r" (run ({ me := 1 } : Machine Int Nat) exAll).rings) = some { pubPoly := [10, 16], share := 26 } := by decide
/-- a machine whose database already holds another key ring for the round (a stale one) ends with the original one -/
example : lookup "r" (reinitOp ({ me := 1, rings := [("r", { pubPoly := [1], share := 1 })] } : Machine Int Nat) "r" (exAll.map Inner.kg)).1.rings
    = some { pubPoly := [10, 16], share := 26 } := by decide

end Dc4bcVerif.Props.C20Air
