/-
  C13 — a hot node killed at any instant resumes without losing messages or operations.

  `Model/Crash.lean` is the poll loop as a sequence of durable writes with a kill between any two of
  them. The theorems:
  * `crash_safe`: with the write order (operation, round state, offset) — the order the translator
    reads off the source on every run (`order_in_source`) — and a handler that refuses, or repeats
    without effect, a message it has already applied (`ReapplySafe`), EVERY crash schedule (any number
    of kills, at any write, on any messages) leaves the store equal to a crash-free run of some prefix
    of the log, possibly with the next message partially applied; and once the node has worked through
    the log the store IS the crash-free one (`crash_safe_final`): no message applied twice in effect,
    no operation lost.
  * `old_order_loses_operation`: with the order (round state, operation) — the pinned tree's — there is
    a handler and a single kill after which the operation is never created (the defect behind fix e9eb70c).
  * the answer path: `answer_order_in_source` (the result is posted before the operation is retired, so a
    kill in between leaves the operation pending and the result can be submitted again).
  `ReapplySafe` is PROVED for the model's node handler, for every node state and message, in
  `Props/C13Fsm.lean` (round machines), `Props/C13Node.lean` and `Props/C13Start.lean` (`node_reapply`,
  `node_reapplySafe`), so `crash_safe` holds of it without assumption (`node_crash_safe`, `node_crash_safe_final`).
  Assumed, not proved: atomicity of a single LevelDB write, durability of the board file; that the real handler is
  the model's is the tie (nodediff, crashdiff), not a theorem.
-/
import Dc4bcVerif.Model.Crash
import Dc4bcVerif.Gen.Effects

namespace Dc4bcVerif.Props.C13
open Dc4bcVerif.Model.Crash

variable {S M O : Type} [DecidableEq O]

/-- the order after fix e9eb70c -/
def newOrder : List W := [.op, .state]
/-- the order of the pinned tree -/
def oldOrder : List W := [.state, .op]

/-- a message that has been applied is refused when it is handled again, or accepted without changing the
state and without asking for anything new -/
def ReapplySafe (h : Handler S M O) : Prop :=
  ∀ s m s' o, h s m = some (s', o) → h s' m = none ∨ ∃ o', h s' m = some (s', o') ∧ (o' = none ∨ o' = o)

theorem putOnce_idem (l : List O) (o : Option O) : putOnce (putOnce l o) o = putOnce l o := by
  cases o with
  | none => rfl
  | some x =>
    unfold putOnce
    by_cases hx : x ∈ l
    · simp [hx]
    · simp [hx]

/-- the crash-free continuation by one message -/
def next (h : Handler S M O) (log : List M) (c : Store S O) : Store S O :=
  match log[c.offset]? with
  | none => c
  | some m => cleanStep h c m

/-- `d` is the crash-free store `c`, possibly with the message at `c`'s offset partially applied: its operation
written, and maybe its state too, but not the offset -/
def Partial (h : Handler S M O) (log : List M) (c d : Store S O) : Prop :=
  d = c ∨ ∃ m s' o, log[c.offset]? = some m ∧ h c.state m = some (s', o) ∧
    d.offset = c.offset ∧ d.ops = putOnce c.ops o ∧ (d.state = c.state ∨ d.state = s')

omit [DecidableEq O] in
theorem store_ext (a b : Store S O) (h1 : a.state = b.state) (h2 : a.ops = b.ops) (h3 : a.offset = b.offset) : a = b := by
  cases a; cases b; simp_all

/-- one start of the process preserves the invariant, staying at `c` or moving on to the next clean store -/
theorem attempt_inv (h : Handler S M O) (hsafe : ReapplySafe h) (log : List M) (c d : Store S O)
    (hp : Partial h log c d) (k : Option Nat) :
    Partial h log c (attempt newOrder h log d k) ∨ Partial h log (next h log c) (attempt newOrder h log d k) := by
  -- normalise the number of writes
  have key : ∀ n : Nat, Partial h log c (match log[d.offset]? with | none => d | some m => stepPrefix newOrder h d m n) ∨
      Partial h log (next h log c) (match log[d.offset]? with | none => d | some m => stepPrefix newOrder h d m n) := by
    intro n
    rcases hp with hdc | ⟨m, s', o, hm, hh, hoff, hops, hst⟩
    · -- on a clean store
      subst hdc
      cases hm : log[d.offset]? with
      | none => left; left; rfl
      | some m =>
        simp only
        unfold stepPrefix
        cases hh : h d.state m with
        | none =>
          simp only
          by_cases hn : n = 0
          · simp only [hn, ↓reduceIte]; left; left; rfl
          · simp only [hn, ↓reduceIte]; right; left
            unfold next cleanStep; simp only [hm, hh]
        | some r =>
          obtain ⟨s', o⟩ := r
          simp only [newOrder]
          match n with
          | 0 => left; left; simp
          | 1 =>
            left; right
            refine ⟨m, s', o, hm, hh, ?_, ?_, Or.inl ?_⟩ <;> simp [applyW]
          | 2 =>
            left; right
            refine ⟨m, s', o, hm, hh, ?_, ?_, Or.inr ?_⟩ <;> simp [applyW]
          | n + 3 =>
            right; left
            unfold next cleanStep; simp only [hm, hh]
            apply store_ext <;> simp [applyW]
    · -- on a store with the message partially applied
      rw [hoff, hm]
      simp only
      unfold stepPrefix
      rcases hst with hs | hs
      · -- operation written, state not: the handler sees the old state again
        rw [hs, hh]
        simp only [newOrder]
        have hidem : putOnce (putOnce c.ops o) o = putOnce c.ops o := putOnce_idem _ _
        match n with
        | 0 => left; right; exact ⟨m, s', o, hm, hh, hoff, hops, Or.inl hs⟩
        | 1 =>
          left; right
          refine ⟨m, s', o, hm, hh, ?_, ?_, Or.inl ?_⟩ <;> simp [applyW, hoff, hidem, hops, hs]
        | 2 =>
          left; right
          refine ⟨m, s', o, hm, hh, ?_, ?_, Or.inr ?_⟩ <;> simp [applyW, hoff, hidem, hops]
        | n + 3 =>
          right; left
          unfold next cleanStep; simp only [hm, hh]
          apply store_ext <;> simp [applyW, hoff, hidem, hops]
      · -- operation and state written, offset not: the handler sees the new state
        rw [hs]
        rcases hsafe c.state m s' o hh with hrej | ⟨o', hacc, ho'⟩
        · rw [hrej]
          simp only
          by_cases hn : n = 0
          · simp only [hn, ↓reduceIte]; left; right; exact ⟨m, s', o, hm, hh, hoff, hops, Or.inr hs⟩
          · simp only [hn, ↓reduceIte]; right; left
            unfold next cleanStep; simp only [hm, hh]
            apply store_ext <;> simp [hoff, hops]
        · rw [hacc]
          simp only [newOrder]
          have hidem : putOnce (putOnce c.ops o) o' = putOnce c.ops o := by
            rcases ho' with h0 | h0
            · rw [h0]; rfl
            · rw [h0]; exact putOnce_idem _ _
          match n with
          | 0 => left; right; exact ⟨m, s', o, hm, hh, hoff, hops, Or.inr hs⟩
          | 1 =>
            left; right
            refine ⟨m, s', o, hm, hh, ?_, ?_, Or.inr ?_⟩ <;> simp [applyW, hoff, hidem, hops, hs]
          | 2 =>
            left; right
            refine ⟨m, s', o, hm, hh, ?_, ?_, Or.inr ?_⟩ <;> simp [applyW, hoff, hidem, hops]
          | n + 3 =>
            right; left
            unfold next cleanStep; simp only [hm, hh]
            apply store_ext <;> simp [applyW, hoff, hidem, hops]
  unfold attempt
  cases k with
  | none =>
    have := key (newOrder.length + 1)
    cases hl : log[d.offset]? with
    | none => simp only [hl] at this ⊢; exact this
    | some m => simp only [hl] at this ⊢; exact this
  | some n =>
    have := key n
    cases hl : log[d.offset]? with
    | none => simp only [hl] at this ⊢; exact this
    | some m => simp only [hl] at this ⊢; exact this

theorem clean_succ (h : Handler S M O) (log : List M) (d : Store S O) (j : Nat) :
    clean h log d (j + 1) = next h log (clean h log d j) := rfl

/-- **crash_safe.** For every handler that is safe to re-apply, every log, every initial store and EVERY crash
schedule: what is on disk is a crash-free store of some prefix of the log, possibly with the next message
partially applied (operation first, then state, then offset). -/
theorem crash_safe (h : Handler S M O) (hsafe : ReapplySafe h) (log : List M) (d : Store S O) (sched : List (Option Nat)) :
    ∃ j, Partial h log (clean h log d j) (run newOrder h log d sched) := by
  suffices ∀ (sched : List (Option Nat)) (x : Store S O) (j : Nat), Partial h log (clean h log d j) x →
      ∃ j', Partial h log (clean h log d j') (sched.foldl (attempt newOrder h log) x) from
    this sched d 0 (Or.inl rfl)
  intro sched
  induction sched with
  | nil => intro x j hx; exact ⟨j, hx⟩
  | cons k rest ih =>
    intro x j hx
    rcases attempt_inv h hsafe log _ x hx k with h1 | h1
    · exact ih _ j h1
    · exact ih _ (j + 1) (by rw [clean_succ]; exact h1)

/-- once the node has worked through the log, nothing partial is left: the store is the crash-free one -/
theorem crash_safe_final (h : Handler S M O) (hsafe : ReapplySafe h) (log : List M) (d : Store S O) (sched : List (Option Nat))
    (hdone : log.length ≤ (run newOrder h log d sched).offset) :
    ∃ j, run newOrder h log d sched = clean h log d j := by
  obtain ⟨j, hp⟩ := crash_safe h hsafe log d sched
  refine ⟨j, ?_⟩
  rcases hp with hp | ⟨m, s', o, hm, _, hoff, _, _⟩
  · exact hp
  · exfalso
    rw [hoff] at hdone
    have : log[(clean h log d j).offset]? = none := List.getElem?_eq_none hdone
    rw [this] at hm; cases hm

/-- **old_order_loses_operation.** With the pinned tree's order (round state, then operation) a single kill between
the two writes loses the operation for good: the message is refused when handled again, the node completes the
log, and the operation the crash-free run offers is not there. Handler: accept `true` in state `0` (moving to `1`,
asking for operation `7`), refuse everything else — it is `ReapplySafe`. -/
theorem old_order_loses_operation :
    ∃ (h : Handler Nat Bool Nat), ReapplySafe h ∧
      let log := [true]
      let d : Store Nat Nat := { state := 0, ops := [], offset := 0 }
      let crashed := run oldOrder h log d [some 1, none]
      crashed.offset = 1 ∧ crashed.state = (clean h log d 1).state ∧ (clean h log d 1).ops = [7] ∧ crashed.ops = [] := by
  refine ⟨fun s m => if s = 0 ∧ m = true then some (1, some 7) else none, ?_, ?_⟩
  · intro s m s' o hh
    left
    by_cases hc : s = 0 ∧ m = true
    · simp only [hc, and_self, ↓reduceIte, Option.some.injEq, Prod.mk.injEq] at hh
      rw [← hh.1]; simp
    · simp only [hc, ↓reduceIte] at hh; cases hh
  · decide

/-- and the same schedule is harmless with the new order -/
example :
    let h : Handler Nat Bool Nat := fun s m => if s = 0 ∧ m = true then some (1, some 7) else none
    let d : Store Nat Nat := { state := 0, ops := [], offset := 0 }
    (run newOrder h [true] d [some 1, none]).ops = [7] ∧ (run newOrder h [true] d [some 1, none]).state = 1 := by
  decide

-- ───────────── the order in the source ─────────────

def callsOf (f : String) : List String := ((Gen.Effects.effects.find? (fun p => p.1 == f)).map (·.2)).getD []

def before (l : List String) (a b : String) : Bool :=
  match l.idxOf? a, l.idxOf? b with
  | some i, some j => i < j
  | _, _ => false

/-- **order_in_source.** In `handleMessage` the signature store is written first, then the operation is stored, then
the round state is saved; the poll tick (`tick`, which is all `Poll` does when its ticker fires) saves the offset after
`ProcessMessage`. (Generated from /repo on every run.) -/
theorem order_in_source :
    before (callsOf "handleMessage") "s.processSignatureProposal" "storeOperation" = true ∧
    before (callsOf "handleMessage") "storeOperation" "s.fsmService.SaveFSM" = true ∧
    before (callsOf "handleMessage") "s.broadcastReconstructedSignatures" "s.fsmService.SaveFSM" = true ∧
    (callsOf "ProcessMessage").contains "s.handleMessage" = true ∧
    callsOf "Poll" = ["s.tick"] ∧
    before (callsOf "tick") "s.ProcessMessage" "<*ast.CallExpr>.SaveOffset" = true := by
  decide

/-- **answer_order_in_source.** `executeOperation` posts the result before it retires the operation (and, for a
re-initialisation, saves the round before it retires it): a kill in between leaves the operation pending, so
the same result can be submitted again; the other order would lose it. -/
theorem answer_order_in_source :
    before (callsOf "executeOperation") "s.storage.Send" "s.opService.DeleteOperation" = true ∧
    before (callsOf "executeOperation") "s.fsmService.SaveFSM" "s.opService.DeleteOperation" = true := by
  decide

end Dc4bcVerif.Props.C13
