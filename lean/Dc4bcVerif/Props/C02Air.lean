/-
  C02 at the airgapped machine — over `Model/AirDkg.lean` (tied to the real machine by the `airdkg` stream).

  **`stored_share_on_announced_polynomial`**: whatever operations a machine has been handed since it was started — any
  payloads, honest or not, any rounds, any order of Go's map ranges — if it answers a master-key step with an
  announcement, then the share it stores for that round lies on the public polynomial it announces, at its own node, and
  the master key it announces is that polynomial's constant term. (C02: "all n airgapped machines hold a private share
  lying on one and the same public polynomial … that polynomial's constant term is the group key every participant
  announced"; that the n machines announce the SAME polynomial is what the node-level comparison of C02Fsm enforces.)

  The proof is the invariant of `Lemmas/AirDkgInv.lean` (a verifier with the machine's own approval holds a deal whose
  share lies on the deal's commitments) + "certified ⇒ own approval present" + linearity of Horner evaluation.
  Over an arbitrary field.
-/
import Mathlib.Algebra.Field.Defs
import Mathlib.Tactic.Ring
import Dc4bcVerif.Lemmas.AirDkgInv

set_option linter.unusedSectionVars false

namespace Dc4bcVerif.Props.C02Air
open Dc4bcVerif.Model.Shamir Dc4bcVerif.Model.AirDkg Dc4bcVerif.Lemmas.AirDkgInv

variable {F : Type} [Field F] [DecidableEq F]
variable {K : Type} [DecidableEq K]

/-! ### linearity of Horner evaluation -/

theorem evalPoly_addPoly (a b : List F) (x : F) : evalPoly (addPoly a b) x = evalPoly a x + evalPoly b x := by
  induction a generalizing b with
  | nil => simp [addPoly, evalPoly]
  | cons c cs ih =>
    cases b with
    | nil => simp [addPoly, evalPoly]
    | cons d ds =>
      have := ih ds
      simp only [evalPoly] at this ⊢
      simp only [addPoly, List.foldr_cons, this]
      ring

theorem evalPoly_sumPolys (ps : List (List F)) (x : F) : evalPoly (sumPolys ps) x = sumL (ps.map (fun p => evalPoly p x)) := by
  induction ps with
  | nil => simp [sumPolys, evalPoly, sumL]
  | cons p rest ih =>
    simp only [sumPolys, List.foldr_cons, List.map_cons, sumL] at ih ⊢
    rw [evalPoly_addPoly, ih]

/-! ### certified ⇒ the own approval is there -/

theorem certified_own_approval {n pid : Nat} {v : Verifier F} (hp : pid < n) (h : dealCertified n v = true) :
    lookupN pid v.resp = some true := by
  unfold dealCertified at h
  split at h
  · simp at h
  · simp only [Bool.and_eq_true, Bool.not_eq_eq_eq_not, Bool.not_true, List.any_eq_false, List.mem_map, List.mem_range,
      forall_exists_index, and_imp, forall_apply_eq_imp_iff₂] at h
    obtain ⟨⟨_, hfalse⟩, hnone⟩ := h
    have h1 := hfalse pid hp
    have h2 := hnone pid hp
    cases hl : lookupN pid v.resp with
    | none => simp [hl] at h2
    | some b =>
      cases b with
      | true => rfl
      | false => simp [hl] at h1

theorem certified_has_deal {n : Nat} {v : Verifier F} (h : dealCertified n v = true) : v.deal.isSome = true := by
  unfold dealCertified at h
  split at h
  · simp at h
  · rename_i hd; simp [hd]

/-- **the key ring of a certified instance lies on its polynomial** -/
theorem distKey_on_poly (i : Inst F K) (hinv : InstInv i) (hcert : i.vers.all (dealCertified i.keys.length) = true)
    (kr : Keyring F) (hk : distKey i = some kr) : evalPoly kr.pubPoly (node i.pid) = kr.share := by
  obtain ⟨hpid, _, hvers⟩ := hinv
  unfold distKey at hk
  simp only at hk
  split at hk
  · simp at hk
  · split at hk
    · simp at hk
    · split at hk
      · simp at hk
      · simp only [Option.some.injEq] at hk
        subst hk
        simp only
        rw [evalPoly_sumPolys]
        congr 1
        rw [List.map_map]
        apply List.map_congr_left
        intro d hd
        simp only [List.mem_filterMap] at hd
        obtain ⟨v, hv, hvd⟩ := hd
        have hc : dealCertified i.keys.length v = true := by
          rw [List.all_eq_true] at hcert; exact hcert v hv
        obtain ⟨d', hd', he⟩ := hvers v hv (certified_own_approval hpid hc)
        rw [hvd] at hd'
        simp only [Option.some.injEq] at hd'
        subst hd'
        simpa using he

/-- a successful `ProcessResponses` ends in a certified instance -/
theorem processResponses_true (ord : List Nat) : ∀ (i i' : Inst F K), processResponses i ord = (i', true) →
    i'.vers.all (dealCertified i'.keys.length) = true := by
  induction ord with
  | nil =>
    intro i i' h
    unfold processResponses at h
    simp only [Prod.mk.injEq, Bool.and_eq_true, decide_eq_true_eq] at h
    obtain ⟨rfl, h2, _⟩ := h
    exact h2
  | cons k rest ih =>
    intro i i' h
    unfold processResponses at h
    generalize processRespList i (storedOf i k) = q at h
    obtain ⟨i1, ok⟩ := q
    cases ok with
    | false => simp at h
    | true => exact ih i1 i' h

/-- **master_key_share_on_poly.** One master-key step on a machine that satisfies the invariant. -/
theorem master_key_share_on_poly (m : Machine F K) (hm : MachineInv m) (round : String)
    (entries : List (String × Option (List (RespMsg F)))) (ord : List Nat) (m' : Machine F K) (pid : Nat) (key : Option F) (poly : List F)
    (h : masterKeyOp m round entries ord = (m', Res.masterKey pid key poly)) :
    ∃ kr, lookup round m'.rings = some kr ∧ kr.pubPoly = poly ∧ key = poly.head? ∧ evalPoly poly (node pid) = kr.share := by
  unfold masterKeyOp at h
  split at h
  · simp at h
  · rename_i i hi
    have h0 := hm round i hi
    have h1 := storeResponses_inv entries i h0
    generalize storeResponses i entries = q at h h1
    obtain ⟨i1, ok⟩ := q
    simp only at h h1
    split at h
    · simp at h
    · have h2 := processResponses_inv ord i1 h1
      generalize hq : processResponses i1 ord = q2 at h h2
      obtain ⟨i2, res⟩ := q2
      simp only at h2
      cases res with
      | false => simp at h
      | true =>
        simp only at h
        have hcert := processResponses_true ord i1 i2 hq
        split at h
        · simp at h
        · rename_i kr hk
          split at h
          · simp at h
          · simp only [Prod.mk.injEq, Res.masterKey.injEq] at h
            obtain ⟨hm', hpid, hkey, hpoly⟩ := h
            subst hm'
            refine ⟨kr, by simp [lookup_put_self], hpoly, ?_, ?_⟩
            · rw [← hkey, hpoly]
            · rw [← hpoly, ← hpid]
              exact distKey_on_poly i2 h2 hcert kr hk

/-! ### every machine reachable from a fresh start -/

theorem fresh_inv (me : K) : MachineInv ({ me := me } : Machine F K) := by
  intro r i h; simp [lookup] at h

/-- a signing request changes nothing on the machine -/
theorem signOp_pure (m : Machine F K) (round : String) (payloadOk : Bool) (msgs : Option Nat) : (signOp m round payloadOk msgs).1 = m := by
  unfold signOp
  repeat (first | rfl | split)

theorem exec_inv (m : Machine F K) (op : Op F K) (h : MachineInv m) : MachineInv (exec m op).1 := by
  cases op with
  | commits r e p => exact commitsOp_inv m r e p h
  | deals r e => exact dealsOp_inv m r e h
  | responses r e o => exact responsesOp_inv m r e o h
  | masterKey r e o => exact masterKeyOp_inv m r e o h
  | restart => intro r i hi; simp [exec, stop, lookup] at hi

theorem run_inv (ops : List (Op F K)) : ∀ (m : Machine F K), MachineInv m → MachineInv (run m ops) := by
  induction ops with
  | nil => intro m h; exact h
  | cons op rest ih => intro m h; exact ih _ (exec_inv m op h)

/-- **stored_share_on_announced_polynomial.** After ANY sequence of operations (and restarts) since a fresh start, a
master-key step that is answered with an announcement stores a share that lies on the announced polynomial at the machine's
node, and announces that polynomial's constant term as the master key. -/
theorem stored_share_on_announced_polynomial (me : K) (ops : List (Op F K)) (round : String)
    (entries : List (String × Option (List (RespMsg F)))) (ord : List Nat) (m' : Machine F K) (pid : Nat) (key : Option F) (poly : List F)
    (h : masterKeyOp (run ({ me := me } : Machine F K) ops) round entries ord = (m', Res.masterKey pid key poly)) :
    ∃ kr, lookup round m'.rings = some kr ∧ kr.pubPoly = poly ∧ key = poly.head? ∧ evalPoly poly (node pid) = kr.share :=
  master_key_share_on_poly _ (run_inv ops _ (fresh_inv me)) round entries ord m' pid key poly h

end Dc4bcVerif.Props.C02Air
