/-
  C19, store level — what the node's round store (`fsmservice`: one JSON map `round id ↦ dump` under
  `<topic>_fsm_state`) gives back after `SaveFSM`.

  Model: `Node.saveFSM` / `Node.getInstance` (= `GetFSMInstance(id, true)`), `lookupS` on `rounds`
  (= `GetFSMDump`, `IsExist`, one row of `GetFSMList`).  Tie: `fsmdiff` sends every dump it keeps through
  the real `FSMService` on a LevelDB state and reads it back in the four ways (`C19 store_roundtrip`).

  The point of the property at this level: *every* saved round stays loadable — there is no state name,
  cancelled and finished ones included, for which the store forgets or refuses the round.
-/
import Dc4bcVerif.Props.C19
import Dc4bcVerif.Props.C08

namespace Dc4bcVerif.Props.C19Store
open Dc4bcVerif.Gen Dc4bcVerif.Model Dc4bcVerif.Model.Node

/-- `GetFSMDump` / `IsExist` / the row of `GetFSMList` after `SaveFSM`: the saved dump, whatever its state -/
theorem saved_is_listed (st : NodeSt) (round : String) (d : DumpV) :
    lookupS (saveFSM st round d).rounds round = some d := by
  unfold saveFSM; exact Dc4bcVerif.Lemmas.NodeLocal.lookupS_assocSet_eq _ _ _

/-- … and no other round's row changes -/
theorem others_untouched (st : NodeSt) (round r : String) (d : DumpV) (h : r ≠ round) :
    lookupS (saveFSM st round d).rounds r = lookupS st.rounds r := by
  unfold saveFSM; exact Dc4bcVerif.Props.C08.lookupS_assocSet_ne _ _ _ _ h

/-- `GetFSMInstance` after `SaveFSM` is `FromDump` of exactly what was saved -/
theorem load_after_save (st : NodeSt) (round : String) (d : DumpV) :
    getInstance (saveFSM st round d) round =
      (Instance.restore d.1 d.2).map (fun i => (saveFSM st round d, i)) := by
  unfold getInstance
  rw [saved_is_listed]

/-- every dump whose state field is a state name — running, cancelled or finished — loads after it was saved:
the store never answers "no such round" and never hands out a fresh idle round in its place. -/
theorem saved_round_loads (st : NodeSt) (round : String) (s : St) (p : Payload) :
    ∃ i, getInstance (saveFSM st round (some s, p)) round = some (saveFSM st round (some s, p), i) ∧
      i.state = s ∧ i.payload = p ∧ i.dumpState = some s := by
  rw [load_after_save]
  have ht := Dc4bcVerif.Props.C19.restore_total s p
  show ∃ i, (Instance.restore (some s) p).map _ = _ ∧ _
  unfold Instance.restore at ht ⊢
  cases hp : poolState s with
  | none => simp [hp] at ht
  | some m =>
    refine ⟨{ machine := m, state := s, dumpState := some s, payload := p }, ?_, rfl, rfl, rfl⟩
    simp [hp]

/-- the node's step, end to end: a successful `Do` on a loaded round, saved and loaded again, is the round the
in-memory instance has become (state, payload) — so the next message meets the same round either way -/
theorem step_save_load (st : NodeSt) (round : String) (i : Instance) (e : Ev) (a : Arg)
    (hok : (i.doEv e a).2.res = .ok) :
    ∃ r, getInstance (saveFSM st round ((i.doEv e a).1.dumpState, (i.doEv e a).1.payload)) round
        = some (saveFSM st round ((i.doEv e a).1.dumpState, (i.doEv e a).1.payload), r) ∧
      r.state = (i.doEv e a).1.state ∧ r.payload = (i.doEv e a).1.payload := by
  have hds := Dc4bcVerif.Props.C19.ok_dump_state i e a hok
  rw [hds]
  obtain ⟨r, h1, h2, h3, _⟩ := saved_round_loads st round (i.doEv e a).1.state (i.doEv e a).1.payload
  exact ⟨r, h1, h2, h3⟩

/-- non-vacuity: a round cancelled by a decline, saved into a store that already holds another round -/
example :
    (getInstance (saveFSM { self := "n", rounds := [("other", (some .s_stage_signing_idle, { dkgId := "other" }))] } "r"
      (some .s_state_sig_proposal_canceled_by_participant, { dkgId := "r" })) "r").isSome = true := by
  decide

end Dc4bcVerif.Props.C19Store
