/-
  C11 at the airgapped machine — over `Model/AirDkg.lean`, the model of the machine's key-generation handlers
  that `airdkg` (a stream of the algdiff run) compares with the real machine on every operation.

  * `Acceptable`: what the addressee's check amounts to: the deal names a participant, its signature verifies, it
    opens, it is meant for this machine, its threshold is admissible, **its share lies on the commitments it
    carries and those commitments are exactly the ones its dealer broadcast** (same length, coefficient by
    coefficient).
  * `processDeals_ok` / `responses_ok_all_acceptable`: if the machine answers the deals step with its responses
    (no error), then EVERY deal stored for another participant is acceptable — for every instance the machine can be
    in, every payload, every order in which Go ranges over the stored deals. Contrapositive
    (`unacceptable_deal_refused`): one unacceptable deal among them and the answer is the error report, in any order.
  * `refused_saves_no_share`: a refusal of the deals step writes no key ring.
  * `share_only_from_master_key_step`: the only handler that writes a key ring is the master-key step.
-/
import Dc4bcVerif.Model.AirDkg

set_option linter.unusedSectionVars false

namespace Dc4bcVerif.Props.C11Air
open Dc4bcVerif.Model.Shamir Dc4bcVerif.Model.AirDkg

variable {F : Type} [Add F] [Mul F] [Sub F] [Div F] [Zero F] [One F] [DecidableEq F] [NatCast F]
variable {K : Type} [DecidableEq K]

/-- the addressee's check, as a property of the deal and of what the machine holds (keys, own index, broadcast commitments) -/
def Acceptable (i : Inst F K) (od : OuterDeal F) : Prop :=
  od.idx < i.keys.length ∧ od.sigOk = true ∧
  ∃ d, od.inner = some d ∧ d.secI = i.pid ∧ validT d.thr i.keys.length = true ∧
    evalPoly d.commits (node d.secI) = d.secV ∧
    ∃ e, i.keys[od.idx]? = some e ∧ lookup e.1 i.commits = some d.commits

/-- what `ProcessDeals` reads and never writes -/
def SameFrame (i j : Inst F K) : Prop :=
  j.pid = i.pid ∧ j.keys = i.keys ∧ j.commits = i.commits ∧ j.deals = i.deals

theorem SameFrame.refl (i : Inst F K) : SameFrame i i := ⟨rfl, rfl, rfl, rfl⟩

theorem SameFrame.trans {a b c : Inst F K} (h1 : SameFrame a b) (h2 : SameFrame b c) : SameFrame a c :=
  ⟨h2.1.trans h1.1, h2.2.1.trans h1.2.1, h2.2.2.1.trans h1.2.2.1, h2.2.2.2.trans h1.2.2.2⟩

theorem dkgProcessDeal_frame (i : Inst F K) (od : OuterDeal F) : SameFrame i (dkgProcessDeal i od).1 := by
  unfold dkgProcessDeal
  simp only
  split
  · exact SameFrame.refl i
  · split
    · exact SameFrame.refl i
    · split
      · exact SameFrame.refl i
      · split <;> exact ⟨rfl, rfl, rfl, rfl⟩

/-- an approval by `VerifyDeal` means the deal passed every test of it -/
theorem verifyDeal_ok {n : Nat} {v v' : Verifier F} {d : PlainDeal F} {incl : Bool}
    (h : verifyDeal n v d incl = (v', Verdict.ok)) :
    validT d.thr n = true ∧ d.secI < n ∧ evalPoly d.commits (node d.secI) = d.secV := by
  unfold verifyDeal at h
  split at h
  · simp at h
  · simp only at h
    split at h
    · simp at h
    · split at h
      · simp at h
      · split at h
        · simp at h
        · split at h
          · simp at h
          · split at h
            · simp at h
            · split at h
              · simp at h
              · rename_i h1 _ _ h4 h5
                refine ⟨by simpa using h1, by simpa using h4, by simpa using h5⟩

theorem processEncryptedDeal_approved {n own : Nat} {v v' : Verifier F} {inner : Option (PlainDeal F)}
    (h : processEncryptedDeal n own v inner = (v', some true)) :
    ∃ d, inner = some d ∧ d.secI = own ∧ validT d.thr n = true ∧ evalPoly d.commits (node d.secI) = d.secV := by
  unfold processEncryptedDeal at h
  split at h
  · simp at h
  · rename_i d
    split at h
    · simp at h
    · rename_i hI
      simp only at h
      generalize hv : verifyDeal n v d true = r at h
      obtain ⟨v1, verdict⟩ := r
      simp only at h
      split at h
      · simp at h
      · split at h
        · simp at h
        · simp only [Prod.mk.injEq, Option.some.injEq, decide_eq_true_eq] at h
          have hok := h.2
          subst hok
          have := verifyDeal_ok hv
          exact ⟨d, rfl, by simpa using hI, this.1, this.2.2⟩

theorem dkgProcessDeal_approved {i i' : Inst F K} {od : OuterDeal F} (h : dkgProcessDeal i od = (i', some true)) :
    od.idx < i.keys.length ∧ od.sigOk = true ∧
    ∃ d, od.inner = some d ∧ d.secI = i.pid ∧ validT d.thr i.keys.length = true ∧ evalPoly d.commits (node d.secI) = d.secV := by
  unfold dkgProcessDeal at h
  simp only at h
  split at h
  · simp at h
  · rename_i hidx
    split at h
    · simp at h
    · rename_i hsig
      split at h
      · simp at h
      · rename_i v _
        generalize hp : processEncryptedDeal i.keys.length i.pid v od.inner = r at h
        obtain ⟨v1, st⟩ := r
        simp only at h
        split at h
        · simp at h
        · rename_i status
          simp only [Prod.mk.injEq, Option.some.injEq] at h
          have hs : status = true := h.2
          subst hs
          obtain ⟨d, h1, h2, h3, h4⟩ := processEncryptedDeal_approved hp
          exact ⟨by simpa using hidx, by simpa using hsig, d, h1, h2, h3, h4⟩

theorem dealCommitsOk_spec {i : Inst F K} {od : OuterDeal F} {d : PlainDeal F} (hd : od.inner = some d)
    (h : dealCommitsOk i od = true) : ∃ e, i.keys[od.idx]? = some e ∧ lookup e.1 i.commits = some d.commits := by
  unfold dealCommitsOk at h
  rw [hd] at h
  split at h
  · rename_i d' name key hin hk
    simp only [Option.some.injEq] at hin
    subst hin
    split at h
    · rename_i bc hl
      refine ⟨(name, key), hk, ?_⟩
      simp only [decide_eq_true_eq] at h
      rw [hl, h]
    · simp at h
  · simp at h

theorem acceptable_of_frame {i j : Inst F K} (hf : SameFrame i j) {od : OuterDeal F} (h : Acceptable j od) : Acceptable i od := by
  obtain ⟨hp, hk, hc, _⟩ := hf
  unfold Acceptable at *
  rw [hp, hk, hc] at h
  exact h

/-- **processDeals_ok.** The deals step went through: every deal stored for another participant was acceptable. -/
theorem processDeals_ok (ord : List String) : ∀ (i : Inst F K) (acc : List Nat) (i' : Inst F K) (ds : List Nat),
    processDeals i ord acc = (i', some ds) →
    SameFrame i i' ∧ ∀ name ∈ ord, ∀ od, lookup name i.deals = some od → od.idx ≠ i.pid → Acceptable i od := by
  induction ord with
  | nil =>
    intro i acc i' ds h
    unfold processDeals at h
    simp only [Prod.mk.injEq] at h
    exact ⟨h.1 ▸ SameFrame.refl i, by intro name hn; simp at hn⟩
  | cons name rest ih =>
    intro i acc i' ds h
    unfold processDeals at h
    split at h
    · -- nothing stored under this name
      rename_i hl
      obtain ⟨hf, hall⟩ := ih i acc i' ds h
      refine ⟨hf, ?_⟩
      intro nm hn od hod hne
      rcases List.mem_cons.mp hn with rfl | hn'
      · rw [hl] at hod; simp at hod
      · exact hall nm hn' od hod hne
    · rename_i od hl
      split at h
      · -- the own deal is skipped
        rename_i hown
        obtain ⟨hf, hall⟩ := ih i acc i' ds h
        refine ⟨hf, ?_⟩
        intro nm hn od' hod hne
        rcases List.mem_cons.mp hn with rfl | hn'
        · rw [hl] at hod
          simp only [Option.some.injEq] at hod
          subst hod
          exact absurd hown hne
        · exact hall nm hn' od' hod hne
      · simp only at h
        generalize hp : dkgProcessDeal i od = r at h
        obtain ⟨i1, st⟩ := r
        simp only at h
        split at h
        · simp at h
        · rename_i status
          split at h
          · simp at h
          · rename_i hcond
            have hst : status = true ∧ dealCommitsOk i1 od = true := by
              cases status <;> cases hc : dealCommitsOk i1 od <;> simp [hc] at hcond ⊢
            obtain ⟨hs, hco⟩ := hst
            subst hs
            have hf1 : SameFrame i i1 := by have := dkgProcessDeal_frame i od; rw [hp] at this; exact this
            obtain ⟨hf, hall⟩ := ih i1 _ i' ds h
            refine ⟨hf1.trans hf, ?_⟩
            intro nm hn od' hod hne
            rcases List.mem_cons.mp hn with rfl | hn'
            · rw [hl] at hod
              simp only [Option.some.injEq] at hod
              subst hod
              obtain ⟨h1, h2, d, h3, h4, h5, h6⟩ := dkgProcessDeal_approved hp
              obtain ⟨e, he1, he2⟩ := dealCommitsOk_spec h3 hco
              refine ⟨h1, h2, d, h3, h4, h5, h6, e, ?_, ?_⟩
              · rw [← hf1.2.1]; exact he1
              · rw [← hf1.2.2.1]; exact he2
            · have hd : i1.deals = i.deals := hf1.2.2.2
              have hp' : i1.pid = i.pid := hf1.1
              exact acceptable_of_frame hf1 (hall nm hn' od' (by rw [hd]; exact hod) (by rw [hp']; exact hne))

/-- contrapositive: one unacceptable deal among those stored for the others and the step fails, in every order -/
theorem unacceptable_deal_refused (i : Inst F K) (ord : List String) (acc : List Nat) (name : String) (od : OuterDeal F)
    (hn : name ∈ ord) (hod : lookup name i.deals = some od) (hne : od.idx ≠ i.pid) (hbad : ¬ Acceptable i od) :
    (processDeals i ord acc).2 = none := by
  cases h : processDeals i ord acc with
  | mk i' r =>
    cases r with
    | none => rfl
    | some ds => exact absurd ((processDeals_ok ord i acc i' ds h).2 name hn od hod hne) hbad

/-- the instance the deals are checked in: the stored one after the payload's deals were filed -/
def filed (i : Inst F K) (entries : List (Int × String × Option (OuterDeal F))) : Inst F K := (storeDeals i entries).1

/-- **responses_ok_all_acceptable.** The machine answered the deals step with responses: every deal it holds for another
participant (from this payload or an earlier one) and that the range visited was acceptable. -/
theorem responses_ok_all_acceptable (m : Machine F K) (round : String) (entries : List (Int × String × Option (OuterDeal F)))
    (ord : List String) (m' : Machine F K) (pid : Nat) (ds : List Nat)
    (h : responsesOp m round entries ord = (m', Res.responses pid ds)) :
    ∃ i, lookup round m.insts = some i ∧
      ∀ name ∈ ord, ∀ od, lookup name (filed i entries).deals = some od → od.idx ≠ (filed i entries).pid → Acceptable (filed i entries) od := by
  unfold responsesOp at h
  split at h
  · simp at h
  · rename_i i hi
    refine ⟨i, hi, ?_⟩
    generalize hs : storeDeals i entries = r at h
    obtain ⟨i1, ok⟩ := r
    simp only at h
    split at h
    · simp at h
    · generalize hp : processDeals i1 ord [] = q at h
      obtain ⟨i2, res⟩ := q
      cases res with
      | none => simp at h
      | some dealers =>
        have : filed i entries = i1 := by unfold filed; rw [hs]
        rw [this]
        exact (processDeals_ok ord i1 [] i2 dealers hp).2

/-- the deals step never writes a key ring -/
theorem responses_writes_no_ring (m : Machine F K) (round : String) (entries : List (Int × String × Option (OuterDeal F)))
    (ord : List String) : (responsesOp m round entries ord).1.rings = m.rings := by
  unfold responsesOp
  split
  · rfl
  · simp only
    split
    · rfl
    · split <;> rfl

theorem commits_writes_no_ring (m : Machine F K) (round : String) (entries : List (KeyEntry K)) (poly : List F) :
    (commitsOp m round entries poly).1.rings = m.rings := by
  unfold commitsOp commitsFinish
  simp only
  repeat (first | rfl | split)

theorem deals_writes_no_ring (m : Machine F K) (round : String) (entries : List (String × Option (List F))) :
    (dealsOp m round entries).1.rings = m.rings := by
  unfold dealsOp
  split
  · rfl
  · simp only
    split
    · rfl
    · split <;> rfl

/-- the master-key step writes a key ring only together with its announcement -/
theorem master_key_error_writes_no_ring (m : Machine F K) (round : String) (entries : List (String × Option (List (RespMsg F))))
    (ord : List Nat) (h : (masterKeyOp m round entries ord).2 = Res.err) : (masterKeyOp m round entries ord).1.rings = m.rings := by
  unfold masterKeyOp at h ⊢
  split
  · rfl
  · rename_i i hi
    simp only [hi] at h
    simp only
    split
    · rfl
    · rename_i hok
      simp only [hok] at h
      split
      · rfl
      · rename_i i2 hpr
        simp only [hpr] at h
        split
        · rfl
        · rename_i kr hk
          simp only [hk] at h
          split
          · rfl
          · rename_i hne
            simp [hne] at h

/-- **a deal is its sender's.** A payload in which another participant's entry carries a deal that names a different dealer
(the machine's own index included - which `ProcessDeals` would skip as "the own deal") is refused: since fix 9d113d5 the
handler compares `deal.Index` with the entry's participant id before filing the deal. On the pinned tree a well-formed
ciphertext of `{}` (dealer index 0) sent to participant 0 was filed, skipped, and the deals step answered with success. -/
theorem foreign_index_refused (entries : List (Int × String × Option (OuterDeal F))) : ∀ (i : Inst F K) (pid : Int) (name : String) (od : OuterDeal F),
    (pid, name, some od) ∈ entries → pid ≠ (i.pid : Int) → (od.idx : Int) ≠ pid → (storeDeals i entries).2 = false := by
  induction entries with
  | nil => intro i pid name od h; simp at h
  | cons e rest ih =>
    intro i pid name od hmem hne hidx
    obtain ⟨p0, n0, d0⟩ := e
    have hstep : ∀ j : Inst F K, j.pid = i.pid → (pid, name, some od) ∈ rest → (storeDeals j rest).2 = false :=
      fun j hj hm => ih j pid name od hm (by rw [hj]; exact hne) hidx
    unfold storeDeals
    rcases List.mem_cons.mp hmem with heq | hin
    · simp only [Prod.mk.injEq] at heq
      obtain ⟨rfl, rfl, rfl⟩ := heq
      simp [hne, hidx]
    · split
      · exact hstep i rfl hin
      · cases d0 with
        | none => rfl
        | some od0 =>
          simp only
          split
          · rfl
          · exact hstep _ rfl hin

theorem foreign_index_step_refused (m : Machine F K) (round : String) (entries : List (Int × String × Option (OuterDeal F))) (ord : List String)
    (i : Inst F K) (hi : lookup round m.insts = some i) (pid : Int) (name : String) (od : OuterDeal F)
    (hmem : (pid, name, some od) ∈ entries) (hne : pid ≠ (i.pid : Int)) (hidx : (od.idx : Int) ≠ pid) :
    (responsesOp m round entries ord).2 = Res.err := by
  unfold responsesOp
  simp only [hi]
  have := foreign_index_refused entries i pid name od hmem hne hidx
  generalize storeDeals i entries = q at this
  obtain ⟨i1, ok⟩ := q
  simp only at this
  subst this
  rfl

/-! ### the hypotheses are met: a machine of a two-party round over the integers -/

def exInst : Inst Int Nat :=
  { pid := 0, thr := 2, t := 2, keys := [("a", 1), ("b", 2)], poly := [3, 5],
    commits := [("a", [3, 5]), ("b", [7, 11])], vers := [{}, {}] }

def exMachine : Machine Int Nat := { me := 1, insts := [("r", exInst)] }

/-- b's deal for a: the share 7 + 11·1 on b's commitments -/
def goodDeal : OuterDeal Int :=
  { idx := 1, sigOk := true, inner := some { sid := (1, [7, 11], 2), secI := 0, secV := 18, thr := 2, commits := [7, 11] } }

/-- the same share under commitments that agree with the broadcast ones at a's point only: 6 + 12·1 = 18 -/
def forgedDeal : OuterDeal Int :=
  { idx := 1, sigOk := true, inner := some { sid := (1, [6, 12], 2), secI := 0, secV := 18, thr := 2, commits := [6, 12] } }

example : (responsesOp exMachine "r" [(1, "b", some goodDeal)] ["b"]).2 = Res.responses 0 [1] := by decide
example : (responsesOp exMachine "r" [(1, "b", some forgedDeal)] ["b"]).2 = Res.err := by decide
/-- the `{}` deal of the pinned tree: dealer index 0 = the machine's own, in participant b's entry -/
example : (responsesOp exMachine "r" [(1, "b", some { idx := 0, sigOk := false, inner := none })] ["b"]).2 = Res.err := by decide
example : ¬ Acceptable (filed exInst [(1, "b", some forgedDeal)]) forgedDeal := by
  intro h
  obtain ⟨_, _, d, hd, _, _, _, e, he, hl⟩ := h
  simp only [forgedDeal, Option.some.injEq] at hd
  subst hd
  simp [filed, storeDeals, exInst, forgedDeal] at he
  subst he
  revert hl
  decide

end Dc4bcVerif.Props.C11Air
