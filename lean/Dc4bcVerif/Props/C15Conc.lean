/-
  C15, "…after which the operation is no longer pending and cannot be answered again" - for two submissions of the same
  result AT THE SAME TIME (the HTTP server of the node handles requests concurrently; fix 1cb311a).

  * `answer_is_one_locked_step` - in the source (`Gen/RoundLock.lean`, regenerated): `executeOperation` takes `answerMu`
    before it looks the operation up, lets it go only on return (deferred, no other Unlock), and looks up, posts, retires in
    that order. With the lock, two concurrent submissions are one of the two serial orders.
  * `twice_posts_once` - on the node model (`Model/NodeOps.lean`), for EVERY node state and submission: a submission that was
    accepted, submitted again, is refused, posts nothing and changes nothing.
  * `unlocked_duplicate_posts_twice` / `locked_duplicate_posts_once` - the three steps of two submissions as separate steps
    over one operation: without the lock there is an interleaving that posts twice (the pinned tree; nodediff's concurrent
    duplicate submission shows it on the real code), with each submission one step both orders post once.
  Core-only.
-/
import Dc4bcVerif.Props.C15
import Dc4bcVerif.Gen.RoundLock

namespace Dc4bcVerif.Props.C15Conc
open Dc4bcVerif.Gen Dc4bcVerif.Model Dc4bcVerif.Model.Node Dc4bcVerif.Props.C15

/-- **answer_is_one_locked_step.** -/
theorem answer_is_one_locked_step :
    RoundLock.answerSteps.take 2 = ["answerMu.Lock", "defer answerMu.Unlock"] ∧
    RoundLock.answerSteps.drop 2 = ["lookup", "post", "retire"] := by decide

/-- **twice_posts_once.** -/
theorem twice_posts_once (st : NodeSt) (sub : SubOp) (hev : sub.event ≠ "operation_processed_successfully")
    (hok : (executeOperation st sub).out = .ok) :
    (executeOperation (executeOperation st sub).st sub).posted = [] ∧
    (executeOperation (executeOperation st sub).st sub).out = .reject ∧
    (executeOperation (executeOperation st sub).st sub).st = (executeOperation st sub).st := by
  obtain ⟨stored, hid, _, hdel⟩ := retired_after_ok st sub hev hok
  obtain ⟨a, b, c⟩ := tombstoned_rejected _ sub stored hid hdel
  exact ⟨b, a, c⟩

/-! ### the three steps, unlocked -/

/-- one pending operation: is it still pending, how often was its result posted -/
structure Pool1 where
  pending : Bool := true
  posted : Nat := 0
  deriving DecidableEq

/-- what a submission remembers between its steps: did the lookup find the operation pending -/
abbrev Local := Option Bool

inductive Step | lookup | post | retire
  deriving DecidableEq

/-- one step of submission `i` (0 or 1) -/
def step (s : Pool1 × Local × Local) (i : Fin 2) (k : Step) : Pool1 × Local × Local :=
  let (p, l0, l1) := s
  let l := if i = 0 then l0 else l1
  let set (v : Local) : Local × Local := if i = 0 then (v, l1) else (l0, v)
  match k with
  | .lookup => (p, set (some p.pending))
  | .post => if l = some true then ({ p with posted := p.posted + 1 }, l0, l1) else s
  | .retire => if l = some true then ({ p with pending := false }, l0, l1) else s

def runSteps (l : List (Fin 2 × Step)) : Pool1 × Local × Local := l.foldl (fun s e => step s e.1 e.2) ({}, none, none)

/-- both submissions look the operation up before either has retired it: posted twice -/
theorem unlocked_duplicate_posts_twice :
    (runSteps [(0, .lookup), (1, .lookup), (0, .post), (1, .post), (0, .retire), (1, .retire)]).1.posted = 2 := by decide

/-- one submission after the other (what `answerMu` makes of two concurrent ones), in either order: posted once -/
theorem locked_duplicate_posts_once :
    (runSteps [(0, .lookup), (0, .post), (0, .retire), (1, .lookup), (1, .post), (1, .retire)]).1.posted = 1 ∧
    (runSteps [(1, .lookup), (1, .post), (1, .retire), (0, .lookup), (0, .post), (0, .retire)]).1.posted = 1 := by decide

end Dc4bcVerif.Props.C15Conc
