/-
  C19 — what an object kept in memory can remember that a restored one cannot, read off /repo on every run
  (Gen/MachineFacts.lean).

  The model's `Instance` is (machine, machine state, dump state, payload): `restore_bisim` (Props/C19.lean) says that dump +
  restore after any accepted event gives back the SAME instance, so it answers every later event alike. That is a statement
  about the code only if a machine object holds nothing but what the model's instance holds:
  * `machine_objects_hold_state_and_payload`: the three round machines are (the embedded engine, the payload pointer, its
    mutex); the instance is (machine, dump); the engine is (name, initial state, current state, the transition and callback
    tables, the initial event, the finish states, a mutex) — tables that `New()` builds from the source and never changes;
  * `no_package_state`: the packages of the machines, the engine and the pool declare no package-level variable.
  A field or a variable added to remember something between events is remembered by the object that stays in memory and
  forgotten by `FromDump`, which builds fresh machines: the list changes, the proof obligation breaks, and fsmdiff's live twin
  (one object kept in memory along every guided walk, compared with the round restored before every event) looks for the
  event on which the two answer differently.
-/
import Dc4bcVerif.Gen.MachineFacts

namespace Dc4bcVerif.Props.C19Mem
open Dc4bcVerif.Gen

theorem machine_objects_hold_state_and_payload : MachineFacts.machineFields = [("SignatureProposalFSM", "embedded *fsm.FSM; payload *internal.DumpedMachineStatePayload; payloadMu sync.RWMutex"),
  ("DKGProposalFSM", "embedded *fsm.FSM; payload *internal.DumpedMachineStatePayload; payloadMu sync.RWMutex"),
  ("SigningProposalFSM", "embedded *fsm.FSM; payload *internal.DumpedMachineStatePayload; payloadMu sync.RWMutex"),
  ("FSMInstance", "machine internal.DumpedMachineProvider; dump *FSMDump"),
  ("FSM", "name string; initialState State; currentState State; transitions map[trKey]*trEvent; autoTransitions map[trAutoKeyEvent]*trEvent; callbacks Callbacks; initialEvent Event; finStates map[State]bool; stateMu sync.RWMutex")] := by decide +kernel

theorem no_package_state : MachineFacts.packageVars = [] := by decide

end Dc4bcVerif.Props.C19Mem
