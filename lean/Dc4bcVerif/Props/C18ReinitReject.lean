/-
  C18, "input that is rejected leaves all durable state unchanged", for the re-initialisation handler.

  * `pinned_blank_id_left_an_operation`: the handler of the pinned tree (`reinitDKGPinned`) answers a re-initialisation file
    whose `dkg_id` is empty with a refusal — no round can be created under such an id — AFTER it has registered the
    `reinit_dkg` operation: the refusal leaves a pending operation behind. (Found on the real node by nodediff's probe
    "no dkg_id"; repaired in /repo by the fix "a re-initialisation message without a round id left a pending operation behind".)
  * `blank_id_refused_without_effect`: since the fix such a file is refused before anything is touched.
  * `refusal_is_noop_or_duplicate`: for every node state whose stored rounds are good and carry a state name, and EVERY file: if
    the handler refuses, then either the node is exactly as it was, or the refusal is the operation pool's ("this operation
    is pending already": the same file handled before, its operation not yet answered and its round gone — after a kill
    inside an earlier handling, the known finding C13-kill-inside-reinit), in which case the node is what the replay of the
    file's own messages left.
  * `reachable_inv`, `rejected_reinit_on_a_reachable_node`: both hypotheses hold for every state reached from an empty state
    database by any sequence of board messages and re-initialisation files, so the statement holds there outright.
-/
import Dc4bcVerif.Props.C18Reinit

namespace Dc4bcVerif.Props.C18ReinitReject
open Dc4bcVerif.Gen Dc4bcVerif.Model Dc4bcVerif.Model.Node Dc4bcVerif.Props

/-- a node that has seen nothing -/
def emptyNode (self : String) : NodeSt := { self := self }

/-- **pinned_blank_id_left_an_operation.** -/
theorem pinned_blank_id_left_an_operation :
    let r := reinitDKGPinned (emptyNode "node_0") { dkgId := "", participants := [], inner := [] } 0 (fun _ => [])
    r.out = .reject ∧ r.st.ops.length = 1 ∧ (emptyNode "node_0").ops.length = 0 := by decide +kernel

/-- **blank_id_refused_without_effect.** -/
theorem blank_id_refused_without_effect (st : NodeSt) (req : ReinitReq) (now : Time) (payloadOf : Tasks.Msg → Bytes)
    (hb : blankId req.dkgId = true) :
    (reinitDKG st req now payloadOf).st = st ∧ (reinitDKG st req now payloadOf).out = .reject := by
  unfold reinitDKG; simp [hb]

example : blankId "" = true ∧ blankId "  \t" = true ∧ blankId "round-1" = false := by decide

/-- every stored round carries a state name -/
def Named (st : NodeSt) : Prop := ∀ r ds p, lookupS st.rounds r = some (ds, p) → ∃ s, ds = some s

theorem fromGood_named (i : Instance) (h : C18Node.FromGood i) : ∃ s, i.dumpState = some s := by
  obtain ⟨g, e, a, o, _, hd⟩ := h
  obtain ⟨hok, hi⟩ := C18Node.doOrReject_ok g e a i o hd
  exact ⟨_, by rw [hi]; exact C19.ok_dump_state g e a hok⟩

theorem named_of_roundsOK (st st' : NodeSt) (R : String) (hn : Named st) (h : C18Node.RoundsOK st st' R) : Named st' := by
  rcases h with h | ⟨i6, h6, h⟩
  · intro r ds p hl; rw [h] at hl; exact hn r ds p hl
  · intro r ds p hl
    rw [h] at hl
    by_cases hrr : r = R
    · subst hrr
      rw [Dc4bcVerif.Lemmas.NodeLocal.lookupS_assocSet_eq] at hl
      simp only [Option.some.injEq, Prod.mk.injEq] at hl
      rw [← hl.1]; exact fromGood_named i6 h6
    · rw [C08.lookupS_assocSet_ne _ _ _ _ hrr] at hl
      exact hn r ds p hl

theorem named_reinitStep (skip0 : Bool) (now : Time) (payloadOf : Tasks.Msg → Bytes) (acc : NodeSt × List NOp) (im : InnerMsg)
    (hok : C18Node.NodeOK acc.1) (hn : Named acc.1) : Named (reinitStep skip0 now payloadOf acc im).1 := by
  have hok' : C18Node.NodeOK { acc.1 with skipVerify := skip0 || im.patch } := hok
  have hn' : Named { acc.1 with skipVerify := skip0 || im.patch } := hn
  have h := named_of_roundsOK _ _ _ hn' (C18Node.processMessage_roundsOK _ hok' im.msg now payloadOf)
  unfold reinitStep
  exact h

theorem named_loop (skip0 : Bool) (now : Time) (payloadOf : Tasks.Msg → Bytes) (l : List InnerMsg) (acc : NodeSt × List NOp)
    (hok : C18Node.NodeOK acc.1) (hn : Named acc.1) : Named (l.foldl (reinitStep skip0 now payloadOf) acc).1 := by
  induction l generalizing acc with
  | nil => exact hn
  | cons x t ih =>
    simp only [List.foldl_cons]
    exact ih _ (C18Reinit.reinitStep_safe skip0 now payloadOf acc x hok).2 (named_reinitStep skip0 now payloadOf acc x hok hn)

theorem putOperation_rounds (st st' : NodeSt) (op : NOp) (h : putOperation st op = some st') : st'.rounds = st.rounds := by
  unfold putOperation at h
  split at h
  · cases h
  · simp only [Option.some.injEq] at h; rw [← h]

/-- **refusal_is_noop_or_duplicate.** -/
theorem refusal_is_noop_or_duplicate (st : NodeSt) (hok : C18Node.NodeOK st) (hn : Named st) (req : ReinitReq) (now : Time)
    (payloadOf : Tasks.Msg → Bytes) (hrej : (reinitDKG st req now payloadOf).out = .reject) :
    (reinitDKG st req now payloadOf).st = st ∨
    (∃ ops, putOperation (reinitLoop st.self req.dkgId st.skipVerify now payloadOf st req.inner).1
        ⟨"reinit_dkg", req.dkgId, .reinitOps ops⟩ = none ∧
      (reinitDKG st req now payloadOf).st = (reinitLoop st.self req.dkgId st.skipVerify now payloadOf st req.inner).1) := by
  have hnl : Named (reinitLoop st.self req.dkgId st.skipVerify now payloadOf st req.inner).1 := by
    unfold reinitLoop
    exact named_loop _ now payloadOf _ (st, []) hok hn
  unfold reinitDKG at hrej ⊢
  by_cases hb : blankId req.dkgId = true
  · left; simp [hb]
  · have hb' : blankId req.dkgId = false := by simpa using hb
    simp only [hb', Bool.false_eq_true, ↓reduceIte] at hrej ⊢
    by_cases hex : (lookupS st.rounds req.dkgId).isSome = true
    · simp [hex] at hrej
    · have hex' : (lookupS st.rounds req.dkgId).isSome = false := by simpa using hex
      simp only [hex', Bool.false_eq_true, ↓reduceIte] at hrej ⊢
      cases hl : reinitLoop st.self req.dkgId st.skipVerify now payloadOf st req.inner with
      | mk st1 ops =>
        rw [hl] at hnl
        simp only [hl] at hrej ⊢
        cases hp : putOperation st1 ⟨"reinit_dkg", req.dkgId, .reinitOps (ops.map (·.type))⟩ with
        | none => right; exact ⟨_, hp, rfl⟩
        | some st2 =>
          simp only [hp] at hrej ⊢
          cases hg : getInstance st2 req.dkgId with
          | some pr => simp [hg] at hrej
          | none =>
            -- the id is not blank, so `getInstance` creates - or restores what the replay stored, which carries a state name
            exfalso
            unfold getInstance at hg
            cases hlk : lookupS st2.rounds req.dkgId with
            | none => simp [hlk, hb'] at hg
            | some v =>
              obtain ⟨ds, p⟩ := v
              simp only [hlk, Option.map_eq_none_iff] at hg
              rw [putOperation_rounds st1 st2 _ hp] at hlk
              obtain ⟨s, hs⟩ := hnl req.dkgId ds p hlk
              rw [hs] at hg
              have := C19.restore_total s p
              rw [hg] at this
              cases this

/-- handling an ordinary message and handling a re-initialisation file keep every stored round named -/
theorem named_item (payloadOf : Tasks.Msg → Bytes) (st : NodeSt) (hok : C18Node.NodeOK st) (hn : Named st) (it : C18Reinit.Item) :
    Named (C18Reinit.consumeItem payloadOf st it) := by
  cases it with
  | msg m now => exact named_of_roundsOK _ _ _ hn (C18Node.top_roundsOK st hok m now payloadOf)
  | reinit req now =>
    show Named (reinitDKG st req now payloadOf).st
    have hnl : Named (reinitLoop st.self req.dkgId st.skipVerify now payloadOf st req.inner).1 := by
      unfold reinitLoop
      exact named_loop _ now payloadOf _ (st, []) hok hn
    unfold reinitDKG
    split
    · exact hn
    split
    · exact hn
    · cases hl : reinitLoop st.self req.dkgId st.skipVerify now payloadOf st req.inner with
      | mk st1 ops =>
        rw [hl] at hnl
        simp only
        cases hp : putOperation st1 ⟨"reinit_dkg", req.dkgId, .reinitOps (ops.map (·.type))⟩ with
        | none => exact hnl
        | some st2 =>
          have hn2 : Named st2 := by
            intro r ds p hlk; rw [putOperation_rounds st1 st2 _ hp] at hlk; exact hnl r ds p hlk
          simp only
          cases hg : getInstance st2 req.dkgId with
          | none => exact hn2
          | some pr =>
            obtain ⟨st3, inst⟩ := pr
            simp only
            intro r ds p hlk
            simp only [saveFSM] at hlk
            by_cases hrr : r = req.dkgId
            · subst hrr
              rw [Dc4bcVerif.Lemmas.NodeLocal.lookupS_assocSet_eq] at hlk
              simp only [Option.some.injEq, Prod.mk.injEq] at hlk
              rw [← hlk.1]
              exact ⟨_, C18Reinit.getInstance_dump _ _ _ _ hg⟩
            · rw [C08.lookupS_assocSet_ne _ _ _ _ hrr] at hlk
              exact hn2 r ds p hlk

/-- every node state reached from an empty state database satisfies both invariants -/
theorem reachable_inv (self : String) (key : Bytes) (skip : Bool) (payloadOf : Tasks.Msg → Bytes) (items : List C18Reinit.Item) :
    C18Node.NodeOK (C18Reinit.consumeAll payloadOf { self := self, selfKey := key, skipVerify := skip } items) ∧
    Named (C18Reinit.consumeAll payloadOf { self := self, selfKey := key, skipVerify := skip } items) := by
  unfold C18Reinit.consumeAll
  generalize hst : ({ self := self, selfKey := key, skipVerify := skip } : NodeSt) = st0
  have h0 : C18Node.NodeOK st0 ∧ Named st0 := by
    rw [← hst]
    exact ⟨C18Node.nodeOK_empty self key skip, fun r ds p hl => by simp [lookupS] at hl⟩
  clear hst
  induction items generalizing st0 with
  | nil => exact h0
  | cons it rest ih =>
    simp only [List.foldl_cons]
    apply ih
    refine ⟨?_, named_item payloadOf st0 h0.1 h0.2 it⟩
    cases it with
    | msg m now' => exact C18Node.nodeOK_step st0 h0.1 m now' payloadOf
    | reinit rq now' => exact C18Reinit.nodeOK_reinit st0 h0.1 rq now' payloadOf

/-- **rejected_reinit_on_a_reachable_node.** From an empty state database, after ANY sequence of board messages and
re-initialisation files: a re-initialisation file the node refuses leaves it exactly as it was, unless the refusal is the
operation pool's "pending already". -/
theorem rejected_reinit_on_a_reachable_node (self : String) (key : Bytes) (skip : Bool) (payloadOf : Tasks.Msg → Bytes)
    (items : List C18Reinit.Item) (req : ReinitReq) (now : Time)
    (hrej : (reinitDKG (C18Reinit.consumeAll payloadOf { self := self, selfKey := key, skipVerify := skip } items) req now payloadOf).out = .reject) :
    let st := C18Reinit.consumeAll payloadOf { self := self, selfKey := key, skipVerify := skip } items
    (reinitDKG st req now payloadOf).st = st ∨
      (∃ ops, putOperation (reinitLoop st.self req.dkgId st.skipVerify now payloadOf st req.inner).1
          ⟨"reinit_dkg", req.dkgId, .reinitOps ops⟩ = none ∧
        (reinitDKG st req now payloadOf).st = (reinitLoop st.self req.dkgId st.skipVerify now payloadOf st req.inner).1) := by
  obtain ⟨h1, h2⟩ := reachable_inv self key skip payloadOf items
  exact refusal_is_noop_or_duplicate _ h1 h2 req now payloadOf hrej

end Dc4bcVerif.Props.C18ReinitReject
