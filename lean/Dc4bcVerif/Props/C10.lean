/-
  C10 — a participant's contribution can only come from that participant, round and step.
-/
import Dc4bcVerif.Props.C09

namespace Dc4bcVerif.Props.C10
open Dc4bcVerif.Gen Dc4bcVerif.Model Dc4bcVerif.Model.Node

/-- `bound` says: the request names no participant, or verification is off, or the participant id
registered in this round for the sender of the message is the one the request names -/
theorem bound_iff (st : NodeSt) (inst : Instance) (m : NMsg) (arg : Arg) :
    bound st inst m arg = true ↔
      (participantIdOf arg = none ∨ st.skipVerify = true ∨
        ∃ pid, participantIdOf arg = some pid ∧ m.sender ≠ "" ∧ lookupS inst.payload.ids m.sender = some pid) := by
  unfold bound
  cases hp : participantIdOf arg with
  | none => simp
  | some pid =>
    simp only [reduceCtorEq, false_or]
    by_cases hs : st.skipVerify = true
    · simp [hs]
    · simp only [hs, Bool.false_eq_true, ↓reduceIte, false_or]
      by_cases hn : m.sender = ""
      · simp [hn]
      · have hn' : (m.sender == "") = false := by simp [hn]
        simp only [hn', Bool.false_eq_true, ↓reduceIte]
        cases hl : lookupS inst.payload.ids m.sender with
        | none => simp
        | some sid =>
          simp only [beq_iff_eq, Option.some.injEq]
          constructor
          · intro h; exact ⟨pid, rfl, hn, by rw [h]⟩
          · rintro ⟨pid', hp', _, hl'⟩; cases hp'; exact hl'

/-- **only_own_key**, dispatch level: a request that names participant `P` but arrives from a sender
registered under another id — whatever its signature — never reaches the state machine: it is
rejected and nothing changes. -/
theorem foreign_participant_rejected (st : NodeSt) (inst : Instance) (m : NMsg) (now : Time)
    (payloadOf : Tasks.Msg → Bytes) (arg : Arg) (pid : Int)
    (harg : m.arg = some arg) (hpid : participantIdOf arg = some pid) (hskip : st.skipVerify = false)
    (hother : lookupS inst.payload.ids m.sender ≠ some pid) :
    dispatch st inst m now payloadOf = rejectWith st := by
  unfold dispatch
  cases Ev.all.find? (fun e => e.name == m.event) with
  | none => rfl
  | some ev =>
    simp only
    split
    · rfl
    · have hb : bound st inst m arg = false := by
        rw [Bool.eq_false_iff]
        intro hbt
        rw [bound_iff] at hbt
        rcases hbt with h | h | ⟨p', hp', _, hl⟩
        · rw [hpid] at h; cases h
        · rw [hskip] at h; cases h
        · rw [hpid] at hp'; cases hp'; exact hother hl
      simp [harg, hb]

/-- every request type that carries a participant id is covered by the check (the table is read off
`FSMRequestFromMessage` on every run) -/
theorem all_contribution_requests_name_a_participant (a : Arg) :
    participantIdOf a = none ↔ (∃ p t c, a = .sigInit p t c) ∨ (∃ c, a = .default c) ∨ a = .other := by
  cases a <;> simp [participantIdOf]

/-- **only_own_key**, message level: with verification on, whenever a protocol event naming participant
`P` is applied to a round, the message was signed with the key registered for its sender AND that
sender is registered as participant `P`. -/
theorem applied_implies_own_key (st : NodeSt) (inst : Instance) (m : NMsg) (now : Time)
    (payloadOf : Tasks.Msg → Bytes) (arg : Arg) (pid : Int)
    (harg : m.arg = some arg) (hpid : participantIdOf arg = some pid) (hskip : st.skipVerify = false)
    (hver : verifyMessage st inst m = .ok)
    (happlied : dispatch st inst m now payloadOf ≠ rejectWith st) :
    C09.signedByRegisteredSender inst m ∧ lookupS inst.payload.ids m.sender = some pid := by
  constructor
  · rcases (C09.verify_ok_iff st inst m).mp hver with h | h
    · rw [hskip] at h; cases h
    · exact h
  · exact Classical.byContradiction
      (fun hne => happlied (foreign_participant_rejected st inst m now payloadOf arg pid harg hpid hskip hne))

/-- **bound_to_round_and_step — full statement** (what the property asks): a signed `(data, signature)`
accepted under one `(round, event)` is not accepted under a different one. -/
def BoundToRoundAndStep : Prop :=
  ∀ (st : NodeSt) (m m' : NMsg) (now : Time) (payloadOf : Tasks.Msg → Bytes),
    st.skipVerify = false →
    m'.sender = m.sender → m'.arg = m.arg → m'.validKeys = m.validKeys →
    (m'.round ≠ m.round ∨ m'.event ≠ m.event) →
    (processMessage st m now payloadOf).out = .ok →
    (processMessage (processMessage st m now payloadOf).st m' now payloadOf).out ≠ .ok ∨
    (processMessage (processMessage st m now payloadOf).st m' now payloadOf).st = (processMessage st m now payloadOf).st

/- `BoundToRoundAndStep` is FALSE of the code: the signature covers `Data` only (`Message.Bytes`), the
event name and the round id are outside the signed bytes, and a confirm and a decline share one
request type. Recorded as known finding C10-envelope-replay (known_findings.json); the concrete
replay (a confirmation re-posted as a decline is accepted and cancels the round) is produced on
the real node by `nodediff` on every run. What does hold: -/

/-- **bound_partial**: a replay under another event can only be applied if that event decodes the same
bytes into a request of the type its callback accepts (otherwise the callback's type assertion fails),
the sender is registered in the target round under the participant id inside the payload, and the
target round's state has a transition for that event. In particular a replay into a round where the
sender is not registered under that id is rejected. -/
theorem bound_partial (st : NodeSt) (inst : Instance) (m : NMsg) (now : Time) (payloadOf : Tasks.Msg → Bytes)
    (arg : Arg) (pid : Int) (harg : m.arg = some arg) (hpid : participantIdOf arg = some pid)
    (hskip : st.skipVerify = false) (hunreg : lookupS inst.payload.ids m.sender ≠ some pid) :
    (dispatch st inst m now payloadOf).out = .reject ∧ (dispatch st inst m now payloadOf).st = st := by
  rw [foreign_participant_rejected st inst m now payloadOf arg pid harg hpid hskip hunreg]
  exact ⟨rfl, rfl⟩

end Dc4bcVerif.Props.C10
