/-
  C18, FSM layer — no event, in no reachable round, makes a callback dereference a missing payload part.

  `Props/C18.lean panic_only_from_callbacks` reduces a crash of the node's message handling (in the model) to a
  callback of the FSM returning `Res.panic`, which stands for the nil dereferences of the Go callbacks
  (`m.payload.DKGProposalPayload.…` etc.). Here:
  * `no_panic_of_inv`: a round that satisfies the phase invariant (C05 `RoundInv`) and holds the parts the later
    machines rely on (`PartsInv`: invitation data from the first accepted message on, signing data from the
    hand-over to the signing machine on) never makes `Do` panic — for every event and argument;
  * `partsInv_step` / `parts_invariant`: every run from a created round keeps `PartsInv`;
  * `never_panics`: hence for EVERY finite sequence of events from a created round and every next event and
    argument the result is ok or an error, never a panic.
-/
import Dc4bcVerif.Lemmas.NoPanic
import Dc4bcVerif.Props.C05

namespace Dc4bcVerif.Props.C18Fsm
open Dc4bcVerif.Gen Dc4bcVerif.Model Dc4bcVerif.Props

/-- states in which the signing machine has been initialised -/
def signActive (s : St) : Bool := s == sIDLE || s == sAWAIT || s == sCOLLECTED || s == sCANCERR || s == sCANCTO

/-- the cancelled states of the key-generation machine (error reports may still arrive there) -/
def dkgCanc (s : St) : Bool :=
  s == .s_state_dkg_commits_await_canceled_by_error || s == .s_state_dkg_commits_await_canceled_by_timeout
  || s == .s_state_dkg_deals_await_canceled_by_error || s == .s_state_dkg_deals_await_canceled_by_timeout
  || s == .s_state_dkg_responses_await_canceled_by_error || s == .s_state_dkg_responses_sending_canceled_by_timeout
  || s == .s_state_dkg_master_key_await_canceled_by_error || s == .s_state_dkg_master_key_await_canceled_by_timeout

def PartsInv (i : Instance) : Prop :=
  (i.state ≠ sIdle0 → i.payload.sig.isSome = true) ∧ (signActive i.state = true → i.payload.sign.isSome = true) ∧
  (dkgCanc i.state = true → i.payload.dkg.isSome = true)

abbrev eSignInit : Ev := .e_event_signing_init

-- table facts
theorem sign_lookup_init : lookup signMachine sMKCollected eSignInit = some ⟨eSignInit, sIDLE, false, false, 0⟩ := by decide
theorem sign_cb_init : callbackOf signMachine eSignInit = some .sign_actionInitSigningProposal := by decide
theorem sign_mkc_other (e : Ev) (h : e ≠ eSignInit) : (lookup signMachine sMKCollected e).all (·.isInternal) = true := by
  revert h; cases e <;> decide
theorem cancelled_pool (s : St) (h : cancelledSt s = true) :
    (dkgCanc s = true ∧ poolState s = some .dkg) ∨ (dkgCanc s = false ∧ s ≠ sIdle0 ∧ poolState s = some .sig) := by
  revert h; cases s <;> decide

/-- the result of the after part of `do` does not panic when the payload the main callback left is safe -/
theorem doTrAfter_no_panic (Safe : Payload → Prop) (m : MachineDesc)
    (h : ∀ aid ∈ m.callbacks.map (·.2), ∀ e p a, Safe p → (runAction aid e p a).res ≠ .panic ∧ Safe (runAction aid e p a).payload)
    (tr : Tr) (b : AutoOut Payload RespData) (o : AOut) (a : Arg) (hs : Safe o.payload) :
    (doTrAfter m runAction tr b o a).res ≠ .panic := by
  unfold doTrAfter
  dsimp only
  cases hset : setState m b.state (o.outEvent.getD tr.event) with
  | none => simp
  | some s1 =>
    exact (processAuto_safe Safe m runAction (fun aid ha e p a hq => (h aid ha e p a hq).1)
      (fun aid ha e p a hq => (h aid ha e p a hq).2) s1 _ 2 a hs).1

theorem no_panic_safe (Safe : Payload → Prop) (m : MachineDesc)
    (h : ∀ aid ∈ m.callbacks.map (·.2), ∀ e p a, Safe p → (runAction aid e p a).res ≠ .panic ∧ Safe (runAction aid e p a).payload)
    (s : St) (p : Payload) (e : Ev) (a : Arg) (hs : Safe p) : (doEvent m runAction s p e a).res ≠ .panic :=
  doEvent_no_panic Safe m runAction (fun aid ha e p a hq => (h aid ha e p a hq).1)
    (fun aid ha e p a hq => (h aid ha e p a hq).2) s p e a hs

/-- **no_panic_of_inv.** -/
theorem no_panic_of_inv (i : Instance) (hR : C05.RoundInv i) (hP : PartsInv i) (e : Ev) (a : Arg) :
    (i.doEv e a).2.res ≠ .panic := by
  show (doEvent (machineOf i.machine) runAction i.state i.payload e a).res ≠ .panic
  obtain ⟨hcons, hph⟩ := hR
  rcases state_classes i.state with hs | hs | hs | hs | hs | hs | hs | hs | hs
  · -- __idle
    have hmach := C05.machine_of_state hcons hs (m := .sig) (by decide)
    rw [hmach, hs]
    simp only [machineOf]
    by_cases h1 : e = eSigInit
    · subst h1
      rw [doEvent_std sig_lookup_init rfl (no_before_auto .sig sIdle0) sig_cb_init]
      have hspec := sig_init_spec i.payload a
      simp only at hspec
      by_cases hok : ((runAction .sig_actionInitSignatureProposal eSigInit i.payload a).res != .ok) = true
      · simp only [hok, ↓reduceIte]; exact hspec.2.1
      · simp only [hok, Bool.false_eq_true, ↓reduceIte]
        have hok' : (sig_actionInitSignatureProposal eSigInit i.payload a).res = .ok := by simpa [runAction] using hok
        obtain ⟨_, parts, thr, ts, sc, _, hsig, _⟩ := hspec.2.2 hok'
        exact doTrAfter_no_panic SafeSig sigMachine sig_safe _ _ _ a (by unfold SafeSig; simp only [runAction]; rw [hsig]; rfl)
    · rw [doEvent_route (sig_idle_other e h1)]; simp
  · -- invitations
    have hmach := C05.machine_of_state hcons hs (m := .sig) (by decide)
    rw [hs] at hph; rw [hmach, hs]
    obtain ⟨sc, hinv⟩ := hph
    exact no_panic_safe SafeSig sigMachine sig_safe _ _ e a (by unfold SafeSig; rw [hinv.hsig]; rfl)
  · -- invitations collected: the key-generation machine is about to start
    have hmach := C05.machine_of_state hcons hs (m := .dkg) (by decide)
    rw [hs] at hph; rw [hmach, hs]
    simp only [machineOf]
    obtain ⟨hd, sc, hsc, hne, _⟩ := hph
    by_cases h1 : e = eDkgInit
    · subst h1
      rw [doEvent_std dkginit_lookup rfl (no_before_auto .dkg sSigCollected) dkginit_cb]
      have hspec := dkg_init_spec i.payload a hd sc hsc
      simp only at hspec
      have hnp : (dkg_actionInitDKGProposal eDkgInit i.payload a).res ≠ .panic := by
        unfold dkg_actionInitDKGProposal
        simp only [hd, Option.isSome_none, Bool.false_eq_true, ↓reduceIte]
        cases a <;> simp [aErr, hsc]
        cases hh : sc.quorum.head? with
        | none => exfalso; cases hq : sc.quorum with
          | nil => exact hne hq
          | cons x t => rw [hq] at hh; cases hh
        | some q0 => simp [aOk]
      by_cases hok : ((runAction .dkg_actionInitDKGProposal eDkgInit i.payload a).res != .ok) = true
      · simp only [hok, ↓reduceIte]; simpa [runAction] using hnp
      · simp only [hok, Bool.false_eq_true, ↓reduceIte]
        have hok' : (dkg_actionInitDKGProposal eDkgInit i.payload a).res = .ok := by simpa [runAction] using hok
        obtain ⟨_, ts, dc, _, hpay, _⟩ := hspec.2 hok'
        exact doTrAfter_no_panic SafeDkg dkgMachine dkg_safe _ _ _ a (by unfold SafeDkg; simp only [runAction]; rw [hpay]; rfl)
    · rw [doEvent_route (dkg_collected_other e h1)]; simp
  · have hmach := C05.machine_of_state hcons hs (m := .dkg) (by decide)
    rw [hs] at hph; rw [hmach, hs]
    obtain ⟨dc, hinv⟩ := hph
    exact no_panic_safe SafeDkg dkgMachine dkg_safe _ _ e a (by unfold SafeDkg; rw [hinv.hdkg]; rfl)
  · have hmach := C05.machine_of_state hcons hs (m := .dkg) (by decide)
    rw [hs] at hph; rw [hmach, hs]
    obtain ⟨dc, hinv⟩ := hph
    exact no_panic_safe SafeDkg dkgMachine dkg_safe _ _ e a (by unfold SafeDkg; rw [hinv.hdkg]; rfl)
  · have hmach := C05.machine_of_state hcons hs (m := .dkg) (by decide)
    rw [hs] at hph; rw [hmach, hs]
    obtain ⟨dc, hinv⟩ := hph
    exact no_panic_safe SafeDkg dkgMachine dkg_safe _ _ e a (by unfold SafeDkg; rw [hinv.hdkg]; rfl)
  · have hmach := C05.machine_of_state hcons hs (m := .dkg) (by decide)
    rw [hs] at hph; rw [hmach, hs]
    obtain ⟨dc, hinv⟩ := hph
    exact no_panic_safe SafeDkg dkgMachine dkg_safe _ _ e a (by unfold SafeDkg; rw [hinv.hdkg]; rfl)
  · -- the signing machine's states
    have hmach : i.machine = .sign := by
      have hp : poolState i.state = some .sign := by
        revert hs; cases i.state <;> decide
      rw [hp] at hcons; exact (Option.some.inj hcons).symm
    rw [signFamily_phaseInv _ hs] at hph
    obtain ⟨dc, hdc, _, _⟩ := hph
    have hsig : i.payload.sig.isSome = true := hP.1 (by intro h0; rw [h0] at hs; exact absurd hs (by decide))
    rw [hmach]
    simp only [machineOf]
    by_cases hmk : i.state = sMKCollected
    · rw [hmk]
      by_cases h1 : e = eSignInit
      · subst h1
        rw [doEvent_std sign_lookup_init rfl (no_before_auto .sign sMKCollected) sign_cb_init]
        have hact : (runAction .sign_actionInitSigningProposal eSignInit i.payload a).res ≠ .panic ∧
            ((runAction .sign_actionInitSigningProposal eSignInit i.payload a).res = .ok →
              SafeSign (runAction .sign_actionInitSigningProposal eSignInit i.payload a).payload) := by
          simp only [runAction]
          unfold sign_actionInitSigningProposal SafeSign
          cases a <;> simp [aErr]
          split <;> simp_all [aErr, aOk]
        by_cases hok : ((runAction .sign_actionInitSigningProposal eSignInit i.payload a).res != .ok) = true
        · simp only [hok, ↓reduceIte]; exact hact.1
        · simp only [hok, Bool.false_eq_true, ↓reduceIte]
          exact doTrAfter_no_panic SafeSign signMachine sign_safe _ _ _ a (hact.2 (by simpa using hok))
      · rw [doEvent_route (sign_mkc_other e h1)]; simp
    · have hact : signActive i.state = true := by
        revert hs hmk; cases i.state <;> decide
      exact no_panic_safe SafeSign signMachine sign_safe _ _ e a ⟨hsig, by rw [hdc]; rfl, hP.2.1 hact⟩
  · -- cancelled states: error reports may still be delivered; the parts they touch are there
    rcases cancelled_pool i.state hs with ⟨hd, hp⟩ | ⟨_, h0, hp⟩
    · have hmach : i.machine = .dkg := by rw [hp] at hcons; exact (Option.some.inj hcons).symm
      rw [hmach]
      exact no_panic_safe SafeDkg dkgMachine dkg_safe _ _ e a (hP.2.2 hd)
    · have hmach : i.machine = .sig := by rw [hp] at hcons; exact (Option.some.inj hcons).symm
      rw [hmach]
      exact no_panic_safe SafeSig sigMachine sig_safe _ _ e a (hP.1 h0)

-- ───────────── the parts are kept along every run ─────────────

theorem all_keep_sig (aid : ActionId) (e : Ev) (p : Payload) (a : Arg) (h : p.sig.isSome = true) :
    (runAction aid e p a).payload.sig.isSome = true := by
  cases aid <;> simp only [runAction]
  all_goals first
    | (unfold sig_actionInitSignatureProposal; branches)
    | (unfold sig_actionProposalResponseByParticipant; branches)
    | (unfold sig_actionValidateSignatureProposal; branches)
    | (unfold dkg_actionInitDKGProposal; branches)
    | (unfold dkg_actionCommitConfirmationReceived dkgReceived; branches)
    | (unfold dkg_actionDealConfirmationReceived dkgReceived; branches)
    | (unfold dkg_actionResponseConfirmationReceived dkgReceived; branches)
    | (unfold dkg_actionMasterKeyConfirmationReceived; branches)
    | (unfold dkg_actionConfirmationError; branches)
    | (unfold dkg_actionValidateDkgProposalAwaitCommits dkgValidate; branches)
    | (unfold dkg_actionValidateDkgProposalAwaitDeals dkgValidate; branches)
    | (unfold dkg_actionValidateDkgProposalAwaitResponses dkgValidate; branches)
    | (unfold dkg_actionValidateDkgProposalAwaitMasterKey; branches)
    | (unfold sign_actionInitSigningProposal; branches)
    | (unfold sign_actionStartSigningProposal; branches)
    | (unfold sign_actionPartialSignConfirmationReceived; branches)
    | (unfold sign_actionValidateSigningPartialSignsAwaitConfirmations; branches)
    | (unfold sign_actionConfirmationError; branches)
    | (simp_all [sign_actionSigningRestart, aOk])

theorem all_keep_sign (aid : ActionId) (e : Ev) (p : Payload) (a : Arg) (h : p.sign.isSome = true) :
    (runAction aid e p a).payload.sign.isSome = true := by
  cases aid <;> simp only [runAction]
  all_goals first
    | (unfold sig_actionInitSignatureProposal; branches)
    | (unfold sig_actionProposalResponseByParticipant; branches)
    | (unfold sig_actionValidateSignatureProposal; branches)
    | (unfold dkg_actionInitDKGProposal; branches)
    | (unfold dkg_actionCommitConfirmationReceived dkgReceived; branches)
    | (unfold dkg_actionDealConfirmationReceived dkgReceived; branches)
    | (unfold dkg_actionResponseConfirmationReceived dkgReceived; branches)
    | (unfold dkg_actionMasterKeyConfirmationReceived; branches)
    | (unfold dkg_actionConfirmationError; branches)
    | (unfold dkg_actionValidateDkgProposalAwaitCommits dkgValidate; branches)
    | (unfold dkg_actionValidateDkgProposalAwaitDeals dkgValidate; branches)
    | (unfold dkg_actionValidateDkgProposalAwaitResponses dkgValidate; branches)
    | (unfold dkg_actionValidateDkgProposalAwaitMasterKey; branches)
    | (unfold sign_actionInitSigningProposal; branches)
    | (unfold sign_actionStartSigningProposal; branches)
    | (unfold sign_actionPartialSignConfirmationReceived; branches)
    | (unfold sign_actionValidateSigningPartialSignsAwaitConfirmations; branches)
    | (unfold sign_actionConfirmationError; branches)
    | (simp_all [sign_actionSigningRestart, aOk])

theorem all_keep_dkg (aid : ActionId) (e : Ev) (p : Payload) (a : Arg) (h : p.dkg.isSome = true) :
    (runAction aid e p a).payload.dkg.isSome = true := by
  cases aid <;> simp only [runAction]
  all_goals first
    | (unfold sig_actionInitSignatureProposal; branches)
    | (unfold sig_actionProposalResponseByParticipant; branches)
    | (unfold sig_actionValidateSignatureProposal; branches)
    | (unfold dkg_actionInitDKGProposal; simp [h, aOk])
    | (unfold dkg_actionCommitConfirmationReceived dkgReceived; branches)
    | (unfold dkg_actionDealConfirmationReceived dkgReceived; branches)
    | (unfold dkg_actionResponseConfirmationReceived dkgReceived; branches)
    | (unfold dkg_actionMasterKeyConfirmationReceived; branches)
    | (unfold dkg_actionConfirmationError; branches)
    | (unfold dkg_actionValidateDkgProposalAwaitCommits dkgValidate; branches)
    | (unfold dkg_actionValidateDkgProposalAwaitDeals dkgValidate; branches)
    | (unfold dkg_actionValidateDkgProposalAwaitResponses dkgValidate; branches)
    | (unfold dkg_actionValidateDkgProposalAwaitMasterKey; branches)
    | (unfold sign_actionInitSigningProposal; branches)
    | (unfold sign_actionStartSigningProposal; branches)
    | (unfold sign_actionPartialSignConfirmationReceived; branches)
    | (unfold sign_actionValidateSigningPartialSignsAwaitConfirmations; branches)
    | (unfold sign_actionConfirmationError; branches)
    | (simp_all [sign_actionSigningRestart, aOk])

/-- states before key generation has started, invitation phase -/
def earlySt (s : St) : Bool :=
  s == sIdle0 || s == sSigAwait || s == .s_state_sig_proposal_canceled_by_participant || s == .s_state_sig_proposal_canceled_by_timeout

theorem canc_unreachable_early (mid : MachineId) (s : St) (h : earlySt s = true) :
    cannotReach (machineOf mid) s dkgCanc = true := by
  revert h; cases mid <;> cases s <;> decide

theorem active_unreachable (mid : MachineId) (s : St) (h1 : signActive s = false) (h2 : s ≠ sMKCollected) :
    cannotReach (machineOf mid) s signActive = true := by
  revert h1 h2; cases mid <;> cases s <;> decide

theorem active_unreachable_mkc (mid : MachineId) (h : mid ≠ .sign) :
    cannotReach (machineOf mid) sMKCollected signActive = true := by
  revert h; cases mid <;> decide

theorem partsInv_step (i : Instance) (ea : Ev × Arg) (hR : C05.RoundInv i) (hP : PartsInv i) : PartsInv (persistStep i ea) := by
  obtain ⟨e, a⟩ := ea
  by_cases hok : (i.doEv e a).2.res = .ok
  · obtain ⟨m, hm, hshape⟩ := C19.persistStep_ok_shape i (e, a) hok
    rw [hshape]
    have hok' : (doEvent (machineOf i.machine) runAction i.state i.payload e a).res = .ok := hok
    show ((doEvent (machineOf i.machine) runAction i.state i.payload e a).state ≠ sIdle0 →
        (doEvent (machineOf i.machine) runAction i.state i.payload e a).payload.sig.isSome = true) ∧
      (signActive (doEvent (machineOf i.machine) runAction i.state i.payload e a).state = true →
        (doEvent (machineOf i.machine) runAction i.state i.payload e a).payload.sign.isSome = true) ∧
      (dkgCanc (doEvent (machineOf i.machine) runAction i.state i.payload e a).state = true →
        (doEvent (machineOf i.machine) runAction i.state i.payload e a).payload.dkg.isSome = true)
    obtain ⟨hcons, hph⟩ := hR
    refine ⟨?_, ?_, ?_⟩
    · intro _
      by_cases h0 : i.state = sIdle0
      · have hmach := C05.machine_of_state hcons h0 (m := .sig) (by decide)
        rw [hmach, h0] at hok' ⊢
        simp only [machineOf] at hok' ⊢
        by_cases h1 : e = eSigInit
        · subst h1
          rw [doEvent_std sig_lookup_init rfl (no_before_auto .sig sIdle0) sig_cb_init] at hok' ⊢
          have hspec := sig_init_spec i.payload a
          simp only at hspec
          by_cases hk : ((runAction .sig_actionInitSignatureProposal eSigInit i.payload a).res != .ok) = true
          · simp only [hk, ↓reduceIte] at hok'
            simp [hok'] at hk
          · simp only [hk, Bool.false_eq_true, ↓reduceIte]
            have hk' : (sig_actionInitSignatureProposal eSigInit i.payload a).res = .ok := by simpa [runAction] using hk
            obtain ⟨_, parts, thr, ts, sc, _, hsig, _⟩ := hspec.2.2 hk'
            exact doTrAfter_mono (fun q : Payload => q.sig.isSome = true) sigMachine runAction
              (fun aid _ e p a hq => all_keep_sig aid e p a hq) _ _ _ a (by simp only [runAction]; rw [hsig]; rfl)
        · rw [doEvent_route (sig_idle_other e h1)] at hok'; cases hok'
      · exact doEvent_mono (fun q : Payload => q.sig.isSome = true) (machineOf i.machine) runAction
          (fun aid _ e p a hq => all_keep_sig aid e p a hq) i.state i.payload e a (hP.1 h0)
    · intro hact'
      by_cases hsome : i.payload.sign.isSome = true
      · exact doEvent_mono (fun q : Payload => q.sign.isSome = true) (machineOf i.machine) runAction
          (fun aid _ e p a hq => all_keep_sign aid e p a hq) i.state i.payload e a hsome
      · have hna : signActive i.state = false := by
          cases hsa : signActive i.state with
          | false => rfl
          | true => exact absurd (hP.2.1 hsa) hsome
        by_cases hmk : i.state = sMKCollected
        · by_cases hmach : i.machine = .sign
          · rw [hmach, hmk] at hok' hact' ⊢
            simp only [machineOf] at hok' hact' ⊢
            by_cases h1 : e = eSignInit
            · subst h1
              rw [doEvent_std sign_lookup_init rfl (no_before_auto .sign sMKCollected) sign_cb_init] at hok' ⊢
              by_cases hk : ((runAction .sign_actionInitSigningProposal eSignInit i.payload a).res != .ok) = true
              · simp only [hk, ↓reduceIte] at hok'
                simp [hok'] at hk
              · simp only [hk, Bool.false_eq_true, ↓reduceIte]
                refine doTrAfter_mono (fun q : Payload => q.sign.isSome = true) signMachine runAction
                  (fun aid _ e p a hq => all_keep_sign aid e p a hq) _ _ _ a ?_
                have hk' : (runAction .sign_actionInitSigningProposal eSignInit i.payload a).res = .ok := by simpa using hk
                revert hk'
                simp only [runAction]
                unfold sign_actionInitSigningProposal
                cases a <;> simp [aErr]
                split <;> simp_all [aErr, aOk]
            · rw [doEvent_route (sign_mkc_other e h1)] at hok'; cases hok'
          · exfalso
            have := cannotReach_sound (act := runAction) (no_before_auto i.machine i.state)
              (by rw [hmk]; exact active_unreachable_mkc i.machine hmach) hna i.payload e a
            rw [this] at hact'; cases hact'
        · exfalso
          have := cannotReach_sound (act := runAction) (no_before_auto i.machine i.state)
            (active_unreachable i.machine i.state hna hmk) hna i.payload e a
          rw [this] at hact'; cases hact'
    · intro hc'
      by_cases hsome : i.payload.dkg.isSome = true
      · exact doEvent_mono (fun q : Payload => q.dkg.isSome = true) (machineOf i.machine) runAction
          (fun aid _ e p a hq => all_keep_dkg aid e p a hq) i.state i.payload e a hsome
      · -- no key-generation data yet: the round is in an early state
        have hearly : earlySt i.state = true ∨ i.state = sSigCollected := by
          rcases state_classes i.state with hs | hs | hs | hs | hs | hs | hs | hs | hs
          · left; rw [hs]; decide
          · left; rw [hs]; decide
          · right; exact hs
          · rw [hs] at hph; obtain ⟨dc, hinv⟩ := hph; exact absurd (by rw [hinv.hdkg]; rfl) hsome
          · rw [hs] at hph; obtain ⟨dc, hinv⟩ := hph; exact absurd (by rw [hinv.hdkg]; rfl) hsome
          · rw [hs] at hph; obtain ⟨dc, hinv⟩ := hph; exact absurd (by rw [hinv.hdkg]; rfl) hsome
          · rw [hs] at hph; obtain ⟨dc, hinv⟩ := hph; exact absurd (by rw [hinv.hdkg]; rfl) hsome
          · rw [signFamily_phaseInv _ hs] at hph; obtain ⟨dc, hdc, _, _⟩ := hph; exact absurd (by rw [hdc]; rfl) hsome
          · rcases cancelled_pool i.state hs with ⟨hd, _⟩ | ⟨hd, h0, _⟩
            · exact absurd (hP.2.2 hd) hsome
            · left; revert hs hd; cases i.state <;> decide
        rcases hearly with hearly | hcol
        · exfalso
          have hnc : dkgCanc i.state = false := by revert hearly; cases i.state <;> decide
          have := cannotReach_sound (act := runAction) (no_before_auto i.machine i.state)
            (canc_unreachable_early i.machine i.state hearly) hnc i.payload e a
          rw [this] at hc'; cases hc'
        · have hmach := C05.machine_of_state hcons hcol (m := .dkg) (by decide)
          rw [hcol] at hph
          obtain ⟨hd, sc, hsc, _, _⟩ := hph
          rw [hmach, hcol] at hok' hc' ⊢
          simp only [machineOf] at hok' hc' ⊢
          by_cases h1 : e = eDkgInit
          · subst h1
            rw [doEvent_std dkginit_lookup rfl (no_before_auto .dkg sSigCollected) dkginit_cb] at hok' ⊢
            have hspec := dkg_init_spec i.payload a hd sc hsc
            simp only at hspec
            by_cases hk : ((runAction .dkg_actionInitDKGProposal eDkgInit i.payload a).res != .ok) = true
            · simp only [hk, ↓reduceIte] at hok'
              simp [hok'] at hk
            · simp only [hk, Bool.false_eq_true, ↓reduceIte]
              have hk' : (dkg_actionInitDKGProposal eDkgInit i.payload a).res = .ok := by simpa [runAction] using hk
              obtain ⟨_, ts, dc, _, hpay, _⟩ := hspec.2 hk'
              exact doTrAfter_mono (fun q : Payload => q.dkg.isSome = true) dkgMachine runAction
                (fun aid _ e p a hq => all_keep_dkg aid e p a hq) _ _ _ a (by simp only [runAction]; rw [hpay]; rfl)
          · rw [doEvent_route (dkg_collected_other e h1)] at hok'; cases hok'
  · rw [C19.persistStep_not_ok i (e, a) hok]; exact hP

/-- both invariants together along every run -/
theorem parts_invariant (id : String) (evs : List (Ev × Arg)) :
    C05.RoundInv (run (Instance.create id) evs) ∧ PartsInv (run (Instance.create id) evs) := by
  apply run_induction (Q := fun i => C05.RoundInv i ∧ PartsInv i)
  · intro i ea h
    exact ⟨C05.roundInv_step i ea h.1, partsInv_step i ea h.1 h.2⟩
  · exact ⟨⟨C19.create_consistent id, rfl⟩, fun h => absurd rfl h, fun h => by simp [Instance.create, signActive] at h, fun h => by simp [Instance.create, dkgCanc] at h⟩

/-- **never_panics (FSM).** Whatever finite sequence of events (any events, any arguments, accepted or rejected) has been
applied to a created round, and whatever event with whatever argument comes next, `Do` ends with ok or an error: no
callback ever dereferences a payload part that is not there. -/
theorem never_panics (id : String) (evs : List (Ev × Arg)) (e : Ev) (a : Arg) :
    ((run (Instance.create id) evs).doEv e a).2.res ≠ .panic := by
  obtain ⟨hR, hP⟩ := parts_invariant id evs
  exact no_panic_of_inv _ hR hP e a

end Dc4bcVerif.Props.C18Fsm
