/-
  C18, node layer — in the model, handling a message never ends in `Outcome.panic`, for every node state
  whose stored rounds satisfy the round invariants, and handling a message keeps that true; hence for
  every state reachable from an empty node by any sequence of messages (`node_never_panics_run`).

  `Outcome.panic` is the model's stand-in for a Go panic in the poller, which is not recovered anywhere.
  With `C18.panic_only_from_callbacks` (the only source is an FSM callback) and `C18Fsm.no_panic_of_inv`
  (no callback panics on a round that satisfies the invariants) what is left is bookkeeping: every
  instance the node applies an event to is either restored from a stored dump, freshly created, or the
  result of the lazy restart of a cancelled signing round — all of which satisfy the invariants — and every
  dump the node stores restores to the persisted step of such an instance.
-/
import Dc4bcVerif.Props.C18
import Dc4bcVerif.Props.C18Fsm
import Dc4bcVerif.Props.C06
import Dc4bcVerif.Props.C08

namespace Dc4bcVerif.Props.C18Node
open Dc4bcVerif.Gen Dc4bcVerif.Model Dc4bcVerif.Model.Node Dc4bcVerif.Props Dc4bcVerif.Props.C18Fsm

def Good (i : Instance) : Prop := C05.RoundInv i ∧ PartsInv i

/-- every stored round restores to an instance that satisfies the invariants -/
def NodeOK (st : NodeSt) : Prop :=
  ∀ r ds p i, lookupS st.rounds r = some (ds, p) → Instance.restore ds p = some i → Good i

theorem good_create (id : String) : Good (Instance.create id) := parts_invariant id []

theorem good_step (i : Instance) (ea : Ev × Arg) (h : Good i) : Good (persistStep i ea) :=
  ⟨C05.roundInv_step i ea h.1, partsInv_step i ea h.1 h.2⟩

/-- the dump of a successful `Do` restores to the persisted step -/
theorem restore_of_ok (j : Instance) (e : Ev) (a : Arg) (hok : (j.doEv e a).2.res = .ok) :
    Instance.restore (j.doEv e a).1.dumpState (j.doEv e a).1.payload = some (persistStep j (e, a)) := by
  obtain ⟨m, hm, hshape⟩ := C19.persistStep_ok_shape j (e, a) hok
  rw [hshape, C19.ok_dump_state j e a hok]
  unfold Instance.restore
  simp only at hm
  simp [hm]

theorem doOrReject_ok (j : Instance) (e : Ev) (a : Arg) (i' : Instance) (o : Out) (h : doOrReject j e a = some (i', o)) :
    (j.doEv e a).2.res = .ok ∧ i' = (j.doEv e a).1 := by
  unfold doOrReject at h
  by_cases hr : ((j.doEv e a).2.res == .ok) = true
  · simp only [hr, ↓reduceIte, Option.some.injEq] at h
    exact ⟨by simpa using hr, by rw [h]⟩
  · simp only [hr, Bool.false_eq_true, ↓reduceIte] at h; cases h

/-- what `doOrReject` hands on restores to a good instance -/
theorem good_after (j : Instance) (hj : Good j) (e : Ev) (a : Arg) (i' : Instance) (o : Out) (h : doOrReject j e a = some (i', o))
    (r : Instance) (hr : Instance.restore i'.dumpState i'.payload = some r) : Good r := by
  obtain ⟨hok, hi⟩ := doOrReject_ok j e a i' o h
  subst hi
  rw [restore_of_ok j e a hok] at hr
  cases hr
  exact good_step j (e, a) hj

-- ───────────── the lazy restart keeps the invariants ─────────────

theorem restart_only_sign (mid : MachineId) (s : St) :
    (mid = .sign ∧ (s = sCOLLECTED ∨ s = sCANCERR ∨ s = sCANCTO)) ∨ lookup (machineOf mid) s eRESTART = none := by
  cases mid <;> cases s <;> decide

theorem good_restart (inst : Instance) (hg : Good inst) (a : Arg) (i' : Instance) (o : Out)
    (h : doOrReject inst eRESTART a = some (i', o)) : Good i' := by
  obtain ⟨hok, hi⟩ := doOrReject_ok inst eRESTART a i' o h
  have hok' : (doEvent (machineOf inst.machine) runAction inst.state inst.payload eRESTART a).res = .ok := hok
  rcases restart_only_sign inst.machine inst.state with ⟨hm, hs⟩ | hnone
  · have hst := C06.restart_goes_idle inst.state hs inst.payload a
    have hi' : i'.machine = .sign ∧ i'.state = sIDLE ∧ i'.payload = inst.payload := by
      subst hi
      unfold Instance.doEv
      simp only [hm]
      exact ⟨trivial, hst.1, hst.2.2⟩
    obtain ⟨hmach', hstate', hpay'⟩ := hi'
    obtain ⟨⟨hcons, hph⟩, hP⟩ := hg
    have hfam : signFamily inst.state = true := by rcases hs with h | h | h <;> rw [h] <;> decide
    have hact : signActive inst.state = true := by rcases hs with h | h | h <;> rw [h] <;> decide
    have hne0 : inst.state ≠ sIdle0 := by rcases hs with h | h | h <;> rw [h] <;> decide
    rw [signFamily_phaseInv _ hfam] at hph
    refine ⟨⟨by rw [hstate', hmach']; decide, ?_⟩, ?_, ?_, ?_⟩
    · rw [hstate', hpay']; exact hph
    · intro _; rw [hpay']; exact hP.1 hne0
    · intro _; rw [hpay']; exact hP.2.1 hact
    · intro hd; rw [hstate'] at hd; exact absurd hd (by decide)
  · exfalso
    unfold doEvent at hok'
    rw [hnone] at hok'
    cases hok'

theorem good_restartSigning (st st' : NodeSt) (inst inst' : Instance) (round : String) (now : Time) (hg : Good inst)
    (h : restartSigning st inst round now = some (st', inst')) : Good inst' := by
  unfold restartSigning at h
  cases hd : doOrReject inst .e_event_signing_restart (.default now) with
  | none => simp [hd] at h
  | some r =>
    obtain ⟨i', o⟩ := r
    simp [hd] at h
    rw [← h.2]
    exact good_restart inst hg _ i' o hd

theorem good_preSteps (st : NodeSt) (inst : Instance) (m : NMsg) (now : Time) (hg : Good inst) (st2 : NodeSt) (inst2 : Instance)
    (h : preSteps st inst m now = .cont st2 inst2) : Good inst2 := by
  unfold preSteps at h
  split at h
  · cases h
  · cases h1 : step1 st inst m now with
    | none => simp [h1] at h
    | some pr1 =>
      obtain ⟨st1, inst1⟩ := pr1
      simp only [h1] at h
      have hg1 : Good inst1 := by
        unfold step1 at h1
        split at h1
        · exact good_restartSigning _ _ _ _ _ _ hg h1
        · simp only [Option.some.injEq, Prod.mk.injEq] at h1; rw [← h1.2]; exact hg
      split at h
      · cases h
      · cases h2 : step2 st1 inst1 m now with
        | none => simp [h2] at h
        | some pr2 =>
          obtain ⟨st2', inst2'⟩ := pr2
          simp only [h2, Pre.cont.injEq] at h
          rw [← h.2]
          unfold step2 at h2
          split at h2
          · exact good_restartSigning _ _ _ _ _ _ hg1 h2
          · simp only [Option.some.injEq, Prod.mk.injEq] at h2; rw [← h2.2]; exact hg1

theorem good_getInstance (st st1 : NodeSt) (round : String) (inst : Instance) (hok : NodeOK st)
    (h : getInstance st round = some (st1, inst)) : Good inst := by
  unfold getInstance at h
  cases hl : lookupS st.rounds round with
  | some v =>
    obtain ⟨ds, p⟩ := v
    simp only [hl] at h
    cases hr : Instance.restore ds p with
    | none => simp [hr] at h
    | some i =>
      simp [hr] at h
      rw [← h.2]
      exact hok round ds p i hl hr
  | none =>
    simp only [hl] at h
    split at h
    · cases h
    · simp at h; rw [← h.2]; exact good_create round

/-- **node_never_panics.** For every node state whose stored rounds satisfy the invariants, every message (any round id,
event name, sender, payload, signature oracle) and every clock reading: handling it ends with ok or a rejection. -/
theorem node_never_panics (st : NodeSt) (hok : NodeOK st) (m : NMsg) (now : Time) (payloadOf : Tasks.Msg → Bytes) :
    (processMessage st m now payloadOf).out ≠ .panic := by
  intro hp
  obtain ⟨inst, inst2, ev, arg, hg, hpre, hdp, _⟩ := C18.panic_only_from_callbacks st m now payloadOf hp
  have hgood := good_preSteps st inst m now (good_getInstance st st m.round inst hok hg) st inst2 hpre
  unfold doPanics at hdp
  exact no_panic_of_inv inst2 hgood.1 hgood.2 ev arg (by simpa using hdp)

theorem top_never_panics (st : NodeSt) (hok : NodeOK st) (m : NMsg) (now : Time) (payloadOf : Tasks.Msg → Bytes) :
    (processMessageTop st m now payloadOf).out ≠ .panic := by
  have h := node_never_panics st hok m now payloadOf
  unfold processMessageTop
  dsimp only
  split
  · rename_i hout _
    simp only
    rw [hout]; simp
  · exact h

-- ───────────── handling a message keeps the stored rounds good ─────────────

/-- an instance that came out of a successful `Do` on a good instance -/
def FromGood (i : Instance) : Prop := ∃ g e a o, Good g ∧ doOrReject g e a = some (i, o)

theorem fromGood_restore (i : Instance) (h : FromGood i) (r : Instance) (hr : Instance.restore i.dumpState i.payload = some r) : Good r := by
  obtain ⟨g, e, a, o, hg, hd⟩ := h
  exact good_after g hg e a i o hd r hr

theorem fromGood_handOver (i : Instance) (h : FromGood i) (e : Ev) (now : Time) (i' : Instance) (rs : Option St) (rd : Option RespData)
    (hh : handOver i e now = some (i', rs, rd)) : FromGood i' := by
  unfold handOver at hh
  cases hr : Instance.restore i.dumpState i.payload with
  | none => simp [hr] at hh
  | some r =>
    simp only [hr] at hh
    cases hd : doOrReject r e (.default now) with
    | none => simp [hd] at hh
    | some x =>
      obtain ⟨j, o⟩ := x
      simp only [hd, Option.some.injEq, Prod.mk.injEq] at hh
      rw [← hh.1]
      exact ⟨r, e, .default now, o, fromGood_restore i h r hr, hd⟩

/-- the rounds of the new state are those of the old one, or the old ones with the round of the message replaced by
the dump of an instance that came out of a successful `Do` on a good instance -/
def RoundsOK (st st' : NodeSt) (round : String) : Prop :=
  st'.rounds = st.rounds ∨ ∃ i6, FromGood i6 ∧ st'.rounds = assocSet st.rounds round (i6.dumpState, i6.payload)

theorem saveSignatures_rounds (st st' : NodeSt) (l : List RSig) (h : saveSignatures st l = some st') : st'.rounds = st.rounds := by
  unfold saveSignatures at h
  cases l with
  | nil => cases h
  | cons a t => simp only [Option.some.injEq] at h; rw [← h]

theorem placeholders_rounds (st st' : NodeSt) (m : NMsg) (payloadOf : Tasks.Msg → Bytes) (h : placeholders st m payloadOf = some st') :
    st'.rounds = st.rounds := by
  unfold placeholders at h
  split at h
  · cases hp : m.proposal with
    | none => simp [hp] at h
    | some bt =>
      obtain ⟨batch, tasks⟩ := bt
      simp only [hp] at h
      cases ht : Tasks.tasksToMessages tasks with
      | error e => simp [ht] at h
      | ok msgs => simp only [ht] at h; exact saveSignatures_rounds _ _ _ h
  · simp only [Option.some.injEq] at h; rw [← h]

theorem finish_roundsOK (st2 : NodeSt) (i5 : Instance) (h5 : FromGood i5) (rs5 : Option St) (rd5 : Option RespData) (m : NMsg) (now : Time)
    (payloadOf : Tasks.Msg → Bytes) : RoundsOK st2 (finish st2 i5 rs5 rd5 m now payloadOf).st m.round := by
  unfold finish
  dsimp only
  cases reconstructStep (rs5 == some .s_state_signing_partial_signs_collected) m with
  | none => exact Or.inl rfl
  | some sent =>
    dsimp only
    cases hc : restartAfterCollect (rs5 == some .s_state_signing_partial_signs_collected) i5 now with
    | none => exact Or.inl rfl
    | some i6 =>
      dsimp only
      have h6 : FromGood i6 := by
        unfold restartAfterCollect at hc
        split at hc
        · cases hr : Instance.restore i5.dumpState i5.payload with
          | none => simp [hr] at hc
          | some r =>
            simp only [hr] at hc
            cases hd : doOrReject r .e_event_signing_restart (.default now) with
            | none => simp [hd] at hc
            | some x =>
              obtain ⟨j, o⟩ := x
              simp only [hd, Option.map_some, Option.some.injEq] at hc
              rw [← hc]
              exact ⟨r, _, _, o, fromGood_restore i5 h5 r hr, hd⟩
        · simp only [Option.some.injEq] at hc; rw [← hc]; exact h5
      cases hp : placeholders st2 m payloadOf with
      | none => exact Or.inl rfl
      | some st3 =>
        right
        refine ⟨i6, h6, ?_⟩
        simp only [saveFSM]
        rw [placeholders_rounds st2 st3 m payloadOf hp]

theorem afterDo_roundsOK (st2 : NodeSt) (i3 : Instance) (h3 : FromGood i3) (o3 : Out) (m : NMsg) (now : Time) (payloadOf : Tasks.Msg → Bytes) :
    RoundsOK st2 (afterDo st2 i3 o3 m now payloadOf).st m.round := by
  unfold afterDo
  cases h1 : firstHandOver i3 o3 now with
  | none => exact Or.inl rfl
  | some x =>
    obtain ⟨i4, rs4, rd4⟩ := x
    dsimp only
    have h4 : FromGood i4 := by
      unfold firstHandOver at h1
      split at h1
      · exact fromGood_handOver i3 h3 _ now i4 rs4 rd4 h1
      · simp only [Option.some.injEq, Prod.mk.injEq] at h1; rw [← h1.1]; exact h3
    cases h2 : secondHandOver i4 rs4 rd4 now with
    | none => exact Or.inl rfl
    | some y =>
      obtain ⟨i5, rs5, rd5⟩ := y
      dsimp only
      have h5 : FromGood i5 := by
        unfold secondHandOver at h2
        split at h2
        · exact fromGood_handOver i4 h4 _ now i5 rs5 rd5 h2
        · simp only [Option.some.injEq, Prod.mk.injEq] at h2; rw [← h2.1]; exact h4
      exact finish_roundsOK st2 i5 h5 rs5 rd5 m now payloadOf

theorem applyEvent_roundsOK (st2 : NodeSt) (inst2 : Instance) (hg : Good inst2) (ev : Ev) (arg : Arg) (m : NMsg) (now : Time)
    (payloadOf : Tasks.Msg → Bytes) : RoundsOK st2 (applyEvent st2 inst2 ev arg m now payloadOf).st m.round := by
  unfold applyEvent
  split
  · exact Or.inl rfl
  · cases hd : doOrReject inst2 ev arg with
    | none => exact Or.inl rfl
    | some r =>
      obtain ⟨i3, o3⟩ := r
      exact afterDo_roundsOK st2 i3 ⟨inst2, ev, arg, o3, hg, hd⟩ o3 m now payloadOf

theorem dispatch_roundsOK (st2 : NodeSt) (inst2 : Instance) (hg : Good inst2) (m : NMsg) (now : Time) (payloadOf : Tasks.Msg → Bytes) :
    RoundsOK st2 (dispatch st2 inst2 m now payloadOf).st m.round := by
  unfold dispatch
  cases Ev.all.find? (fun e => e.name == m.event) with
  | none => exact Or.inl rfl
  | some ev =>
    dsimp only
    split
    · exact Or.inl rfl
    · split
      · exact Or.inl rfl
      · exact applyEvent_roundsOK st2 inst2 hg ev _ m now payloadOf

theorem processMessage_roundsOK (st : NodeSt) (hok : NodeOK st) (m : NMsg) (now : Time) (payloadOf : Tasks.Msg → Bytes) :
    RoundsOK st (processMessage st m now payloadOf).st m.round := by
  unfold processMessage
  cases hg : getInstance st m.round with
  | none => exact Or.inl rfl
  | some pr =>
    obtain ⟨st1, inst⟩ := pr
    have e1 := C18.getInstance_st _ _ _ _ hg
    subst e1
    have hgood := good_getInstance st1 st1 m.round inst hok hg
    dsimp only
    split
    · exact Or.inl rfl
    · exact Or.inl rfl
    · split
      · cases m.sigs with
        | none => exact Or.inl rfl
        | some l =>
          dsimp only
          cases hsv : saveSignatures st1 (l.map (fun x => { x with username := m.sender, round := m.round })) with
          | none => exact Or.inl rfl
          | some st2 => exact Or.inl (saveSignatures_rounds _ _ _ hsv)
      · split
        · split <;> exact Or.inl rfl
        · unfold handleEvent
          have hp := C18.preSteps_st st1 inst m now
          cases hpre : preSteps st1 inst m now with
          | swallow st' => rw [hpre] at hp; exact Or.inl (by rw [show st' = st1 from hp])
          | fail st' => rw [hpre] at hp; exact Or.inl (by simp only [rejectWith]; rw [show st' = st1 from hp])
          | cont st' inst' =>
            rw [hpre] at hp
            have hst' : st' = st1 := hp
            subst hst'
            exact dispatch_roundsOK st' inst' (good_preSteps st' inst m now hgood st' inst' hpre) m now payloadOf

theorem putOperationOnce_rounds (st : NodeSt) (op : NOp) : (putOperationOnce st op).rounds = st.rounds := by
  unfold putOperationOnce
  cases hp : putOperation st op with
  | none => rfl
  | some st' =>
    unfold putOperation at hp
    split at hp
    · cases hp
    · simp only [Option.some.injEq] at hp; rw [← hp]

theorem top_roundsOK (st : NodeSt) (hok : NodeOK st) (m : NMsg) (now : Time) (payloadOf : Tasks.Msg → Bytes) :
    RoundsOK st (processMessageTop st m now payloadOf).st m.round := by
  have h := processMessage_roundsOK st hok m now payloadOf
  unfold processMessageTop
  dsimp only
  split
  · unfold RoundsOK at h ⊢
    simp only [putOperationOnce_rounds]
    exact h
  · exact h

open Dc4bcVerif.Lemmas.NodeLocal in
/-- **nodeOK_step.** Handling any message keeps every stored round good. -/
theorem nodeOK_step (st : NodeSt) (hok : NodeOK st) (m : NMsg) (now : Time) (payloadOf : Tasks.Msg → Bytes) :
    NodeOK (processMessageTop st m now payloadOf).st := by
  rcases top_roundsOK st hok m now payloadOf with h | ⟨i6, h6, h⟩
  · intro r ds p i hl hr
    rw [h] at hl
    exact hok r ds p i hl hr
  · intro r ds p i hl hr
    rw [h] at hl
    by_cases hrr : r = m.round
    · subst hrr
      rw [lookupS_assocSet_eq] at hl
      simp only [Option.some.injEq, Prod.mk.injEq] at hl
      rw [← hl.1, ← hl.2] at hr
      exact fromGood_restore i6 h6 i hr
    · rw [C08.lookupS_assocSet_ne _ _ _ _ hrr] at hl
      exact hok r ds p i hl hr

/-- the node as a consumer of a log, from an empty state database -/
theorem nodeOK_empty (self : String) (key : Bytes) (skip : Bool) : NodeOK { self := self, selfKey := key, skipVerify := skip } := by
  intro r ds p i hl _
  simp [lookupS] at hl

/-- **node_never_panics_run.** From an empty state database, after ANY sequence of messages (genuine, forged, junk, duplicated,
of any number of rounds) and clock readings, handling any further message ends with ok or a rejection — in the model, whose
`panic` outcome stands for the Go panics of the callbacks. -/
theorem node_never_panics_run (self : String) (key : Bytes) (skip : Bool) (payloadOf : Tasks.Msg → Bytes) (log : List (NMsg × Time))
    (m : NMsg) (now : Time) :
    (processMessageTop (C08.consume payloadOf { self := self, selfKey := key, skipVerify := skip } log) m now payloadOf).out ≠ .panic := by
  apply top_never_panics
  unfold C08.consume
  generalize hst : ({ self := self, selfKey := key, skipVerify := skip } : NodeSt) = st0
  have h0 : NodeOK st0 := by rw [← hst]; exact nodeOK_empty self key skip
  clear hst
  induction log generalizing st0 with
  | nil => exact h0
  | cons mt rest ih =>
    simp only [List.foldl_cons]
    exact ih _ (nodeOK_step st0 h0 mt.1 mt.2 payloadOf)

end Dc4bcVerif.Props.C18Node
