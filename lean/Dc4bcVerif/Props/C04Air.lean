/-
  C04 at the airgapped machine's deals step (`Model/AirDkg.lean`, tied by the `airdkg` stream, which opens every real deal
  with every machine's key and reports the index of the key that opens it):

  * `deal_goes_to_its_addressee`: if the participants' names are pairwise different, the deal for participant `j` is
    encrypted to the key registered at index `j` - the addressee's - and carries the dealer's polynomial evaluated at `j`'s
    node; nobody else's key opens it (the ciphertext is modelled by the index of the one key that does).
  * `same_name_same_key`: with two participants of ONE name the deal for the second is encrypted to the key of the first
    (`GetPubKeyByParticipant` looks the key up by name): the model keeps what the code does; look-alike names (seed C04f)
    are different names.
  * `own_share_not_dealt`: the machine's own share `f(pid)` is not among the deals of the result.
-/
import Dc4bcVerif.Model.AirDkg

set_option linter.unusedSectionVars false

namespace Dc4bcVerif.Props.C04Air
open Dc4bcVerif.Model.Shamir Dc4bcVerif.Model.AirDkg

variable {F : Type} [Add F] [Mul F] [Sub F] [Div F] [Zero F] [One F] [DecidableEq F] [NatCast F]
variable {K : Type} [DecidableEq K]

theorem firstIdx_nodup (keys : List (String × K)) (j : Nat) (e : String × K) (hj : keys[j]? = some e)
    (hnd : (keys.map (·.1)).Nodup) : firstIdx (fun x : String × K => decide (x.1 = e.1)) keys = some j := by
  induction keys generalizing j with
  | nil => simp at hj
  | cons x rest ih =>
    simp only [List.map_cons, List.nodup_cons] at hnd
    cases j with
    | zero =>
      simp only [List.getElem?_cons_zero, Option.some.injEq] at hj
      subst hj
      simp [firstIdx]
    | succ j' =>
      simp only [List.getElem?_cons_succ] at hj
      have hmem : e.1 ∈ rest.map (·.1) := List.mem_map.mpr ⟨e, List.mem_of_getElem? hj, rfl⟩
      have hne : x.1 ≠ e.1 := fun h => hnd.1 (h ▸ hmem)
      unfold firstIdx
      simp only [hne, decide_false, Bool.false_eq_true, ↓reduceIte]
      rw [ih j' hj hnd.2]
      rfl

/-- the deals of an answered deals step, as the model lists them -/
def dealtTo (i : Inst F K) (j : Nat) : String × Option Nat × OuterDeal F :=
  let name := (i.keys[j]?.map (·.1)).getD ""
  (name, firstIdx (fun e : String × K => decide (e.1 = name)) i.keys, ownDeal i j)

theorem dealsOp_lists (m : Machine F K) (round : String) (entries : List (String × Option (List F))) (m' : Machine F K)
    (pid : Nat) (ds : List (String × Option Nat × OuterDeal F)) (self : String)
    (h : dealsOp m round entries = (m', Res.deals pid ds self)) :
    ∃ i, lookup round m'.insts = some i ∧ i.pid = pid ∧
      ds = ((List.range i.keys.length).filter (· ≠ i.pid)).map (dealtTo i) := by
  unfold dealsOp at h
  cases hl : lookup round m.insts with
  | none => simp [hl] at h
  | some i0 =>
    simp only [hl] at h
    generalize storeCommits i0 entries = q at h
    obtain ⟨i1, ok⟩ := q
    cases ok with
    | false => simp at h
    | true =>
      simp only [Bool.not_true, Bool.false_eq_true, ↓reduceIte] at h
      generalize genDeals i1 = q2 at h
      obtain ⟨i2, ok2⟩ := q2
      cases ok2 with
      | false => simp at h
      | true =>
        simp only [Prod.mk.injEq, Res.deals.injEq] at h
        obtain ⟨hm, hp, hds, _⟩ := h
        subst hm
        refine ⟨i2, by simp [Dc4bcVerif.Model.AirDkg.lookup, lookup_put], hp, ?_⟩
        rw [← hds]
        rfl
where
  lookup_put : ∀ (k : String) (v : Inst F K) (l : List (String × Inst F K)), lookup k (put k v l) = some v := by
    intro k v l
    induction l with
    | nil => simp [put, lookup]
    | cons x rest ih =>
      obtain ⟨k', v'⟩ := x
      unfold put
      split
      · simp [lookup]
      · rename_i hne
        simp only [lookup, hne, ↓reduceIte]
        exact ih

/-- **deal_goes_to_its_addressee** -/
theorem deal_goes_to_its_addressee (i : Inst F K) (j : Nat) (hj : j < i.keys.length) (hnd : (i.keys.map (·.1)).Nodup) :
    (dealtTo i j).2.1 = some j ∧
    (dealtTo i j).2.2.inner.map (fun d => (d.secI, d.secV)) = some (j, evalPoly i.poly (node j)) := by
  have he : i.keys[j]? = some i.keys[j] := by simp [hj]
  unfold dealtTo
  simp only [he, Option.map_some, Option.getD_some]
  exact ⟨firstIdx_nodup i.keys j i.keys[j] he hnd, rfl⟩

/-- **own_share_not_dealt** -/
theorem own_share_not_dealt (i : Inst F K) : ∀ e ∈ ((List.range i.keys.length).filter (· ≠ i.pid)).map (dealtTo i),
    e.2.2.inner.map (·.secI) ≠ some i.pid := by
  intro e he
  simp only [List.mem_map, List.mem_filter, List.mem_range, decide_eq_true_eq] at he
  obtain ⟨j, ⟨_, hne⟩, rfl⟩ := he
  simp [dealtTo, ownDeal, hne]

/-- **same_name_same_key**: two participants of one name - the second one's deal is encrypted to the first one's key -/
example : (dealtTo ({ pid := 0, thr := 2, t := 2, keys := [("a", 1), ("b", 2), ("b", 3)], poly := [3, 5], vers := [] } : Inst Int Nat) 2).2.1 = some 1 := by
  decide

end Dc4bcVerif.Props.C04Air
