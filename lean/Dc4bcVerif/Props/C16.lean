/-
  C16 — the file bulletin board is an append-only, gap-free, totally ordered log.
-/
import Dc4bcVerif.Model.Board

namespace Dc4bcVerif.Props.C16
open Dc4bcVerif.Model.Board

/-- the generated limits: counting uses at least the reader's line limit -/
theorem count_limit_covers_reader : genCfg.readLimit ≤ genCfg.countLimit := by decide

/-- well-formed log: every line is one the reader accepts and carries its own position -/
def Good (cfg : Cfg) (file : List Entry) : Prop :=
  (∀ e ∈ file, fits cfg.readLimit e = true) ∧ ∀ k (h : k < file.length), file[k].offset = k

theorem fits_mono {L L' : Nat} (h : L ≤ L') {e : Entry} (he : fits L e = true) : fits L' e = true := by
  unfold fits at *; simp only [decide_eq_true_eq] at *; omega

theorem countLines_all {L : Nat} {file : List Entry} (h : ∀ e ∈ file, fits L e = true) :
    countLines L file = file.length := by
  unfold countLines
  induction file with
  | nil => rfl
  | cons x t ih =>
    have hx := h x (List.mem_cons_self ..)
    simp only [List.takeWhile_cons, hx, ↓reduceIte, List.length_cons]
    rw [ih (fun e he => h e (List.mem_cons_of_mem _ he))]

theorem good_send (cfg : Cfg) (hl : cfg.readLimit ≤ cfg.countLimit) (file : List Entry) (id : String) (size : Nat)
    (hg : Good cfg file) (hs : size + 1 ≤ cfg.readLimit) : Good cfg (send cfg file id size) := by
  obtain ⟨hfit, hoff⟩ := hg
  have hc : countLines cfg.countLimit file = file.length :=
    countLines_all (fun e he => fits_mono hl (hfit e he))
  unfold send
  rw [hc]
  constructor
  · intro e he
    rw [List.mem_append] at he
    rcases he with he | he
    · exact hfit e he
    · simp only [List.mem_singleton] at he; subst he; simp [fits, hs]
  · intro k hk
    by_cases hlt : k < file.length
    · rw [List.getElem_append_left hlt]; exact hoff k hlt
    · have hk' : k = file.length := by simp at hk; omega
      subst hk'
      simp

/-- **offset_eq_position / gap_free.** For every history of sends (any number of writers, any
interleaving) of messages the reader accepts, every entry of the log carries exactly its position:
offsets run 0, 1, 2, … without gaps or repeats. -/
theorem offset_eq_position (cfg : Cfg) (hl : cfg.readLimit ≤ cfg.countLimit) (hist : List (String × Nat))
    (hs : ∀ m ∈ hist, m.2 + 1 ≤ cfg.readLimit) :
    ∀ k (h : k < (sends cfg [] hist).length), (sends cfg [] hist)[k].offset = k := by
  suffices H : ∀ file, Good cfg file → Good cfg (sends cfg file hist) from
    (H [] ⟨fun e he => (by cases he), fun k hk => (by cases hk)⟩).2
  induction hist with
  | nil => intro file hg; exact hg
  | cons m rest ih =>
    intro file hg
    obtain ⟨id, size⟩ := m
    exact ih (fun m hm => hs m (List.mem_cons_of_mem _ hm)) _
      (good_send cfg hl file id size hg (hs (id, size) (List.mem_cons_self ..)))

/-- the same for the code's own limits -/
theorem offset_eq_position_code (hist : List (String × Nat)) (hs : ∀ m ∈ hist, m.2 + 1 ≤ genCfg.readLimit) :
    ∀ k (h : k < (sends genCfg [] hist).length), (sends genCfg [] hist)[k].offset = k :=
  offset_eq_position genCfg count_limit_covers_reader hist hs

/-- **append_only**: earlier contents are a prefix of later contents; nothing already written changes -/
theorem append_only (cfg : Cfg) (file : List Entry) (hist : List (String × Nat)) :
    ∃ tail, sends cfg file hist = file ++ tail := by
  induction hist generalizing file with
  | nil => exact ⟨[], by simp [sends]⟩
  | cons m rest ih =>
    obtain ⟨id, size⟩ := m
    obtain ⟨tail, ht⟩ := ih (send cfg file id size)
    exact ⟨[⟨id, countLines cfg.countLimit file, size⟩] ++ tail, by simp only [sends]; rw [ht]; simp [send]⟩

/-- **exactly_once**: one line per send, in send order, with the sender's id and size -/
theorem exactly_once (cfg : Cfg) (file : List Entry) (hist : List (String × Nat)) :
    (sends cfg file hist).length = file.length + hist.length ∧
    ((sends cfg file hist).drop file.length).map (fun e => (e.id, e.size)) = hist := by
  induction hist generalizing file with
  | nil => simp [sends]
  | cons m rest ih =>
    obtain ⟨id, size⟩ := m
    obtain ⟨h1, h2⟩ := ih (send cfg file id size)
    have hlen : (send cfg file id size).length = file.length + 1 := by simp [send]
    constructor
    · simp only [sends]; rw [h1, hlen]; simp; omega
    · simp only [sends]
      obtain ⟨tail, ht⟩ := append_only cfg (send cfg file id size) rest
      rw [ht] at h2 ⊢
      rw [hlen] at h2
      simp only [send] at h2 ⊢
      simp only [List.append_assoc, List.singleton_append, List.drop_left'] at h2 ⊢
      have : (file ++ ⟨id, countLines cfg.countLimit file, size⟩ :: tail).drop (file.length + 1) = tail := by
        rw [← List.drop_drop]; simp
      rw [this] at h2
      simp [h2]

/-- **read_suffix**: reading from offset `k` returns exactly the entries from position `k` on, in
order, minus the ignored ones — for every log made of messages the reader accepts -/
theorem read_suffix (cfg : Cfg) (file : List Entry) (hfit : ∀ e ∈ file, fits cfg.readLimit e = true)
    (k : Nat) (ignId : List String) (ignOff : List Nat) :
    getMessages cfg file k ignId ignOff =
      some ((file.drop k).filter (fun e => !(ignId.contains e.id) && !(ignOff.contains e.offset))) := by
  unfold getMessages
  have : file.all (fits cfg.readLimit) = true := by rw [List.all_eq_true]; exact hfit
  simp [this]

/-- why the limits matter: with a counting limit below the reader's (the tree as pinned had 64 KiB vs
1 MiB) the property is false — a 70 000-byte line freezes the counter -/
theorem small_count_limit_breaks_offsets :
    let cfg : Cfg := ⟨65536, 1048576⟩
    (sends cfg [] [("a", 1), ("b", 70000), ("c", 1), ("d", 1)]).map (·.offset) = [0, 1, 1, 1] := by
  decide

/-- non-vacuity of `offset_eq_position_code`: a history with a 70 000-byte message -/
example : (sends genCfg [] [("a", 1), ("b", 70000), ("c", 1), ("d", 1)]).map (·.offset) = [0, 1, 2, 3] := by
  decide

end Dc4bcVerif.Props.C16
