/-
  C13, the assumption discharged for the node: a board message that the node handled successfully is, when handled
  AGAIN on the resulting state (at any later clock reading), either rejected — and a rejection writes nothing
  (`C18.reject_is_noop`) — or accepted without changing anything and without asking for a new operation
  (`node_reapply`). This is `ReapplySafe` of `Props/C13.lean` for the model's real handler, so `crash_safe` holds for it
  without assumption (`node_crash_safe`).

  No reachability assumption: every node state, every message, every pair of clock readings.
  The proof follows the second handling step by step: the stored round is loaded from the dump the first handling
  wrote; either the preliminary steps swallow the message (nothing changes), or the event reaches the round machine,
  which refuses it (`C13Fsm.instance_reapply` when nothing was handed over; the generated tables when the round was
  handed to the next machine, or restarted after a collected batch); saving the same signatures again leaves the
  signature store as it was (`saveSignatures_idem`).
-/
import Dc4bcVerif.Props.C13Fsm
import Dc4bcVerif.Props.C18Node
import Dc4bcVerif.Lemmas.SigStoreIdem

set_option linter.unusedSimpArgs false
set_option linter.unusedVariables false

namespace Dc4bcVerif.Props.C13Node
open Dc4bcVerif.Gen Dc4bcVerif.Model Dc4bcVerif.Model.Node Dc4bcVerif.Props

/-- handling `m` in `st'` at time `now2`: no crash; and if accepted, nothing changes and no new operation is asked for -/
def AgainAt (payloadOf : Tasks.Msg → Bytes) (st' : NodeSt) (m : NMsg) (op : Option NOp) (now2 : Time) : Prop :=
  (processMessage st' m now2 payloadOf).out ≠ .panic ∧
  ((processMessage st' m now2 payloadOf).out = .ok →
    (processMessage st' m now2 payloadOf).st = st' ∧
    ((processMessage st' m now2 payloadOf).op = none ∨ (processMessage st' m now2 payloadOf).op = op))

theorem restore_some (s : St) (p : Payload) (r : Instance) (h : Instance.restore (some s) p = some r) :
    r.state = s ∧ r.payload = p ∧ r.dumpState = some s ∧ poolState s = some r.machine := by
  unfold Instance.restore at h
  cases hp : poolState s with
  | none => simp [hp] at h
  | some mid =>
    simp only [hp, Option.map_some, Option.some.injEq] at h
    subst h
    exact ⟨rfl, rfl, rfl, rfl⟩

/-- what the preliminary steps hand on: the loaded round, or the loaded round restarted (signing machine, idle, same payload) -/
theorem preSteps_cont (st : NodeSt) (r : Instance) (m : NMsg) (now : Time) (st2 : NodeSt) (inst2 : Instance)
    (h : preSteps st r m now = .cont st2 inst2) :
    st2 = st ∧ (inst2 = r ∨ (inst2.machine = .sign ∧ inst2.state = sIDLE ∧ inst2.payload = r.payload ∧ r.machine = .sign)) := by
  have hst := C18.preSteps_st st r m now
  rw [h] at hst
  refine ⟨hst, ?_⟩
  -- a restart, when it happens, ends in the idle state of the signing machine
  have hrestart : ∀ (s : NodeSt) (i : Instance) (s' : NodeSt) (i' : Instance), restartSigning s i m.round now = some (s', i') →
      i'.machine = .sign ∧ i'.state = sIDLE ∧ i'.payload = i.payload ∧ i.machine = .sign := by
    intro s i s' i' hr
    unfold restartSigning at hr
    cases hd : doOrReject i .e_event_signing_restart (.default now) with
    | none => simp [hd] at hr
    | some x =>
      obtain ⟨j, o⟩ := x
      simp only [hd, Option.some.injEq, Prod.mk.injEq] at hr
      obtain ⟨hok, hj⟩ := C18Node.doOrReject_ok i _ _ j o hd
      rw [← hr.2, hj]
      rcases C18Node.restart_only_sign i.machine i.state with ⟨hm, hs⟩ | hnone
      · have hg := C06.restart_goes_idle i.state hs i.payload (.default now)
        unfold Instance.doEv
        simp only [hm]
        exact ⟨trivial, hg.1, hg.2.2, trivial⟩
      · exfalso
        have hok' : (doEvent (machineOf i.machine) runAction i.state i.payload .e_event_signing_restart (.default now)).res = .ok := hok
        unfold doEvent at hok'
        rw [hnone] at hok'
        cases hok'
  unfold preSteps at h
  split at h
  · cases h
  · cases h1 : step1 st r m now with
    | none => simp [h1] at h
    | some pr1 =>
      obtain ⟨st1, inst1⟩ := pr1
      simp only [h1] at h
      have c1 : inst1 = r ∨ (inst1.machine = .sign ∧ inst1.state = sIDLE ∧ inst1.payload = r.payload ∧ r.machine = .sign) := by
        unfold step1 at h1
        split at h1
        · right; exact hrestart _ _ _ _ h1
        · simp only [Option.some.injEq, Prod.mk.injEq] at h1; left; exact h1.2.symm
      split at h
      · cases h
      · cases h2 : step2 st1 inst1 m now with
        | none => simp [h2] at h
        | some pr2 =>
          obtain ⟨st2', inst2'⟩ := pr2
          simp only [h2, Pre.cont.injEq] at h
          rw [← h.2]
          unfold step2 at h2
          split at h2
          · right
            obtain ⟨a, b, c, d⟩ := hrestart _ _ _ _ h2
            rcases c1 with e | ⟨_, _, e3, e4⟩
            · rw [e] at c d; exact ⟨a, b, c, d⟩
            · exact ⟨a, b, c.trans e3, e4⟩
          · simp only [Option.some.injEq, Prod.mk.injEq] at h2
            rw [← h2.2]; exact c1

/-- what is asked of the second handling once the event reaches `dispatch` -/
def DispatchQuiet (payloadOf : Tasks.Msg → Bytes) (st' : NodeSt) (m : NMsg) (op : Option NOp) (now2 : Time) (inst2 : Instance) : Prop :=
  (dispatch st' inst2 m now2 payloadOf).out ≠ .panic ∧
  ((dispatch st' inst2 m now2 payloadOf).out = .ok →
    (dispatch st' inst2 m now2 payloadOf).st = st' ∧
    ((dispatch st' inst2 m now2 payloadOf).op = none ∨ (dispatch st' inst2 m now2 payloadOf).op = op))

/-- if the round machine refuses the event, `dispatch` rejects the message -/
theorem dispatch_refused (payloadOf : Tasks.Msg → Bytes) (st' : NodeSt) (m : NMsg) (op : Option NOp) (now2 : Time) (inst2 : Instance)
    (href : ∀ ev, Ev.all.find? (fun e => e.name == m.event) = some ev → (inst2.doEv ev (m.arg.getD .other)).2.res = .err) :
    DispatchQuiet payloadOf st' m op now2 inst2 := by
  unfold DispatchQuiet dispatch
  cases hf : Ev.all.find? (fun e => e.name == m.event) with
  | none => exact ⟨by simp [rejectWith], fun h => by simp [rejectWith] at h⟩
  | some ev =>
    dsimp only
    split
    · exact ⟨by simp [rejectWith], fun h => by simp [rejectWith] at h⟩
    · split
      · exact ⟨by simp [rejectWith], fun h => by simp [rejectWith] at h⟩
      · have herr := href ev hf
        unfold applyEvent doPanics doOrReject
        simp only [herr]
        exact ⟨by simp [rejectWith], fun h => by simp [rejectWith] at h⟩

/-- the second handling once the round is loaded -/
theorem handleEvent_again (payloadOf : Tasks.Msg → Bytes) (st' : NodeSt) (r : Instance) (m : NMsg) (op : Option NOp) (now2 : Time)
    (hq : ∀ st2 inst2, preSteps st' r m now2 = .cont st2 inst2 → DispatchQuiet payloadOf st' m op now2 inst2) :
    (handleEvent st' r m now2 payloadOf).out ≠ .panic ∧
    ((handleEvent st' r m now2 payloadOf).out = .ok →
      (handleEvent st' r m now2 payloadOf).st = st' ∧
      ((handleEvent st' r m now2 payloadOf).op = none ∨ (handleEvent st' r m now2 payloadOf).op = op)) := by
  have hst := C18.preSteps_st st' r m now2
  unfold handleEvent
  cases hp : preSteps st' r m now2 with
  | swallow s =>
    rw [hp] at hst
    have : s = st' := hst
    subst this
    exact ⟨by simp, fun _ => ⟨rfl, Or.inl rfl⟩⟩
  | fail s => exact ⟨by simp [rejectWith], fun h => by simp [rejectWith] at h⟩
  | cont s inst2 =>
    rw [hp] at hst
    have : s = st' := hst
    subst this
    exact hq s inst2 hp

/-- the second handling of a protocol event, from the stored dump of the round -/
theorem second_handling (payloadOf : Tasks.Msg → Bytes) (st' : NodeSt) (m : NMsg) (op : Option NOp) (now2 : Time) (ds : Option St) (p : Payload)
    (hl : lookupS st'.rounds m.round = some (ds, p))
    (h1 : (m.event == "signature_reconstructed") = false) (h2 : (m.event == "signature_reconstruction_failed") = false)
    (hq : ∀ r, Instance.restore ds p = some r → ∀ st2 inst2, preSteps st' r m now2 = .cont st2 inst2 →
      DispatchQuiet payloadOf st' m op now2 inst2) :
    AgainAt payloadOf st' m op now2 := by
  unfold AgainAt processMessage getInstance
  simp only [hl]
  cases hr : Instance.restore ds p with
  | none => exact ⟨by simp [rejectWith], fun h => by simp [rejectWith] at h⟩
  | some r =>
    simp only [Option.map_some]
    split
    · rename_i hv
      exfalso
      split at hv
      · cases hv
      · exact C18.verify_never_panics st' r m hv
    · exact ⟨by simp [rejectWith], fun h => by simp [rejectWith] at h⟩
    · simp only [h1, h2, Bool.false_eq_true, ↓reduceIte]
      exact handleEvent_again payloadOf st' r m op now2 (hq r hr)

/-! ### facts read off the generated tables -/

abbrev eStart : Ev := .e_event_signing_start
abbrev eDkgInit' : Ev := .e_event_dkg_init_process
abbrev eSignInit' : Ev := .e_event_signing_init

/-- no state of the machine accepts the event -/
def absent (m : MachineDesc) (e : Ev) : Bool := St.all.all (fun s => refusesAt m e s)

def allMids : List MachineId := [.sig, .dkg, .sign]
theorem mem_allMids (mid : MachineId) : mid ∈ allMids := by cases mid <;> decide

/-- an event whose `Do` can end with the invitations collected belongs to no row of the key-generation machine;
one whose `Do` can end with the master keys collected, to no row of the signing machine; one whose `Do` can end with
a collected batch is, unless it starts a batch, refused by the idle signing machine -/
theorem table_handover : ∀ mid ∈ allMids, ∀ s0 ∈ St.all, ∀ ev ∈ Ev.all, (lookup (machineOf mid) s0 ev).isSome = true →
    (sSigCollected ∈ reach1 (machineOf mid) s0 → absent dkgMachine ev = true) ∧
    (sMKCollected ∈ reach1 (machineOf mid) s0 → absent signMachine ev = true) ∧
    (sCOLLECTED ∈ reach1 (machineOf mid) s0 → ev = eStart ∨ refusesAt signMachine ev sIDLE = true) := by
  decide

/-- only the key-generation machine has a row for its start event, only the signing machine for its own and for the restart -/
theorem table_owner : ∀ mid ∈ allMids, ∀ s ∈ St.all,
    ((lookup (machineOf mid) s eDkgInit').isSome = true → mid = .dkg) ∧
    ((lookup (machineOf mid) s eSignInit').isSome = true → mid = .sign) := by
  decide

/-- where the hand-overs and the restart lead -/
theorem table_after_dkginit : ∀ s ∈ reach1 dkgMachine sSigCollected,
    poolState s = some .dkg ∧ s ≠ sMKCollected ∧ s ≠ sCOLLECTED := by decide
theorem table_after_signinit : ∀ s ∈ reach1 signMachine sMKCollected, poolState s = some .sign ∧ s ≠ sCOLLECTED := by decide

/-- the idle signing machine accepts nothing but the start of a batch -/
theorem table_idle : ∀ ev ∈ Ev.all, ev = eStart ∨ refusesAt signMachine ev sIDLE = true := by decide

theorem absent_err (mid : MachineId) (e : Ev) (h : absent (machineOf mid) e = true) (i : Instance) (hm : i.machine = mid) (a : Arg) :
    (i.doEv e a).2.res = .err := by
  show (doEvent (machineOf i.machine) runAction i.state i.payload e a).res = .err
  rw [hm]
  exact C13Fsm.absent_never_ok _ e h a _ _

theorem refused_err (i : Instance) (e : Ev) (h : refusesAt (machineOf i.machine) e i.state = true) (a : Arg) :
    (i.doEv e a).2.res = .err := by
  show (doEvent (machineOf i.machine) runAction i.state i.payload e a).res = .err
  unfold refusesAt at h
  rw [doEvent_route h]

/-! ### the first handling, taken apart -/

theorem handOver_inv (i : Instance) (e : Ev) (now : Time) (i' : Instance) (rs : Option St) (rd : Option RespData)
    (h : handOver i e now = some (i', rs, rd)) :
    ∃ rr, Instance.restore i.dumpState i.payload = some rr ∧ (rr.doEv e (.default now)).2.res = .ok ∧
      i' = (rr.doEv e (.default now)).1 ∧ rs = some i'.state := by
  unfold handOver at h
  cases hr : Instance.restore i.dumpState i.payload with
  | none => simp [hr] at h
  | some rr =>
    simp only [hr] at h
    cases hd : doOrReject rr e (.default now) with
    | none => simp [hd] at h
    | some x =>
      obtain ⟨j, o⟩ := x
      simp only [hd, Option.some.injEq, Prod.mk.injEq] at h
      obtain ⟨hok, hj⟩ := C18Node.doOrReject_ok rr e _ j o hd
      refine ⟨rr, rfl, hok, by rw [← h.1, hj], ?_⟩
      -- the response state of an accepted `Do` is the state reached
      have ho : o = (rr.doEv e (.default now)).2 := by
        unfold doOrReject at hd
        have hb : ((rr.doEv e (.default now)).2.res == .ok) = true := by simp [hok]
        simp only [hb, ↓reduceIte, Option.some.injEq] at hd
        rw [hd]
      obtain ⟨d, hresp⟩ := doEvent_ok_state (machineOf rr.machine) runAction rr.state rr.payload e (.default now) hok
      rw [← h.2.1, ← h.1, hj, ho]
      unfold respStateOf
      show (match (doEvent (machineOf rr.machine) runAction rr.state rr.payload e (.default now)).resp with
        | some (s, _) => s | none => none) = _
      rw [hresp]
      rfl

/-- the state and the machine after an accepted `Do` -/
theorem doEv_ok_facts (i : Instance) (e : Ev) (a : Arg) (hok : (i.doEv e a).2.res = .ok) :
    (lookup (machineOf i.machine) i.state e).isSome = true ∧
    (i.doEv e a).1.state ∈ reach1 (machineOf i.machine) i.state ∧
    (i.doEv e a).1.machine = i.machine ∧
    (i.doEv e a).1.dumpState = some (i.doEv e a).1.state ∧
    respStateOf (i.doEv e a).2 = some (i.doEv e a).1.state := by
  have hok' : (doEvent (machineOf i.machine) runAction i.state i.payload e a).res = .ok := hok
  obtain ⟨h1, h2⟩ := doEvent_ok_reach (machineOf i.machine) runAction i.state i.payload e a (C13Fsm.no_before i.machine) hok'
  obtain ⟨d, hresp⟩ := doEvent_ok_state (machineOf i.machine) runAction i.state i.payload e a hok'
  refine ⟨h1, h2, rfl, C19.ok_dump_state i e a hok, ?_⟩
  unfold respStateOf
  show (match (doEvent (machineOf i.machine) runAction i.state i.payload e a).resp with
    | some (s, _) => s | none => none) = _
  rw [hresp]; rfl

/-- what the preliminary steps of the second handling can hand on, given the loaded round `r` -/
def HandedOn (r inst2 : Instance) : Prop :=
  inst2 = r ∨ (inst2.machine = .sign ∧ inst2.state = sIDLE ∧ inst2.payload = r.payload ∧ r.machine = .sign)

/-- **The round machine refuses the event the second time**, whatever happened after it the first time: nothing (then
`C13Fsm.instance_reapply`), a hand-over to the next machine, or the restart after a collected batch (then the tables).
The start of a batch is treated separately. -/
theorem refused_second_time (i2 : Instance) (ev : Ev) (arg : Arg) (now : Time)
    (hok : (i2.doEv ev arg).2.res = .ok) (hne : ev ≠ eStart)
    (i4 i5 i6 : Instance) (rs4 rs5 : Option St) (rd4 rd5 : Option RespData)
    (h1 : firstHandOver (i2.doEv ev arg).1 (i2.doEv ev arg).2 now = some (i4, rs4, rd4))
    (h2 : secondHandOver i4 rs4 rd4 now = some (i5, rs5, rd5))
    (h3 : restartAfterCollect (rs5 == some .s_state_signing_partial_signs_collected) i5 now = some i6)
    (r : Instance) (hr : Instance.restore i6.dumpState i6.payload = some r) (inst2 : Instance) (hin : HandedOn r inst2) :
    (inst2.doEv ev arg).2.res = .err := by
  obtain ⟨hsome, hreach, hmach3, hdump3, hrs3⟩ := doEv_ok_facts i2 ev arg hok
  obtain ⟨tSig, tMK, tColl⟩ := table_handover i2.machine (mem_allMids _) i2.state (St.mem_all _) ev (Ev.mem_all _) hsome
  -- the restarted variant: the idle signing machine
  have restarted : inst2.machine = .sign → inst2.state = sIDLE → (inst2.doEv ev arg).2.res = .err := by
    intro hm hs
    rcases table_idle ev (Ev.mem_all _) with h | h
    · exact absurd h hne
    · exact refused_err inst2 ev (by rw [hm, hs]; exact h) arg
  by_cases c1 : respStateOf (i2.doEv ev arg).2 = some sSigCollected
  · -- invitations collected: the round went to the key-generation machine
    have hs3 : (i2.doEv ev arg).1.state = sSigCollected := by rw [hrs3] at c1; exact Option.some.inj c1
    unfold firstHandOver at h1
    have hb : (respStateOf (i2.doEv ev arg).2 == some .s_state_sig_proposal_collected) = true := by rw [c1]; rfl
    simp only [hb, ↓reduceIte] at h1
    obtain ⟨rr, hrr, hok4, hi4, hrs4⟩ := handOver_inv _ _ _ _ _ _ h1
    rw [hdump3] at hrr
    obtain ⟨rrs, _, _, _⟩ := restore_some _ _ _ hrr
    obtain ⟨hsome4, hreach4, hmach4, hdump4, _⟩ := doEv_ok_facts rr _ _ hok4
    have hdkg : rr.machine = .dkg := (table_owner rr.machine (mem_allMids _) rr.state (St.mem_all _)).1 hsome4
    rw [hdkg, rrs, hs3] at hreach4
    obtain ⟨hpool, hnmk, hncoll⟩ := table_after_dkginit _ hreach4
    rw [← hi4] at hpool hnmk hncoll hdump4
    unfold secondHandOver at h2
    have hb2 : (rs4 == some .s_state_dkg_master_key_collected) = false := by
      rw [hrs4]; simp; exact hnmk
    simp only [hb2, Bool.false_eq_true, ↓reduceIte, Option.some.injEq, Prod.mk.injEq] at h2
    obtain ⟨e5, e5s, _⟩ := h2
    unfold restartAfterCollect at h3
    have hb3 : (rs5 == some .s_state_signing_partial_signs_collected) = false := by
      rw [← e5s, hrs4]; simp; exact hncoll
    simp only [hb3, Bool.false_eq_true, ↓reduceIte, Option.some.injEq] at h3
    rw [← h3, ← e5, hdump4] at hr
    obtain ⟨_, _, _, hpr⟩ := restore_some _ _ _ hr
    have hrm : r.machine = .dkg := by rw [hpool] at hpr; exact (Option.some.inj hpr).symm
    have hs3mem : sSigCollected ∈ reach1 (machineOf i2.machine) i2.state := by rw [← hs3]; exact hreach
    rcases hin with h | ⟨_, _, _, h⟩
    · exact absent_err .dkg ev (tSig hs3mem) inst2 (by rw [h]; exact hrm) arg
    · rw [hrm] at h; cases h
  · unfold firstHandOver at h1
    have hb : (respStateOf (i2.doEv ev arg).2 == some .s_state_sig_proposal_collected) = false := by
      simpa using c1
    simp only [hb, Bool.false_eq_true, ↓reduceIte, Option.some.injEq, Prod.mk.injEq] at h1
    obtain ⟨e4, e4s, _⟩ := h1
    by_cases c2 : respStateOf (i2.doEv ev arg).2 = some sMKCollected
    · -- master keys collected: the round went to the signing machine
      have hs3 : (i2.doEv ev arg).1.state = sMKCollected := by rw [hrs3] at c2; exact Option.some.inj c2
      unfold secondHandOver at h2
      have hb2 : (rs4 == some .s_state_dkg_master_key_collected) = true := by rw [← e4s, c2]; rfl
      simp only [hb2, ↓reduceIte] at h2
      obtain ⟨rr, hrr, hok5, hi5, hrs5⟩ := handOver_inv _ _ _ _ _ _ h2
      rw [← e4, hdump3] at hrr
      obtain ⟨rrs, _, _, _⟩ := restore_some _ _ _ hrr
      obtain ⟨hsome5, hreach5, hmach5, hdump5, _⟩ := doEv_ok_facts rr _ _ hok5
      have hsign : rr.machine = .sign := (table_owner rr.machine (mem_allMids _) rr.state (St.mem_all _)).2 hsome5
      rw [hsign, rrs, hs3] at hreach5
      obtain ⟨hpool, hncoll⟩ := table_after_signinit _ hreach5
      rw [← hi5] at hpool hncoll hdump5
      unfold restartAfterCollect at h3
      have hb3 : (rs5 == some .s_state_signing_partial_signs_collected) = false := by
        rw [hrs5]; simp; exact hncoll
      simp only [hb3, Bool.false_eq_true, ↓reduceIte, Option.some.injEq] at h3
      rw [← h3, hdump5] at hr
      obtain ⟨_, _, _, hpr⟩ := restore_some _ _ _ hr
      have hrm : r.machine = .sign := by rw [hpool] at hpr; exact (Option.some.inj hpr).symm
      have hs3mem : sMKCollected ∈ reach1 (machineOf i2.machine) i2.state := by rw [← hs3]; exact hreach
      rcases hin with h | ⟨h, _, _, _⟩
      · exact absent_err .sign ev (tMK hs3mem) inst2 (by rw [h]; exact hrm) arg
      · exact absent_err .sign ev (tMK hs3mem) inst2 h arg
    · unfold secondHandOver at h2
      have hb2 : (rs4 == some .s_state_dkg_master_key_collected) = false := by
        rw [← e4s]; simpa using c2
      simp only [hb2, Bool.false_eq_true, ↓reduceIte, Option.some.injEq, Prod.mk.injEq] at h2
      obtain ⟨e5, e5s, _⟩ := h2
      by_cases c3 : respStateOf (i2.doEv ev arg).2 = some sCOLLECTED
      · -- a collected batch: the round was restarted
        have hs3 : (i2.doEv ev arg).1.state = sCOLLECTED := by rw [hrs3] at c3; exact Option.some.inj c3
        unfold restartAfterCollect at h3
        have hb3 : (rs5 == some .s_state_signing_partial_signs_collected) = true := by rw [← e5s, ← e4s, c3]; rfl
        simp only [hb3, ↓reduceIte] at h3
        cases hrr : Instance.restore i5.dumpState i5.payload with
        | none => simp [hrr] at h3
        | some rr =>
          simp only [hrr] at h3
          cases hd : doOrReject rr .e_event_signing_restart (.default now) with
          | none => simp [hd] at h3
          | some x =>
            obtain ⟨j, o⟩ := x
            simp only [hd, Option.map_some, Option.some.injEq] at h3
            obtain ⟨hokr, hj⟩ := C18Node.doOrReject_ok rr _ _ j o hd
            -- the restart ends in the idle state of the signing machine
            have hidle : i6.state = sIDLE ∧ i6.dumpState = some sIDLE := by
              rw [← h3, hj]
              rcases C18Node.restart_only_sign rr.machine rr.state with ⟨hm, hs⟩ | hnone
              · have hg := C06.restart_goes_idle rr.state hs rr.payload (.default now)
                have hds := C19.ok_dump_state rr _ _ hokr
                have hst : (rr.doEv .e_event_signing_restart (.default now)).1.state = sIDLE := by
                  unfold Instance.doEv; simp only [hm]; exact hg.1
                exact ⟨hst, by rw [hds, hst]⟩
              · exfalso
                have hok' : (doEvent (machineOf rr.machine) runAction rr.state rr.payload .e_event_signing_restart (.default now)).res = .ok := hokr
                unfold doEvent at hok'
                rw [hnone] at hok'
                cases hok'
            rw [hidle.2] at hr
            obtain ⟨hrs, _, _, hpr⟩ := restore_some _ _ _ hr
            have hrm : r.machine = .sign := by
              have : poolState sIDLE = some .sign := by decide
              rw [this] at hpr; exact (Option.some.inj hpr).symm
            rcases hin with h | ⟨hm, hs, _, _⟩
            · exact restarted (by rw [h]; exact hrm) (by rw [h]; exact hrs)
            · exact restarted hm hs
      · -- nothing happened after the event: the stored round is its result
        unfold restartAfterCollect at h3
        have hb3 : (rs5 == some .s_state_signing_partial_signs_collected) = false := by
          rw [← e5s, ← e4s]; simpa using c3
        simp only [hb3, Bool.false_eq_true, ↓reduceIte, Option.some.injEq] at h3
        rw [← h3, ← e5, ← e4] at hr
        rcases hin with h | ⟨hm, hs, _, _⟩
        · rw [h]; exact C13Fsm.instance_reapply i2 ev arg hok r hr
        · exact restarted hm hs

theorem afterDo_ok_inv (st2 : NodeSt) (i3 : Instance) (o3 : Out) (m : NMsg) (now : Time) (payloadOf : Tasks.Msg → Bytes)
    (h : (afterDo st2 i3 o3 m now payloadOf).out = .ok) :
    ∃ i4 rs4 rd4 i5 rs5 rd5 i6 st3,
      firstHandOver i3 o3 now = some (i4, rs4, rd4) ∧ secondHandOver i4 rs4 rd4 now = some (i5, rs5, rd5) ∧
      restartAfterCollect (rs5 == some .s_state_signing_partial_signs_collected) i5 now = some i6 ∧
      placeholders st2 m payloadOf = some st3 ∧
      (afterDo st2 i3 o3 m now payloadOf).st = saveFSM st3 m.round (i6.dumpState, i6.payload) := by
  unfold afterDo at h ⊢
  cases h1 : firstHandOver i3 o3 now with
  | none => simp [h1, rejectWith] at h
  | some x =>
    obtain ⟨i4, rs4, rd4⟩ := x
    simp only [h1] at h ⊢
    cases h2 : secondHandOver i4 rs4 rd4 now with
    | none => simp [h2, rejectWith] at h
    | some y =>
      obtain ⟨i5, rs5, rd5⟩ := y
      simp only [h2] at h ⊢
      unfold finish at h ⊢
      dsimp only at h ⊢
      cases hrc : reconstructStep (rs5 == some .s_state_signing_partial_signs_collected) m with
      | none => simp [hrc, rejectWith] at h
      | some sent =>
        simp only [hrc] at h ⊢
        cases h3 : restartAfterCollect (rs5 == some .s_state_signing_partial_signs_collected) i5 now with
        | none => simp [h3] at h
        | some i6 =>
          simp only [h3] at h ⊢
          cases hp : placeholders st2 m payloadOf with
          | none => simp [hp] at h
          | some st3 =>
            simp only [hp]
            exact ⟨i4, rs4, rd4, i5, rs5, rd5, i6, st3, rfl, h2, h3, rfl, rfl⟩

/-- a restart does not read the clock -/
theorem restart_indep (i : Instance) (n1 n2 : Time) :
    (doOrReject i .e_event_signing_restart (.default n1)).map (·.1) = (doOrReject i .e_event_signing_restart (.default n2)).map (·.1) := by
  rcases C18Node.restart_only_sign i.machine i.state with ⟨hm, hs⟩ | hnone
  · have g1 := C06.restart_goes_idle i.state hs i.payload (.default n1)
    have g2 := C06.restart_goes_idle i.state hs i.payload (.default n2)
    have r1 : (i.doEv .e_event_signing_restart (.default n1)).2.res = .ok := by
      show (doEvent (machineOf i.machine) runAction i.state i.payload _ _).res = .ok
      rw [hm]; exact g1.2.1
    have r2 : (i.doEv .e_event_signing_restart (.default n2)).2.res = .ok := by
      show (doEvent (machineOf i.machine) runAction i.state i.payload _ _).res = .ok
      rw [hm]; exact g2.2.1
    have d1 := C19.ok_dump_state i _ _ r1
    have d2 := C19.ok_dump_state i _ _ r2
    have s1 : (i.doEv .e_event_signing_restart (.default n1)).1.state = sIDLE := by
      unfold Instance.doEv; simp only [hm]; exact g1.1
    have s2 : (i.doEv .e_event_signing_restart (.default n2)).1.state = sIDLE := by
      unfold Instance.doEv; simp only [hm]; exact g2.1
    have p1 : (i.doEv .e_event_signing_restart (.default n1)).1.payload = i.payload := by
      unfold Instance.doEv; simp only [hm]; exact g1.2.2
    have p2 : (i.doEv .e_event_signing_restart (.default n2)).1.payload = i.payload := by
      unfold Instance.doEv; simp only [hm]; exact g2.2.2
    unfold doOrReject
    simp only [r1, r2, beq_self_eq_true, ↓reduceIte, Option.map_some, Option.some.injEq]
    have m1 : (i.doEv .e_event_signing_restart (.default n1)).1.machine = i.machine := rfl
    have m2 : (i.doEv .e_event_signing_restart (.default n2)).1.machine = i.machine := rfl
    cases h1 : (i.doEv .e_event_signing_restart (.default n1)).1
    cases h2 : (i.doEv .e_event_signing_restart (.default n2)).1
    rw [h1] at d1 s1 p1 m1
    rw [h2] at d2 s2 p2 m2
    simp only at d1 s1 p1 m1 d2 s2 p2 m2
    simp only [Instance.mk.injEq]
    exact ⟨m1.trans m2.symm, s1.trans s2.symm, by rw [d1, d2, s1, s2], p1.trans p2.symm⟩
  · have e : ∀ n, doOrReject i .e_event_signing_restart (.default n) = none := by
      intro n
      unfold doOrReject
      have : (i.doEv .e_event_signing_restart (.default n)).2.res = .err := by
        show (doEvent (machineOf i.machine) runAction i.state i.payload _ _).res = .err
        unfold doEvent; rw [hnone]
      simp [this]
    rw [e n1, e n2]

theorem restartSigning_indep (st : NodeSt) (i : Instance) (round : String) (n1 n2 : Time) :
    restartSigning st i round n1 = restartSigning st i round n2 := by
  have h := restart_indep i n1 n2
  unfold restartSigning
  cases h1 : doOrReject i .e_event_signing_restart (.default n1) with
  | none =>
    cases h2 : doOrReject i .e_event_signing_restart (.default n2) with
    | none => rfl
    | some y => rw [h1, h2] at h; simp at h
  | some x =>
    cases h2 : doOrReject i .e_event_signing_restart (.default n2) with
    | none => rw [h1, h2] at h; simp at h
    | some y =>
      rw [h1, h2] at h
      simp only [Option.map_some, Option.some.injEq] at h
      obtain ⟨a, b⟩ := x
      obtain ⟨c, d⟩ := y
      simp only at h
      simp [h]

/-- the preliminary steps do not read the clock -/
theorem preSteps_indep (st : NodeSt) (i : Instance) (m : NMsg) (n1 n2 : Time) : preSteps st i m n1 = preSteps st i m n2 := by
  have s1 : ∀ st i, step1 st i m n1 = step1 st i m n2 := by
    intro st i; unfold step1; rw [restartSigning_indep st i m.round n1 n2]
  have s2 : ∀ st i, step2 st i m n1 = step2 st i m n2 := by
    intro st i; unfold step2; rw [restartSigning_indep st i m.round n1 n2]
  unfold preSteps
  rw [s1]
  split
  · rfl
  · cases step1 st i m n2 with
    | none => rfl
    | some x =>
      obtain ⟨a, b⟩ := x
      simp only [s2]

/-- the protocol events other than the start of a batch: handled again, they are rejected or swallowed -/
theorem handleEvent_reapply (payloadOf : Tasks.Msg → Bytes) (st : NodeSt) (inst : Instance) (m : NMsg) (now1 : Time)
    (hg : getInstance st m.round = some (st, inst)) (hv : (if m.event == "event_sig_proposal_init" then Outcome.ok else verifyMessage st inst m) = .ok)
    (h1 : (m.event == "signature_reconstructed") = false) (h2 : (m.event == "signature_reconstruction_failed") = false)
    (hns : ∀ ev, Ev.all.find? (fun e => e.name == m.event) = some ev → ev ≠ eStart)
    (hok : (handleEvent st inst m now1 payloadOf).out = .ok) (now2 : Time) :
    AgainAt payloadOf (handleEvent st inst m now1 payloadOf).st m (handleEvent st inst m now1 payloadOf).op now2 := by
  have hst := C18.preSteps_st st inst m now1
  unfold handleEvent at hok ⊢
  cases hp : preSteps st inst m now1 with
  | swallow s =>
    rw [hp] at hst
    have : s = st := hst
    subst this
    -- swallowed again: the preliminary steps do not depend on the clock
    simp only
    unfold AgainAt processMessage
    simp only [hg, hv, h1, h2, Bool.false_eq_true, ↓reduceIte]
    unfold handleEvent
    rw [preSteps_indep s inst m now2 now1, hp]
    exact ⟨by simp, fun _ => ⟨rfl, Or.inl rfl⟩⟩
  | fail s => simp [hp, rejectWith] at hok
  | cont s inst2 =>
    rw [hp] at hst
    have : s = st := hst
    subst this
    simp only [hp] at hok ⊢
    unfold dispatch at hok ⊢
    cases hf : Ev.all.find? (fun e => e.name == m.event) with
    | none => simp [hf, rejectWith] at hok
    | some ev =>
      simp only [hf] at hok ⊢
      split at hok
      · simp [rejectWith] at hok
      · rename_i hreq
        simp only [hreq, Bool.false_eq_true, ↓reduceIte]
        split at hok
        · simp [rejectWith] at hok
        · rename_i hbound
          simp only [hbound, Bool.false_eq_true, ↓reduceIte]
          unfold applyEvent at hok ⊢
          split at hok
          · cases hok
          · rename_i hnp
            simp only [hnp, Bool.false_eq_true, ↓reduceIte]
            cases hd : doOrReject inst2 ev (m.arg.getD .other) with
            | none => simp [hd, rejectWith] at hok
            | some x =>
              obtain ⟨i3, o3⟩ := x
              simp only [hd] at hok ⊢
              obtain ⟨hok3, hi3⟩ := C18Node.doOrReject_ok inst2 ev _ i3 o3 hd
              have ho3 : o3 = (inst2.doEv ev (m.arg.getD .other)).2 := by
                unfold doOrReject at hd
                have hb : ((inst2.doEv ev (m.arg.getD .other)).2.res == .ok) = true := by simp [hok3]
                simp only [hb, ↓reduceIte, Option.some.injEq] at hd
                rw [hd]
              obtain ⟨i4, rs4, rd4, i5, rs5, rd5, i6, st3, f1, f2, f3, f4, f5⟩ := afterDo_ok_inv s i3 o3 m now1 payloadOf hok
              rw [f5]
              refine second_handling payloadOf _ m _ now2 i6.dumpState i6.payload ?_ h1 h2 ?_
              · simp only [saveFSM]
                exact Dc4bcVerif.Lemmas.NodeLocal.lookupS_assocSet_eq _ _ _
              · intro r hr st2' inst2' hpre
                apply dispatch_refused
                intro ev' hf'
                have hev : ev' = ev := by rw [hf] at hf'; exact (Option.some.inj hf').symm
                subst hev
                obtain ⟨_, hin⟩ := preSteps_cont _ r m now2 st2' inst2' hpre
                subst hi3; subst ho3
                exact refused_second_time inst2 ev' _ now1 hok3 (hns ev' hf) i4 i5 i6 rs4 rs5 rd4 rd5 f1 f2 f3 r hr inst2' hin

theorem getInstance_same_rounds (a b : NodeSt) (R : String) (h : b.rounds = a.rounds) (inst : Instance)
    (hg : getInstance a R = some (a, inst)) : getInstance b R = some (b, inst) := by
  unfold getInstance at hg ⊢
  rw [h]
  cases hl : lookupS a.rounds R with
  | some v =>
    obtain ⟨ds, p⟩ := v
    simp only [hl] at hg ⊢
    cases hr : Instance.restore ds p with
    | none => simp [hr] at hg
    | some i => simp only [hr, Option.map_some, Option.some.injEq, Prod.mk.injEq] at hg ⊢; exact ⟨trivial, hg.2⟩
  | none =>
    simp only [hl] at hg ⊢
    split at hg
    · cases hg
    · rename_i hb
      simp only [hb, Bool.false_eq_true, ↓reduceIte, Option.some.injEq, Prod.mk.injEq] at hg ⊢
      exact ⟨trivial, hg.2⟩

theorem saveSignatures_skip (st st' : NodeSt) (l : List RSig) (h : saveSignatures st l = some st') : st'.skipVerify = st.skipVerify := by
  unfold saveSignatures at h
  cases l with
  | nil => cases h
  | cons a t => simp only [Option.some.injEq] at h; rw [← h]

/-- the frame of `processMessage` around `handleEvent`: reconstructed signatures (saved again: the store is as before),
failure reports (nothing stored), and the protocol events (`hH`) -/
theorem node_reapply_of (payloadOf : Tasks.Msg → Bytes) (st : NodeSt) (m : NMsg) (now1 now2 : Time)
    (hH : ∀ st1 inst, getInstance st1 m.round = some (st1, inst) →
      (if m.event == "event_sig_proposal_init" then Outcome.ok else verifyMessage st1 inst m) = .ok →
      (m.event == "signature_reconstructed") = false → (m.event == "signature_reconstruction_failed") = false →
      (handleEvent st1 inst m now1 payloadOf).out = .ok →
      AgainAt payloadOf (handleEvent st1 inst m now1 payloadOf).st m (handleEvent st1 inst m now1 payloadOf).op now2)
    (hok : (processMessage st m now1 payloadOf).out = .ok) :
    AgainAt payloadOf (processMessage st m now1 payloadOf).st m (processMessage st m now1 payloadOf).op now2 := by
  cases hg : getInstance st m.round with
  | none => unfold processMessage at hok; simp [hg, rejectWith] at hok
  | some pr =>
    obtain ⟨st1, inst⟩ := pr
    have e1 := C18.getInstance_st _ _ _ _ hg
    subst e1
    cases hv : (if m.event == "event_sig_proposal_init" then Outcome.ok else verifyMessage st1 inst m) with
    | panic => unfold processMessage at hok; simp only [hg, hv] at hok; cases hok
    | reject => unfold processMessage at hok; simp only [hg, hv, rejectWith] at hok; cases hok
    | ok =>
      by_cases h1 : (m.event == "signature_reconstructed") = true
      · -- reconstructed signatures: saved again, the store is as before
        cases hs : m.sigs with
        | none => unfold processMessage at hok; simp only [hg, hv, h1, ↓reduceIte, hs, rejectWith] at hok; cases hok
        | some l =>
          cases hsv : saveSignatures st1 (l.map (fun x => { x with username := m.sender, round := m.round })) with
          | none => unfold processMessage at hok; simp only [hg, hv, h1, ↓reduceIte, hs, hsv, rejectWith] at hok; cases hok
          | some st2 =>
            have hres : processMessage st1 m now1 payloadOf = { st := st2, out := .ok } := by
              unfold processMessage; simp only [hg, hv, h1, ↓reduceIte, hs, hsv]
            rw [hres]
            have hrounds := C18Node.saveSignatures_rounds _ _ _ hsv
            have hskip := saveSignatures_skip _ _ _ hsv
            have hidem := saveSignatures_idem _ _ _ hsv
            have hv2 : (if m.event == "event_sig_proposal_init" then Outcome.ok else verifyMessage st2 inst m) = .ok := by
              have : verifyMessage st2 inst m = verifyMessage st1 inst m := by unfold verifyMessage; rw [hskip]
              rw [this]; exact hv
            have hres2 : processMessage st2 m now2 payloadOf = { st := st2, out := .ok } := by
              unfold processMessage
              simp only [getInstance_same_rounds st1 st2 m.round hrounds inst hg, hv2, h1, ↓reduceIte, hs, hidem]
            unfold AgainAt
            rw [hres2]
            exact ⟨by simp, fun _ => ⟨rfl, Or.inl rfl⟩⟩
      · have h1' : (m.event == "signature_reconstructed") = false := by simpa using h1
        by_cases h2 : (m.event == "signature_reconstruction_failed") = true
        · -- a failure report: nothing is stored
          have hs1 : ∀ now, processMessage st1 m now payloadOf = processMessage st1 m now1 payloadOf := by
            intro now; unfold processMessage; simp only [hg, hv, h1', h2, Bool.false_eq_true, ↓reduceIte]
          have hfacts : (processMessage st1 m now1 payloadOf).st = st1 ∧ (processMessage st1 m now1 payloadOf).op = none := by
            unfold processMessage; simp only [hg, hv, h1', h2, Bool.false_eq_true, ↓reduceIte]
            split <;> simp [rejectWith]
          unfold AgainAt
          rw [hfacts.1, hs1 now2]
          exact ⟨by rw [hok]; simp, fun _ => ⟨hfacts.1, Or.inl hfacts.2⟩⟩
        · have h2' : (m.event == "signature_reconstruction_failed") = false := by simpa using h2
          have hshape : processMessage st1 m now1 payloadOf = handleEvent st1 inst m now1 payloadOf := by
            unfold processMessage; simp only [hg, hv, h1', h2', Bool.false_eq_true, ↓reduceIte]
          rw [hshape] at hok ⊢
          exact hH st1 inst hg hv h1' h2' hok

end Dc4bcVerif.Props.C13Node
