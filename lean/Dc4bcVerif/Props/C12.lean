/-
  C12 — an airgapped machine restarted mid-ceremony and replayed continues identically.

  Over `Model/Air.lean`, for EVERY deterministic handler `H` whose unlogged (signing) operations leave the
  DKG instance alone:
  * `consistent_run`: after any sequence of operations the volatile instance is exactly what replaying the
    durable log rebuilds;
  * `restart_is_identity`: hence stopping the machine after any step, reopening it and replaying the log
    gives back the very same machine, and `carries_on`: every later result and the final state are those
    of a machine that never stopped — for any number of restarts (`carries_on_many`);
  * `dies_before_log`: a kill after the result was computed but before it was logged loses exactly that
    operation: after the restart the machine is the one before it, and feeding the operation again gives
    the result a machine that never stopped gives;
  * `replayed_result`: a kill after logging but before the result file was written: the replay itself
    re-produces the lost result (its last result is the original one);
  * `same_seed_same_machine`: two machines fed the same operations are equal (the handler is a function of
    the seed-derived state: there is no other input).
  Assumed (trusted base): the handlers are deterministic up to encoding (map iteration order of deals /
  responses, ECIES randomness) and signing requests do not modify the DKG instance — both checked on real
  machines by airdiff, which stops real machines at every such point.
-/
import Dc4bcVerif.Model.Air

namespace Dc4bcVerif.Props.C12
open Dc4bcVerif.Model.Air

variable {V Op R : Type}

/-- the volatile instance is what the log rebuilds -/
def Consistent (h : H V Op R) (m : Machine V Op) : Prop := m.inst = replayState h m.log

/-- signing requests (not logged) do not touch the DKG instance -/
def UnloggedPure (h : H V Op R) (logged : Op → Bool) : Prop := ∀ v op, logged op = false → (h v op).1 = v

theorem fresh_consistent (h : H V Op R) : Consistent h (fresh : Machine V Op) := rfl

theorem replayState_append (h : H V Op R) (l : List Op) (op : Op) :
    replayState h (l ++ [op]) = (h (replayState h l) op).1 := by
  unfold replayState; rw [List.foldl_append]; rfl

theorem process_consistent (h : H V Op R) (logged : Op → Bool) (hp : UnloggedPure h logged) (m : Machine V Op) (op : Op)
    (hc : Consistent h m) : Consistent h (processOp h logged m op).1 := by
  unfold Consistent processOp at *
  by_cases hl : logged op = true
  · simp only [hl, ↓reduceIte]
    rw [replayState_append, ← hc]
  · have hl' : logged op = false := by simpa using hl
    simp only [hl', Bool.false_eq_true, ↓reduceIte]
    rw [hp m.inst op hl']; exact hc

theorem consistent_run (h : H V Op R) (logged : Op → Bool) (hp : UnloggedPure h logged) (ops : List Op) (m : Machine V Op)
    (hc : Consistent h m) : Consistent h (runOps h logged m ops).1 := by
  induction ops generalizing m with
  | nil => exact hc
  | cons op rest ih =>
    unfold runOps
    exact ih _ (process_consistent h logged hp m op hc)

/-- **restart_is_identity.** Stop, reopen, replay: the same machine. -/
theorem restart_is_identity (h : H V Op R) (m : Machine V Op) (hc : Consistent h m) : restart h m = m := by
  unfold restart
  cases m with
  | mk inst log => simp only [Consistent] at hc; simp [hc]

/-- **carries_on.** A machine stopped after ANY sequence of operations, reopened and replayed produces, for every
continuation, exactly the results and the final state of the machine that never stopped. -/
theorem carries_on (h : H V Op R) (logged : Op → Bool) (hp : UnloggedPure h logged) (before after : List Op) :
    runOps h logged (restart h (runOps h logged fresh before).1) after = runOps h logged (runOps h logged fresh before).1 after := by
  rw [restart_is_identity h _ (consistent_run h logged hp before fresh (fresh_consistent h))]

/-- the same with a restart after every single operation -/
def runWithRestarts (h : H V Op R) (logged : Op → Bool) (m : Machine V Op) : List Op → Machine V Op × List R
  | [] => (m, [])
  | op :: rest =>
    let (m1, r) := processOp h logged m op
    let (m2, rs) := runWithRestarts h logged (restart h m1) rest
    (m2, r :: rs)

theorem carries_on_many (h : H V Op R) (logged : Op → Bool) (hp : UnloggedPure h logged) (ops : List Op) (m : Machine V Op)
    (hc : Consistent h m) : runWithRestarts h logged m ops = runOps h logged m ops := by
  induction ops generalizing m with
  | nil => rfl
  | cons op rest ih =>
    unfold runWithRestarts runOps
    have hc1 := process_consistent h logged hp m op hc
    cases hpo : processOp h logged m op with
    | mk m1 r =>
      rw [hpo] at hc1
      simp only
      rw [restart_is_identity h m1 hc1, ih m1 hc1]

/-- **dies_before_log.** Killed after the handler ran, before the operation was logged: after the restart the machine
is the one before the operation — nothing half-done survives — so feeding the operation again behaves as if it was fed once. -/
theorem dies_before_log (h : H V Op R) (m : Machine V Op) (hc : Consistent h m) (op : Op) :
    restart h (diesBeforeLog h m op) = m := by
  unfold restart diesBeforeLog
  cases m with
  | mk inst log => simp only [Consistent] at hc; simp [hc]

theorem replayResults_append (h : H V Op R) (v : Option V) (l : List Op) (op : Op) :
    replayResults h v (l ++ [op]) = replayResults h v l ++ [(h (l.foldl (fun v op => (h v op).1) v) op).2] := by
  induction l generalizing v with
  | nil => rfl
  | cons x t ih => simp only [List.cons_append, replayResults, List.foldl_cons]; rw [ih]

/-- **replayed_result.** Killed after the operation was logged, before its result file was written: the replay writes
the results of all logged operations again, and the last one is the lost result. -/
theorem replayed_result (h : H V Op R) (logged : Op → Bool) (m : Machine V Op) (hc : Consistent h m) (op : Op) (hl : logged op = true) :
    (replayResults h none (processOp h logged m op).1.log).getLast? = some (processOp h logged m op).2 := by
  unfold processOp
  simp only [hl, ↓reduceIte]
  rw [replayResults_append]
  simp only [List.getLast?_append, List.getLast?_singleton, Option.some_or]
  unfold Consistent replayState at hc
  rw [← hc]

/-- **same_seed_same_machine.** There is no input but the operations: two machines started alike and fed the same
operations are equal, and so are their results. -/
theorem same_seed_same_machine (h : H V Op R) (logged : Op → Bool) (ops : List Op) (m1 m2 : Machine V Op) (he : m1 = m2) :
    runOps h logged m1 ops = runOps h logged m2 ops := by rw [he]

/-- non-vacuity: a counting handler whose unlogged operation `false` is pure -/
example : UnloggedPure (fun (v : Option Nat) (op : Bool) => (if op then some (v.getD 0 + 1) else v, v.getD 0)) (fun op => op) := by
  intro v op h; simp at h; simp [h]

end Dc4bcVerif.Props.C12
