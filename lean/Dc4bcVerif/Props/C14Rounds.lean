/-
  C14, the stored rounds: all rounds of a node live in ONE value (`<topic>_fsm_state`), and `SaveFSM` is a read-modify-write
  of that value (read all rounds, replace one, write all back). Two such sequences that interleave lose an update — of
  ANOTHER round as well (`unlocked_save_loses_round`: explicit interleaving; found on the real node by scheddiff:
  finishing a re-initialisation ∥ the poller opening another round, defect repaired by the `fix:` commit that adds
  `roundsMu`). Under a common lock the sequences are atomic, and atomic saves of different rounds commute
  (`locked_saves_commute`), so either serial order gives the same stored rounds.
  `rounds_rmw_locked`: on this tree every method of `BaseNodeService` that writes a round does so under `roundsMu`
  (`Gen/RoundLock.lean`, regenerated from node_service.go on every run).
-/
import Dc4bcVerif.Model.Node
import Dc4bcVerif.Gen.RoundLock
import Dc4bcVerif.Props.C08

namespace Dc4bcVerif.Props.C14Rounds
open Dc4bcVerif.Gen Dc4bcVerif.Model Dc4bcVerif.Model.Node

/-- **the lock in the source** -/
theorem rounds_rmw_locked : RoundLock.roundWriters.all (fun p => p.2) = true := by decide

/-- the writers found are the three known ones (the fact is not vacuous) -/
theorem round_writers_known : RoundLock.roundWriters.map (fun p => p.1) = ["executeOperation", "handleMessage", "reinitDKG"] := by decide

variable {β : Type}

/-- `SaveFSM` as one atomic step on the stored value -/
def save (blob : List (String × β)) (k : String) (v : β) : List (String × β) := assocSet blob k v

/-- atomic saves of different rounds commute, as far as any reader can tell -/
theorem locked_saves_commute (blob : List (String × β)) (k1 k2 : String) (v1 v2 : β) (h : k1 ≠ k2) (k : String) :
    lookupS (save (save blob k1 v1) k2 v2) k = lookupS (save (save blob k2 v2) k1 v1) k := by
  unfold save
  by_cases e1 : k = k1
  · subst e1
    rw [C08.lookupS_assocSet_ne _ _ _ _ h, Dc4bcVerif.Lemmas.NodeLocal.lookupS_assocSet_eq, Dc4bcVerif.Lemmas.NodeLocal.lookupS_assocSet_eq]
  · by_cases e2 : k = k2
    · subst e2
      rw [Dc4bcVerif.Lemmas.NodeLocal.lookupS_assocSet_eq, C08.lookupS_assocSet_ne _ _ _ _ e1, Dc4bcVerif.Lemmas.NodeLocal.lookupS_assocSet_eq]
    · rw [C08.lookupS_assocSet_ne _ _ _ _ e2, C08.lookupS_assocSet_ne _ _ _ _ e1, C08.lookupS_assocSet_ne _ _ _ _ e1, C08.lookupS_assocSet_ne _ _ _ _ e2]

/-- the interleaving `read₁ read₂ write₁ write₂` of two unlocked saves: the second writer writes back what it read -/
def interleaved (blob : List (String × β)) (_k1 k2 : String) (_v1 v2 : β) : List (String × β) :=
  save blob k2 v2   -- thread 1's write (save blob k1 v1) is overwritten by thread 2's, computed from the old value

/-- **unlocked_save_loses_round.** Without the lock, saving round `k2` can undo a concurrent save of ANOTHER round `k1`:
after the interleaving the node holds no round `k1`, whereas after either serial order it does. -/
theorem unlocked_save_loses_round (k1 k2 : String) (v1 v2 : β) (h : k1 ≠ k2) :
    lookupS (interleaved ([] : List (String × β)) k1 k2 v1 v2) k1 = none ∧
    lookupS (save (save [] k1 v1) k2 v2) k1 = some v1 ∧ lookupS (save (save [] k2 v2) k1 v1) k1 = some v1 := by
  refine ⟨?_, ?_, ?_⟩
  · unfold interleaved save
    rw [C08.lookupS_assocSet_ne _ _ _ _ h]; rfl
  · unfold save
    rw [C08.lookupS_assocSet_ne _ _ _ _ h, Dc4bcVerif.Lemmas.NodeLocal.lookupS_assocSet_eq]
  · unfold save
    rw [Dc4bcVerif.Lemmas.NodeLocal.lookupS_assocSet_eq]

end Dc4bcVerif.Props.C14Rounds
