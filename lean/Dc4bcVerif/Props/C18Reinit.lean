/-
  C18, the re-initialisation handler: replaying a dump never ends in the model's stand-in for a Go panic, and leaves
  every stored round satisfying the round invariants — so `node_never_panics_run` extends to logs that contain
  `reinit_dkg` messages (`node_never_panics_run_reinit`).
-/
import Dc4bcVerif.Props.C18Node
import Dc4bcVerif.Props.C20Node
import Dc4bcVerif.Props.C13Node

set_option linter.unusedSimpArgs false
set_option linter.unusedVariables false

namespace Dc4bcVerif.Props.C18Reinit
open Dc4bcVerif.Gen Dc4bcVerif.Model Dc4bcVerif.Model.Node Dc4bcVerif.Props Dc4bcVerif.Props.C18Node Dc4bcVerif.Props.C18Fsm

/-- the round invariants speak of the three parts of the payload only -/
theorem phaseInv_parts (s : St) (p p' : Payload) (h1 : p'.sig = p.sig) (h2 : p'.dkg = p.dkg) (h3 : p'.sign = p.sign)
    (h : phaseInv s p) : phaseInv s p' := by
  cases s <;> simp only [phaseInv] at h ⊢
  all_goals first
    | trivial
    | (rw [h2]; exact h)
    | (obtain ⟨x, hx⟩ := h; exact ⟨x, ⟨by rw [h1]; exact hx.hsig, by rw [h2]; exact hx.hdkg, hx.hall, hx.hopen⟩⟩)
    | (obtain ⟨x, hx⟩ := h; exact ⟨x, ⟨by rw [h2]; exact hx.hdkg, hx.hall, hx.hopen⟩⟩)
    | (obtain ⟨x, hx⟩ := h; exact ⟨x, ⟨by rw [h2]; exact hx.hdkg, hx.hall, hx.hopen, hx.hkeys⟩⟩)
    | (obtain ⟨hd, x, hx⟩ := h; exact ⟨by rw [h2]; exact hd, x, by rw [h1]; exact hx.1, hx.2⟩)
    | (unfold FinalInv at h ⊢; obtain ⟨dc, hd, hr⟩ := h; exact ⟨dc, by rw [h2]; exact hd, hr⟩)

theorem good_pubKeys (i : Instance) (keys : List (String × Bytes)) (h : Good i) :
    Good { i with payload := { i.payload with pubKeys := keys } } := by
  obtain ⟨⟨hc, hph⟩, hp1, hp2, hp3⟩ := h
  exact ⟨⟨hc, phaseInv_parts i.state i.payload { i.payload with pubKeys := keys } rfl rfl rfl hph⟩, hp1, hp2, hp3⟩

theorem getInstance_dump (st st' : NodeSt) (R : String) (inst : Instance) (h : getInstance st R = some (st', inst)) :
    inst.dumpState = some inst.state := by
  unfold getInstance at h
  cases hl : lookupS st.rounds R with
  | some v =>
    obtain ⟨ds, p⟩ := v
    simp only [hl] at h
    cases ds with
    | none => simp [Instance.restore] at h
    | some s =>
      cases hr : Instance.restore (some s) p with
      | none => simp [hr] at h
      | some i =>
        simp only [hr, Option.map_some, Option.some.injEq, Prod.mk.injEq] at h
        obtain ⟨a, _, c, _⟩ := C13Node.restore_some s p i hr
        rw [← h.2, c, a]
  | none =>
    simp only [hl] at h
    split at h
    · cases h
    · simp only [Option.some.injEq, Prod.mk.injEq] at h
      rw [← h.2]; rfl

theorem nodeOK_skip (st : NodeSt) (b : Bool) (h : NodeOK st) : NodeOK { st with skipVerify := b } := h

/-- one replayed message: no panic, and the stored rounds stay good -/
theorem reinitStep_safe (skip0 : Bool) (now : Time) (payloadOf : Tasks.Msg → Bytes) (acc : NodeSt × List NOp) (im : InnerMsg)
    (h : NodeOK acc.1) :
    (processMessage { acc.1 with skipVerify := skip0 || im.patch } im.msg now payloadOf).out ≠ .panic ∧
    NodeOK (reinitStep skip0 now payloadOf acc im).1 := by
  have hok : NodeOK { acc.1 with skipVerify := skip0 || im.patch } := h
  refine ⟨node_never_panics _ hok im.msg now payloadOf, ?_⟩
  unfold reinitStep
  -- `processMessage` (without the operation write) keeps the rounds good
  rcases processMessage_roundsOK _ hok im.msg now payloadOf with hr | ⟨i6, h6, hr⟩
  · intro r ds p i hl hres
    simp only at hl
    rw [hr] at hl
    exact h r ds p i hl hres
  · intro r ds p i hl hres
    simp only at hl
    rw [hr] at hl
    by_cases hrr : r = im.msg.round
    · subst hrr
      rw [Dc4bcVerif.Lemmas.NodeLocal.lookupS_assocSet_eq] at hl
      simp only [Option.some.injEq, Prod.mk.injEq] at hl
      rw [← hl.1, ← hl.2] at hres
      exact fromGood_restore i6 h6 i hres
    · rw [C08.lookupS_assocSet_ne _ _ _ _ hrr] at hl
      exact h r ds p i hl hres

/-- every step of the replay loop is safe -/
theorem reinit_loop_safe (skip0 : Bool) (now : Time) (payloadOf : Tasks.Msg → Bytes) (l : List InnerMsg) (acc : NodeSt × List NOp)
    (h : NodeOK acc.1) :
    NodeOK (l.foldl (reinitStep skip0 now payloadOf) acc).1 ∧
    ∀ pre im post, l = pre ++ im :: post →
      (processMessage { (pre.foldl (reinitStep skip0 now payloadOf) acc).1 with skipVerify := skip0 || im.patch } im.msg now payloadOf).out ≠ .panic := by
  induction l generalizing acc with
  | nil => exact ⟨h, fun pre im post e => by cases pre <;> simp at e⟩
  | cons x t ih =>
    obtain ⟨hx1, hx2⟩ := reinitStep_safe skip0 now payloadOf acc x h
    obtain ⟨ih1, ih2⟩ := ih (reinitStep skip0 now payloadOf acc x) hx2
    refine ⟨ih1, ?_⟩
    intro pre im post e
    cases pre with
    | nil =>
      simp only [List.nil_append, List.cons.injEq] at e
      rw [← e.1]; exact hx1
    | cons y pre' =>
      simp only [List.cons_append, List.cons.injEq] at e
      rw [← e.1]
      exact ih2 pre' im post e.2

/-- **the re-initialisation keeps every stored round good** -/
theorem nodeOK_reinit (st : NodeSt) (h : NodeOK st) (req : ReinitReq) (now : Time) (payloadOf : Tasks.Msg → Bytes) :
    NodeOK (reinitDKG st req now payloadOf).st := by
  unfold reinitDKG
  split
  · exact h
  split
  · exact h
  · unfold reinitLoop
    have hl := (reinit_loop_safe st.skipVerify now payloadOf ((beforeSigning req.inner).filter (replayed st.self req.dkgId)) (st, []) h).1
    generalize ((beforeSigning req.inner).filter (replayed st.self req.dkgId)).foldl (reinitStep st.skipVerify now payloadOf) (st, []) = res at hl
    obtain ⟨st1, ops⟩ := res
    simp only at hl ⊢
    cases hp : putOperation st1 ⟨"reinit_dkg", req.dkgId, .reinitOps (ops.map (·.type))⟩ with
    | none => exact hl
    | some st2 =>
      have hr2 : st2.rounds = st1.rounds := by
        unfold putOperation at hp
        split at hp
        · cases hp
        · simp only [Option.some.injEq] at hp; rw [← hp]
      have h2 : NodeOK st2 := by
        intro r ds p i hlk hres; rw [hr2] at hlk; exact hl r ds p i hlk hres
      simp only
      cases hg : getInstance st2 req.dkgId with
      | none => exact h2
      | some x =>
        obtain ⟨st3, inst⟩ := x
        simp only
        have hgood := good_getInstance st2 st3 req.dkgId inst h2 hg
        intro r ds p i hlk hres
        simp only [saveFSM] at hlk
        by_cases hrr : r = req.dkgId
        · subst hrr
          rw [Dc4bcVerif.Lemmas.NodeLocal.lookupS_assocSet_eq] at hlk
          simp only [Option.some.injEq, Prod.mk.injEq] at hlk
          rw [← hlk.1, ← hlk.2] at hres
          -- the stored dump restores to the instance with the new keys
          have hcons := hgood.1.1
          have hd := getInstance_dump _ _ _ _ hg
          rw [hd] at hres
          obtain ⟨a, b, c, d⟩ := C13Node.restore_some _ _ _ hres
          have hm : i.machine = inst.machine := by rw [hcons] at d; exact (Option.some.inj d).symm
          have hi : i = { inst with payload := { inst.payload with pubKeys := req.participants.foldl (fun acc nk => assocSet acc nk.1 nk.2) inst.payload.pubKeys } } := by
            cases i; cases inst
            simp only at a b c hm hd ⊢
            simp only [Instance.mk.injEq]
            exact ⟨hm, a, by rw [c, hd], b⟩
          rw [hi]
          exact good_pubKeys inst _ hgood
        · rw [C08.lookupS_assocSet_ne _ _ _ _ hrr] at hlk
          exact h2 r ds p i hlk hres

/-- what a node consumes: board messages, among them re-initialisation requests -/
inductive Item where
  | msg (m : NMsg) (now : Time)
  | reinit (req : ReinitReq) (now : Time)

def consumeItem (payloadOf : Tasks.Msg → Bytes) (st : NodeSt) : Item → NodeSt
  | .msg m now => (processMessageTop st m now payloadOf).st
  | .reinit req now => (reinitDKG st req now payloadOf).st

def consumeAll (payloadOf : Tasks.Msg → Bytes) (st : NodeSt) (items : List Item) : NodeSt := items.foldl (consumeItem payloadOf) st

theorem nodeOK_consumeAll (payloadOf : Tasks.Msg → Bytes) (st : NodeSt) (h : NodeOK st) (items : List Item) :
    NodeOK (consumeAll payloadOf st items) := by
  unfold consumeAll
  induction items generalizing st with
  | nil => exact h
  | cons x t ih =>
    simp only [List.foldl_cons]
    apply ih
    cases x with
    | msg m now => exact nodeOK_step st h m now payloadOf
    | reinit req now => exact nodeOK_reinit st h req now payloadOf

/-- **node_never_panics_run, re-initialisations included.** From an empty state database, after ANY sequence of board messages
and re-initialisation requests (any dumps: genuine, forged, of other rounds, with junk), handling a further message
does not panic, and neither does any step of a further re-initialisation. -/
theorem node_never_panics_run_reinit (self : String) (key : Bytes) (skip : Bool) (payloadOf : Tasks.Msg → Bytes) (items : List Item) :
    let st := consumeAll payloadOf { self := self, selfKey := key, skipVerify := skip } items
    (∀ m now, (processMessageTop st m now payloadOf).out ≠ .panic) ∧
    (∀ (req : ReinitReq) now pre im post,
      (beforeSigning req.inner).filter (replayed st.self req.dkgId) = pre ++ im :: post →
      (processMessage { (pre.foldl (reinitStep st.skipVerify now payloadOf) (st, [])).1 with skipVerify := st.skipVerify || im.patch }
        im.msg now payloadOf).out ≠ .panic) := by
  intro st
  have hok : NodeOK st := nodeOK_consumeAll payloadOf _ (nodeOK_empty self key skip) items
  exact ⟨fun m now => top_never_panics st hok m now payloadOf,
    fun req now pre im post e => (reinit_loop_safe st.skipVerify now payloadOf _ (st, []) hok).2 pre im post e⟩

end Dc4bcVerif.Props.C18Reinit
