/-
  C20 / C12, the airgapped side: Go's map order in the master-key step (`dkg.ProcessResponses` ranges over `indexToData`).

  The responses a machine examines change the verifiers' response tables, never the deals they hold; the key ring of the round is
  computed from the deals alone (`distKey`: sum of the shares received, sum of the commitments). Hence:
  * `processResponses_deals`            - after the step, in ANY range order, every verifier holds the deal it held before;
  * `distKey_processResponses`          - the key ring the step computes is the key ring of the deals before it;
  * `master_key_ring_order_irrelevant`  - two range orders that are both answered with an announcement: the same index, master key,
                                          public polynomial and the same stored key ring (polynomial and share).
  Whether the step IS answered may depend on the order only through which refusal comes first (not treated). Core-only.
-/
import Dc4bcVerif.Model.AirDkg
import Dc4bcVerif.Lemmas.AirDkgInv

namespace Dc4bcVerif.Props.C20AirMasterKey
set_option linter.unusedSectionVars false
open Dc4bcVerif.Model.Shamir Dc4bcVerif.Model.AirDkg Dc4bcVerif.Lemmas.AirDkgInv

variable {F : Type} [Add F] [Mul F] [Sub F] [Div F] [Zero F] [One F] [DecidableEq F] [NatCast F]
variable {K : Type} [DecidableEq K]

/-- the deals the verifiers of an instance hold, and what else the key ring and the answer read -/
def dealsOf (i : Inst F K) : List (Option (PlainDeal F)) := i.vers.map (·.deal)

theorem set_same_deal (l : List (Verifier F)) (k : Nat) (v v1 : Verifier F) (h : l[k]? = some v) (hd : v1.deal = v.deal) :
    (l.set k v1).map (·.deal) = l.map (·.deal) := by
  rw [List.map_set]
  obtain ⟨hk, hv⟩ := List.getElem?_eq_some_iff.mp h
  apply List.ext_getElem?
  intro j
  by_cases hj : j = k
  · subst hj
    rw [List.getElem?_set_self (by simpa using hk)]
    rw [List.getElem?_map, h, hd]; rfl
  · rw [List.getElem?_set_ne (fun e => hj e.symm)]

theorem verProcessResponse_deal (n : Nat) (v v1 : Verifier F) (r : RespMsg F) (h : verProcessResponse n v r = some v1) :
    v1.deal = v.deal := by
  unfold verProcessResponse at h
  split at h
  · cases h
  · split at h
    · cases h
    · split at h
      · cases h
      · split at h
        · cases h
        · split at h
          · cases h
          · simp only [Option.some.injEq] at h; subst h; rfl

/-- an approval examined: deals, own index, keys unchanged -/
theorem dkgProcessResponse_deals (i : Inst F K) (r : RespMsg F) (hs : r.status = true) :
    dealsOf (dkgProcessResponse i r).1 = dealsOf i ∧ (dkgProcessResponse i r).1.pid = i.pid ∧ (dkgProcessResponse i r).1.keys = i.keys := by
  unfold dkgProcessResponse
  simp only
  cases hv : i.vers[r.dealer]? with
  | none => exact ⟨rfl, rfl, rfl⟩
  | some v =>
    simp only
    cases hp : verProcessResponse i.keys.length v r with
    | none => exact ⟨rfl, rfl, rfl⟩
    | some v1 =>
      simp only
      have hd := verProcessResponse_deal _ v v1 r hp
      have hset : (i.vers.set r.dealer v1).map (·.deal) = i.vers.map (·.deal) := set_same_deal i.vers r.dealer v v1 hv hd
      split
      · exact ⟨hset, rfl, rfl⟩
      · split
        · exact ⟨hset, rfl, rfl⟩
        · split
          · exact ⟨hset, rfl, rfl⟩
          · split
            · exact ⟨hset, rfl, rfl⟩
            · exact ⟨hset, rfl, rfl⟩

theorem processRespList_deals (rs : List (RespMsg F)) : ∀ i : Inst F K,
    dealsOf (processRespList i rs).1 = dealsOf i ∧ (processRespList i rs).1.pid = i.pid ∧ (processRespList i rs).1.keys = i.keys := by
  induction rs with
  | nil => intro i; exact ⟨rfl, rfl, rfl⟩
  | cons r rest ih =>
    intro i
    unfold processRespList
    split
    · exact ih i
    · split
      · exact ⟨rfl, rfl, rfl⟩
      · rename_i hns
        have hs : r.status = true := by
          cases hr : r.status with
          | true => rfl
          | false => rw [hr] at hns; simp at hns
        obtain ⟨a, b, c⟩ := dkgProcessResponse_deals i r hs
        cases hq : dkgProcessResponse i r with
        | mk i' ok =>
          rw [hq] at a b c
          cases ok with
          | false => exact ⟨a, b, c⟩
          | true =>
            obtain ⟨a', b', c'⟩ := ih i'
            exact ⟨a'.trans a, b'.trans b, c'.trans c⟩

/-- **processResponses_deals.** -/
theorem processResponses_deals (ord : List Nat) : ∀ i : Inst F K,
    dealsOf (processResponses i ord).1 = dealsOf i ∧ (processResponses i ord).1.pid = i.pid := by
  induction ord with
  | nil => intro i; exact ⟨rfl, rfl⟩
  | cons k rest ih =>
    intro i
    unfold processResponses
    obtain ⟨a, b, _⟩ := processRespList_deals (storedOf i k) i
    cases hq : processRespList i (storedOf i k) with
    | mk i' ok =>
      rw [hq] at a b
      cases ok with
      | false => exact ⟨a, b⟩
      | true =>
        obtain ⟨a', b'⟩ := ih i'
        exact ⟨a'.trans a, b'.trans b⟩

/-- the key ring reads the deals only -/
theorem distKey_congr (i j : Inst F K) (h : dealsOf i = dealsOf j) : distKey i = distKey j := by
  have hf : ∀ x : Inst F K, x.vers.filterMap (·.deal) = (dealsOf x).filterMap id := by
    intro x; unfold dealsOf; rw [List.filterMap_map]; rfl
  have hl : ∀ x : Inst F K, x.vers.length = (dealsOf x).length := by
    intro x; unfold dealsOf; rw [List.length_map]
  unfold distKey
  simp only [hf, hl, h]

/-- **distKey_processResponses.** -/
theorem distKey_processResponses (i : Inst F K) (ord : List Nat) : distKey (processResponses i ord).1 = distKey i :=
  distKey_congr _ _ (processResponses_deals ord i).1

/-- what an answered master-key step answers and stores, in terms of the instance BEFORE the responses were examined -/
theorem masterKeyOp_answer (m : Machine F K) (round : String) (entries : List (String × Option (List (RespMsg F)))) (ord : List Nat)
    (m1 : Machine F K) (pid : Nat) (key : Option F) (poly : List F)
    (h : masterKeyOp m round entries ord = (m1, Res.masterKey pid key poly)) :
    ∃ i kr, lookup round m.insts = some i ∧ distKey (storeResponses i entries).1 = some kr ∧ pid = i.pid ∧
      key = kr.pubPoly.head? ∧ poly = kr.pubPoly ∧ lookup round m1.rings = some kr := by
  unfold masterKeyOp at h
  cases hl : lookup round m.insts with
  | none => simp [hl] at h
  | some i =>
    simp only [hl] at h
    have hpid : ∀ es (x : Inst F K), (storeResponses x es).1.pid = x.pid := by
      intro es
      induction es with
      | nil => intro x; rfl
      | cons e rest ih =>
        intro x
        obtain ⟨name, o⟩ := e
        cases o with
        | none => rfl
        | some rs => unfold storeResponses; exact ih _
    cases hq : storeResponses i entries with
    | mk i1 ok =>
      rw [hq] at h
      simp only at h
      cases ok with
      | false => simp at h
      | true =>
        simp only [Bool.not_true, Bool.false_eq_true, ↓reduceIte] at h
        have hd := distKey_processResponses i1 ord
        have hp := (processResponses_deals ord i1).2
        cases hq2 : processResponses i1 ord with
        | mk i2 ok2 =>
          rw [hq2] at h hd hp
          simp only at hd hp
          cases ok2 with
          | false => simp at h
          | true =>
            simp only at h
            cases hk : distKey i2 with
            | none => simp [hk] at h
            | some kr =>
              simp only [hk] at h
              split at h
              · simp at h
              · simp only [Prod.mk.injEq, Res.masterKey.injEq] at h
                obtain ⟨hm, h1, h2, h3⟩ := h
                refine ⟨i, kr, rfl, ?_, ?_, h2.symm, h3.symm, ?_⟩
                · rw [hq]; simp only; rw [← hd]; exact hk
                · rw [← h1, hp]; have := hpid entries i; rw [hq] at this; exact this
                · rw [← hm]; exact lookup_put_self _ _ _

/-- **master_key_ring_order_irrelevant.** -/
theorem master_key_ring_order_irrelevant (m : Machine F K) (round : String) (entries : List (String × Option (List (RespMsg F))))
    (o1 o2 : List Nat) (m1 m2 : Machine F K) (pid1 pid2 : Nat) (k1 k2 : Option F) (p1 p2 : List F)
    (h1 : masterKeyOp m round entries o1 = (m1, Res.masterKey pid1 k1 p1))
    (h2 : masterKeyOp m round entries o2 = (m2, Res.masterKey pid2 k2 p2)) :
    pid1 = pid2 ∧ k1 = k2 ∧ p1 = p2 ∧ lookup round m1.rings = lookup round m2.rings := by
  obtain ⟨i, kr, a1, a2, a3, a4, a5, a6⟩ := masterKeyOp_answer m round entries o1 m1 pid1 k1 p1 h1
  obtain ⟨j, kr', b1, b2, b3, b4, b5, b6⟩ := masterKeyOp_answer m round entries o2 m2 pid2 k2 p2 h2
  rw [a1] at b1; cases b1
  rw [a2] at b2; cases b2
  exact ⟨a3.trans b3.symm, a4.trans b4.symm, a5.trans b5.symm, a6.trans b6.symm⟩

end Dc4bcVerif.Props.C20AirMasterKey
