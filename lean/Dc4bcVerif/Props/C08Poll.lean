/-
  C08 — the reader's position. A node reads the log through its poll loop: every tick asks the storage for the lines from
  its saved position on, is handed those that are not on an ignore list, applies each and saves, after each, "the offset of
  this line plus one" as its new position. The log grows between ticks; ignore lists (a reset with `--messages`) make the
  storage leave lines out. Lines are identified here with their index in the file, which is the `offset` field the writer
  put into them (`Props/C16.lean`: `sends` assigns offset = number of lines before).

  For EVERY ignore predicate `kept`, every start position `p` and every sequence `ns` of file lengths seen by successive
  ticks (growing or not):
  * `polls_handed`: the lines handed to the node, over all ticks, are exactly the kept lines between `p` and the longest
    length seen, in file order;
  * `each_line_once`: strictly increasing — no line is handed twice (there is no restart and no reset in `polls`);
  * `nothing_kept_is_missed`, `ignored_never_handed`;
  * `position_after`: the saved position never passes the end of what was seen and nothing kept lies between it and that end.
  * `counting_reader_repeats`: the position must be derived from the LINE (its offset + 1). A reader that counts the lines it
    was handed (`pos + 1` per line) falls behind by one for every ignored line it passes and is handed lines again: the
    hypothesis-free counterexample is two ticks over a two-line file whose first line is ignored.

  Tie: `Gen/Effects.lean` (tick calls ProcessMessage then SaveOffset) and `Gen/MoreFacts.lean` `tickSaves` (the argument of that
  SaveOffset call is `message.Offset + 1`), regenerated on every run and fixed by `tick_saves_line_offset_plus_one`; nodediff drives
  real nodes through their own tick with ignore lists and reports a line handed twice (`C08 each_line_once`).
-/
import Dc4bcVerif.Gen.MoreFacts

namespace Dc4bcVerif.Props.C08Poll

/-- the kept lines with index in `[q, n)`, in order -/
def R (kept : Nat → Bool) (q n : Nat) : List Nat := (List.range' q (n - q)).filter kept

/-- one tick at position `q` when the file has `n` lines: (lines handed, position saved) -/
def tick (kept : Nat → Bool) (q n : Nat) : List Nat × Nat :=
  (R kept q n, match (R kept q n).getLast? with | some i => i + 1 | none => q)

/-- successive ticks; `ns`: the length of the file at each -/
def polls (kept : Nat → Bool) : Nat → List Nat → List Nat × Nat
  | q, [] => ([], q)
  | q, n :: ns => ((tick kept q n).1 ++ (polls kept (tick kept q n).2 ns).1, (polls kept (tick kept q n).2 ns).2)

def maxl : List Nat → Nat
  | [] => 0
  | n :: ns => max n (maxl ns)

variable (kept : Nat → Bool)

theorem mem_R (q n i : Nat) : i ∈ R kept q n ↔ q ≤ i ∧ i < n ∧ kept i = true := by
  simp only [R, List.mem_filter, List.mem_range'_1]
  constructor
  · rintro ⟨⟨h1, h2⟩, h3⟩; exact ⟨h1, by omega, h3⟩
  · rintro ⟨h1, h2, h3⟩; exact ⟨⟨h1, by omega⟩, h3⟩

theorem R_empty_of_le (q n : Nat) (h : n ≤ q) : R kept q n = [] := by
  simp [R, Nat.sub_eq_zero_of_le h]

theorem R_split (q m n : Nat) (h1 : q ≤ m) (h2 : m ≤ n) : R kept q n = R kept q m ++ R kept m n := by
  unfold R
  have e : n - q = (m - q) + (n - m) := by omega
  have e2 : q + (m - q) = m := by omega
  rw [e, ← List.range'_append_1, List.filter_append, e2]

theorem R_prefix_empty (q m n : Nat) (h : R kept q n = []) (hm : m ≤ n) : R kept q m = [] := by
  by_cases hq : q ≤ m
  · rw [R_split kept q m n hq hm] at h
    exact (List.append_eq_nil_iff.mp h).1
  · exact R_empty_of_le kept q m (by omega)

theorem R_suffix_empty (q m n : Nat) (h : R kept q n = []) (hq : q ≤ m) : R kept m n = [] := by
  by_cases hm : m ≤ n
  · rw [R_split kept q m n hq hm] at h
    exact (List.append_eq_nil_iff.mp h).2
  · exact R_empty_of_le kept m n (by omega)

/-- extending the end over a stretch without kept lines changes nothing -/
theorem R_max_of_empty (q n x : Nat) (h : R kept q n = []) : R kept q (max x n) = R kept q x := by
  by_cases hx : n ≤ x
  · rw [Nat.max_eq_left hx]
  · have hx' : x ≤ n := by omega
    rw [Nat.max_eq_right hx', h, R_prefix_empty kept q x n h hx']

theorem last_of_R (q n i : Nat) (h : (R kept q n).getLast? = some i) :
    q ≤ i ∧ i < n ∧ R kept q (i + 1) = R kept q n ∧ R kept (i + 1) n = [] := by
  have hmem : i ∈ R kept q n := List.mem_of_getLast? h
  obtain ⟨h1, h2, _⟩ := (mem_R kept q n i).mp hmem
  have hs := R_split kept q (i + 1) n (by omega) (by omega)
  have hempty : R kept (i + 1) n = [] := by
    rw [hs, List.getLast?_append] at h
    cases hl : (R kept (i + 1) n).getLast? with
    | none => exact List.getLast?_eq_none_iff.mp hl
    | some j =>
      rw [hl] at h
      simp only [Option.some_or, Option.some.injEq] at h
      have hj : j ∈ R kept (i + 1) n := List.mem_of_getLast? hl
      have := ((mem_R kept (i + 1) n j).mp hj).1
      omega
  refine ⟨h1, h2, ?_, hempty⟩
  rw [hs, hempty, List.append_nil]

/-- the invariant of the poll loop, for every start and every sequence of file lengths -/
theorem polls_spec (q : Nat) (ns : List Nat) :
    (polls kept q ns).1 = R kept q (max q (maxl ns)) ∧ q ≤ (polls kept q ns).2 ∧ R kept (polls kept q ns).2 (max q (maxl ns)) = [] := by
  induction ns generalizing q with
  | nil =>
    simp only [polls, maxl, Nat.max_zero]
    exact ⟨(R_empty_of_le kept q q (Nat.le_refl q)).symm, Nat.le_refl q, R_empty_of_le kept q q (Nat.le_refl q)⟩
  | cons n ns ih =>
    simp only [polls, maxl, tick]
    cases hl : (R kept q n).getLast? with
    | none =>
      have hnil : R kept q n = [] := List.getLast?_eq_none_iff.mp hl
      obtain ⟨ih1, ih2, ih3⟩ := ih q
      simp only [hnil, List.nil_append]
      have e : max q (max n (maxl ns)) = max (max q (maxl ns)) n := by omega
      refine ⟨?_, ih2, ?_⟩
      · rw [ih1, e, R_max_of_empty kept q n _ hnil]
      · rw [e]
        have : R kept (polls kept q ns).2 n = [] := R_suffix_empty kept q _ n hnil ih2
        rw [R_max_of_empty kept _ n _ this]; exact ih3
    | some i =>
      obtain ⟨h1, h2, h3, h4⟩ := last_of_R kept q n i hl
      obtain ⟨ih1, ih2, ih3⟩ := ih (i + 1)
      simp only
      have e : max q (max n (maxl ns)) = max (max (i + 1) (maxl ns)) n := by omega
      refine ⟨?_, by omega, ?_⟩
      · rw [ih1, e, R_split kept q (i + 1) (max (max (i + 1) (maxl ns)) n) (by omega) (by omega), h3,
          R_max_of_empty kept (i + 1) n _ h4]
      · rw [e]
        have : R kept (polls kept (i + 1) ns).2 n = [] := R_suffix_empty kept (i + 1) _ n h4 ih2
        rw [R_max_of_empty kept _ n _ this]; exact ih3

/-- **polls_handed.** What the node is handed over all ticks: the kept lines from its start position to the longest file it
saw, in file order. -/
theorem polls_handed (p : Nat) (ns : List Nat) : (polls kept p ns).1 = R kept p (max p (maxl ns)) := (polls_spec kept p ns).1

/-- **each_line_once.** -/
theorem each_line_once (p : Nat) (ns : List Nat) : ((polls kept p ns).1).Pairwise (· < ·) := by
  rw [polls_handed]
  exact List.Pairwise.filter _ List.pairwise_lt_range'

theorem nothing_kept_is_missed (p : Nat) (ns : List Nat) (i : Nat) (h1 : p ≤ i) (h2 : i < maxl ns) (hk : kept i = true) :
    i ∈ (polls kept p ns).1 := by
  rw [polls_handed]
  exact (mem_R kept _ _ i).mpr ⟨h1, by omega, hk⟩

theorem ignored_never_handed (p : Nat) (ns : List Nat) (i : Nat) (h : i ∈ (polls kept p ns).1) : kept i = true := by
  rw [polls_handed] at h
  exact ((mem_R kept _ _ i).mp h).2.2

/-- **position_after.** The saved position has not moved back, and no kept line lies between it and the end of what was seen. -/
theorem position_after (p : Nat) (ns : List Nat) :
    p ≤ (polls kept p ns).2 ∧ ∀ i, (polls kept p ns).2 ≤ i → i < max p (maxl ns) → kept i = false := by
  obtain ⟨_, h2, h3⟩ := polls_spec kept p ns
  refine ⟨h2, fun i hi hlt => ?_⟩
  cases hk : kept i with
  | false => rfl
  | true =>
    have : i ∈ R kept (polls kept p ns).2 (max p (maxl ns)) := (mem_R kept _ _ i).mpr ⟨hi, hlt, hk⟩
    rw [h3] at this
    exact absurd this (List.not_mem_nil)

/-! ### a reader that counts instead -/

/-- the tick that saves "position + number of lines handed" -/
def tickCount (kept : Nat → Bool) (q n : Nat) : List Nat × Nat := (R kept q n, q + (R kept q n).length)

def pollsCount (kept : Nat → Bool) : Nat → List Nat → List Nat × Nat
  | q, [] => ([], q)
  | q, n :: ns => ((tickCount kept q n).1 ++ (pollsCount kept (tickCount kept q n).2 ns).1, (pollsCount kept (tickCount kept q n).2 ns).2)

/-- **counting_reader_repeats.** Line 0 ignored, two ticks over the two-line file: line 1 is handed twice, and the reader's
position after the first tick is 1, not 2. -/
theorem counting_reader_repeats :
    (pollsCount (fun i => i != 0) 0 [2, 2]).1 = [1, 1] ∧ (tickCount (fun i => i != 0) 0 2).2 = 1
      ∧ (polls (fun i => i != 0) 0 [2, 2]) = ([1], 2) := by decide

/-- without ignored lines the two readers agree (why ordinary runs do not show the difference) -/
example : pollsCount (fun _ => true) 0 [2, 3, 3, 5] = polls (fun _ => true) 0 [2, 3, 3, 5] := by decide

/-- the source: what the tick saves after a line is that line's offset plus one -/
theorem tick_saves_line_offset_plus_one : Dc4bcVerif.Gen.MoreFacts.tickSaves = ["message.Offset + 1"] := by decide

end Dc4bcVerif.Props.C08Poll
